// msim.h - small concrete machine simulator over asmjit *node lists* (Builder/Compiler InstNodes with
// physical registers).  Used where generated code cannot be executed on the x86-64 host (x86-32, AArch64)
// and as a second, architecture-manual-based opinion on x86-64.  The simulator implements instruction
// SEMANTICS from the ISA manuals; it does not use asmjit's encoders, RW tables or emit helpers.
// Vocabulary: exactly the instructions that the prolog/epilog/argument-assignment helpers and the C05
// program generator can produce.  Anything else => `unsupported` is set (the case is *undecided*, never a
// violation).
#pragma once
#include <asmjit/core.h>
#include <asmjit/x86.h>
#include <asmjit/a64.h>
#include <cstring>
#include <string>
#include <unordered_map>
#include <map>
#include <vector>

namespace msim {
using namespace asmjit;

struct Machine {
  bool a64 = false, is64 = true;
  uint64_t gp[32] = {};          // x86: rax..r15 (id order of asmjit: 0 ax,1 cx,2 dx,3 bx,4 sp,5 bp,6 si,7 di,8..15); a64: x0..x30, [31]=sp
  uint8_t vec[32][64] = {};
  uint64_t kreg[8] = {};
  uint64_t mm[8] = {};
  // x86 flags / a64 NZCV
  bool zf = false, sf = false, cf = false, of = false, pf = false;
  std::unordered_map<uint64_t, uint8_t> mem;
  std::string fault;             // architectural fault (misaligned aligned-move, sp misaligned on a64, ...)
  std::string unsupported;       // instruction/operand outside the vocabulary
  bool encoder_reg_ids = false;  // model `movss/movsd mem, <gp-typed reg>` the way the non-validating assembler encodes it (XMM<id>)
  long ill_typed_scalar_moves = 0;
  bool uninit_read = false;      // a byte never written was read
  uint64_t uninit_addr = 0;
  bool returned = false;
  uint64_t ret_target = 0;
  long steps = 0;
  // external calls (C05): callee address -> handler
  std::function<void(Machine&, uint64_t target)> on_call;
  // memory access log of stores outside the private stack (C05)
  uint64_t addr_mask() const { return (a64 || is64) ? ~0ull : 0xFFFFFFFFull; }
  uint32_t regsize() const { return (a64 || is64) ? 8 : 4; }
  uint64_t& sp() { return a64 ? gp[31] : gp[4]; }

  uint8_t rd8(uint64_t a) { a &= addr_mask(); auto it = mem.find(a); if (it == mem.end()) { if (!uninit_read) { uninit_read = true; uninit_addr = a; } return 0xEE; } return it->second; }
  void wr8(uint64_t a, uint8_t v) { mem[a & addr_mask()] = v; }
  uint64_t rd(uint64_t a, unsigned n) { uint64_t v = 0; for (unsigned i = 0; i < n && i < 8; i++) v |= uint64_t(rd8(a + i)) << (8 * i); return v; }
  void wr(uint64_t a, uint64_t v, unsigned n) { for (unsigned i = 0; i < n && i < 8; i++) wr8(a + i, uint8_t(v >> (8 * i))); }
  void rdv(uint64_t a, uint8_t* dst, unsigned n) { for (unsigned i = 0; i < n; i++) dst[i] = rd8(a + i); }
  void wrv(uint64_t a, const uint8_t* src, unsigned n) { for (unsigned i = 0; i < n; i++) wr8(a + i, src[i]); }
  bool mapped(uint64_t a) const { return mem.find(a & ((a64 || is64) ? ~0ull : 0xFFFFFFFFull)) != mem.end(); }
};

static inline uint64_t mask_n(unsigned bytes) { return bytes >= 8 ? ~0ull : ((1ull << (8 * bytes)) - 1); }
static inline int64_t sext_n(uint64_t v, unsigned bytes) { if (bytes >= 8) return int64_t(v); uint64_t m = 1ull << (8 * bytes - 1); v &= mask_n(bytes); return int64_t((v ^ m) - m); }

// ---------------------------------------------------------------------------------------------------------
// x86
// ---------------------------------------------------------------------------------------------------------
struct X86 {
  Machine& m;
  explicit X86(Machine& mm) : m(mm) {}

  static unsigned reg_bytes(const Reg& r) {
    switch (r.reg_type()) {
      case RegType::kGp8Lo: case RegType::kGp8Hi: return 1; case RegType::kGp16: return 2; case RegType::kGp32: return 4; case RegType::kGp64: return 8;
      case RegType::kVec32: case RegType::kVec64: case RegType::kVec128: return 16; case RegType::kVec256: return 32; case RegType::kVec512: return 64; case RegType::kMask: return 8; case RegType::kX86_Mm: return 8;
      default: return 0;
    }
  }
  bool is_gp(const Operand_& o) const { return o.is_reg() && o.as<Reg>().reg_group() == RegGroup::kGp && o.as<Reg>().reg_type() >= RegType::kGp8Lo && o.as<Reg>().reg_type() <= RegType::kGp64; }
  // asmjit's helpers sometimes name an xmm register with a narrower vector type (kVec32/kVec64); the encoder only uses the id
  bool is_vec(const Operand_& o) const { return o.is_reg() && o.as<Reg>().reg_type() >= RegType::kVec32 && o.as<Reg>().reg_type() <= RegType::kVec512; }
  bool is_k(const Operand_& o) const { return o.is_reg() && o.as<Reg>().reg_type() == RegType::kMask; }
  bool is_mm(const Operand_& o) const { return o.is_reg() && o.as<Reg>().reg_type() == RegType::kX86_Mm; }

  uint64_t gp_read(const Reg& r) {
    uint32_t id = r.id();
    if (id >= 16 || (!m.is64 && id >= 8)) { m.unsupported = "gp id out of range"; return 0; }
    switch (r.reg_type()) {
      case RegType::kGp8Lo: return m.gp[id] & 0xFF;
      case RegType::kGp8Hi: return (m.gp[id & 3] >> 8) & 0xFF;
      case RegType::kGp16: return m.gp[id] & 0xFFFF;
      case RegType::kGp32: return m.gp[id] & 0xFFFFFFFFull;
      default: return m.gp[id];
    }
  }
  void gp_write(const Reg& r, uint64_t v) {
    uint32_t id = r.id();
    if (id >= 16 || (!m.is64 && id >= 8)) { m.unsupported = "gp id out of range"; return; }
    switch (r.reg_type()) {
      case RegType::kGp8Lo: m.gp[id] = (m.gp[id] & ~0xFFull) | (v & 0xFF); break;
      case RegType::kGp8Hi: m.gp[id & 3] = (m.gp[id & 3] & ~0xFF00ull) | ((v & 0xFF) << 8); break;
      case RegType::kGp16: m.gp[id] = (m.gp[id] & ~0xFFFFull) | (v & 0xFFFF); break;
      case RegType::kGp32: m.gp[id] = v & 0xFFFFFFFFull; break;      // zero-extends in 64-bit mode; upper half does not exist in 32-bit mode
      default: m.gp[id] = v; break;
    }
    if (!m.is64) m.gp[id] &= 0xFFFFFFFFull;
  }
  uint64_t ea(const x86::Mem& mem) {
    uint64_t a = uint64_t(int64_t(mem.offset()));
    if (mem.has_base_label() || mem.has_base() && !mem.has_base_reg()) { m.unsupported = "label/rip memory operand"; return 0; }
    if (mem.has_base_reg()) {
      if (mem.base_type() != RegType::kGp64 && mem.base_type() != RegType::kGp32) { m.unsupported = "memory base type"; return 0; }
      uint64_t b = m.gp[mem.base_id() & 15]; if (mem.base_type() == RegType::kGp32) b &= 0xFFFFFFFFull; a += b;
    }
    if (mem.has_index_reg()) {
      if (mem.index_type() != RegType::kGp64 && mem.index_type() != RegType::kGp32) { m.unsupported = "memory index type"; return 0; }
      uint64_t x = m.gp[mem.index_id() & 15]; if (mem.index_type() == RegType::kGp32) x &= 0xFFFFFFFFull; a += x << mem.shift();
    }
    if (mem.has_segment()) { m.unsupported = "segment override"; return 0; }
    if (mem.has_base_reg() && mem.base_type() == RegType::kGp32) a &= 0xFFFFFFFFull;
    return a & m.addr_mask();
  }
  // integer read of reg/mem/imm with given size
  uint64_t read_int(const Operand_& o, unsigned bytes) {
    if (o.is_imm()) return uint64_t(o.as<Imm>().value()) & mask_n(bytes);
    if (o.is_mem()) return m.rd(ea(o.as<x86::Mem>()), bytes);
    if (is_gp(o)) return gp_read(o.as<Reg>()) & mask_n(bytes);
    m.unsupported = "operand kind"; return 0;
  }
  void write_int(const Operand_& o, uint64_t v, unsigned bytes) {
    if (o.is_mem()) { m.wr(ea(o.as<x86::Mem>()), v, bytes); return; }
    if (is_gp(o)) { gp_write(o.as<Reg>(), v); return; }
    m.unsupported = "operand kind";
  }
  unsigned int_size(const Operand_& a, const Operand_& b) {
    if (is_gp(a)) return reg_bytes(a.as<Reg>());
    if (is_gp(b)) return reg_bytes(b.as<Reg>());
    if (a.is_mem() && a.as<x86::Mem>().size()) return a.as<x86::Mem>().size();
    if (b.is_mem() && b.as<x86::Mem>().size()) return b.as<x86::Mem>().size();
    m.unsupported = "ambiguous operand size"; return m.regsize();
  }
  void set_flags_logic(uint64_t r, unsigned bytes) { r &= mask_n(bytes); m.zf = r == 0; m.sf = (r >> (8 * bytes - 1)) & 1; m.cf = false; m.of = false; m.pf = !(__builtin_popcount(unsigned(r & 0xFF)) & 1); }
  void set_flags_add(uint64_t a, uint64_t b, uint64_t r, unsigned bytes, bool sub) {
    uint64_t mk = mask_n(bytes); a &= mk; b &= mk; r &= mk; unsigned sh = 8 * bytes - 1;
    m.zf = r == 0; m.sf = (r >> sh) & 1; m.pf = !(__builtin_popcount(unsigned(r & 0xFF)) & 1);
    if (!sub) { m.cf = r < a; m.of = (((a ^ r) & (b ^ r)) >> sh) & 1; }
    else { m.cf = a < b; m.of = (((a ^ b) & (a ^ r)) >> sh) & 1; }
  }
  bool cond(uint32_t cc) {   // x86 condition code number 0..15
    switch (cc) {
      case 0: return m.of; case 1: return !m.of; case 2: return m.cf; case 3: return !m.cf; case 4: return m.zf; case 5: return !m.zf;
      case 6: return m.cf || m.zf; case 7: return !m.cf && !m.zf; case 8: return m.sf; case 9: return !m.sf; case 10: return m.pf; case 11: return !m.pf;
      case 12: return m.sf != m.of; case 13: return m.sf == m.of; case 14: return m.zf || (m.sf != m.of); default: return !m.zf && (m.sf == m.of);
    }
  }
  void push(uint64_t v) { unsigned n = m.regsize(); m.sp() = (m.sp() - n) & m.addr_mask(); m.wr(m.sp(), v, n); }
  uint64_t pop() { unsigned n = m.regsize(); uint64_t v = m.rd(m.sp(), n); m.sp() = (m.sp() + n) & m.addr_mask(); return v; }

  void vec_zero_from(uint32_t id, unsigned from) { memset(m.vec[id] + from, 0, 64 - from); }

  // vector moves: full-width move family. vex => upper bits beyond the vector length are zeroed.
  void mov_vec(const Operand_& d, const Operand_& s, bool vex, bool aligned) {
    if (is_vec(d) && is_vec(s)) { unsigned n = reg_bytes(d.as<Reg>()); memmove(m.vec[d.as<Reg>().id() & 31], m.vec[s.as<Reg>().id() & 31], n); if (vex) vec_zero_from(d.as<Reg>().id() & 31, n); return; }
    if (is_vec(d) && s.is_mem()) { unsigned n = reg_bytes(d.as<Reg>()); uint64_t a = ea(s.as<x86::Mem>()); if (aligned && (a % n)) m.fault = "aligned vector load from misaligned address"; m.rdv(a, m.vec[d.as<Reg>().id() & 31], n); if (vex) vec_zero_from(d.as<Reg>().id() & 31, n); return; }
    if (d.is_mem() && is_vec(s)) { unsigned n = reg_bytes(s.as<Reg>()); uint64_t a = ea(d.as<x86::Mem>()); if (aligned && (a % n)) m.fault = "aligned vector store to misaligned address"; m.wrv(a, m.vec[s.as<Reg>().id() & 31], n); return; }
    m.unsupported = "vector move operands";
  }
  // scalar moves movd/movq/movss/movsd (n = 4 or 8)
  void mov_scalar(const InstNode* in, unsigned n, bool vex, bool fp) {
    const Operand_& d = in->op(0); const Operand_& s = in->op(in->op_count() - 1);
    if (fp && m.encoder_reg_ids && !is_mm(d) && !is_mm(s) && in->op_count() == 2 && ((is_gp(d) && s.is_mem()) || (d.is_mem() && is_gp(s)))) {
      // what a non-validating x86::Assembler encodes for `movss/movsd mem, <gp-typed reg>`: only the register id is used => XMM<id>
      m.ill_typed_scalar_moves++;
      uint32_t id = (is_gp(d) ? d.as<Reg>().id() : s.as<Reg>().id()) & 31;
      if (d.is_mem()) { uint64_t v = 0; memcpy(&v, m.vec[id], n); m.wr(ea(d.as<x86::Mem>()), v, n); }
      else { uint64_t v = m.rd(ea(s.as<x86::Mem>()), n); memset(m.vec[id], 0, vex ? 64 : 16); memcpy(m.vec[id], &v, n); }
      return;
    }
    if (fp && (is_gp(d) || is_gp(s) || is_mm(d) || is_mm(s))) { m.unsupported = "invalid operands for movss/movsd"; return; }
    if (in->op_count() == 3) {   // vmovss/vmovsd xmm1, xmm2, xmm3: low from src3, rest of 128 from src2
      if (!(is_vec(d) && is_vec(in->op(1)) && is_vec(s))) { m.unsupported = "3-operand scalar move"; return; }
      uint8_t tmp[16]; memcpy(tmp, m.vec[in->op(1).as<Reg>().id() & 31], 16); memcpy(tmp, m.vec[s.as<Reg>().id() & 31], n);
      memcpy(m.vec[d.as<Reg>().id() & 31], tmp, 16); vec_zero_from(d.as<Reg>().id() & 31, 16); return;
    }
    if (is_vec(d)) {
      uint32_t id = d.as<Reg>().id() & 31;
      if (is_vec(s)) {
        if (fp) { memcpy(m.vec[id], m.vec[s.as<Reg>().id() & 31], n); if (vex) vec_zero_from(id, 16); }          // movss/sd reg,reg merges
        else { uint8_t t[8]; memcpy(t, m.vec[s.as<Reg>().id() & 31], n); memset(m.vec[id], 0, vex ? 64 : 16); memcpy(m.vec[id], t, n); }  // movq xmm,xmm zero-extends
        return;
      }
      uint64_t v;
      if (s.is_mem()) v = m.rd(ea(s.as<x86::Mem>()), n); else if (is_gp(s)) v = gp_read(s.as<Reg>()) & mask_n(n); else if (is_mm(s)) v = m.mm[s.as<Reg>().id() & 7] & mask_n(n); else { m.unsupported = "scalar move source"; return; }
      memset(m.vec[id], 0, vex ? 64 : 16); memcpy(m.vec[id], &v, n); return;
    }
    uint64_t v;
    if (is_vec(s)) { v = 0; memcpy(&v, m.vec[s.as<Reg>().id() & 31], n); }
    else if (is_mm(s)) v = m.mm[s.as<Reg>().id() & 7] & mask_n(n);
    else if (is_gp(s)) v = gp_read(s.as<Reg>()) & mask_n(n);
    else if (s.is_mem()) v = m.rd(ea(s.as<x86::Mem>()), n);
    else { m.unsupported = "scalar move source"; return; }
    if (d.is_mem()) m.wr(ea(d.as<x86::Mem>()), v, n);
    else if (is_gp(d)) { if (n == 4) gp_write(Reg(x86::eax.signature(), d.as<Reg>().id()), v); else gp_write(d.as<Reg>(), v); }
    else if (is_mm(d)) m.mm[d.as<Reg>().id() & 7] = v;
    else m.unsupported = "scalar move destination";
  }

  // returns: 0 continue, 1 returned, 2 jump taken (label id in jump_label)
  uint32_t jump_label = 0;
  int step(const InstNode* in) {
    namespace I = x86::Inst;
    m.steps++;
    InstId id = in->inst_id();
    uint32_t n = uint32_t(in->op_count());
    static const Operand none_op; const Operand_& o0 = n > 0 ? (const Operand_&)in->op(0) : (const Operand_&)none_op; const Operand_& o1 = n > 1 ? (const Operand_&)in->op(1) : (const Operand_&)none_op;
    if (Support::test(in->options(), InstOptions::kX86_Lock | InstOptions::kX86_Rep | InstOptions::kX86_Repne)) { m.unsupported = "prefix option"; return 0; }
    switch (id) {
      case I::kIdNop: case I::kIdEndbr32: case I::kIdEndbr64: case I::kIdEmms: return 0;
      case I::kIdVzeroupper: for (int i = 0; i < (m.is64 ? 16 : 8); i++) vec_zero_from(i, 16); return 0;
      case I::kIdPush: push(read_int(o0, m.regsize())); return 0;
      case I::kIdPop: { uint64_t v = pop(); write_int(o0, v, m.regsize()); return 0; }
      case I::kIdRet: { m.ret_target = pop(); if (n == 1 && o0.is_imm()) m.sp() = (m.sp() + uint64_t(o0.as<Imm>().value())) & m.addr_mask(); m.returned = true; return 1; }
      case I::kIdMov: {
        if (n != 2) break;
        unsigned sz = int_size(o0, o1);
        uint64_t v = o1.is_imm() ? uint64_t(sext_n(uint64_t(o1.as<Imm>().value()), sz >= 4 && o1.as<Imm>().value() == int64_t(int32_t(o1.as<Imm>().value())) ? 8 : 8)) : read_int(o1, sz);
        write_int(o0, v & mask_n(sz), sz); return 0;
      }
      case I::kIdMovzx: { unsigned ss = o1.is_mem() ? o1.as<x86::Mem>().size() : reg_bytes(o1.as<Reg>()); if (!ss) { m.unsupported = "movzx source size"; return 0; } write_int(o0, read_int(o1, ss), reg_bytes(o0.as<Reg>())); return 0; }
      case I::kIdMovsx: case I::kIdMovsxd: { unsigned ss = o1.is_mem() ? o1.as<x86::Mem>().size() : reg_bytes(o1.as<Reg>()); if (id == I::kIdMovsxd && !ss) ss = 4; if (!ss) { m.unsupported = "movsx source size"; return 0; } unsigned ds = reg_bytes(o0.as<Reg>()); write_int(o0, uint64_t(sext_n(read_int(o1, ss), ss)) & mask_n(ds), ds); return 0; }
      case I::kIdLea: { if (!o1.is_mem()) break; uint64_t a = ea(o1.as<x86::Mem>()); unsigned ds = reg_bytes(o0.as<Reg>()); write_int(o0, a & mask_n(ds), ds); return 0; }
      case I::kIdXchg: { unsigned sz = int_size(o0, o1); uint64_t a = read_int(o0, sz), b = read_int(o1, sz); write_int(o0, b, sz); write_int(o1, a, sz); return 0; }
      case I::kIdAdd: case I::kIdSub: case I::kIdAnd: case I::kIdOr: case I::kIdXor: case I::kIdCmp: case I::kIdTest: {
        if (n != 2) break;
        unsigned sz = int_size(o0, o1);
        uint64_t a = read_int(o0, sz), b = o1.is_imm() ? uint64_t(o1.as<Imm>().value()) & mask_n(sz) : read_int(o1, sz), r;
        switch (id) {
          case I::kIdAdd: r = a + b; set_flags_add(a, b, r, sz, false); break;
          case I::kIdSub: case I::kIdCmp: r = a - b; set_flags_add(a, b, r, sz, true); break;
          case I::kIdAnd: case I::kIdTest: r = a & b; set_flags_logic(r, sz); break;
          case I::kIdOr: r = a | b; set_flags_logic(r, sz); break;
          default: r = a ^ b; set_flags_logic(r, sz); break;
        }
        if (id != I::kIdCmp && id != I::kIdTest) write_int(o0, r & mask_n(sz), sz);
        return 0;
      }
      case I::kIdInc: case I::kIdDec: { unsigned sz = int_size(o0, o0); uint64_t a = read_int(o0, sz); bool c = m.cf; uint64_t r = id == I::kIdInc ? a + 1 : a - 1; set_flags_add(a, 1, r, sz, id == I::kIdDec); m.cf = c; write_int(o0, r & mask_n(sz), sz); return 0; }
      case I::kIdNeg: { unsigned sz = int_size(o0, o0); uint64_t a = read_int(o0, sz); uint64_t r = 0 - a; set_flags_add(0, a, r, sz, true); write_int(o0, r & mask_n(sz), sz); return 0; }
      case I::kIdNot: { unsigned sz = int_size(o0, o0); write_int(o0, ~read_int(o0, sz) & mask_n(sz), sz); return 0; }
      case I::kIdShl: case I::kIdShr: case I::kIdSar: {
        unsigned sz = int_size(o0, o0); uint64_t a = read_int(o0, sz);
        uint64_t cnt = (o1.is_imm() ? uint64_t(o1.as<Imm>().value()) : gp_read(o1.as<Reg>())) & (sz == 8 ? 63 : 31);
        if (!cnt) return 0;
        uint64_t r = id == I::kIdShl ? a << cnt : id == I::kIdShr ? a >> cnt : uint64_t(sext_n(a, sz) >> cnt);
        set_flags_logic(r, sz); write_int(o0, r & mask_n(sz), sz); return 0;
      }
      case I::kIdImul: {
        if (n == 2) { unsigned sz = int_size(o0, o1); uint64_t r = uint64_t(sext_n(read_int(o0, sz), sz) * sext_n(read_int(o1, sz), sz)); write_int(o0, r & mask_n(sz), sz); return 0; }
        if (n == 3 && in->op(2).is_imm()) { unsigned sz = reg_bytes(o0.as<Reg>()); uint64_t r = uint64_t(sext_n(read_int(o1, sz), sz) * in->op(2).as<Imm>().value()); write_int(o0, r & mask_n(sz), sz); return 0; }
        if (n == 3 && is_gp(o0) && is_gp(o1)) {   // explicit form of the one-operand imul: hi:lo = lo * src (signed)   [added for C05]
          unsigned sz = reg_bytes(o1.as<Reg>()); if (sz < 2) break;
          __int128 r = (__int128)sext_n(read_int(o1, sz), sz) * sext_n(read_int(in->op(2), sz), sz);
          write_int(o1, uint64_t(r) & mask_n(sz), sz); write_int(o0, uint64_t((unsigned __int128)r >> (8 * sz)) & mask_n(sz), sz); return 0;
        }
        break;
      }
      // ---- added for C05 (x86-32 leg): rotates, widening multiply/divide, cmpxchg, bt ----
      case I::kIdRol: case I::kIdRor: {
        unsigned sz = int_size(o0, o0); unsigned bits = 8 * sz; uint64_t a = read_int(o0, sz);
        uint64_t cnt = (o1.is_imm() ? uint64_t(o1.as<Imm>().value()) : gp_read(o1.as<Reg>())) & (sz == 8 ? 63 : 31);
        cnt %= bits; if (!cnt) return 0;
        uint64_t r = id == I::kIdRol ? ((a << cnt) | (a >> (bits - cnt))) : ((a >> cnt) | (a << (bits - cnt)));
        r &= mask_n(sz); m.cf = id == I::kIdRol ? (r & 1) : ((r >> (bits - 1)) & 1); write_int(o0, r, sz); return 0;
      }
      case I::kIdCdq: case I::kIdCqo: case I::kIdCwd: {
        if (n != 2) break;
        unsigned sz = reg_bytes(o1.as<Reg>()); uint64_t a = read_int(o1, sz);
        write_int(o0, ((a >> (8 * sz - 1)) & 1) ? mask_n(sz) : 0, sz); return 0;
      }
      case I::kIdMul: {
        if (n != 3) break;
        unsigned sz = reg_bytes(o1.as<Reg>()); if (sz < 2) break;
        unsigned __int128 r = (unsigned __int128)read_int(o1, sz) * read_int(in->op(2), sz);
        uint64_t lo = uint64_t(r) & mask_n(sz), hi = uint64_t(r >> (8 * sz)) & mask_n(sz);
        write_int(o1, lo, sz); write_int(o0, hi, sz); m.cf = m.of = hi != 0; return 0;
      }
      case I::kIdIdiv: case I::kIdDiv: {
        if (n != 3) break;
        unsigned sz = reg_bytes(o1.as<Reg>()); if (sz < 4) break;
        uint64_t hi = read_int(o0, sz), lo = read_int(o1, sz), d = read_int(in->op(2), sz);
        if (!d) { m.fault = "#DE: division by zero"; return 0; }
        if (id == I::kIdIdiv) {
          __int128 dv = sz == 8 ? (__int128)(((unsigned __int128)hi << 64) | lo) : (__int128)int64_t((hi << 32) | lo);
          __int128 dd = sext_n(d, sz), q = dv / dd, r = dv % dd;
          if (q != (__int128)sext_n(uint64_t(q), sz)) { m.fault = "#DE: quotient overflow"; return 0; }
          write_int(o1, uint64_t(q) & mask_n(sz), sz); write_int(o0, uint64_t(r) & mask_n(sz), sz);
        } else {
          unsigned __int128 dv = sz == 8 ? (((unsigned __int128)hi << 64) | lo) : (unsigned __int128)((hi << 32) | lo);
          unsigned __int128 q = dv / d, r = dv % d;
          if (q > mask_n(sz)) { m.fault = "#DE: quotient overflow"; return 0; }
          write_int(o1, uint64_t(q), sz); write_int(o0, uint64_t(r), sz);
        }
        return 0;
      }
      case I::kIdCmpxchg: {
        if (n != 3) break;
        unsigned sz = int_size(o0, o1); uint64_t dst = read_int(o0, sz), acc = read_int(in->op(2), sz);
        set_flags_add(acc, dst, acc - dst, sz, true);
        if (acc == dst) write_int(o0, read_int(o1, sz), sz); else write_int(in->op(2), dst, sz);
        return 0;
      }
      case I::kIdBt: {
        if (n != 2) break;
        if (is_gp(o0)) { unsigned sz = reg_bytes(o0.as<Reg>()); uint64_t idx = (o1.is_imm() ? uint64_t(o1.as<Imm>().value()) : gp_read(o1.as<Reg>())) & (8 * sz - 1); m.cf = (gp_read(o0.as<Reg>()) >> idx) & 1; return 0; }
        if (o0.is_mem()) {
          unsigned sz = o0.as<x86::Mem>().size() ? o0.as<x86::Mem>().size() : (is_gp(o1) ? reg_bytes(o1.as<Reg>()) : 0); if (!sz) break;
          uint64_t a = ea(o0.as<x86::Mem>());
          if (o1.is_imm()) { uint64_t idx = uint64_t(o1.as<Imm>().value()) & (8 * sz - 1); m.cf = (m.rd(a, sz) >> idx) & 1; return 0; }
          int64_t idx = sext_n(gp_read(o1.as<Reg>()), sz);             // bit-string addressing: the offset is not taken modulo the operand size
          m.cf = (m.rd8(a + uint64_t(idx >> 3)) >> (idx & 7)) & 1; return 0;
        }
        break;
      }
      case I::kIdKmovb: case I::kIdKmovw: case I::kIdKmovd: case I::kIdKmovq: {
        unsigned sz = id == I::kIdKmovb ? 1 : id == I::kIdKmovw ? 2 : id == I::kIdKmovd ? 4 : 8;
        uint64_t v;
        if (is_k(o1)) v = m.kreg[o1.as<Reg>().id() & 7] & mask_n(sz); else if (o1.is_mem()) v = m.rd(ea(o1.as<x86::Mem>()), sz); else if (is_gp(o1)) v = gp_read(o1.as<Reg>()) & mask_n(sz); else break;
        if (is_k(o0)) m.kreg[o0.as<Reg>().id() & 7] = v; else if (o0.is_mem()) m.wr(ea(o0.as<x86::Mem>()), v, sz); else if (is_gp(o0)) gp_write(Reg(sz == 8 ? x86::rax.signature() : x86::eax.signature(), o0.as<Reg>().id()), v); else break;
        return 0;
      }
      case I::kIdMovd: mov_scalar(in, 4, false, false); return 0;
      case I::kIdVmovd: mov_scalar(in, 4, true, false); return 0;
      case I::kIdMovq: mov_scalar(in, 8, false, false); return 0;
      case I::kIdVmovq: mov_scalar(in, 8, true, false); return 0;
      case I::kIdMovss: mov_scalar(in, 4, false, true); return 0;
      case I::kIdVmovss: mov_scalar(in, 4, true, true); return 0;
      case I::kIdMovsd: mov_scalar(in, 8, false, true); return 0;
      case I::kIdVmovsd: mov_scalar(in, 8, true, true); return 0;
      case I::kIdMovaps: case I::kIdMovapd: case I::kIdMovdqa: mov_vec(o0, o1, false, true); return 0;
      case I::kIdMovups: case I::kIdMovupd: case I::kIdMovdqu: mov_vec(o0, o1, false, false); return 0;
      case I::kIdVmovaps: case I::kIdVmovapd: case I::kIdVmovdqa: case I::kIdVmovdqa32: case I::kIdVmovdqa64: mov_vec(o0, o1, true, true); return 0;
      case I::kIdVmovups: case I::kIdVmovupd: case I::kIdVmovdqu: case I::kIdVmovdqu32: case I::kIdVmovdqu64: case I::kIdVmovdqu8: case I::kIdVmovdqu16: mov_vec(o0, o1, true, false); return 0;
      case I::kIdMovq2dq: { uint32_t d = o0.as<Reg>().id() & 31; memset(m.vec[d], 0, 16); memcpy(m.vec[d], &m.mm[o1.as<Reg>().id() & 7], 8); return 0; }
      case I::kIdMovdq2q: { memcpy(&m.mm[o0.as<Reg>().id() & 7], m.vec[o1.as<Reg>().id() & 31], 8); return 0; }
      case I::kIdJmp: if (o0.is_label()) { jump_label = o0.as<Label>().id(); return 2; } break;
      case I::kIdCall: {
        uint64_t target;
        if (o0.is_imm()) target = uint64_t(o0.as<Imm>().value()); else if (is_gp(o0)) target = gp_read(o0.as<Reg>()); else if (o0.is_mem()) target = m.rd(ea(o0.as<x86::Mem>()), m.regsize()); else break;
        push(0xC0DEC0DEull);                     // return address as seen by the callee
        if (m.on_call) m.on_call(m, target); else { m.unsupported = "call without handler"; }
        (void)pop();
        return 0;
      }
      default: break;
    }
    // jcc
    if (id >= I::kIdJa && id <= I::kIdJz && o0.is_label()) {
      static const struct { InstId id; uint32_t cc; } tab[] = {
        {I::kIdJo, 0}, {I::kIdJno, 1}, {I::kIdJb, 2}, {I::kIdJc, 2}, {I::kIdJnae, 2}, {I::kIdJae, 3}, {I::kIdJnb, 3}, {I::kIdJnc, 3}, {I::kIdJe, 4}, {I::kIdJz, 4}, {I::kIdJne, 5}, {I::kIdJnz, 5},
        {I::kIdJbe, 6}, {I::kIdJna, 6}, {I::kIdJa, 7}, {I::kIdJnbe, 7}, {I::kIdJs, 8}, {I::kIdJns, 9}, {I::kIdJp, 10}, {I::kIdJpe, 10}, {I::kIdJnp, 11}, {I::kIdJpo, 11},
        {I::kIdJl, 12}, {I::kIdJnge, 12}, {I::kIdJge, 13}, {I::kIdJnl, 13}, {I::kIdJle, 14}, {I::kIdJng, 14}, {I::kIdJg, 15}, {I::kIdJnle, 15}};
      for (auto& t : tab) if (t.id == id) { if (cond(t.cc)) { jump_label = o0.as<Label>().id(); return 2; } return 0; }
    }
    // setcc / cmovcc   [added for C05]
    for (uint32_t cc = 0; cc < 16; cc++) {
      if (id == x86::Inst::setcc_from_cond(x86::CondCode(cc)) && n == 1) { write_int(o0, cond(cc) ? 1 : 0, 1); return 0; }
      if (id == x86::Inst::cmovcc_from_cond(x86::CondCode(cc)) && n == 2 && is_gp(o0)) {
        unsigned sz = reg_bytes(o0.as<Reg>()); uint64_t src = read_int(o1, sz);
        write_int(o0, cond(cc) ? src : read_int(o0, sz), sz); return 0;       // a 32-bit cmov zero-extends in 64-bit mode even when not taken
      }
    }
    m.unsupported = "x86 instruction id " + std::to_string(id);
    return 0;
  }
};

// ---------------------------------------------------------------------------------------------------------
// AArch64
// ---------------------------------------------------------------------------------------------------------
struct A64 {
  Machine& m;
  explicit A64(Machine& mm) : m(mm) {}
  uint32_t jump_label = 0;

  static bool is_gp(const Operand_& o) { return o.is_reg() && (o.as<Reg>().reg_type() == RegType::kGp32 || o.as<Reg>().reg_type() == RegType::kGp64); }
  static bool is_vec(const Operand_& o) { return o.is_reg() && o.as<Reg>().reg_group() == RegGroup::kVec; }
  static unsigned reg_bytes(const Reg& r) {
    switch (r.reg_type()) { case RegType::kGp32: return 4; case RegType::kGp64: return 8; case RegType::kVec8: return 1; case RegType::kVec16: return 2; case RegType::kVec32: return 4; case RegType::kVec64: return 8; case RegType::kVec128: return 16; default: return 0; }
  }
  // id 31 is SP in address/add-sub-immediate context and ZR elsewhere; asmjit uses id 31 = zr and 63 = sp for Gp
  uint64_t gp_read(const Reg& r, bool sp_ctx = false) {
    uint32_t id = r.id(); uint64_t v;
    if (id == a64::Gp::kIdSp) v = m.gp[31]; else if (id == a64::Gp::kIdZr) v = 0; else if (id < 31) v = m.gp[id]; else { m.unsupported = "gp id"; return 0; }
    (void)sp_ctx;
    return r.reg_type() == RegType::kGp32 ? (v & 0xFFFFFFFFull) : v;
  }
  void gp_write(const Reg& r, uint64_t v) {
    uint32_t id = r.id(); if (r.reg_type() == RegType::kGp32) v &= 0xFFFFFFFFull;
    if (id == a64::Gp::kIdSp) m.gp[31] = v; else if (id == a64::Gp::kIdZr) {} else if (id < 31) m.gp[id] = v; else m.unsupported = "gp id";
  }
  // memory address + writeback
  uint64_t ea(const a64::Mem& mem, bool& ok) {
    ok = true;
    if (!mem.has_base_reg() || mem.has_index()) { m.unsupported = "a64 memory form"; ok = false; return 0; }
    uint32_t bid = mem.base_id();
    uint64_t base = bid == a64::Gp::kIdSp ? m.gp[31] : bid < 31 ? m.gp[bid] : 0;
    if (bid != a64::Gp::kIdSp && bid >= 31) { m.unsupported = "a64 base id"; ok = false; return 0; }
    if (bid == a64::Gp::kIdSp && (base & 15)) m.fault = "memory access through a stack pointer that is not 16-byte aligned";
    int64_t off = mem.offset();
    uint64_t a = mem.is_post_index() ? base : base + uint64_t(off);
    if (mem.is_pre_or_post()) { uint64_t nb = base + uint64_t(off); if (bid == a64::Gp::kIdSp) m.gp[31] = nb; else m.gp[bid] = nb; }
    return a;
  }
  void load(const Operand_& rt, uint64_t a, unsigned n, bool sign, unsigned ext_to) {
    if (is_vec(rt)) { uint32_t id = rt.as<Reg>().id() & 31; memset(m.vec[id], 0, 64); m.rdv(a, m.vec[id], n); return; }
    uint64_t v = m.rd(a, n); if (sign) v = uint64_t(sext_n(v, n)) & mask_n(ext_to); gp_write(rt.as<Reg>(), v);
  }
  void store(const Operand_& rt, uint64_t a, unsigned n) {
    if (is_vec(rt)) { m.wrv(a, m.vec[rt.as<Reg>().id() & 31], n); return; }
    m.wr(a, gp_read(rt.as<Reg>()), n);
  }
  void set_nzcv_sub(uint64_t a, uint64_t b, unsigned bytes) { uint64_t mk = mask_n(bytes); a &= mk; b &= mk; uint64_t r = (a - b) & mk; unsigned sh = 8 * bytes - 1; m.sf = (r >> sh) & 1; m.zf = r == 0; m.cf = a >= b; m.of = (((a ^ b) & (a ^ r)) >> sh) & 1; }
  bool cond(uint32_t cc) {   // a64 CondCode value as encoded (eq=0 ...)
    bool r;
    switch (cc >> 1) { case 0: r = m.zf; break; case 1: r = m.cf; break; case 2: r = m.sf; break; case 3: r = m.of; break; case 4: r = m.cf && !m.zf; break; case 5: r = m.sf == m.of; break; case 6: r = (m.sf == m.of) && !m.zf; break; default: r = true; }
    return ((cc & 1) && cc != 15) ? !r : r;
  }
  uint64_t shifted_op(const InstNode* in, uint32_t idx, unsigned bytes) {   // operand idx (reg or imm) with optional shift operand idx+1
    const Operand_& o = in->op(idx);
    uint64_t v = o.is_imm() ? uint64_t(o.as<Imm>().value()) : gp_read(o.as<Reg>());
    if (in->op_count() > idx + 1 && in->op(idx + 1).is_imm()) {
      const Imm& sh = in->op(idx + 1).as<Imm>();
      uint32_t amount = uint32_t(sh.value()) & 63; uint32_t op = sh.predicate();   // arm::ShiftOp in predicate
      switch (op) { case uint32_t(arm::ShiftOp::kLSL): v <<= amount; break; case uint32_t(arm::ShiftOp::kLSR): v = (v & mask_n(bytes)) >> amount; break; case uint32_t(arm::ShiftOp::kASR): v = uint64_t(sext_n(v, bytes) >> amount); break; default: m.unsupported = "a64 shift/extend kind"; }
    }
    return v & mask_n(bytes);
  }
  int step(const InstNode* in) {
    namespace I = a64::Inst;
    m.steps++;
    InstId id = in->inst_id() & uint32_t(InstIdParts::kRealId);
    uint32_t cc = (in->inst_id() & uint32_t(InstIdParts::kARM_Cond)) >> Support::ctz(uint32_t(InstIdParts::kARM_Cond));
    uint32_t n = uint32_t(in->op_count());
    static const Operand none_op; const Operand_& o0 = n > 0 ? (const Operand_&)in->op(0) : (const Operand_&)none_op; const Operand_& o1 = n > 1 ? (const Operand_&)in->op(1) : (const Operand_&)none_op; const Operand_& o2 = n > 2 ? (const Operand_&)in->op(2) : (const Operand_&)none_op;
    bool ok;
    switch (id) {
      case I::kIdNop: case I::kIdBti: return 0;
      case I::kIdRet: m.ret_target = m.gp[30]; m.returned = true; return 1;
      case I::kIdMov: { if (!is_gp(o0)) break; uint64_t v = o1.is_imm() ? uint64_t(o1.as<Imm>().value()) : gp_read(o1.as<Reg>()); gp_write(o0.as<Reg>(), v); return 0; }
      case I::kIdAdd: case I::kIdSub: case I::kIdAdds: case I::kIdSubs: case I::kIdAnd: case I::kIdOrr: case I::kIdEor: case I::kIdCmp: {
        if (id == I::kIdCmp) { unsigned b = reg_bytes(o0.as<Reg>()); set_nzcv_sub(gp_read(o0.as<Reg>()), shifted_op(in, 1, b), b); return 0; }
        if (!is_gp(o0) || !is_gp(o1)) break;
        unsigned b = reg_bytes(o0.as<Reg>()); uint64_t a = gp_read(o1.as<Reg>()), c = shifted_op(in, 2, b), r;
        switch (id) { case I::kIdAdd: case I::kIdAdds: r = a + c; break; case I::kIdSub: r = a - c; break; case I::kIdSubs: r = a - c; set_nzcv_sub(a, c, b); break; case I::kIdAnd: r = a & c; break; case I::kIdOrr: r = a | c; break; default: r = a ^ c; }
        if (id == I::kIdAdds) { m.unsupported = "adds flags"; }
        gp_write(o0.as<Reg>(), r & mask_n(b)); return 0;
      }
      case I::kIdNeg: { if (!is_gp(o0) || !is_gp(o1) || n != 2) break; unsigned b = reg_bytes(o0.as<Reg>()); gp_write(o0.as<Reg>(), (0 - gp_read(o1.as<Reg>())) & mask_n(b)); return 0; }   // [added for C05]
      case I::kIdMvn: { if (!is_gp(o0) || !is_gp(o1) || n != 2) break; unsigned b = reg_bytes(o0.as<Reg>()); gp_write(o0.as<Reg>(), ~gp_read(o1.as<Reg>()) & mask_n(b)); return 0; }        // [added for C05]
      case I::kIdSxtb: case I::kIdSxth: case I::kIdSxtw: case I::kIdUxtb: case I::kIdUxth: {   // [added for C06: register-to-register argument extension]
        if (!is_gp(o0) || !is_gp(o1) || n != 2) break;
        unsigned sb = (id == I::kIdSxtb || id == I::kIdUxtb) ? 1 : id == I::kIdSxtw ? 4 : 2; bool sg = id == I::kIdSxtb || id == I::kIdSxth || id == I::kIdSxtw;
        unsigned b = reg_bytes(o0.as<Reg>()); uint64_t v = gp_read(o1.as<Reg>()) & mask_n(sb);
        gp_write(o0.as<Reg>(), (sg ? uint64_t(sext_n(v, sb)) : v) & mask_n(b)); return 0;
      }
      case I::kIdMul: { unsigned b = reg_bytes(o0.as<Reg>()); gp_write(o0.as<Reg>(), (gp_read(o1.as<Reg>()) * gp_read(o2.as<Reg>())) & mask_n(b)); return 0; }
      case I::kIdMadd: { unsigned b = reg_bytes(o0.as<Reg>()); gp_write(o0.as<Reg>(), (gp_read(o1.as<Reg>()) * gp_read(o2.as<Reg>()) + gp_read(in->op(3).as<Reg>())) & mask_n(b)); return 0; }
      case I::kIdLsl: case I::kIdLsr: case I::kIdAsr: { unsigned b = reg_bytes(o0.as<Reg>()); uint64_t a = gp_read(o1.as<Reg>()); uint64_t c = (o2.is_imm() ? uint64_t(o2.as<Imm>().value()) : gp_read(o2.as<Reg>())) & (b * 8 - 1); uint64_t r = id == I::kIdLsl ? a << c : id == I::kIdLsr ? a >> c : uint64_t(sext_n(a, b) >> c); gp_write(o0.as<Reg>(), r & mask_n(b)); return 0; }
      case I::kIdLdr: case I::kIdLdur: case I::kIdLdr_v: case I::kIdLdur_v: { if (!o1.is_mem()) break; if (o1.as<a64::Mem>().has_base_label()) { m.unsupported = "literal load"; return 0; } uint64_t a = ea(o1.as<a64::Mem>(), ok); if (!ok) return 0; load(o0, a, reg_bytes(o0.as<Reg>()), false, 8); return 0; }
      case I::kIdLdrb: case I::kIdLdrh: case I::kIdLdrsb: case I::kIdLdrsh: case I::kIdLdrsw: case I::kIdLdurb: case I::kIdLdurh: {
        uint64_t a = ea(o1.as<a64::Mem>(), ok); if (!ok) return 0;
        unsigned nb = (id == I::kIdLdrb || id == I::kIdLdrsb || id == I::kIdLdurb) ? 1 : id == I::kIdLdrsw ? 4 : 2; bool sg = id == I::kIdLdrsb || id == I::kIdLdrsh || id == I::kIdLdrsw;
        load(o0, a, nb, sg, reg_bytes(o0.as<Reg>())); return 0;
      }
      case I::kIdStr: case I::kIdStur: case I::kIdStr_v: case I::kIdStur_v: { uint64_t a = ea(o1.as<a64::Mem>(), ok); if (!ok) return 0; store(o0, a, reg_bytes(o0.as<Reg>())); return 0; }
      case I::kIdStrb: case I::kIdSturb: { uint64_t a = ea(o1.as<a64::Mem>(), ok); if (!ok) return 0; store(o0, a, 1); return 0; }
      case I::kIdStrh: case I::kIdSturh: { uint64_t a = ea(o1.as<a64::Mem>(), ok); if (!ok) return 0; store(o0, a, 2); return 0; }
      case I::kIdLdp: case I::kIdLdp_v: { uint64_t a = ea(o2.as<a64::Mem>(), ok); if (!ok) return 0; unsigned b = reg_bytes(o0.as<Reg>()); load(o0, a, b, false, 8); load(o1, a + b, b, false, 8); return 0; }
      case I::kIdStp: case I::kIdStp_v: { unsigned b = reg_bytes(o0.as<Reg>()); uint64_t v0 = 0, v1 = 0; uint8_t t0[16], t1[16]; bool vec = is_vec(o0); if (vec) { memcpy(t0, m.vec[o0.as<Reg>().id() & 31], 16); memcpy(t1, m.vec[o1.as<Reg>().id() & 31], 16); } else { v0 = gp_read(o0.as<Reg>()); v1 = gp_read(o1.as<Reg>()); }
        uint64_t a = ea(o2.as<a64::Mem>(), ok); if (!ok) return 0; if (vec) { m.wrv(a, t0, b); m.wrv(a + b, t1, b); } else { m.wr(a, v0, b); m.wr(a + b, v1, b); } return 0; }
      case I::kIdFmov_v: case I::kIdMov_v: {
        if (is_vec(o0) && is_vec(o1)) { unsigned b = reg_bytes(o0.as<Reg>()); if (!b || o0.as<a64::Vec>().has_element_index() || o1.as<a64::Vec>().has_element_index()) { m.unsupported = "vector element move"; return 0; } uint8_t t[16]; memcpy(t, m.vec[o1.as<Reg>().id() & 31], 16); uint32_t d = o0.as<Reg>().id() & 31; memset(m.vec[d], 0, 64); memcpy(m.vec[d], t, b); return 0; }
        if (is_vec(o0) && is_gp(o1)) { unsigned b = reg_bytes(o0.as<Reg>()); uint64_t v = gp_read(o1.as<Reg>()); uint32_t d = o0.as<Reg>().id() & 31; if (o0.as<a64::Vec>().has_element_index()) { m.unsupported = "vector element move"; return 0; } memset(m.vec[d], 0, 64); memcpy(m.vec[d], &v, b < 8 ? b : 8); return 0; }
        if (is_gp(o0) && is_vec(o1)) { if (o1.as<a64::Vec>().has_element_index()) { m.unsupported = "vector element move"; return 0; } uint64_t v = 0; memcpy(&v, m.vec[o1.as<Reg>().id() & 31], reg_bytes(o0.as<Reg>())); gp_write(o0.as<Reg>(), v); return 0; }
        break;
      }
      case I::kIdCbz: case I::kIdCbnz: if (o1.is_label()) { bool z = gp_read(o0.as<Reg>()) == 0; if (z == (id == I::kIdCbz)) { jump_label = o1.as<Label>().id(); return 2; } return 0; } break;
      case I::kIdBl: case I::kIdBlr: {
        uint64_t target = o0.is_imm() ? uint64_t(o0.as<Imm>().value()) : is_gp(o0) ? gp_read(o0.as<Reg>()) : 0;
        m.gp[30] = 0xC0DEC0DEull;
        if (m.on_call) m.on_call(m, target); else m.unsupported = "call without handler";
        return 0;
      }
      default: break;
    }
    if (id == I::kIdB && o0.is_label()) {
      // asmjit encodes the condition in the instruction id: CondCode kAL=0? use arm::CondCode numbering: value 0 = AL (none), others = encoded+2
      if (cc == 0) { jump_label = o0.as<Label>().id(); return 2; }
      uint32_t enc = (cc - 2) & 15;    // arm::CondCode: kAL=0,kNA=1,kEQ=2,kNE=3,... (encoded value + 2)
      if (cond(enc)) { jump_label = o0.as<Label>().id(); return 2; }
      return 0;
    }
    m.unsupported = "a64 instruction id " + std::to_string(id);
    return 0;
  }
};

// Runs a node list from `first` until a return (or until `stop_after` has been executed; then *resume is the
// node to continue from).  Labels are resolved within the whole list.  Returns false when the step limit was hit.
inline bool run(Machine& m, BaseNode* list_first, BaseNode* start, BaseNode* stop_after = nullptr, BaseNode** resume = nullptr, long max_steps = 200000) {
  std::map<uint32_t, BaseNode*> labels;
  for (BaseNode* n = list_first; n; n = n->next()) if (n->is_label()) labels[n->as<LabelNode>()->label_id()] = n;
  X86 x(m); A64 a(m);
  if (resume) *resume = nullptr;
  for (BaseNode* n = start; n; ) {
    if (n->is_inst() || n->type() == NodeType::kJump) {
      int r = m.a64 ? a.step(n->as<InstNode>()) : x.step(n->as<InstNode>());
      if (!m.unsupported.empty() || !m.fault.empty()) return true;
      if (r == 1) return true;
      if (r == 2) { auto it = labels.find(m.a64 ? a.jump_label : x.jump_label); if (it == labels.end()) { m.unsupported = "jump to unknown label"; return true; } n = it->second; continue; }
      if (m.steps > max_steps) return false;
    }
    if (n == stop_after) { if (resume) *resume = n->next(); return true; }
    n = n->next();
  }
  if (!stop_after) m.unsupported = "fell off the end of the node list";
  return true;
}

} // namespace msim
