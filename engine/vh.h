// vh.h - common harness plumbing: argument parsing, deadline, violation records, result JSON.
// Every harness is a single TU that includes this header.  No randomness, no clocks in decisions
// (the clock is only used for the global deadline, which can only *shrink* the completed bound and is
// reported as exhaustive:false).
#pragma once
#include <cstdio>
#include <cstdlib>
#include <cstring>
#include <cstdint>
#include <string>
#include <vector>
#include <map>
#include <set>
#include <chrono>
#include <functional>
#include <csignal>
#include <unistd.h>

namespace vh {

struct Violation {
  std::string key;     // stable key of the failing input / call site / history (known-findings match on it)
  std::string desc;    // human readable
  std::string replay;  // content of the replay file (harness specific, plain text)
};

struct Ctx {
  std::string tier = "quick";
  std::string out;            // result json path
  std::string replay_path;    // when set: replay mode
  std::string replay_text;
  long seed = 0;
  double deadline_s = 1e18;
  std::chrono::steady_clock::time_point t0 = std::chrono::steady_clock::now();
  std::vector<Violation> violations;
  std::map<std::string, int> viol_count;       // key -> occurrences
  std::map<std::string, long long> counters;   // integer coverage counters
  std::map<std::string, std::string> strs;     // string coverage entries
  std::vector<std::string> samples;
  std::vector<std::string> notes;
  std::vector<std::string> assumptions;
  std::set<std::string> outcomes;              // distinct observed outcomes
  bool exhaustive = true;
  bool capped = false;
  std::map<std::string, std::string> opts;

  int shard_i = 0, shard_n = 1;
  bool thorough() const { return tier == "thorough"; }
  bool mine(long long idx) const { return shard_n <= 1 || (idx % shard_n) == shard_i; }
  std::string opt(const char* k, const char* dflt = "") const { auto it = opts.find(k); return it == opts.end() ? std::string(dflt) : it->second; }
  bool replaying() const { return !replay_path.empty(); }
  double elapsed() const {
    return std::chrono::duration<double>(std::chrono::steady_clock::now() - t0).count();
  }
  long long own_cases = 0;
  // call once per executed case: checks the deadline every `every` own cases (independent of sharding)
  bool tick(long long every = 64) { return ((++own_cases) % every) == 0 && out_of_time(); }
  bool out_of_time() {
    if (elapsed() > deadline_s) { capped = true; exhaustive = false; return true; }
    return false;
  }
  void violation(const std::string& key, const std::string& desc, const std::string& replay) {
    int& c = viol_count[key];
    c++;
    if (c == 1) violations.push_back(Violation{key, desc, replay});
  }
  void sample(const std::string& s, size_t max = 12) { if (samples.size() < max) samples.push_back(s); }
  void note(const std::string& s) { if (notes.size() < 200) notes.push_back(s); }
  long long& n(const char* k) { return counters[k]; }
};

inline Ctx& ctx() { static Ctx c; return c; }

// The case being executed right now (replay text).  Printed by the sanitizer / signal hooks below so that a
// fatal outcome (ASan abort, SIGSEGV) still identifies the exact failing case; the driver turns the
// "VH-CURRENT-CASE:" line into the replay file of the reported violation.
inline char* current_case_buf() { static char b[8192]; return b; }
inline void set_case(const std::string& s) {
  char* b = current_case_buf(); size_t j = 0;
  for (size_t i = 0; i < s.size() && j + 3 < 8192; i++) { if (s[i] == '\n') { b[j++] = '\\'; b[j++] = 'n'; } else b[j++] = s[i]; }
  b[j] = 0;
}
inline void dump_case() {
  const char* b = current_case_buf();
  if (b[0]) { const char* p = "\nVH-CURRENT-CASE: "; (void)!write(2, p, strlen(p)); (void)!write(2, b, strlen(b)); (void)!write(2, "\n", 1); }
}
inline void on_fatal_signal(int sig) { dump_case(); signal(sig, SIG_DFL); raise(sig); }
inline void install_fatal_hooks() { signal(SIGSEGV, on_fatal_signal); signal(SIGBUS, on_fatal_signal); signal(SIGABRT, on_fatal_signal); signal(SIGFPE, on_fatal_signal); signal(SIGILL, on_fatal_signal); }

inline std::string jesc(const std::string& s) {
  std::string o;
  for (unsigned char ch : s) {
    switch (ch) {
      case '"': o += "\\\""; break;
      case '\\': o += "\\\\"; break;
      case '\n': o += "\\n"; break;
      case '\t': o += "\\t"; break;
      case '\r': o += "\\r"; break;
      default:
        if (ch < 0x20 || ch >= 0x7f) { char b[8]; snprintf(b, sizeof b, "\\u%04x", ch); o += b; }
        else o += (char)ch;
    }
  }
  return o;
}

inline void parse_args(int argc, char** argv) {
  Ctx& c = ctx();
  install_fatal_hooks();
  for (int i = 1; i < argc; i++) {
    std::string a = argv[i];
    auto next = [&]() -> std::string { return (i + 1 < argc) ? argv[++i] : ""; };
    if (a == "--tier") c.tier = next();
    else if (a == "--out") c.out = next();
    else if (a == "--replay") c.replay_path = next();
    else if (a == "--seed") c.seed = atol(next().c_str());
    else if (a == "--deadline") c.deadline_s = atof(next().c_str());
    else if (a == "--shard") { std::string v = next(); sscanf(v.c_str(), "%d/%d", &c.shard_i, &c.shard_n); }
    else if (a.rfind("--", 0) == 0) { std::string k = a.substr(2); c.opts[k] = next(); }
  }
  if (!c.replay_path.empty()) {
    FILE* f = fopen(c.replay_path.c_str(), "rb");
    if (!f) { fprintf(stderr, "cannot open replay file %s\n", c.replay_path.c_str()); exit(2); }
    char buf[4096]; size_t n;
    while ((n = fread(buf, 1, sizeof buf, f)) > 0) c.replay_text.append(buf, n);
    fclose(f);
  }
}

// Writes the result file; returns process exit code (0 no violation, 1 violations).
inline int finish() {
  Ctx& c = ctx();
  std::string o = "{\n";
  o += " \"tier\": \"" + c.tier + "\",\n";
  o += " \"exhaustive\": " + std::string(c.exhaustive ? "true" : "false") + ",\n";
  o += " \"capped\": " + std::string(c.capped ? "true" : "false") + ",\n";
  o += " \"wall_s\": " + std::to_string(c.elapsed()) + ",\n";
  o += " \"counters\": {";
  bool first = true;
  for (auto& kv : c.counters) { o += (first ? "" : ", "); first = false; o += "\"" + jesc(kv.first) + "\": " + std::to_string(kv.second); }
  o += "},\n \"strings\": {";
  first = true;
  for (auto& kv : c.strs) { o += (first ? "" : ", "); first = false; o += "\"" + jesc(kv.first) + "\": \"" + jesc(kv.second) + "\""; }
  o += "},\n \"distinct_outcomes\": " + std::to_string(c.outcomes.size()) + ",\n";
  auto arr = [&](const char* name, const std::vector<std::string>& v) {
    o += std::string(" \"") + name + "\": [";
    for (size_t i = 0; i < v.size(); i++) { o += (i ? ", " : ""); o += "\"" + jesc(v[i]) + "\""; }
    o += "],\n";
  };
  arr("samples", c.samples);
  arr("notes", c.notes);
  arr("assumptions", c.assumptions);
  o += " \"violations\": [";
  for (size_t i = 0; i < c.violations.size(); i++) {
    auto& v = c.violations[i];
    o += (i ? ",\n  " : "\n  ");
    o += "{\"key\": \"" + jesc(v.key) + "\", \"desc\": \"" + jesc(v.desc) + "\", \"count\": " +
         std::to_string(c.viol_count[v.key]) + ", \"replay\": \"" + jesc(v.replay) + "\"}";
  }
  o += "]\n}\n";
  if (!c.out.empty()) {
    FILE* f = fopen(c.out.c_str(), "wb");
    if (!f) { fprintf(stderr, "cannot write %s\n", c.out.c_str()); return 2; }
    fwrite(o.data(), 1, o.size(), f);
    fclose(f);
  } else {
    fputs(o.c_str(), stdout);
  }
  return c.violations.empty() ? 0 : 1;
}

inline std::string hex(const void* p, size_t n) {
  static const char* d = "0123456789abcdef";
  std::string s;
  const uint8_t* b = (const uint8_t*)p;
  for (size_t i = 0; i < n; i++) { s += d[b[i] >> 4]; s += d[b[i] & 15]; }
  return s;
}

inline uint64_t fnv(const void* p, size_t n, uint64_t h = 1469598103934665603ull) {
  const uint8_t* b = (const uint8_t*)p;
  for (size_t i = 0; i < n; i++) { h ^= b[i]; h *= 1099511628211ull; }
  return h;
}

inline std::vector<std::string> split(const std::string& s, char sep) {
  std::vector<std::string> out; std::string cur;
  for (char ch : s) { if (ch == sep) { out.push_back(cur); cur.clear(); } else cur += ch; }
  out.push_back(cur);
  return out;
}

} // namespace vh

// ASan calls this (weak hook) before printing a report.
#ifndef VH_NO_HOOKS
extern "C" void __asan_on_error() { vh::dump_case(); }
#endif
