// xplor.h - explorer core.
//   * Chooser / explore_deviations: stateless DFS over choice sequences, iterative deviation bounding
//     (choice 0 is the default; every non-default choice costs one deviation).
//   * bfs_histories: explicit-state BFS where a state is the op history that reaches it, re-built on a
//     fresh real object (asmjit objects are not copyable); states are merged on a canonical string and
//     canon-on-replay is asserted (divergence = harness error, exit 2, never a VIOLATION).
#pragma once
#include "vh.h"
#include <deque>
#include <unordered_map>
#include <unordered_set>

namespace xplor {

struct Chooser {
  std::vector<int> prefix;   // choices to replay
  std::vector<int> taken;    // choices actually taken in this execution
  std::vector<int> arity;    // number of alternatives at each point
  int choose(int n) {
    size_t i = taken.size();
    int c = 0;
    if (i < prefix.size()) {
      c = prefix[i];
      if (c >= n) { fprintf(stderr, "xplor: replay divergence at point %zu: choice %d of %d\n", i, c, n); exit(2); }
    }
    taken.push_back(c);
    arity.push_back(n);
    return c;
  }
  std::string str() const {
    std::string s;
    for (size_t i = 0; i < taken.size(); i++) { if (i) s += ","; s += std::to_string(taken[i]); }
    return s;
  }
};

struct DevStats { long long executions = 0; int bound_completed = -1; };

// body(Chooser&) runs one execution; returns false to stop everything (deadline).
template<class Body>
inline void explore_rec(const std::vector<int>& prefix, int used, int bound, Body& body, DevStats& st, bool& stop) {
  if (stop) return;
  Chooser ch; ch.prefix = prefix;
  if (!body(ch)) { stop = true; return; }
  st.executions++;
  for (size_t i = prefix.size(); i < ch.taken.size() && !stop; i++) {
    if (used + 1 > bound) break;
    for (int alt = 1; alt < ch.arity[i]; alt++) {
      std::vector<int> p(ch.taken.begin(), ch.taken.begin() + i);
      p.push_back(alt);
      explore_rec(p, used + 1, bound, body, st, stop);
      if (stop) break;
    }
  }
}

// Explores all executions with at most `bound` deviations (each exactly once).
template<class Body>
inline DevStats explore_deviations(int bound, Body body) {
  DevStats st; bool stop = false;
  explore_rec(std::vector<int>(), 0, bound, body, st, stop);
  if (!stop) st.bound_completed = bound;
  return st;
}

// ---------------------------------------------------------------------------------------------
// optional: harness-provided formatter turning (cfg name, op history) into replay text (used for crash attribution)
inline std::function<std::string(const std::string&, const std::vector<int>&)>& case_formatter() {
  static std::function<std::string(const std::string&, const std::vector<int>&)> f; return f;
}

struct BfsStats {
  long long states = 0, transitions = 0, replays = 0, pruned = 0;
  int max_depth = 0, depth_completed = 0;
};

// Sys requirements:
//   Sys(const Cfg&)                      fresh real object + fresh reference model
//   int  num_ops() const                 size of the op alphabet in the *current* state
//   bool apply(int op, std::string& why) execute op on implementation and model, evaluate the oracle
//   std::string canon()                  canonical state (sound merge key)
//   std::string op_name(int op)
template<class Sys, class Cfg>
inline BfsStats bfs_histories(const Cfg& cfg, int max_depth, const std::string& cfg_name,
                              std::function<void(const std::vector<int>&, const std::string&, const std::string&)> on_violation,
                              long long max_states = -1, int shard_i = 0, int shard_n = 1) {
  vh::Ctx& c = vh::ctx();
  BfsStats st;
  // seen-set keyed by a 128-bit hash of the canonical string (two independent FNV streams) to bound memory
  struct H128 { uint64_t a, b; bool operator==(const H128& o) const { return a == o.a && b == o.b; } };
  struct HH { size_t operator()(const H128& h) const { return (size_t)(h.a ^ (h.b * 0x9e3779b97f4a7c15ull)); } };
  auto h128 = [](const std::string& s) { return H128{vh::fnv(s.data(), s.size()), vh::fnv(s.data(), s.size(), 0x84222325cbf29ce4ull)}; };
  std::unordered_set<H128, HH> seen;
  struct Node { std::vector<int> hist; H128 canon; };
  std::deque<Node> frontier;
  {
    Sys s(cfg);
    H128 k = h128(s.canon());
    seen.insert(k);
    frontier.push_back(Node{{}, k});
    st.states = 1;
  }
  auto hist_str = [&](Sys& s, const std::vector<int>& h) {
    // names must be produced while replaying (alphabet may be state dependent); caller passes a fresh replay
    (void)s; std::string o;
    for (size_t i = 0; i < h.size(); i++) { if (i) o += ","; o += std::to_string(h[i]); }
    return o;
  };
  int cur_depth = 0;
  while (!frontier.empty()) {
    Node nd = frontier.front(); frontier.pop_front();
    int depth = (int)nd.hist.size();
    if (depth > cur_depth) { st.depth_completed = cur_depth; cur_depth = depth; }
    if (depth >= max_depth) continue;
    if (c.out_of_time()) break;
    if (max_states >= 0 && st.states >= max_states) { c.exhaustive = false; c.capped = true; break; }
    // how many ops in this state?
    int nops;
    {
      Sys s(cfg); std::string why;
      for (int op : nd.hist) if (!s.apply(op, why)) { fprintf(stderr, "xplor: replay of accepted history failed: %s\n", why.c_str()); exit(2); }
      if (!(h128(s.canon()) == nd.canon)) { fprintf(stderr, "xplor: canon-on-replay divergence (cfg %s, hist %s)\n", cfg_name.c_str(), hist_str(s, nd.hist).c_str()); exit(2); }
      nops = s.num_ops();
      st.replays++;
    }
    for (int op = 0; op < nops; op++) {
      if (depth == 0 && shard_n > 1 && (op % shard_n) != shard_i) continue;
      Sys s(cfg); std::string why;
      std::string names;
      for (int h : nd.hist) { names += s.op_name(h); names += ";"; if (!s.apply(h, why)) { fprintf(stderr, "xplor: replay failed: %s\n", why.c_str()); exit(2); } }
      names += s.op_name(op);
      st.replays++;
      st.transitions++;
      std::vector<int> h2 = nd.hist; h2.push_back(op);
      if (case_formatter()) vh::set_case(case_formatter()(cfg_name, h2));
      bool ok = s.apply(op, why);
      if (!ok) {
        on_violation(h2, names, why);
        continue;   // do not expand beyond a violating state
      }
      H128 k = h128(s.canon());
      if (depth + 1 >= 3 || max_depth < 3) c.sample(cfg_name + ": " + names, 6);
      auto it = seen.find(k);
      if (it == seen.end()) {
        seen.insert(k);
        st.states++;
        if (depth + 1 > st.max_depth) st.max_depth = depth + 1;
        frontier.push_back(Node{h2, k});
      } else st.pruned++;
    }
  }
  if (frontier.empty()) st.depth_completed = max_depth;
  return st;
}

} // namespace xplor
