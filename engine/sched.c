// sched.c - cooperative thread scheduler for schedule exploration (C11).
// Compiled WITHOUT any sanitizer: the hand-offs below (raw futex + atomics in an uninstrumented TU) are
// invisible to ThreadSanitizer, so they create no happens-before edges.  The only synchronisation TSan
// learns about is the program's own mutex, annotated with __tsan_acquire/__tsan_release in the interposed
// pthread_mutex_* below.  Exactly one registered thread runs at any time.
#define _GNU_SOURCE
#include <pthread.h>
#include <stdint.h>
#include <stdio.h>
#include <stdlib.h>
#include <string.h>
#include <unistd.h>
#include <sys/syscall.h>
#include <linux/futex.h>

#define MAXT 8
#define CTRL MAXT
#define MAXPTS 4096
#define MAXM 64

extern void __tsan_acquire(void*) __attribute__((weak));
extern void __tsan_release(void*) __attribute__((weak));

enum { ST_NONE = 0, ST_RUNNABLE = 1, ST_FINISHED = 2 };

static int fw[MAXT + 1];
static int active;
static int nthreads;
static int state[MAXT];
static void* blocked_on[MAXT];
static struct { void* m; int owner; } owners[MAXM];
static __thread int my_id = -1;

static const int* prefix; static int prefix_len;
static int taken[MAXPTS], arity[MAXPTS], chosen_tid[MAXPTS];
static unsigned char cur_enabled[MAXPTS];
static int npoints;
static int deadlocked;
static int lock_acquisitions;
static void (*deadlock_cb)(void);

static void wake(int t) {
  __atomic_store_n(&fw[t], 1, __ATOMIC_SEQ_CST);
  syscall(SYS_futex, &fw[t], FUTEX_WAKE_PRIVATE, 1, 0, 0, 0);
}
static void sleep_self(int t) {
  while (__atomic_load_n(&fw[t], __ATOMIC_SEQ_CST) == 0) syscall(SYS_futex, &fw[t], FUTEX_WAIT_PRIVATE, 0, 0, 0, 0);
  __atomic_store_n(&fw[t], 0, __ATOMIC_SEQ_CST);
}

static int owner_of(void* m) { for (int i = 0; i < MAXM; i++) if (owners[i].m == m) return owners[i].owner; return -1; }
static void set_owner(void* m, int o) {
  for (int i = 0; i < MAXM; i++) if (owners[i].m == m) { if (o < 0) owners[i].m = 0; owners[i].owner = o; return; }
  if (o < 0) return;
  for (int i = 0; i < MAXM; i++) if (!owners[i].m) { owners[i].m = m; owners[i].owner = o; return; }
  fprintf(stderr, "sched: owner table full\n"); _exit(2);
}
static int is_enabled(int t) { return state[t] == ST_RUNNABLE && (blocked_on[t] == 0 || owner_of(blocked_on[t]) < 0); }

// Picks the next thread to run.  Canonical order: the running thread first if still enabled, then ascending ids.
static int pick(int cur, int cur_is_enabled) {
  int list[MAXT], n = 0;
  if (cur >= 0 && cur_is_enabled) list[n++] = cur;
  for (int t = 0; t < nthreads; t++) if (t != cur && is_enabled(t)) list[n++] = t;
  if (n == 0) {
    int unfinished = 0;
    for (int t = 0; t < nthreads; t++) if (state[t] != ST_FINISHED) unfinished++;
    if (unfinished) { deadlocked = 1; if (deadlock_cb) deadlock_cb(); fprintf(stderr, "sched: DEADLOCK (no enabled thread, %d unfinished)\n", unfinished); _exit(3); }
    return -1;
  }
  int c = 0;
  if (npoints < prefix_len) {
    c = prefix[npoints];
    if (c >= n) { fprintf(stderr, "sched: replay divergence at point %d: choice %d of %d\n", npoints, c, n); _exit(2); }
  }
  if (npoints >= MAXPTS) { fprintf(stderr, "sched: too many scheduling points\n"); _exit(2); }
  taken[npoints] = c; arity[npoints] = n; cur_enabled[npoints] = (unsigned char)(cur >= 0 && cur_is_enabled); chosen_tid[npoints] = list[c];
  npoints++;
  return list[c];
}

static void switch_from(int self, int self_enabled) {
  int next = pick(self, self_enabled);
  if (next != self) { wake(next); sleep_self(self); }
}

void sched_point(void) {
  if (my_id < 0 || !active) return;
  switch_from(my_id, 1);
}

void sched_reset(int n, const int* pfx, int len) {
  nthreads = n; prefix = pfx; prefix_len = len; npoints = 0; deadlocked = 0; lock_acquisitions = 0;
  memset(state, 0, sizeof state); memset(blocked_on, 0, sizeof blocked_on); memset(fw, 0, sizeof fw);
  memset(owners, 0, sizeof owners);
  for (int t = 0; t < n; t++) state[t] = ST_RUNNABLE;
}
void sched_set_deadlock_cb(void (*cb)(void)) { deadlock_cb = cb; }

// called by each worker thread first / last
void sched_thread_enter(int id) { my_id = id; sleep_self(id); }
void sched_thread_leave(void) {
  int self = my_id;
  state[self] = ST_FINISHED;
  my_id = -1;
  int next = pick(self, 0);
  if (next < 0) wake(CTRL); else wake(next);
}
// controller: all workers are created and parked in sched_thread_enter()
void sched_run(void) {
  active = 1;
  int next = pick(-1, 0);
  if (next >= 0) { wake(next); sleep_self(CTRL); }
  active = 0;
}
int sched_npoints(void) { return npoints; }
const int* sched_taken(void) { return taken; }
const int* sched_arity(void) { return arity; }
const int* sched_chosen(void) { return chosen_tid; }
const unsigned char* sched_cur_enabled(void) { return cur_enabled; }
int sched_lock_acquisitions(void) { return lock_acquisitions; }
int sched_self(void) { return my_id; }

// ---- interposed mutex (link-time: the static asmjit objects call these) ---------------------------------
int pthread_mutex_lock(pthread_mutex_t* m) {
  if (my_id < 0 || !active) {
    set_owner(m, MAXT + 1);
    if (__tsan_acquire) __tsan_acquire(m);
    return 0;
  }
  switch_from(my_id, 1);                 // scheduling point before the acquisition
  while (owner_of(m) >= 0) {             // held: block until the scheduler finds it free
    blocked_on[my_id] = m;
    switch_from(my_id, 0);
    blocked_on[my_id] = 0;
  }
  set_owner(m, my_id);
  lock_acquisitions++;
  if (__tsan_acquire) __tsan_acquire(m);
  return 0;
}
int pthread_mutex_trylock(pthread_mutex_t* m) {
  if (my_id >= 0 && active) switch_from(my_id, 1);
  if (owner_of(m) >= 0) return 16; /* EBUSY */
  set_owner(m, my_id >= 0 ? my_id : MAXT + 1);
  if (__tsan_acquire) __tsan_acquire(m);
  return 0;
}
int pthread_mutex_unlock(pthread_mutex_t* m) {
  if (__tsan_release) __tsan_release(m);
  set_owner(m, -1);
  if (my_id >= 0 && active) switch_from(my_id, 1);   // scheduling point after the release
  return 0;
}
