"""C09 JitAllocator bookkeeping - BFS over op histories on the real allocator (harness/c09_jitalloc.cpp)."""
from lib import runner

LEVEL = "model_checking"
SRC = "harness/c09_jitalloc.cpp"
KW = dict(exclude_objs=["core/jitallocator.cpp"], extra_cxx=["-fno-access-control"])


def run(res, ctx):
    tier = ctx["tier"]
    args = []
    if "depth" in ctx["opts"]:
        args = ["--depth", ctx["opts"]["depth"]]
    if tier == "quick":
        runner.run_harness(res, SRC, "asan", tier, args=args, deadline=480, timeout=1200, shards=40, **KW)
    else:
        runner.run_harness(res, SRC, "asan", tier, args=args, deadline=3300, timeout=4500, shards=64, **KW)


def replay(res, path, ctx):
    runner.run_harness(res, SRC, "asan", ctx["tier"], replay=path, timeout=300, **KW)
