"""C19 constant pool - BFS over add() histories on the real ConstPool (harness/c19_constpool.cpp)."""
from lib import runner

LEVEL = "model_checking"
SRC = "harness/c19_constpool.cpp"


def run(res, ctx):
    tier = ctx["tier"]
    args = []
    for k in ("depth", "depth2"):
        if k in ctx["opts"]:
            args += ["--" + k, ctx["opts"][k]]
    if tier == "quick":
        runner.run_harness(res, SRC, "asan", tier, args=args, deadline=480, timeout=1200, shards=8)
    else:
        runner.run_harness(res, SRC, "asan", tier, args=args, deadline=1500, timeout=2400, shards=16)


def replay(res, path, ctx):
    runner.run_harness(res, SRC, "asan", ctx["tier"], replay=path, timeout=300)
