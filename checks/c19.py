"""C19 constant pool - BFS over add() histories on the real ConstPool (harness/c19_constpool.cpp)."""
from lib import runner

LEVEL = "model_checking"
SRC = "harness/c19_constpool.cpp"
SRC_CC = "harness/c19_compiler.cpp"   # leg 2: BaseCompiler::_new_const histories (local/global scope, rejected requests, function boundaries)


def run(res, ctx):
    tier = ctx["tier"]
    args = []
    for k in ("depth", "depth2"):
        if k in ctx["opts"]:
            args += ["--" + k, ctx["opts"][k]]
    if tier == "quick":
        runner.run_harness(res, SRC, "asan", tier, args=args, deadline=480, timeout=1200, shards=8)
    else:
        runner.run_harness(res, SRC, "asan", tier, args=args, deadline=1500, timeout=2400, shards=16)
    cargs = ["--cdepth", ctx["opts"]["cdepth"]] if "cdepth" in ctx["opts"] else []
    runner.run_harness(res, SRC_CC, "asan", tier, args=cargs, deadline=600 if tier == "quick" else 1500, timeout=2400, shards=16, label="compiler")
    b = [res.strings.get("bound"), res.strings.pop("bound_compiler_leg", None)]
    res.strings["bound"] = " || ".join(x for x in b if x)


def replay(res, path, ctx):
    if "harness=c19_compiler" in open(path).read():
        runner.run_harness(res, SRC_CC, "asan", ctx["tier"], replay=path, timeout=300)
        return
    runner.run_harness(res, SRC, "asan", ctx["tier"], replay=path, timeout=300)
