"""C08 Builder/Compiler serialisation == direct assembling - exhaustive op histories on real emitters (harness/c08_builder.cpp)."""
from lib import runner

LEVEL = "model_checking"
SRC = "harness/c08_builder.cpp"


def run(res, ctx):
    tier = ctx["tier"]
    if tier == "quick":
        runner.run_harness(res, SRC, "asan", tier, deadline=1500, timeout=3000, shards=16)
    else:
        runner.run_harness(res, SRC, "asan", tier, deadline=6000, timeout=9000, shards=16)


def replay(res, path, ctx):
    runner.run_harness(res, SRC, "asan", ctx["tier"], replay=path, timeout=300)
