"""C04 relocation to any base - program x base x mode enumeration, CPU-style evaluation of the relocated image (harness/c04_reloc.cpp)."""
from lib import runner

LEVEL = "model_checking"
SRC = "harness/c04_reloc.cpp"


def run(res, ctx):
    tier = ctx["tier"]
    if tier == "quick":
        runner.run_harness(res, SRC, "asan", tier, deadline=480, timeout=1200, shards=16)
    else:
        runner.run_harness(res, SRC, "asan", tier, deadline=1500, timeout=2400, shards=16)


def replay(res, path, ctx):
    runner.run_harness(res, SRC, "asan", ctx["tier"], replay=path, timeout=300)
