"""C20 - Formatter and logger text faithfully denotes the instruction and operands.

Shape I (input space).  The cases are the ones of the C01 sweep (lib/x86cases: every db form x {32,64}-bit mode, default
instantiation + every single deviation) and of the C02 sweep (lib/a64cases: every db form, default + every single slot
deviation).  Each case is given to harness/c20_format, which emits it through the public Assembler API (strict validation for
x86 as in C01, none for AArch64 as in C02) with a StringLogger attached and, if the case is ACCEPTED, prints
  T  Formatter::format_instruction for every FormatFlags set of the tier x register mode {physical, named virtual, unnamed
     virtual, named virtual of another type of the same group (x86)} x label mode {anonymous, named, anonymous-with-name,
     local under a named parent, local under an anonymous parent} (label modes only for cases that have a label operand),
  N  Formatter::format_node of the InstNode an x86::Compiler / a64::Compiler records for the same request,
  O  Formatter::format_operand of every operand,
  G  the StringLogger content for logger flags {kMachineCode, kMachineCode|kHexImms|kHexOffsets, none}.
Oracle (this module + lib/c20parse.py, nothing of it in the harness):
  (1) parse back: the text is parsed by the harness-owned grammar (own register tables) and compared with the request:
      clauses mnemonic, prefix, reg-name, reg-size, mem-size, segment, base, index, scale, disp, broadcast, imm, mask,
      zeroing, rounding, label, shift, extend, cond, addr-mode, operand-count; text outside the grammar = unparseable.
      A logger line may additionally name what was EMITTED: `short` if a rel8 form was chosen, `rex` if a REX byte was written.
      Virtual registers: the printed name must be the one of the virtual register passed at that position; a `@type` cast
      must name the operand's register type and must be present when kRegType is set or kRegCasts is set and the types differ.
  (2) machine-code column: hex digits == the bytes the call appended; '.' only over the placeholder of a reference to a label
      that is unbound at that moment; exactly one line per instruction (AArch64 MOV-immediate expansions: one line per word).
  (3) thorough: the physical-register, flags-none text is assembled by GNU as (x86, Intel syntax) / llvm-mc (AArch64); where
      the tool accepts it, its bytes must decode like asmjit's (objdump AND llvm-objdump both differ / other word) - and the
      case is only judged when the sweep's own reference text, through the same tool, does reproduce asmjit's bytes (so that
      an encoder defect, which belongs to C01/C02, is not reported here).  Tool rejection = inconclusive.
Violation keys: fmt:<arch>:<flags>:<clause>:<mnemonic>  (arch x86|x64|a64; flags = first FormatFlags set (hex) showing it,
`log<flags>` for logger lines, `node<flags>` / `operand` for format_node / format_operand); at most CAP keys per (arch, clause)
and CAP_SIG per kind of difference are reported, keys matched by known_findings.txt do not consume the cap; totals are in the evidence.

opts: only=<mnemonic,..> (x86), forms=<regex> (a64), arch=x86|a64, budget=<seconds>, stride=<n> (x86: every n-th deviation)
"""
import os, re, sys, json, time, shutil, subprocess, collections, multiprocessing, struct

from lib import runner, vbuild
from lib import x86cases as X
from lib import c20parse as P

LEVEL = "exploration"
SRC = "harness/c20_format.cpp"
SRC_FAILMSG = "harness/c20_failmsg.cpp"
NWORK = 16
CAP = 12
CAP_SIG = 2
FLAG_BITS = (0x1, 0x8, 0x10, 0x20, 0x40, 0x100, 0x200, 0x400)
F_MACHINE, F_ALIASES, F_EXPLAIN, F_HEXIMM, F_HEXOFF, F_CASTS, F_POS, F_TYPE = FLAG_BITS
F_ALL = 0x779
FLAGS_QUICK = [0, 0x1, 0x8, 0x10, 0x20, 0x40, 0x100, 0x400, 0x60, F_ALL]
LOGFLAGS_QUICK = [0x1, 0x61, 0x0]
LOGFLAGS_THOROUGH = [0x1, 0x61, F_ALL, 0x0]
ASSUMPTIONS = [
    "cases = accepted cases of the C01 / C02 sweeps with at most one deviation from the default instantiation (finite alphabets "
    "of lib/x86cases.py / lib/a64cases.py), plus (x86) the default memory operand given as [label] / [label+16] with a bound and "
    "with a forward (unbound) label",
    "format flag sets: quick = none, each single flag, kHexImms|kHexOffsets, all; thorough = all 256 subsets of the 8 flag bits",
    "a register id without an architectural name (accepted only through known C01/C02 defects) is not judged for its name",
    "memory sizes without an Intel keyword (m14/m28/m94/m108/m512...) may be printed without a size",
    "AArch64: arm::Shift(LSL, n) is the same Imm as n, Imm(CondCode) and Imm(double) are plain immediates of the API - printing "
    "their integer value is accepted; virtual registers have no size notation on AArch64 (kRegType / kRegCasts are x86 only)",
    "kExplainImms: comparison-predicate names and bit-field lists are checked against the SDM tables, other explanations only "
    "syntactically",
    "third-party round trip (thorough): binutils / LLVM 14 syntax differs from asmjit's; rejected text is inconclusive",
]


def all_flag_sets():
    out = []
    for m in range(1 << len(FLAG_BITS)):
        v = 0
        for i, b in enumerate(FLAG_BITS):
            if m & (1 << i):
                v |= b
        out.append(v)
    return sorted(out)


def tier_flags(tier):
    if tier == "thorough":
        return all_flag_sets(), LOGFLAGS_THOROUGH
    return FLAGS_QUICK, LOGFLAGS_QUICK


def _workdir(tag):
    d = os.path.join(vbuild.BUILD, "c20", tag)
    os.makedirs(d, exist_ok=True)
    return d


# ---------------------------------------------------------------------------------------------------------------------
# harness i/o
# ---------------------------------------------------------------------------------------------------------------------
class Rec(object):
    """Everything c20_format printed about one case."""
    __slots__ = ("tag", "err", "errname", "hex", "delta", "info", "labels", "vmaps", "T", "N", "O", "G", "X")

    def __init__(self, p):
        self.tag, self.err, self.errname, self.hex, self.delta, self.info = p[1], int(p[2]), p[3], p[4], int(p[5]), p[6] if len(p) > 6 else ""
        self.labels = {}     # lm -> ({n: id}, parent id)
        self.vmaps = {}      # (lm, rm) -> {(group, phys): (index, vtype)}
        self.T = []          # (rm, lm, [flag indexes], text)
        self.N = []
        self.O = None        # (lm, [texts])
        self.G = []          # (lm, logflags, unbound, hex, content)
        self.X = []


def _bits(hexmap):
    v = int(hexmap, 16)
    out = []
    i = 0
    while v:
        if v & 1:
            out.append(i)
        v >>= 1
        i += 1
    return out


def read_records(path):
    cur = None
    lm_cur = "-"
    with open(path, errors="replace") as f:
        for line in f:
            line = line.rstrip("\n")
            if not line:
                continue
            k = line[0]
            if k == "C" and line[1:2] == "\t":
                if cur is not None:
                    yield cur
                cur = Rec(line.split("\t"))
                lm_cur = "-"
                continue
            if cur is None:
                continue
            p = line.split("\t")
            if k == "T" or k == "N":
                text = "\t".join(p[3:])
                (cur.T if k == "T" else cur.N).append((p[1][0], p[1][1], _bits(p[2]), text))
            elif k == "B":
                ids, par = {}, None
                for kv in p[2].split(","):
                    a, _, b = kv.partition("=")
                    if a == "par":
                        par = int(b)
                    else:
                        ids[int(a)] = int(b)
                cur.labels[p[1]] = (ids, par)
                lm_cur = p[1]
            elif k == "V":
                vm = {}
                for kv in p[2].split(","):
                    a, _, b = kv.partition("=")
                    g, _, ph = a.partition(".")
                    ix, _, vt = b.partition(":")
                    vm[(g, int(ph))] = (int(ix), int(vt))
                cur.vmaps[(lm_cur, p[1])] = vm
            elif k == "O":
                cur.O = (p[1], p[2].split("\x1f") if len(p) > 2 and p[2] != "" else [])
            elif k == "G":
                cur.G.append((p[1], int(p[2], 16), p[3] == "1", p[4], "\t".join(p[5:])))
            elif k == "X":
                cur.X.append("\t".join(p[1:]))
    if cur is not None:
        yield cur


def run_harness(exe, arch, lines, flags, logflags, workdir, tag):
    inp = os.path.join(workdir, tag + ".in")
    outp = os.path.join(workdir, tag + ".out")
    with open(inp, "w") as f:
        for i, l in enumerate(lines):
            f.write("%d\t%s\n" % (i, l))
    r = subprocess.run([exe, "--arch", arch, "--flags", ",".join("%x" % x for x in flags), "--logflags", ",".join("%x" % x for x in logflags),
                        "--in", inp, "--out", outp], stdout=subprocess.PIPE, stderr=subprocess.PIPE)
    crash = None
    if r.returncode != 0:
        err = r.stderr.decode("utf-8", "replace")
        cur = None
        for l in err.split("\n"):
            if l.startswith("VH-CURRENT-CASE: "):
                cur = l[len("VH-CURRENT-CASE: "):]
        crash = (r.returncode, cur, err[-1500:])
    return outp, crash


# ---------------------------------------------------------------------------------------------------------------------
# oracle helpers shared by both architectures
# ---------------------------------------------------------------------------------------------------------------------
class Ctx(object):
    """What the oracle knows about one formatted text."""
    __slots__ = ("rm", "lm", "flagsets", "vmap", "label_ids", "label_parent", "kind", "hexbytes", "mode")

    def __init__(self, rm, lm, flagsets, vmap, labels, kind="T", hexbytes=None, mode=64):
        self.rm, self.lm, self.flagsets, self.vmap, self.kind, self.hexbytes, self.mode = rm, lm, flagsets, vmap or {}, kind, hexbytes, mode
        self.label_ids, self.label_parent = labels if labels else ({}, None)


def expected_label(n, ctx):
    ids = ctx.label_ids
    if n not in ids:
        return None
    lm = ctx.lm
    if lm in ("a", "-"):
        return ("anon", ids[n])
    if lm == "n":
        return ("name", "glob%d" % n)
    if lm == "x":
        return ("anon-named", ids[n], "anon%d" % n)
    if lm == "l":
        return ("local", ("name", "par"), "loc%d" % n)
    if lm == "m":
        return ("local", ("anon", ctx.label_parent), "loc%d" % n)
    return None


def cmp_label(n, spec, ctx, where, out):
    exp = expected_label(n, ctx)
    if exp is None:
        return
    if spec != exp:
        out.append(("label", "%s: label %d must read %s, the text has %s" % (where, n, _label_text(exp), _label_text(spec) if spec else "no label")))


def _label_text(spec):
    if spec is None:
        return "?"
    if spec[0] == "anon":
        return "L%d" % spec[1]
    if spec[0] == "name":
        return spec[1]
    if spec[0] == "anon-named":
        return "L%d@%s" % (spec[1], spec[2])
    if spec[0] == "local":
        return "%s.%s" % (_label_text(spec[1]), spec[2])
    return repr(spec)


VNAME_PREFIX = {"g": "vg", "v": "vv", "k": "vk", "m": "vm"}


def expected_vname(group, rid, ctx):
    e = ctx.vmap.get((group, rid))
    if e is None:
        return None, None
    if ctx.rm == "u":
        return "%%%d" % e[0], e[1]
    return "%s%d" % (VNAME_PREFIX[group], rid), e[1]


# ---------------------------------------------------------------------------------------------------------------------
# x86 oracle
# ---------------------------------------------------------------------------------------------------------------------
X86_GROUP = {"r8": "g", "r8hi": "g", "r16": "g", "r32": "g", "r64": "g", "xmm": "v", "ymm": "v", "zmm": "v", "k": "k", "mm": "m"}
X86_REGTYPE = {"r8": 2, "r8hi": 3, "r16": 4, "r32": 5, "r64": 6, "xmm": 11, "ymm": 12, "zmm": 13, "k": 16, "mm": 28}
_NAME_OF = {}
for _n, (_k, _i, _b) in P.X86_REGS.items():
    if not _n.startswith("st("):
        _NAME_OF.setdefault((_k, _i), _n)
_OPT_NAMES = [("vex", "vex"), ("vex3", "vex3"), ("evex", "evex"), ("modrm", "modrm"), ("modmr", "modmr"), ("short", "short"),
              ("long", "long"), ("xacquire", "xacquire"), ("xrelease", "xrelease"), ("lock", "lock"), ("rep", "rep"),
              ("repne", "repne"), ("rex", "rex")]
_LEGACY_PREFIX = {0xF0, 0xF2, 0xF3, 0x2E, 0x36, 0x3E, 0x26, 0x64, 0x65, 0x66, 0x67}

# comparison predicates (Intel SDM vol.2 CMPPD Table 3-1 / VCMPPD; AMD APM vol.6 VPCOM)
_VCMP = ["EQ_OQ", "LT_OS", "LE_OS", "UNORD_Q", "NEQ_UQ", "NLT_US", "NLE_US", "ORD_Q", "EQ_UQ", "NGE_US", "NGT_US", "FALSE_OQ",
         "NEQ_OQ", "GE_OS", "GT_OS", "TRUE_UQ", "EQ_OS", "LT_OQ", "LE_OQ", "UNORD_S", "NEQ_US", "NLT_UQ", "NLE_UQ", "ORD_S",
         "EQ_US", "NGE_UQ", "NGT_UQ", "FALSE_OS", "NEQ_OS", "GE_OQ", "GT_OQ", "TRUE_US"]
_CMP_SHORT = ["EQ", "LT", "LE", "UNORD", "NEQ", "NLT", "NLE", "ORD"]
_VPCMP = [("EQ",), ("LT",), ("LE",), ("FALSE",), ("NEQ", "NE"), ("NLT", "GE"), ("NLE", "GT"), ("TRUE",)]
_VPCOM = [("LT",), ("LE",), ("GT",), ("GE",), ("EQ",), ("NEQ", "NE"), ("FALSE",), ("TRUE",)]


# instructions whose imm8 is a list of equally wide selector / mask fields (SDM: PSHUFD, PSHUFxW, VPERMQ/PD, VPERMILPS/PD,
# BLENDPS/PD, PBLENDW, VPBLENDD, DPPS/PD, VPTERNLOG, VSHUFF/I, VDBPSADBW); a numeric list explanation must be those fields
_BITFIELD_LIST = re.compile(r"^v?pshuf(d|hw|lw|w)$|^vperm(q|pd)$|^vpermilp[sd]$|^v?blendp[sd]$|^v?pblend[wd]$|^v?dpp[sd]$|^vpternlog[dq]$|"
                            r"^vshuf[fi](32x4|64x2)$|^vdbpsadbw$")


def check_explanation(name, value, text):
    """Returns None (fine / not judged) or a description of what is wrong.  `checked` is reported through the return of
    explanation_checked()."""
    u8 = value & 0xFF
    if re.match(r"^v?cmp[ps][sdh]$", name):
        bits = 5 if name.startswith("v") else 3
        p = u8 & ((1 << bits) - 1)
        ok = (_VCMP[p],) + ((_CMP_SHORT[p],) if p < 8 else ())
        return None if text in ok else "predicate %d is %s, the explanation says %s" % (p, _VCMP[p], text)
    if re.match(r"^vpcmpu?[bwdq]$", name):
        p = u8 & 7
        return None if text in _VPCMP[p] else "predicate %d is %s, the explanation says %s" % (p, "/".join(_VPCMP[p]), text)
    if re.match(r"^vpcomu?[bwdq]$", name):
        p = u8 & 7
        return None if text in _VPCOM[p] else "predicate %d is %s, the explanation says %s" % (p, "/".join(_VPCOM[p]), text)
    parts = text.split("|")
    if _BITFIELD_LIST.match(name) and all(re.match(r"^[0-9]+$", x) for x in parts):
        vals = [int(x) for x in parts]
        n = len(vals)
        for b in (1, 2):
            if n * b > 8:
                continue
            if all(vals[i] == (u8 >> (b * (n - 1 - i))) & ((1 << b) - 1) for i in range(n)):
                return None
        return "the fields {%s} are not consecutive bit fields of the immediate %#x" % (text, u8)
    return None


def explanation_checked(name, text):
    return bool(re.match(r"^v?cmp[ps][sdh]$|^vpcmpu?[bwdq]$|^vpcomu?[bwdq]$", name)) or \
        bool(_BITFIELD_LIST.match(name)) and all(re.match(r"^[0-9]+$", x) for x in text.split("|"))


def x86_cmp_reg(given, parsed, ctx, where, out, stats, allow_none=False):
    """given: (kind, id).  parsed: tuple of c20parse.  Appends (clause, detail, flagset or None) to out."""
    kind, rid = given
    group = X86_GROUP.get(kind)
    vname, vtype = (None, None)
    if ctx.rm != "p" and group is not None:
        vname, vtype = expected_vname(group, rid, ctx)
    if vname is not None:
        if parsed is None or parsed[0] not in ("vreg", "ident"):
            out.append(("reg-name", "%s: virtual register %s expected, the text has %s" % (where, vname, _show(parsed)), None))
            return
        name = parsed[1]
        cast = parsed[2] if parsed[0] == "vreg" else None
        if name != vname:
            out.append(("reg-name", "%s: virtual register %s was passed, the text names %s" % (where, vname, name), None))
            return
        if cast is not None and cast != kind:
            out.append(("reg-size", "%s: %s was passed as %s, the cast says %s" % (where, vname, kind, cast), None))
            return
        if cast is None:
            for fs in ctx.flagsets:
                need = (fs & F_TYPE) or ((fs & F_CASTS) and vtype != X86_REGTYPE[kind])
                if need:
                    out.append(("reg-size", "%s: %s (virtual register type %d) used as %s: no @type although %s is set" % (
                        where, vname, vtype, kind, "kRegType" if fs & F_TYPE else "kRegCasts"), fs))
                    break
        return
    exp = _NAME_OF.get((kind, rid))
    if parsed is None:
        out.append(("reg-name", "%s: register %s expected, the text has none" % (where, exp or "%s#%d" % (kind, rid)), None))
        return
    if parsed[0] == "reg":
        if (parsed[1], parsed[2]) == (kind, rid):
            return
        same_reg = X86_GROUP.get(parsed[1]) is not None and X86_GROUP.get(parsed[1]) == group and parsed[2] == rid and "r8hi" not in (kind, parsed[1])
        out.append(("reg-size" if same_reg else "reg-name", "%s: %s was given, the text says %s" % (where, exp or "%s#%d" % (kind, rid), _NAME_OF.get((parsed[1], parsed[2]))), None))
        return
    if parsed[0] == "regx" and exp is None:
        stats["no_architectural_name"] += 1
        if (parsed[1], parsed[2]) != (kind, rid):
            out.append(("reg-name", "%s: %s#%d was given, the text says %s@%d" % (where, kind, rid, parsed[1], parsed[2]), None))
        return
    out.append(("reg-name", "%s: %s was given, the text says %s" % (where, exp or "%s#%d" % (kind, rid), _show(parsed)), None))


def _show(p):
    if p is None:
        return "nothing"
    if p[0] == "reg":
        return _NAME_OF.get((p[1], p[2]), "%s#%d" % (p[1], p[2]))
    if p[0] in ("vreg", "ident"):
        return "'%s'" % p[1]
    if p[0] == "label?":
        return "'%s'" % p[1]
    return repr(p)


def x86_cmp_mem(m, pm, ctx, where, out, stats, with_bcst=True):
    # size
    if m.size in P.X86_SIZES_WITH_KEYWORD:
        if pm.size != m.size:
            out.append(("mem-size", "%s: %d-byte access, the text says %s" % (where, m.size, ("%d bytes" % pm.size) if pm.size else "no size"), None))
    elif m.size == 0:
        if pm.size:
            out.append(("mem-size", "%s: no size was given, the text says %d bytes" % (where, pm.size), None))
    else:
        stats["mem_size_without_keyword"] += 1
        if pm.size and pm.size != m.size:
            out.append(("mem-size", "%s: %d-byte access, the text says %d bytes" % (where, m.size, pm.size), None))
    if pm.seg != m.seg:
        out.append(("segment", "%s: segment %s given, the text has %s" % (where, X._SEG[m.seg] if 0 < m.seg < 7 else m.seg, X._SEG[pm.seg] if pm.seg else "none"), None))
    if pm.addr != m.addr:
        out.append(("base", "%s: address type %s given, the text says %s" % (where, ("default", "abs", "rel")[m.addr] if m.addr < 3 else m.addr, ("nothing", "abs", "rel")[pm.addr]), None))
    # base / index.  '[reg+disp]' does not tell a base from an unscaled index and need not: the address is the same
    if (m.base is None or m.base == "abs") and m.index is not None and m.shift == 0:
        m = m.replace(base=m.index, index=None)
    if pm.base is None and pm.index is not None and pm.scale == 1:
        pm.base, pm.index = pm.index, None
    b = m.base
    if b is None or b == "abs":
        if pm.base is not None:
            out.append(("base", "%s: no base register given, the text has %s" % (where, _show(pm.base)), None))
    elif b[0] == "label":
        spec = pm.base[2] if (pm.base is not None and pm.base[0] == "label?") else None
        if spec is None:
            out.append(("label", "%s: label %d is the base, the text has %s" % (where, b[1], _show(pm.base)), None))
        else:
            tmp = []
            cmp_label(b[1], spec, ctx, where + " base", tmp)
            out.extend((c, d, None) for c, d in tmp)
    else:
        pb = pm.base
        if pb is not None and pb[0] == "label?":
            pb = pb[3] if pb[3] is not None else ("ident", pb[1])
        tmp = []
        x86_cmp_reg((b[0], b[1]), pb, ctx, where + " base", tmp, stats)
        out.extend(("base" if c == "reg-name" else c, d, f) for c, d, f in tmp)
    # index / scale
    if m.index is None:
        if pm.index is not None:
            out.append(("index", "%s: no index register given, the text has %s" % (where, _show(pm.index)), None))
    else:
        tmp = []
        x86_cmp_reg((m.index[0], m.index[1]), pm.index, ctx, where + " index", tmp, stats)
        out.extend(("index" if c == "reg-name" else c, d, f) for c, d, f in tmp)
        if pm.index is not None and pm.scale != (1 << m.shift):
            out.append(("scale", "%s: scale %d given, the text says %d" % (where, 1 << m.shift, pm.scale), None))
    # displacement
    gd = m.disp
    if (pm.disp - gd) & (P.MASK64 if ctx.mode == 64 else 0xFFFFFFFF):      # addresses wrap at the mode's address width
        out.append(("disp", "%s: displacement %d (%#x) given, the text says %d (%#x)" % (where, gd, gd & P.MASK64, pm.disp, pm.disp & P.MASK64), None))
    if with_bcst and pm.bcst != m.bcst:
        out.append(("broadcast", "%s: broadcast %s given, the text says %s" % (where, "{1to%d}" % m.bcst if m.bcst else "none", "{1to%d}" % pm.bcst if pm.bcst else "none"), None))


def x86_cmp_operand(i, g, p, c, ctx, out, stats, with_bcst=True):
    where = "operand %d" % i
    t = g[0]
    if t == "r":
        if p[0] == "ident" and len(p) > 2:
            p = ("ident", p[1])
        x86_cmp_reg((g[1], g[2]), p if p[0] in ("reg", "regx", "vreg", "ident") else None, ctx, where, out, stats)
        if p[0] not in ("reg", "regx", "vreg", "ident"):
            pass
    elif t == "m":
        if p[0] != "mem":
            out.append(("operand-count", "%s: a memory operand was given, the text has %s" % (where, _show(p)), None))
            return
        x86_cmp_mem(g[1], p[1], ctx, where, out, stats, with_bcst)
    elif t == "i":
        if p[0] != "imm":
            out.append(("imm", "%s: immediate %d was given, the text has %s" % (where, g[1], _show(p)), None))
        elif (p[1] - g[1]) & P.MASK64:
            out.append(("imm", "%s: immediate %d (%#x) was given, the text says %d (%#x)" % (where, g[1], g[1] & P.MASK64, p[1], p[1] & P.MASK64), None))
    elif t == "l":
        spec = p[1] if p[0] == "label" else (p[2] if p[0] == "ident" and len(p) > 2 else None)
        if spec is None:
            out.append(("label", "%s: label %d was given, the text has %s" % (where, g[1], _show(p)), None))
        else:
            tmp = []
            cmp_label(g[1], spec, ctx, where, tmp)
            out.extend((cl, d, None) for cl, d in tmp)


def x86_expected_prefixes(c):
    return set(n for n, k in _OPT_NAMES if c.opts & X.OPT[k])


def x86_has_rex_byte(hexbytes):
    b = bytes.fromhex(hexbytes)
    i = 0
    while i < len(b) and b[i] in _LEGACY_PREFIX:
        i += 1
    return i < len(b) and (b[i] & 0xF0) == 0x40


def x86_compare(c, inst, ctx, stats):
    """-> list of (clause, detail, flagset or None)"""
    out = []
    # mnemonic
    want = P.x86_mnemonic_canon(c.name)
    for mn in inst.mnemonics:
        if P.x86_mnemonic_canon(mn) != want:
            out.append(("mnemonic", "'%s' was requested, the text says '%s'" % (c.name, "|".join(inst.mnemonics)), None))
            break
    # prefixes / options
    exp = x86_expected_prefixes(c)
    got = set(inst.prefixes)
    if len(got) != len(inst.prefixes):
        out.append(("prefix", "a prefix is printed twice: %s" % " ".join(inst.prefixes), None))
    extra, missing = got - exp, exp - got
    if ctx.kind == "G" and ctx.hexbytes:
        # the logger names what was emitted
        if "short" in extra and len(ctx.hexbytes) // 2 <= 4:
            extra.discard("short")
        if "rex" in extra and ctx.mode == 64 and x86_has_rex_byte(ctx.hexbytes):
            extra.discard("rex")
    if extra or missing:
        out.append(("prefix", "options given {%s}, the text has {%s}" % (" ".join(sorted(exp)), " ".join(inst.prefixes)), None))
    rep_given = c.extra if (c.extra is not None and c.extra[0] != "k" and (c.opts & (X.OPT["rep"] | X.OPT["repne"]))) else None
    if rep_given is not None:
        if inst.rep_reg is None:
            out.append(("prefix", "rep count register %s#%d was given, the text shows none" % rep_given, None))
        else:
            x86_cmp_reg(rep_given, inst.rep_reg, ctx, "rep count register", out, stats)
    elif inst.rep_reg is not None:
        out.append(("prefix", "no rep count register was given, the text shows %s" % _show(inst.rep_reg), None))
    # operands
    if len(inst.ops) != len(c.ops):
        out.append(("operand-count", "%d operands were given, the text has %d" % (len(c.ops), len(inst.ops)), None))
    else:
        for i, (g, p) in enumerate(zip(c.ops, inst.ops)):
            x86_cmp_operand(i, g, p, c, ctx, out, stats)
            if i in inst.explains and g[0] == "i":
                stats["explanations"] += 1
                if explanation_checked(c.name, inst.explains[i]):
                    stats["explanations_checked"] += 1
                why = check_explanation(c.name, g[1], inst.explains[i])
                if why:
                    out.append(("imm", "operand %d: %s" % (i, why), None))
    # decorations
    mask_given = c.extra if (c.extra is not None and c.extra[0] == "k") else None
    if mask_given is not None:
        if inst.mask is None:
            out.append(("mask", "mask {k%d} was given, the text shows none" % mask_given[1], None))
        else:
            tmp = []
            x86_cmp_reg(mask_given, inst.mask, ctx, "mask", tmp, stats)
            out.extend(("mask" if cl == "reg-name" else cl, d, f) for cl, d, f in tmp)
    elif inst.mask is not None:
        out.append(("mask", "no mask was given, the text shows {%s}" % _show(inst.mask), None))
    if bool(c.opts & X.OPT["z"]) != inst.zeroing:
        out.append(("zeroing", "{z} %s given, the text %s it" % ("was" if c.opts & X.OPT["z"] else "was not", "shows" if inst.zeroing else "does not show"), None))
    exp_r = None
    if c.opts & X.OPT["er"]:
        exp_r = {0: "rn", X.OPT["rd"]: "rd", X.OPT["ru"]: "ru", X.OPT["rz"]: "rz"}[c.opts & X.OPT["rz"]]
    elif c.opts & X.OPT["sae"]:
        exp_r = "sae"
    if exp_r != inst.rounding:
        out.append(("rounding", "rounding/sae %s given, the text says %s" % (exp_r, inst.rounding), None))
    return out


def x86_arch(c):
    return "x64" if c.mode == 64 else "x86"


# ---------------------------------------------------------------------------------------------------------------------
# AArch64 oracle
# ---------------------------------------------------------------------------------------------------------------------
def a64_cmp_reg(g, p, ctx, where, out, stats):
    """g: given register tuple (c20parse form).  p: parsed operand of the text."""
    if g[0] == "gp":
        group, rid = "g", g[2]
        virt = ctx.rm != "p" and isinstance(rid, int)
    else:
        group, rid = "v", g[2]
        virt = ctx.rm != "p"
    vname = None
    if virt:
        vname, _ = expected_vname(group, rid, ctx)
    if vname is not None:
        name = None
        if p is not None and p[0] == "vreg":
            name = p[1]
        elif p is not None and p[0] in ("ident", "label?"):
            name = p[1]
        if name != vname:
            out.append(("reg-name", "%s: virtual register %s was passed, the text has %s" % (where, vname, _a64_show(p))))
            return
        stats["a64_vreg_size_not_shown"] += 1
        if g[0] == "vec":
            pe = p[3] if p[0] == "vreg" else None
            pb = p[2] if p[0] == "vreg" else None
            pi = p[4] if p[0] == "vreg" else None
            if g[3] is not None or pe is not None:
                if pe != g[3]:
                    out.append(("reg-size", "%s: element type %s given, the text says %s" % (where, g[3], pe)))
                elif g[1] is not None and pb is not None and pb != g[1]:
                    out.append(("reg-size", "%s: a %d-bit arrangement was given, the text shows a %d-bit one" % (where, g[1], pb)))
            if pi != g[4]:
                out.append(("index", "%s: element index %s given, the text says %s" % (where, g[4], pi)))
        return
    if p is None or p[0] != g[0]:
        out.append(("reg-name", "%s: %s was given, the text has %s" % (where, _a64_show(g), _a64_show(p))))
        return
    if g[0] == "gp":
        if p[2] != g[2]:
            out.append(("reg-name", "%s: %s was given, the text says %s" % (where, _a64_show(g), _a64_show(p))))
        elif p[1] != g[1]:
            out.append(("reg-size", "%s: %s was given, the text says %s" % (where, _a64_show(g), _a64_show(p))))
        if isinstance(g[2], int) and g[2] > 30:
            stats["no_architectural_name"] += 1
        return
    if p[2] != g[2]:
        out.append(("reg-name", "%s: %s was given, the text says %s" % (where, _a64_show(g), _a64_show(p))))
        return
    if p[3] != g[3]:
        out.append(("reg-size", "%s: %s was given, the text says %s (element type)" % (where, _a64_show(g), _a64_show(p))))
    elif g[1] is not None and p[1] is not None and g[1] != p[1]:
        out.append(("reg-size", "%s: %s (%d bits) was given, the text says %s (%d bits)" % (where, _a64_show(g), g[1], _a64_show(p), p[1])))
    if p[4] != g[4]:
        out.append(("index", "%s: element index %s given, the text says %s" % (where, g[4], p[4])))
    if g[2] > 31:
        stats["no_architectural_name"] += 1


def _a64_show(p):
    if p is None:
        return "nothing"
    if p[0] == "gp":
        if p[2] == "zr":
            return "wzr" if p[1] == 32 else "xzr"
        if p[2] == "sp":
            return "wsp" if p[1] == 32 else "sp"
        return "%s%d" % ("w" if p[1] == 32 else "x", p[2])
    if p[0] == "vec":
        if p[3] is None:
            return "%s%d" % ({8: "b", 16: "h", 32: "s", 64: "d", 128: "q"}.get(p[1], "v"), p[2])
        e = p[3]
        if p[4] is not None:
            return "v%d.%s[%d]" % (p[2], e, p[4])
        n = p[1] // P._ESIZE[e[0]] if p[1] else 0
        return "v%d.%d%s" % (p[2], n, e)
    if p[0] in ("vreg", "ident", "label?"):
        return "'%s'" % p[1]
    return repr(p)


def a64_cmp_label(n, p, ctx, where, out):
    spec = None
    if p is not None:
        if p[0] == "label":
            spec = p[1]
        elif p[0] in ("ident", "label?"):
            spec = p[2]
    if spec is None:
        out.append(("label", "%s: label %d was given, the text has %s" % (where, n, _a64_show(p))))
    else:
        cmp_label(n, spec, ctx, where, out)


def _norm_ext(e):
    if e is None or (e[0] == "lsl" and e[1] == 0):
        return None
    return e


# LDR/STR (immediate) with an offset only the unscaled encoding can hold are assembled as LDUR/STUR (Arm ARM C6.2: "LDUR ...
# unscaled offset"); a logger line may name the instruction that was emitted
A64_UNSCALED = {"ldr": "ldur", "str": "stur", "ldrb": "ldurb", "strb": "sturb", "ldrh": "ldurh", "strh": "sturh", "ldrsb": "ldursb",
                "ldrsh": "ldursh", "ldrsw": "ldursw", "prfm": "prfum"}


def a64_compare(given, inst, ctx, stats):
    out = []
    if inst.mnemonics != given.mnemonics:
        for mn in inst.mnemonics:
            if ctx.kind == "G" and mn == A64_UNSCALED.get(given.mnemonics[0]):
                stats["a64_logger_names_emitted_unscaled_form"] += 1
                continue
            if mn != given.mnemonics[0]:
                out.append(("mnemonic", "'%s' was requested, the text says '%s'" % (given.mnemonics[0], "|".join(inst.mnemonics))))
                break
    gc = given.cond
    if gc == 14 and inst.cond is None:
        gc = None            # CondCode::kAL is the API's "no condition"
    if gc != inst.cond:
        out.append(("cond", "condition %s was requested, the text says %s" % (given.cond_text, inst.cond_text)))
    if len(inst.ops) != len(given.ops):
        out.append(("operand-count", "%d operands were given, the text has %d" % (len(given.ops), len(inst.ops))))
        return out
    for i, (g, p) in enumerate(zip(given.ops, inst.ops)):
        where = "operand %d" % i
        t = g[0]
        if t in ("gp", "vec"):
            a64_cmp_reg(g, p, ctx, where, out, stats)
        elif t == "imm":
            if len(g) > 2 and g[2] == "cond" and p[0] == "cond":
                if p[1] != g[3]:
                    out.append(("cond", "%s: condition operand mismatch" % where))
                continue
            if p[0] != "imm":
                out.append(("imm", "%s: immediate %d was given, the text has %s" % (where, g[1], _a64_show(p))))
            elif (p[1] - g[1]) & P.MASK64:
                out.append(("imm", "%s: immediate %d (%#x) was given, the text says %d" % (where, g[1], g[1] & P.MASK64, p[1])))
            elif len(g) > 2 and g[2] == "float":
                stats["a64_float_imm_printed_as_bits"] += 1
        elif t == "shift":
            cl = "extend" if g[1][1:3] == "xt" else "shift"
            if p[0] != "shift" or p[1] != g[1]:
                out.append((cl, "%s: '%s #%d' was given, the text has %s" % (where, g[1], g[2], ("'%s %d'" % (p[1], p[2])) if p[0] == "shift" else _a64_show(p))))
            elif p[2] != g[2]:
                out.append((cl, "%s: '%s #%d' was given, the text says amount %d" % (where, g[1], g[2], p[2])))
        elif t == "label":
            a64_cmp_label(g[1], p, ctx, where, out)
        elif t == "mem":
            if p[0] != "mem":
                out.append(("operand-count", "%s: a memory operand was given, the text has %s" % (where, _a64_show(p))))
                continue
            gm, pm = g[1], p[1]
            if gm.base is None:
                out.append(("base", "%s: absolute address operand" % where))
                continue
            if gm.base[0] == "label":
                a64_cmp_label(gm.base[1], pm.base, ctx, where + " base", out)
            else:
                tmp = []
                a64_cmp_reg(gm.base, pm.base, ctx, where + " base", tmp, stats)
                out.extend(("base" if c == "reg-name" else c, d) for c, d in tmp)
            if gm.index is None:
                if pm.index is not None:
                    out.append(("index", "%s: no index register given, the text has %s" % (where, _a64_show(pm.index))))
            else:
                tmp = []
                a64_cmp_reg(gm.index, pm.index, ctx, where + " index", tmp, stats)
                out.extend(("index" if c == "reg-name" else c, d) for c, d in tmp)
            if ((pm.off if pm.has_off else 0) - gm.off) & P.MASK64:
                out.append(("disp", "%s: offset %d given, the text says %s" % (where, gm.off, pm.off if pm.has_off else "none")))
            if pm.mode != gm.mode and gm.mode == "post" and gm.index is None and gm.off == 0 and pm.mode == "off":
                stats["a64_zero_writeback_shown_as_plain"] += 1     # [Xn], #0 and [Xn] have the same architectural effect
            elif pm.mode != gm.mode:
                out.append(("addr-mode", "%s: addressing mode %s given, the text shows %s" % (where, gm.mode, pm.mode)))
            ge, pe = _norm_ext(gm.ext), _norm_ext(pm.ext)
            if ge != pe:
                cl = "extend" if (ge or pe)[0][1:3] == "xt" else "shift"
                out.append((cl, "%s: index modifier %s given, the text shows %s" % (where, ("'%s #%d'" % ge) if ge else "none", ("'%s %d'" % pe) if pe else "none")))
    return out


# ---------------------------------------------------------------------------------------------------------------------
# judging one case (both architectures)
# ---------------------------------------------------------------------------------------------------------------------
class Out(object):
    def __init__(self):
        self.cnt = collections.Counter()
        self.viol = {}          # key -> [desc, replay, count]
        self.samples = []
        self.errors = []
        self.clause_cases = collections.Counter()
        self.forms_accepted = set()
        self.unparse_samples = []
        self.rt_rejected = []

    def violation(self, key, desc, replay):
        v = self.viol.get(key)
        if v is None:
            self.viol[key] = [desc, replay, 1]
        else:
            v[2] += 1


class Judge(object):
    """Architecture specific parts: parse(text), compare(parsed, ctx) -> [(clause, detail, flagset?)], emit line, replay."""

    def __init__(self, arch, flags, logflags, out):
        self.arch, self.flags, self.logflags, self.out = arch, flags, logflags, out
        self.cache = {}

    def parse(self, text):
        r = self.cache.get(text)
        if r is None:
            try:
                r = (self.parser(text), None)
            except P.ParseError as e:
                r = (None, str(e))
            if len(self.cache) > 200000:
                self.cache.clear()
            self.cache[text] = r
        return r

    def report(self, case, archname, mnemonic, flagtag, clause, desc, emit, replay):
        key = "fmt:%s:%s:%s:%s" % (archname, flagtag, clause, mnemonic)
        self.out.cnt["violating_texts"] += 1
        self.out.clause_cases[(archname, clause)] += 1
        self.out.violation(key, "%s  ::  %s" % (emit, desc), replay)

    def judge_text(self, case, rec, kind, rm, lm, flagidx, text, archname, mnemonic, emit, replay, hexbytes=None, flagtag_prefix="", mode=64):
        o = self.out
        flagsets = [self.flags[i] for i in flagidx] if kind != "G" else flagidx
        o.cnt["evaluations"] += len(flagsets)
        o.cnt["distinct_nontrivial"] += 1
        ctx = Ctx(rm, lm, flagsets, rec.vmaps.get((lm, rm)), rec.labels.get(lm), kind, hexbytes, mode)
        tag0 = "%s%x" % (flagtag_prefix, flagsets[0])
        parsed, perr = self.parse(text)
        what = {"T": "format_instruction", "N": "format_node", "G": "logger", "O": "format_operand"}[kind]
        where = "%s [regs %s, labels %s, flags %s]" % (what, rm, lm, ",".join("%x" % f for f in flagsets[:6]) + ("..." if len(flagsets) > 6 else ""))
        if parsed is None:
            clause = "unparseable"
            if "not an A64 condition name" in perr:
                clause = "cond"
            self.report(case, archname, mnemonic, tag0, clause, "%s `%s`: %s" % (where, text, perr), emit, replay)
            if len(o.unparse_samples) < 20:
                o.unparse_samples.append("%s -> `%s`: %s" % (emit, text, perr))
            return None
        diffs = self.compare(case, parsed, ctx)
        seen = set()
        for d in diffs:
            clause, detail = d[0], d[1]
            fs = d[2] if len(d) > 2 and d[2] is not None else flagsets[0]
            if clause in seen:
                continue
            seen.add(clause)
            self.report(case, archname, mnemonic, "%s%x" % (flagtag_prefix, fs), clause, "%s `%s`: %s" % (where, text, detail), emit, replay)
        return parsed

    def judge_case(self, case, rec, archname, mnemonic, emit, replay, mode=64, pseudo_ok=False):
        o = self.out
        o.cnt["accepted"] += 1
        for x in rec.X:
            self.report(case, archname, mnemonic, "0", "formatter-error", "a Formatter function returned an error: %s" % x, emit, replay)
        t0 = None
        for rm, lm, fi, text in rec.T:
            self.judge_text(case, rec, "T", rm, lm, fi, text, archname, mnemonic, emit, replay, mode=mode)
            if t0 is None and rm == "p" and 0 in [self.flags[i] for i in fi]:
                t0 = text
        for rm, lm, fi, text in rec.N:
            # same text as format_instruction for the same variant: nothing new to parse
            o.cnt["node_texts"] += 1
            if any(t[0] == rm and t[1] == lm and t[3] == text for t in rec.T):
                o.cnt["evaluations"] += len(fi)
                continue
            self.judge_text(case, rec, "N", rm, lm, fi, text, archname, mnemonic, emit, replay, flagtag_prefix="node", mode=mode)
        # format_operand
        if rec.O is not None and t0 is not None:
            lm, otexts = rec.O
            o.cnt["operand_texts"] += len(otexts)
            stripped = re.sub(r",? ?\{[^{}]*\}", "", t0)
            joined = ", ".join(otexts)
            if not (stripped.endswith(" " + joined) if otexts else True):
                pseudo = "op " + joined
                o.cnt["operand_texts_parsed_separately"] += 1
                self.judge_text(self.operand_case(case), rec, "O", "p", lm, [0], pseudo, archname, mnemonic, emit, replay, flagtag_prefix="operand", mode=mode)
            else:
                o.cnt["evaluations"] += len(otexts)
        # logger
        for lm, lf, unbound, hx, content in rec.G:
            o.cnt["logger_lines"] += 1
            tag = "log%x" % lf
            lines = [l for l in content.replace("\\n", "\n").split("\n") if l != ""]
            if hx == "-":
                hx = ""
            if not lines:
                self.report(case, archname, mnemonic, tag, "log-missing", "the emit call appended %s but the logger recorded nothing" % hx, emit, replay)
                continue
            cols = []
            texts = []
            for l in lines:
                t, col = P.split_logger_line(l)
                texts.append(t)
                cols.append(col)
            if lf & F_MACHINE or any(c is not None for c in cols):
                o.cnt["machine_code_columns"] += 1
                why = check_column(cols, hx, unbound)
                if why:
                    self.report(case, archname, mnemonic, tag, "machine-code-column", "logger line(s) %r, appended bytes %s: %s" % (lines, hx, why), emit, replay)
            if len(lines) == 1 and any(t[0] == "p" and t[1] == lm and t[3] == texts[0].strip() for t in rec.T):
                o.cnt["evaluations"] += 1                     # identical to a format_instruction text judged above
                o.cnt["logger_text_identical_to_formatter"] += 1
            elif len(lines) == 1:
                self.judge_text(case, rec, "G", "p", lm, [lf], texts[0].strip(), archname, mnemonic, emit, replay, hexbytes=hx, flagtag_prefix="log", mode=mode)
            elif pseudo_ok:
                o.cnt["pseudo_sequence_log_lines"] += len(lines)
            else:
                self.report(case, archname, mnemonic, tag, "log-lines", "one instruction was emitted, the logger recorded %d lines: %r" % (len(lines), lines), emit, replay)
        return t0


def check_column(cols, hx, unbound):
    """cols: machine code column of each logger line (None = no column).  hx: bytes appended."""
    if any(c is None for c in cols):
        return "a logger line has no machine code column"
    col = "".join(cols).lower()
    if len(col) != len(hx):
        return "the column shows %d bytes, %d were appended" % (len(col) // 2, len(hx) // 2)
    dots = [i for i, ch in enumerate(col) if ch == "."]
    for i, ch in enumerate(col):
        if ch != "." and ch != hx[i]:
            return "byte %d differs (column %s, buffer %s)" % (i // 2, col[i & ~1:(i & ~1) + 2], hx[i & ~1:(i & ~1) + 2])
    if dots:
        if not unbound:
            return "placeholder dots although no unbound label is referenced"
        if dots != list(range(dots[0], dots[-1] + 1)) or dots[0] % 2 or len(dots) % 2 or len(dots) // 2 not in (1, 2, 4):
            return "placeholder dots do not cover one displacement field"
        if any(hx[i] != "0" for i in dots):
            return "placeholder dots over bytes that are not the zero placeholder"
    return None


class X86Judge(Judge):
    parser = staticmethod(P.parse_x86)

    def compare(self, c, parsed, ctx):
        if isinstance(c, tuple):        # operand pseudo case: compare the operands only
            c = c[1]
            out = []
            if len(parsed.ops) != len(c.ops):
                return [("operand-count", "format_operand texts: %d operands given, %d parsed" % (len(c.ops), len(parsed.ops)), None)]
            for i, (g, p) in enumerate(zip(c.ops, parsed.ops)):
                x86_cmp_operand(i, g, p, c, ctx, out, self.out.cnt, with_bcst=False)
            return out
        return x86_compare(c, parsed, ctx, self.out.cnt)

    def operand_case(self, c):
        return ("operands", c)


class A64Judge(Judge):
    parser = staticmethod(P.parse_a64)

    def compare(self, given, parsed, ctx):
        if isinstance(given, tuple):
            given = given[1]
            g2 = P.A64Inst()
            g2.mnemonics, g2.cond, g2.cond_text, g2.ops = parsed.mnemonics, parsed.cond, parsed.cond_text, given.ops
            given = g2
        return a64_compare(given, parsed, ctx, self.out.cnt)

    def operand_case(self, given):
        return ("operands", given)


# ---------------------------------------------------------------------------------------------------------------------
# x86 worker
# ---------------------------------------------------------------------------------------------------------------------
_G = {}


def _c01():
    from checks import c01
    return c01


def x86_replay_text(c, flags, logflags, note):
    return "C20 x86 case\narch: x86\nflags: %s\nlogflags: %s\nemit: %s\ncase: %s\n# %s\n" % (
        ",".join("%x" % f for f in flags), ",".join("%x" % f for f in logflags), X.emit_line(c), _c01().case_to_json(c), note.replace("\n", " "))


def a64_replay_text(emit, ref, flags, logflags, note):
    return "C20 a64 case\narch: a64\nflags: %s\nlogflags: %s\nemit: %s\nref: %s\n# %s\n" % (
        ",".join("%x" % f for f in flags), ",".join("%x" % f for f in logflags), emit, ref if ref else "-", note.replace("\n", " "))


def _init_worker(repo, exe, tier, run_id, deadline, stride):
    _G.update(exe=exe, tier=tier, run_id=run_id, deadline=deadline, stride=stride)
    _G["flags"], _G["logflags"] = tier_flags(tier)


def thin(cases, stride):
    """Quick-tier subsampling: the default case of every form and every stride-th deviation, rotating so that over the forms
    of one mnemonic every alphabet symbol occurs."""
    if stride <= 1:
        return cases
    out = []
    for i, c in enumerate(cases):
        if c.dev == "default" or (i % stride) == (c.form % stride):
            out.append(c)
    return out


def _x86_work(args):
    chunk_id, names, known_names = args
    out = Out()
    try:
        if time.time() > _G["deadline"]:
            out.cnt["chunks_skipped_deadline"] += 1
        else:
            _x86_work_inner(chunk_id, names, known_names, out)
    except Exception as e:   # machinery failure, never a violation
        import traceback
        out.errors.append("x86 chunk %d: %s\n%s" % (chunk_id, e, traceback.format_exc()[-1500:]))
    return _pack(out)


def _pack(out):
    return dict(cnt=dict(out.cnt), viol=out.viol, samples=out.samples, errors=out.errors, clause_cases=dict(out.clause_cases),
                forms_accepted=sorted(out.forms_accepted), unparse=out.unparse_samples, rt_rejected=out.rt_rejected)


def label_memory_cases(c):
    """C20's own addition to the C01 alphabet (the C01 memory alphabet has no label bases): every plain base-register memory
    operand of a default instantiation is also given as [label] / [label+16], with the label bound before the instruction
    and as a forward reference (unbound when the instruction is emitted and logged)."""
    if c.pre or c.post:
        return
    for i, o in enumerate(c.ops):
        if o[0] != "m":
            continue
        m = o[1]
        if not isinstance(m.base, tuple) or m.base[0] not in ("r32", "r64") or m.index is not None or m.bcst or m.seg:
            continue
        for tag, pre, post in (("bound", ("bind=0", "pad=16"), ()), ("fwd", (), ("pad=16", "bind=0"))):
            for d in (0, 16):
                ops = list(c.ops)
                ops[i] = ("m", m.replace(base=("label", 0), disp=d))
                yield X.Case(c.mode, c.name, c.opts, c.extra, ops, pre, post, c.form, "%s,op%d=label-%s%+d" % (c.dev, i, tag, d), c.sig)


def x86_cases_of(names, known_names, by_name, stride, cnt):
    cases = []
    seen = set()
    for name in names:
        if name not in known_names:
            continue
        for f in by_name[name]:
            if f["apx"]:
                continue
            cnt["forms_instantiated"] += 1
            for mode in f["modes"]:
                cs = []
                extra = []
                for c in X.instantiate(f, mode, k=1):
                    key = c.key()
                    if key in seen:
                        cnt["duplicate_cases"] += 1
                        continue
                    seen.add(key)
                    cs.append(c)
                    if c.dev == "default" or c.dev.endswith("=mem-default"):
                        for c2 in label_memory_cases(c):
                            key = c2.key()
                            if key not in seen:
                                seen.add(key)
                                extra.append(c2)
                cnt["label_memory_cases"] += len(extra)
                cases.extend(thin(cs, stride))
                cases.extend(extra)
    return cases


def _x86_work_inner(chunk_id, names, known_names, out):
    forms = X.load_db(vbuild.REPO)
    by_name = _G.get("by_name")
    if by_name is None:
        by_name = collections.defaultdict(list)
        for f in forms:
            by_name[f["name"]].append(f)
        _G["by_name"] = by_name
    wd = _workdir("%s-x%02d" % (_G["run_id"], chunk_id))
    try:
        cases = x86_cases_of(names, known_names, by_name, _G["stride"], out.cnt)
        x86_run_cases(cases, out, wd, _G["exe"], _G["flags"], _G["logflags"], _G["tier"], by_name)
    finally:
        shutil.rmtree(wd, ignore_errors=True)


def x86_run_cases(cases, out, wd, exe, flags, logflags, tier, by_name=None):
    lines = [X.emit_line(c) for c in cases]
    outp, crash = run_harness(exe, "x86", lines, flags, logflags, wd, "cases")
    judge = X86Judge("x86", flags, logflags, out)
    done = 0
    rt_items = {32: [], 64: []}
    for rec in read_records(outp):
        i = int(rec.tag)
        c = cases[i]
        done += 1
        out.cnt["cases"] += 1
        if rec.err != 0:
            out.cnt["rejected"] += 1
            continue
        out.forms_accepted.add(c.form)
        emit = lines[i]
        rp = x86_replay_text(c, flags, logflags, "")
        t0 = judge.judge_case(c, rec, x86_arch(c), c.name, emit, rp, mode=c.mode)
        if len(out.samples) < 3 and t0 and done % 1511 == 7:
            out.samples.append("%s -> `%s` [%s]" % (emit, t0, rec.hex))
        if tier == "thorough" and t0 and rec.hex != "-" and rec.info.startswith("r0") and "post=" not in rec.info and \
                not c.pre and not c.post and not any(o[0] == "l" or (o[0] == "m" and isinstance(o[1].base, tuple) and o[1].base[0] == "label") for o in c.ops):
            if any(o[0] == "m" and 1 <= o[1].seg <= 4 for o in c.ops):
                out.cnt["roundtrip_redundant_segment_override_not_judged"] += 1      # gas drops / refuses es cs ss ds overrides
            elif c.name in X.GAS_MNEMONIC or X.semantic_canon(c) is not c:
                # iret/popf/pushf/popa/pusha name the 16-bit forms in the manuals (and in asmjit) but the default size in gas;
                # `ret 0` is encoded as the plain `ret` (same instruction, see lib/x86cases.semantic_canon)
                out.cnt["roundtrip_dialect_difference_not_judged"] += 1
            else:
                rt_items[c.mode].append((c, bytes.fromhex(rec.hex), t0, emit, rp))
    if crash is not None:
        rc, cur, err = crash
        c = None
        if cur is not None:
            for i, l in enumerate(lines):
                if l == cur:
                    c = cases[i]
                    break
        if c is not None:
            out.violation("fmt:%s:0:crash:%s" % (x86_arch(c), c.name), "c20_format died (rc %d) in %s" % (rc, cur), x86_replay_text(c, flags, logflags, "crash"))
        else:
            out.errors.append("c20_format died rc=%d: %s" % (rc, err[-600:]))
    if done < len(cases) and crash is None:
        out.errors.append("c20_format answered %d of %d cases" % (done, len(cases)))
    out.cnt["not_executed"] += len(cases) - done
    if tier == "thorough":
        for mode in (32, 64):
            x86_roundtrip(mode, rt_items[mode], out, wd, judge)


def x86_roundtrip(mode, items, out, wd, judge):
    """(3) asmjit text -> GNU as -> bytes; decode(asmjit bytes) must equal decode(gas bytes) under objdump and llvm-objdump;
    only judged when the sweep's own Intel text reproduces asmjit's decoding through the same path."""
    if not items:
        return
    from lib import x86tools as T
    bs = [it[1] for it in items]
    texts = [it[2] for it in items]
    refs = [X.intel_text(X.semantic_canon(it[0]), length=len(it[1])) for it in items]
    tag = "rt%d" % mode
    od = T.objdump_decode(bs, mode, wd, tag + "-a")
    ld = T.llvm_decode(bs, mode, wd, tag + "-a")
    gblob, grej = T.gas_assemble(texts, mode, wd, tag + "-g")
    gs = T.blob_slots(gblob, len(items))
    god = T.decode_raw_slots(gs, mode, wd, tag + "-g", "objdump")
    gld = T.decode_raw_slots(gs, mode, wd, tag + "-g", "llvm")
    rblob, rrej = T.gas_assemble(refs, mode, wd, tag + "-r")
    rs = T.blob_slots(rblob, len(items))
    rod = T.decode_raw_slots(rs, mode, wd, tag + "-r", "objdump")
    rld = T.decode_raw_slots(rs, mode, wd, tag + "-r", "llvm")
    cnt = out.cnt
    for i, (c, b, text, emit, rp) in enumerate(items):
        cnt["roundtrip_cases"] += 1
        if i in grej:
            cnt["roundtrip_tool_rejected"] += 1
            if len(out.rt_rejected) < 40:
                out.rt_rejected.append("%s  <- %s" % (text, grej[i]))
            continue

        def same(a, g):
            if a is None or g is None or not a.known or not g.known:
                return None
            return T.normalize(a.text) == T.normalize(g.text)
        so, sl = same(od[i], god[i]), same(ld[i], gld[i])
        if so is None and sl is None:
            cnt["roundtrip_undecodable"] += 1
            continue
        if so is not False or sl is not False:
            if so is True or sl is True:
                cnt["roundtrip_decided"] += 1
            if so is False or sl is False:
                cnt["roundtrip_lone_tool_disagreement"] += 1
            continue
        # both decoders read another instruction from gas' bytes: is the reference text of the sweep read back correctly?
        ro = same(od[i], rod[i]) if refs[i] is not None and i not in rrej else None
        rl = same(ld[i], rld[i]) if refs[i] is not None and i not in rrej else None
        if ro is True or rl is True:
            cnt["roundtrip_decided"] += 1
            judge.report(c, x86_arch(c), c.name, "0", "roundtrip",
                         "format_instruction `%s` assembled by GNU as decodes as [%s | %s], asmjit's bytes %s decode as [%s | %s]" % (
                             text, T.normalize(god[i].text), T.normalize(gld[i].text), b.hex(), T.normalize(od[i].text), T.normalize(ld[i].text)), emit, rp)
        else:
            cnt["roundtrip_reference_also_differs_not_judged"] += 1


# ---------------------------------------------------------------------------------------------------------------------
# AArch64 worker
# ---------------------------------------------------------------------------------------------------------------------
def _c02():
    from checks import c02
    return c02


def _a64_work(args):
    chunk_id, form_ids = args
    out = Out()
    try:
        if time.time() > _G["deadline"]:
            out.cnt["chunks_skipped_deadline"] += 1
        else:
            _a64_work_inner(chunk_id, form_ids, out)
    except Exception as e:
        import traceback
        out.errors.append("a64 chunk %d: %s\n%s" % (chunk_id, e, traceback.format_exc()[-1500:]))
    return _pack(out)


def _a64_work_inner(chunk_id, form_ids, out):
    setup = _c02().get_setup()
    wd = _workdir("%s-a%02d" % (_G["run_id"], chunk_id))
    try:
        cases = []
        for idx in form_ids:
            plan = setup.plans[idx]
            out.cnt["forms_instantiated"] += 1
            seen = set()
            for ch in plan.cases(1):
                try:
                    c = plan.render(ch)
                except Exception:   # a64cases.Unsupported
                    out.cnt["render_unsupported"] += 1
                    continue
                if c.emit in seen:
                    out.cnt["duplicate_cases"] += 1
                    continue
                seen.add(c.emit)
                cases.append((plan, c))
        a64_run_cases(cases, out, wd, _G["exe"], _G["flags"], _G["logflags"], _G["tier"])
    finally:
        shutil.rmtree(wd, ignore_errors=True)


def a64_run_cases(cases, out, wd, exe, flags, logflags, tier):
    """cases: list of (plan or None, case-like with .emit / .ref / .form)"""
    lines = [c.emit for _, c in cases]
    outp, crash = run_harness(exe, "a64", lines, flags, logflags, wd, "cases")
    judge = A64Judge("a64", flags, logflags, out)
    done = 0
    rt = []
    for rec in read_records(outp):
        i = int(rec.tag)
        plan, c = cases[i]
        done += 1
        out.cnt["cases"] += 1
        if rec.err != 0:
            out.cnt["rejected"] += 1
            continue
        out.forms_accepted.add(c.form)
        emit = lines[i]
        rp = a64_replay_text(emit, c.ref, flags, logflags, "")
        mnemonic = emit.split(" ")[0].split("/")[0]
        try:
            given = P.parse_a64_given(emit)
        except P.ParseError as e:
            out.errors.append("request syntax not understood by the oracle: `%s`: %s" % (emit, e))
            continue
        pseudo = mnemonic == "mov" and len(rec.hex) > 8
        t0 = judge.judge_case(given, rec, "a64", mnemonic, emit, rp, pseudo_ok=pseudo)
        if len(out.samples) < 3 and t0 and done % 499 == 7:
            out.samples.append("%s -> `%s` [%s]" % (emit, t0, rec.hex))
        zero_wb = any(o[0] == "mem" and o[1].mode == "post" and o[1].index is None and o[1].off == 0 for o in given.ops)
        if tier == "thorough" and t0 and len(rec.hex) == 8 and "$" not in emit and "pc" not in emit and not zero_wb:
            rt.append((emit, c.ref, rec.hex, t0, rp, mnemonic, given))
    if crash is not None:
        rc, cur, err = crash
        if cur is not None:
            out.violation("fmt:a64:0:crash:%s" % cur.split(" ")[0], "c20_format died (rc %d) in %s" % (rc, cur), a64_replay_text(cur, None, flags, logflags, "crash"))
        else:
            out.errors.append("c20_format died rc=%d: %s" % (rc, err[-600:]))
    if done < len(cases) and crash is None:
        out.errors.append("c20_format answered %d of %d a64 cases" % (done, len(cases)))
    out.cnt["not_executed"] += len(cases) - done
    if tier == "thorough" and rt:
        a64_roundtrip(rt, out, wd, judge)


def a64_roundtrip(items, out, wd, judge):
    from lib import a64ref as ar
    res = ar.llvm_assemble([it[3] for it in items], wd)
    need_ref = [i for i, r in enumerate(res) if r[0] is not None and r[0] != items[i][2] and items[i][1]]
    refres = {}
    if need_ref:
        rr = ar.llvm_assemble([items[i][1] for i in need_ref], wd)
        refres = dict(zip(need_ref, rr))
    cnt = out.cnt
    for i, (emit, ref, hx, text, rp, mnemonic, given) in enumerate(items):
        cnt["roundtrip_cases"] += 1
        r = res[i]
        if r[0] is None:
            cnt["roundtrip_tool_rejected"] += 1
            if len(out.rt_rejected) < 40:
                out.rt_rejected.append("%s  <- %s" % (text, r[1]))
            continue
        if r[0] == hx:
            cnt["roundtrip_decided"] += 1
            continue
        rr = refres.get(i)
        if rr is not None and rr[0] == hx:
            cnt["roundtrip_decided"] += 1
            judge.report(given, "a64", mnemonic, "0", "roundtrip",
                         "format_instruction `%s` assembled by llvm-mc is %s, asmjit appended %s (llvm-mc agrees with asmjit on `%s`)" % (text, r[0], hx, ref), emit, rp)
        else:
            cnt["roundtrip_reference_also_differs_not_judged"] += 1


# ---------------------------------------------------------------------------------------------------------------------
# driver
# ---------------------------------------------------------------------------------------------------------------------
def known_mnemonics(exe, names, workdir):
    names = sorted(names)
    outp, crash = run_harness(exe, "x86", ["64 v %s 0 -" % n for n in names], [0], [1], workdir, "names")
    known = set()
    for rec in read_records(outp):
        if rec.errname != "E_NAME":
            known.add(names[int(rec.tag)])
    return known


def run(res, ctx):
    tier = ctx["tier"]
    opts = ctx["opts"]
    t0 = time.time()
    exe = vbuild.build("fast", os.path.join(vbuild.VERIF, SRC))
    flags, logflags = tier_flags(tier)
    budget = float(opts.get("budget", 900 if tier == "quick" else 3000))
    deadline = t0 + budget
    stride = int(opts.get("stride", 1))
    run_id = "run%d" % os.getpid()
    archs = opts.get("arch", "x86,a64").split(",")
    jobs_x, jobs_a = [], []
    forms = []
    known = set()
    if "x86" in archs:
        forms = X.load_db(vbuild.REPO)
        names = sorted(set(f["name"] for f in forms))
        only = opts.get("only")
        if only:
            names = [n for n in names if n in set(only.split(","))]
        wd = _workdir(run_id + "-main")
        known = known_mnemonics(exe, names, wd)
        shutil.rmtree(wd, ignore_errors=True)
        cost = collections.Counter()
        for f in forms:
            if f["name"] in known and not f["apx"]:
                cost[f["name"]] += (2 + len(f["operands"])) * len(f["modes"])
        order = sorted([n for n in names if n in known], key=lambda n: (-cost[n], n))
        nchunks = NWORK * (6 if tier == "thorough" else 3)
        chunks = [[] for _ in range(nchunks)]
        for i, n in enumerate(order):
            chunks[i % nchunks].append(n)
        jobs_x = [(i, ch, known) for i, ch in enumerate(chunks) if ch]
    setup = None
    if "a64" in archs:
        setup = _c02().get_setup()
        only = opts.get("forms")
        ids = [i for i in sorted(setup.plans) if not only or re.search(only, setup.plans[i].key)]
        sizes = {i: setup.plans[i].n_cases(1) for i in ids}
        nchunks = NWORK * 2
        chunks = [[] for _ in range(nchunks)]
        load = [0] * nchunks
        for i in sorted(ids, key=lambda x: -sizes[x]):
            j = load.index(min(load))
            chunks[j].append(i)
            load[j] += sizes[i]
        jobs_a = [(i, ch) for i, ch in enumerate(chunks) if ch]
    outs_x, outs_a = [], []
    with multiprocessing.Pool(NWORK, initializer=_init_worker, initargs=(vbuild.REPO, exe, tier, run_id, deadline, stride)) as pool:
        ra = pool.map_async(_a64_work, jobs_a, chunksize=1) if jobs_a else None
        rx = pool.map_async(_x86_work, jobs_x, chunksize=1) if jobs_x else None
        if ra:
            outs_a = ra.get()
        if rx:
            outs_x = rx.get()
    merge(res, outs_x, outs_a, forms, known, setup, tier, flags, logflags, stride)
    res.strings["wall_pipeline_s"] = "%.1f" % (time.time() - t0)
    if not opts.get("only") and not opts.get("forms") and "arch" not in opts:
        # leg 2: the message handed to the ErrorHandler for a rejected instruction (harness/c20_failmsg.cpp)
        runner.run_harness(res, SRC_FAILMSG, "asan", tier, deadline=300, timeout=900, shards=1, label="failmsg")
        b = [res.strings.get("bound"), res.strings.pop("bound_failmsg_leg", None)]
        res.strings["bound"] = " || ".join(x for x in b if x)


def merge(res, outs_x, outs_a, forms, known, setup, tier, flags, logflags, stride):
    viol = {}
    clause_cases = collections.Counter()
    unparse, rtrej = [], []
    for arch, outs in (("x86", outs_x), ("a64", outs_a)):
        acc_forms = set()
        for o in outs:
            for k, v in o["cnt"].items():
                res.count(k, v)
                res.count("%s_%s" % (arch, k), v)
            for key, (desc, rp, n) in o["viol"].items():
                v = viol.get(key)
                if v is None:
                    viol[key] = [desc, rp, n]
                else:
                    v[2] += n
            for s in o["samples"]:
                if len(res.samples) < 12:
                    res.samples.append(s)
            for e in o["errors"]:
                res.errors.append(e)
            for k, v in o["clause_cases"].items():
                clause_cases[k] += v
            acc_forms.update(o["forms_accepted"])
            unparse += o["unparse"]
            rtrej += o["rt_rejected"]
        res.count("%s_forms_accepted" % arch, len(acc_forms))
    for k in ("evaluations", "distinct_nontrivial", "cases", "accepted", "rejected", "logger_lines", "machine_code_columns", "violating_texts",
              "not_executed", "chunks_skipped_deadline"):
        res.count(k, 0)
    if res.counters.get("not_executed", 0) or res.counters.get("chunks_skipped_deadline", 0):
        res.exhaustive = False
    if res.counters.get("chunks_skipped_deadline", 0):
        res.capped = True
    res.count("x86_forms_total", len(forms))
    res.count("x86_mnemonics_known_to_assembler", len(known))
    if setup is not None:
        res.count("a64_forms_total", len(setup.forms))
        res.count("a64_forms_planned", len(setup.plans))
    res.strings["rule"] = ("accepted cases of the C01 sweep (every db form x {32,64}-bit mode: default + every single deviation%s) and of the C02 sweep "
                           "(every db form: default + every single slot deviation) x %d FormatFlags sets x {physical, named virtual, unnamed virtual, "
                           "virtual of another type} registers x {anonymous, named, anonymous+name, local/named parent, local/anonymous parent} labels; "
                           "format_instruction / format_node / format_operand text parsed back by lib/c20parse.py and compared with the request; "
                           "StringLogger lines for logger flags {%s}: text as above, machine code column == appended bytes%s" % (
                               (" thinned to every %d-th deviation" % stride) if stride > 1 else "", len(flags), ",".join("%x" % f for f in logflags),
                               "; text re-assembled by GNU as / llvm-mc" if tier == "thorough" else ""))
    res.strings["bound"] = "k<=1 deviations; flag sets: %s" % ("all 256 subsets of {1,8,10,20,40,100,200,400}" if len(flags) > 16 else ",".join("%x" % f for f in flags))
    for (arch, clause), n in sorted(clause_cases.items()):
        res.notes.append("violating texts %s clause %s: %d" % (arch, clause, n))
    for s in sorted(set(unparse))[:12]:
        res.notes.append("unparseable: " + s[:300])
    for s in sorted(set(rtrej))[:20]:
        res.notes.append("round trip: tool rejected: " + s[:240])
    dbg = os.environ.get("C20_DEBUG_DIR")
    if dbg:
        with open(os.path.join(dbg, "viol.txt"), "w") as f:
            for key in sorted(viol):
                f.write("%s\t%d\t%s\n" % (key, viol[key][2], viol[key][0]))
        with open(os.path.join(dbg, "unparse.txt"), "w") as f:
            f.write("\n".join(sorted(set(unparse))) + "\n")
        with open(os.path.join(dbg, "rtrej.txt"), "w") as f:
            f.write("\n".join(sorted(set(rtrej))) + "\n")
    # violations: deterministic order, cap per (arch, clause); known findings do not consume the cap
    # A (arch, clause) pair gets at most CAP keys and every distinct KIND of difference (the detail with numbers blanked)
    # at most CAP_SIG of them, so that a new defect is not hidden behind an already reported one of the same clause.
    known_f = runner.load_known("C20")
    per, per_sig = collections.Counter(), collections.Counter()
    unlisted = 0
    for key in sorted(viol):
        desc, rp, n = viol[key]
        k, _ = runner.key_matches(known_f, key)
        if k is not None:
            res.add_violation(key, desc, rp, n)
            continue
        p = key.split(":")
        ac = (p[1], p[3])
        sig = ac + (re.sub(r"0x[0-9a-fA-F]+|[0-9]+", "N", desc.rsplit("`: ", 1)[-1])[:90],)
        if per[ac] >= CAP or per_sig[sig] >= CAP_SIG:
            unlisted += 1
            continue
        per[ac] += 1
        per_sig[sig] += 1
        res.add_violation(key, desc, rp, n)
    res.count("violation_keys_total", len(viol))
    res.count("violation_keys_not_listed", unlisted)


# ---------------------------------------------------------------------------------------------------------------------
# replay
# ---------------------------------------------------------------------------------------------------------------------
class _A64Case(object):
    def __init__(self, emit, ref):
        self.emit, self.ref, self.form = emit, ref, -1


def replay(res, path, ctx):
    txt = open(path).read()
    if "harness=c20_failmsg" in txt:
        runner.run_harness(res, SRC_FAILMSG, "asan", ctx["tier"], replay=path, timeout=300)
        return
    exe = vbuild.build("fast", os.path.join(vbuild.VERIF, SRC))

    def field(name):
        m = re.search(r"^%s: (.*)$" % name, txt, re.M)
        return m.group(1) if m else None
    arch = field("arch")
    emit = field("emit")
    if arch is None or emit is None:
        res.errors.append("replay file not understood")
        return 2
    flags = [int(x, 16) for x in (field("flags") or "0").split(",")]
    logflags = [int(x, 16) for x in (field("logflags") or "1").split(",")]
    tier = "thorough" if len(flags) > 16 else "quick"
    out = Out()
    wd = _workdir("replay-%d" % os.getpid())
    try:
        if arch == "x86":
            cj = field("case")
            if cj is None:
                res.errors.append("replay file has no case: line")
                return 2
            c = _c01().case_from_json(cj)
            x86_run_cases([c], out, wd, exe, flags, logflags, tier)
        else:
            ref = field("ref")
            a64_run_cases([(None, _A64Case(emit, None if ref in (None, "-") else ref))], out, wd, exe, flags, logflags, tier)
        if ctx.get("replay"):
            with open(os.path.join(wd, "cases.out"), errors="replace") as f:
                sys.stdout.write(f.read()[:6000])
    finally:
        shutil.rmtree(wd, ignore_errors=True)
    for key, (desc, rp, n) in sorted(out.viol.items()):
        res.add_violation(key, desc, rp, n)
    res.errors += out.errors
    return 1 if res.violations else 0
