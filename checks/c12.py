"""C12 - instruction read/write information covers what the CPU really does.

QUICK TIER (tables vs ISA database, all forms)
  (i)   tools/tablegen-x86.js is run on a scratch copy of the tree (mktemp under /tmp, deleted afterwards); every generated
        region of asmjit/x86/*.{cpp,h} must be identical to the committed one                         clause table-differs
  (ii)  every non-APX x86 db form x {32,64}-bit mode, ALL operands explicit (the RW tables are indexed by db operand
        position), variants: registers / registers without encoding option / same register / each r|m operand in memory /
        {k} / {k}{z} (+ a destination-dependent immediate for vpternlog):
          InstAPI::query_rw_info() must cover the db access of every operand (R/W/X incl. implicit rax/rdx/rcx/rsi/rdi
          operands)                                                          clauses missing-read:<loc> missing-write:<loc>
          memory operands: access + address registers read + string pointers written                       clause mem-flags
          8/16/32-bit general-purpose writes follow SDM vol.1 3.4.1.1                                       clause byte-mask
          flags the db lists W/X/0/1/U are in write_flags(), R/X in read_flags()                            clause cpu-flags
          {k}: the mask is read, merge-masking reads a register destination, gather/scatter clear (= write) their mask
                                                                         clauses missing-read:mask|op0 missing-write:mask
          query_features() covers the `ext` list of the db form that was encoded (decided from the VEX/EVEX/XOP escape byte
          and the opcode of the emitted bytes; AVX512_VL only for 128/256-bit EVEX; SDM feature implications applied).
          EVEX forms are selected the natural way (xmm16+) in 64-bit mode; with a forced {evex} option (32-bit mode) the
          features clause is not judged                                                                      clause features
  (iii) every register-only case x every operand reported kRegMem with rm_size s: the same request with an s-byte memory
        operand validates (strict) and assembles, and the db has that memory form                            clause regmem
  (iv)  x86 forms with k+1 / zmm+3 operands and AArch64 forms with register lists (ld1-4[r], st1-4, tbl/tbx 1-4 registers,
        casp pairs) instantiated with consecutive physical registers: the first register OF EACH LIST reports the run
        length, exactly its followers carry kConsecutive                                                 clause consecutive
        (AArch64 list operands are also checked for their Arm ARM access: ldN writes, stN reads, tbx destination is RW)
THOROUGH TIER adds the SILICON leg: harness/c12_native.cpp executes every deterministic user-mode form natively from a
  fixed structured set of machine states and checks write coverage, non-interference of unreported locations and #UD
  against the reported features.

REPORTING: one key rw:<arch>:<mnemonic>:<form>:<clause> per (mnemonic, clause) - the first affected form in database order
  names it, arch = x64 when the 64-bit instance shows it -; of every failure class (clause kind + what is missing + variant
  kind) the first CAP_KEYS_PER_CLASS keys are listed, the others are counted (violation_keys_not_listed) and named in the notes.
SOUNDNESS: only UNDER-reporting is a violation (the consumer is the register allocator); over-reported accesses are counted.
CONVENTION: consecutive_lead_count() is compared with the TOTAL length N of the run - that is what db/x86.js produces
  (vp2intersectd k,k+1 -> 2), what a64instapi.cpp produces for ld1-4/st1-4 and what both register allocators consume
  (ra_consecutive_lead_count_to_reg_mask_filter[N]); the doc comment in core/inst.h ("how many registers follow") is off by one.
"""
import os, re, sys, json, time, shutil, subprocess, collections, tempfile

from lib import runner, vbuild
from lib import x86cases as X
from lib import c12lib as L

LEVEL = "exploration"
SRC = "harness/c12_rwinfo.cpp"
NATIVE_SRC = "harness/c12_native.cpp"
ASSUMPTIONS = [
    "x86 forms are instantiated with all db operands explicit (mul rdx, rax, rcx); the short forms with omitted implicit "
    "operands are not queried",
    "APX forms (EVEX map 4 / REX2 / dfv) and mnemonics the assembler does not know are not judged (counted)",
    "feature implications of the SDM are applied (AVX512_x -> AVX512_F -> AVX2/FMA/F16C -> AVX -> SSE4.2 .. SSE)",
    "consecutive_lead_count() is interpreted as the length of the register run (see module doc)",
    "silicon leg (thorough): modelled state = 15 GPR (not rsp), status flags + DF, zmm0-31, k0-7, one 4 KiB memory window; "
    "x87/MMX/AMX/MXCSR/segment/stack-pointer state is not modelled, forms touching it are excluded by the stated list in "
    "checks/c12.py (NATIVE_*); vector registers are judged at register level, their byte masks only inside the operand width",
    "silicon leg: 4 fixed base patterns x 2 perturbations per location that is not reported read; a state that faults "
    "(#DE, #GP, #PF) is undecided and counted",
]

# SDM vol.1 ch.5 / 15.2 (detection hierarchy): a processor reporting the left feature also reports the right ones
_IMPLIES = {
    "AVX512_BW": ["AVX512_F"], "AVX512_DQ": ["AVX512_F"], "AVX512_CD": ["AVX512_F"], "AVX512_VL": ["AVX512_F"],
    "AVX512_IFMA": ["AVX512_F"], "AVX512_VBMI": ["AVX512_F"], "AVX512_VBMI2": ["AVX512_F"], "AVX512_VNNI": ["AVX512_F"],
    "AVX512_BITALG": ["AVX512_F"], "AVX512_VPOPCNTDQ": ["AVX512_F"], "AVX512_BF16": ["AVX512_F"],
    "AVX512_FP16": ["AVX512_BW"], "AVX512_VP2INTERSECT": ["AVX512_F"],
    "AVX10_2": ["AVX10_1"], "AVX10_1": ["AVX512_F", "AVX512_VL", "AVX512_BW", "AVX512_DQ", "AVX512_CD", "AVX512_IFMA",
                                        "AVX512_VBMI", "AVX512_VBMI2", "AVX512_VNNI", "AVX512_BITALG", "AVX512_VPOPCNTDQ",
                                        "AVX512_BF16", "AVX512_FP16"],
    "AVX512_F": ["AVX2", "FMA", "F16C"], "AVX2": ["AVX"], "FMA": ["AVX"], "F16C": ["AVX"], "AVX_VNNI": ["AVX2"],
    "AVX_IFMA": ["AVX2"], "AVX_NE_CONVERT": ["AVX2"], "AVX_VNNI_INT8": ["AVX2"], "AVX_VNNI_INT16": ["AVX2"],
    "AVX": ["SSE4_2"], "SSE4_2": ["SSE4_1"], "SSE4_1": ["SSSE3"], "SSSE3": ["SSE3"], "SSE3": ["SSE2"], "SSE2": ["SSE"],
    "3DNOW2": ["3DNOW"], "MMX2": ["MMX"], "XOP": ["AVX"], "FMA4": ["AVX"],
}


def _opcode_seq(g):
    """Escape bytes + opcode byte of a db form as they appear in the byte stream (None when the opcode embeds a register)."""
    op = g["opcode"]
    if op["ri"] or not op["byte"]:
        return None
    try:
        esc = bytes.fromhex(op["mm"]) if (g["prefix"] in ("", "3DNOW") and op["mm"] in ("0F", "0F38", "0F3A")) else b""
        return esc + bytes.fromhex(op["byte"])
    except ValueError:
        return None


def closure(feats):
    out = set(feats)
    work = list(feats)
    while work:
        x = work.pop()
        for y in _IMPLIES.get(x, ()):
            if y not in out:
                out.add(y)
                work.append(y)
    return out


def _workdir(tag):
    d = os.path.join(vbuild.BUILD, "c12", tag)
    os.makedirs(d, exist_ok=True)
    return d


# ---------------------------------------------------------------------------------------------------------------
# (i) regenerated tables
# ---------------------------------------------------------------------------------------------------------------
_MARK = re.compile(r"^\s*// \$\{(\w+):(Begin|End)\}\s*$")


def regions(text):
    """{region name: text between the // ${name:Begin} and // ${name:End} markers}"""
    out = {}
    cur, buf = None, []
    for line in text.split("\n"):
        m = _MARK.match(line)
        if m and m.group(2) == "Begin":
            cur, buf = m.group(1), []
        elif m and m.group(2) == "End" and cur == m.group(1):
            out[cur] = "\n".join(buf)
            cur = None
        elif cur is not None:
            buf.append(line)
    return out


def leg_tablegen(res):
    repo = vbuild.REPO
    d = tempfile.mkdtemp(prefix="c12-tablegen-", dir="/tmp")
    viol = []
    try:
        for sub in ("asmjit", "db", "tools"):
            shutil.copytree(os.path.join(repo, sub), os.path.join(d, sub), symlinks=True)
        try:
            r = subprocess.run(["node", "tablegen-x86.js"], cwd=os.path.join(d, "tools"), stdout=subprocess.PIPE,
                               stderr=subprocess.STDOUT, timeout=600)
        except (OSError, subprocess.TimeoutExpired) as e:      # no node / hung: machinery problem, never a violation
            res.errors.append("cannot run tools/tablegen-x86.js: %s" % e)
            return viol
        if r.returncode != 0:
            viol.append(("rw:x86:tablegen:run:table-differs", "tools/tablegen-x86.js fails on the current tree (rc %d): %s" % (
                r.returncode, r.stdout.decode("utf-8", "replace")[-400:])))
            return viol
        nreg = 0
        for root, _, files in os.walk(os.path.join(d, "asmjit", "x86")):
            for fn in sorted(files):
                p_new = os.path.join(root, fn)
                p_old = os.path.join(repo, os.path.relpath(p_new, d))
                if not os.path.exists(p_old):
                    continue        # the generator keeps a .backup copy of every file it rewrites
                with open(p_new, encoding="utf-8", errors="replace") as f:
                    new = f.read()
                with open(p_old, encoding="utf-8", errors="replace") as f:
                    old = f.read()
                rn, ro = regions(new), regions(old)
                nreg += len(ro)
                for name in sorted(set(rn) | set(ro)):
                    if rn.get(name) != ro.get(name):
                        a, b = (ro.get(name) or "").split("\n"), (rn.get(name) or "").split("\n")
                        first = next((i for i, (x, y) in enumerate(zip(a, b)) if x != y), min(len(a), len(b)))
                        viol.append(("rw:x86:tablegen:%s:table-differs" % name,
                                     "%s region ${%s}: the committed table differs from what tools/tablegen-x86.js generates from "
                                     "db/isa_x86.json (first difference at region line %d: committed '%s' / generated '%s')" % (
                                         os.path.relpath(p_old, repo), name, first + 1,
                                         (a[first] if first < len(a) else "<end>").strip()[:160],
                                         (b[first] if first < len(b) else "<end>").strip()[:160])))
                if new != old and not any(rn.get(k) != ro.get(k) for k in set(rn) | set(ro)):
                    viol.append(("rw:x86:tablegen:%s:table-differs" % fn, "%s changes outside the marked regions when regenerated" % fn))
        res.count("tablegen_regions_compared", nreg)
    finally:
        shutil.rmtree(d, ignore_errors=True)
    return viol


# ---------------------------------------------------------------------------------------------------------------
# case (de)serialisation
# ---------------------------------------------------------------------------------------------------------------
def _op_to_j(o):
    if o[0] == "m":
        m = o[1]
        return ["m", m.size, list(m.base) if isinstance(m.base, tuple) else m.base, list(m.index) if m.index else None,
                m.shift, m.disp, m.seg, m.bcst, m.addr]
    return list(o)


def _op_from_j(j):
    if j[0] == "m":
        base = tuple(j[2]) if isinstance(j[2], list) else j[2]
        return ("m", X.Mem(j[1], base=base, index=tuple(j[3]) if j[3] else None, shift=j[4], disp=j[5], seg=j[6], bcst=j[7],
                            addr=j[8]))
    return tuple(j)


def case_to_json(cc):
    c = cc.case
    return json.dumps(dict(mode=c.mode, name=c.name, opts=c.opts, extra=list(c.extra) if c.extra else None,
                           ops=[_op_to_j(o) for o in c.ops], form=c.form, variant=cc.variant, mem_pos=cc.mem_pos, sig=c.sig))


def case_from_json(s, forms):
    j = json.loads(s)
    c = X.Case(j["mode"], j["name"], j["opts"], tuple(j["extra"]) if j["extra"] else None, [_op_from_j(o) for o in j["ops"]],
               (), (), j["form"], j["variant"], j["sig"])
    f = forms[j["form"]]
    if f["name"] != j["name"] or f["sig"] != j["sig"]:
        # the database changed since the replay file was written: find the form by name + signature
        f = next((g for g in forms if g["name"] == j["name"] and g["sig"] == j["sig"]), None)
        if f is None:
            return None
    return L.C12Case(c, f, j["variant"], j["mem_pos"])


def replay_text_x86(cc, clause, note):
    return "C12 x86 case\nemit: %s\ncase: %s\nclause: %s\n# %s\n" % (X.emit_line(cc.case), case_to_json(cc), clause,
                                                                     note.replace("\n", " "))


# ---------------------------------------------------------------------------------------------------------------
# x86: judging
# ---------------------------------------------------------------------------------------------------------------
class X86Leg(object):
    def __init__(self, exe, repo, cache=None):
        self.exe = exe
        cache = cache if cache is not None else {}
        if "forms" not in cache:
            cache["forms"] = L.load_forms(repo)
            cache["by_name"] = collections.defaultdict(list)
            for f in cache["forms"]:
                if not f["apx"]:
                    cache["by_name"][f["name"]].append(f)
            cache["known_feats"] = set(subprocess.run([exe, "--list-features"], stdout=subprocess.PIPE, text=True).stdout.split())
        self.forms, self.by_name, self.known_feats = cache["forms"], cache["by_name"], cache["known_feats"]
        self.cnt = collections.Counter()
        self.viol = []          # (key, desc, replay)
        self.samples = []
        self.notes = collections.OrderedDict()
        self.judged_forms = set()
        self.unsupported_forms = set()
        self.errors = []

    # -- case generation
    def cases_of(self, f, mode):
        return L.x86_cases(f, mode, any(g["prefix"] == "EVEX" for g in self.by_name[f["name"]]))

    def all_cases(self, only=None):
        cases = []
        for f in self.forms:
            if f["apx"]:
                self.cnt["forms_apx_not_judged"] += 1
                continue
            if only and f["name"] not in only:
                continue
            for mode in f["modes"]:
                cases += self.cases_of(f, mode)
        return cases

    def arch(self, mode):
        return "x64" if mode == 64 else "x86"

    def add(self, cc, clause, text, reason=None):
        c = cc.case
        key = "rw:%s:%s:%s:%s" % (self.arch(c.mode), c.name, c.sig or "-", clause)
        desc = "%s [form '%s %s', variant %s]: %s" % (X.emit_line(c), c.name, c.sig, cc.variant, text)
        if reason is None:
            # class of the failure: clause kind + variant kind + what exactly is missing; systematic defects show up under
            # hundreds of mnemonics, only the first few keys of a class are listed (see aggregate())
            reason = re.sub(r"\d+", "", cc.variant)
            if clause == "byte-mask":
                reason += ":zext32" if "zero-extends" in text else ":narrow" if "preserves" in text else ":range"
            elif clause == "cpu-flags":
                reason += ":modified" if "are modified" in text else ":read"
            elif "." in clause:
                reason += ":" + clause.rsplit(".", 1)[1]
            elif clause.endswith("mask"):
                reason += ":mask"
            elif "memory" in text:
                reason += ":mem"
        self.viol.append((key, desc, replay_text_x86(cc, clause, text), c.mode, clause.split(":")[0] + ":" + reason))

    # -- features
    def judge_features(self, cc, r):
        f, c = cc.form, cc.case
        if r.feat != "Ok":
            self.add(cc, "features", "query_features() fails with %s for an instruction the assembler encodes" % r.feat)
            return
        cls = L.encoding_class(r.bytes)
        if f["prefix"] == "EVEX" and c.opts & X.OPT["evex"]:
            self.cnt["features_not_judged_forced_evex"] += 1
            return
        cands = [g for g in self.by_name[c.name] if (g["prefix"] if g["prefix"] in ("VEX", "EVEX", "XOP") else "") == cls and
                 L.match_form(g, c.ops, c.mode)]
        if not cands:
            self.cnt["features_not_judged_no_db_form_for_encoding"] += 1
            return
        sharp = [g for g in cands if _opcode_seq(g) is not None and _opcode_seq(g) in r.bytes]
        if sharp:
            cands = sharp
        have = closure(r.features)
        ok = False
        for g in cands:
            req, unknown = L.required_features(g, self.known_feats)
            for u in unknown:
                self.notes.setdefault("db ext names without a CpuFeatures id (not judged): ", set()).add(u)
            if req <= have:
                ok = True
        self.cnt["feature_checks"] += 1
        if len(cands) > 1:
            self.cnt["feature_checks_ambiguous_db_form"] += 1
        if not ok:
            g = cands[0]
            req, _ = L.required_features(g, self.known_feats)
            self.add(cc, "features", "encoded as %s %s (bytes %s): the db requires {%s} (ext %s, vector length %s) but "
                     "query_features() = {%s}" % (cls or "legacy", "/".join(sorted(set(x["opcodeString"] for x in cands)))[:120],
                                                  r.bytes.hex(), ",".join(sorted(req)), "+".join(g["ext"]),
                                                  L.vector_length(g) or "-", ",".join(sorted(r.features))),
                     reason="missing " + ",".join(sorted(req - have)))

    # -- one accepted case
    def judge(self, cc, r):
        f, c = cc.form, cc.case
        self.cnt["distinct_nontrivial"] += 1
        self.judged_forms.add(f["idx"])
        if r.rw != "Ok":
            self.add(cc, "query-fails", "query_rw_info() fails with %s for an instruction the assembler encodes (%s)" % (r.rw, r.bytes.hex()))
            return
        v, st = L.judge_operands(cc, r)
        self.cnt.update(st)
        if c.name in ("vpternlogd", "vpternlogq") and c.ops[-1][0] == "i" and ((c.ops[-1][1] >> 4) & 15) == (c.ops[-1][1] & 15):
            # truth table independent of the destination operand (SDM VPTERNLOG: imm8[A*4+B*2+C], A = dest)
            v = [x for x in v if x[0] != "missing-read:op0"]
        v += L.judge_cpu_flags(f, r)
        v += L.judge_mask(cc, r)
        cv, has_consec = L.judge_consecutive_x86(cc, r)
        if has_consec:
            self.cnt["consecutive_checks_x86"] += 1
        v += cv
        seen = set()
        for clause, text in v:
            if clause in seen:
                continue
            seen.add(clause)
            self.add(cc, clause, text)
        self.judge_features(cc, r)
        if len(self.samples) < 6 and not v and cc.variant == "reg":
            self.samples.append("%s -> %s | %s | rf={%s} wf={%s} feat={%s}" % (
                X.emit_line(c), r.bytes.hex(), " ".join("o%d[%r]" % (i, o) for i, o in enumerate(r.ops)),
                ",".join(sorted(r.rf)), ",".join(sorted(r.wf)), ",".join(sorted(r.features))))

    # -- (iii) reg/mem replacement
    def regmem_cases(self, cc, r):
        c = cc.case
        out = []
        if any(o[0] == "m" for o in c.ops) or cc.variant.startswith("v"):
            return out        # (the register-id alphabet variants v16@j / v31@j / v15@j repeat the "reg" case)
        for j, info in enumerate(r.ops):
            if not info.flags & L.F_REGMEM or c.ops[j][0] != "r":
                continue
            if info.rm_size == 0:
                self.cnt["regmem_flag_without_size"] += 1
                continue
            ops = list(c.ops)
            ops[j] = ("m", X.Mem(info.rm_size, base=(X.addr_kind(c.mode), X.DEFAULT_MEM_BASE)))
            c2 = X.Case(c.mode, c.name, c.opts, c.extra, ops, (), (), c.form, cc.variant, c.sig)
            out.append((cc, c2, j, info.rm_size))
        return out

    def judge_regmem(self, item, r):
        cc, c2, j, s = item
        self.cnt["regmem_checks"] += 1
        g = [x for x in self.by_name[c2.name] if L.match_form(x, c2.ops, c2.mode, j, s)]
        problems = []
        if r is None or r.parse:
            problems.append("the request could not be executed")
        else:
            if r.val != "Ok":
                problems.append("InstAPI::validate() = %s" % r.val)
            if r.emit != "Ok":
                problems.append("the assembler rejects it (%s)" % r.emit)
        if not g:
            problems.append("the database has no form of %s with an m%d operand at position %d and these other operands" % (
                c2.name, s * 8, j))
        elif cc.form in g:
            self.cnt["regmem_same_db_form"] += 1
        else:
            self.cnt["regmem_other_db_form"] += 1
        if problems:
            self.add(cc, "regmem", "operand %d (%s) is reported kRegMem with rm_size %d, but '%s': %s" % (
                j, X.reg_name(cc.case.ops[j][1], cc.case.ops[j][2]), s, X.emit_line(c2), "; ".join(problems)),
                reason="%s%s%s:op%d:%s" % ("V" if r is not None and r.val != "Ok" else "", "E" if r is not None and r.emit != "Ok" else "",
                                           "D" if not g else "", j,
                                           "size" if any(L.match_form(x, c2.ops, c2.mode) for x in self.by_name[c2.name]) else "position"))

    # -- driver
    def run_cases(self, cases, tag):
        wd = _workdir(tag)
        try:
            lines = [X.emit_line(c.case) for c in cases]
            res, crash = L.run_filter(self.exe, lines, wd, "x86")
            if crash:
                self.errors.append("c12_rwinfo died rc=%s at %s: %s" % (crash[0], crash[1], crash[2][-400:]))
            rm_items = []
            for cc, r in zip(cases, res):
                if r is None:
                    self.cnt["not_executed"] += 1
                    continue
                self.cnt["evaluations"] += 1
                if r.parse == "E_NAME":
                    self.cnt["cases_mnemonic_unknown_to_asmjit"] += 1
                    self.unsupported_forms.add(cc.form["idx"])
                    continue
                if r.parse:
                    self.errors.append("harness cannot parse '%s': %s" % (X.emit_line(cc.case), r.parse))
                    continue
                if r.emit != "Ok":
                    self.cnt["cases_rejected_by_assembler"] += 1
                    self.cnt["rejected:" + r.emit] += 1
                    continue
                self.judge(cc, r)
                rm_items += self.regmem_cases(cc, r)
            if rm_items:
                lines = [X.emit_line(it[1]) for it in rm_items]
                res, crash = L.run_filter(self.exe, lines, wd, "x86rm")
                if crash:
                    self.errors.append("c12_rwinfo died rc=%s at %s" % (crash[0], crash[1]))
                for it, r in zip(rm_items, res):
                    self.cnt["evaluations"] += 1
                    self.judge_regmem(it, r)
        finally:
            shutil.rmtree(wd, ignore_errors=True)


# ---------------------------------------------------------------------------------------------------------------
# AArch64 lists
# ---------------------------------------------------------------------------------------------------------------
def a64_leg(exe, res, only_key=None):
    from lib import a64cases as A
    forms = A.load_db()
    cases, skipped = L.a64_list_cases(forms)
    out = []
    res.count("a64_list_forms_in_db", len(set(c.form["idx"] for c in cases)) + len(skipped))
    res.count("a64_list_forms_not_instantiable", len(skipped))
    if only_key is not None:
        cases = [c for c in cases if c.key == only_key]
    wd = _workdir("a64-%d" % os.getpid())
    try:
        rr, crash = L.run_filter(exe, [c.line for c in cases], wd, "a64")
        if crash:
            res.errors.append("c12_rwinfo died rc=%s at %s" % (crash[0], crash[1]))
        unsupported = collections.Counter()
        for c, r in zip(cases, rr):
            if r is None:
                res.count("not_executed")
                continue
            res.count("evaluations")
            if r.parse or r.emit != "Ok":
                unsupported[c.form["name"]] += 1
                res.count("a64_list_cases_not_supported_by_asmjit")
                continue
            res.count("distinct_nontrivial")
            res.count("a64_list_cases_judged")
            if r.rw != "Ok":
                v = [("query-fails", "query_rw_info() = %s" % r.rw)]
            else:
                v = L.judge_a64(c, r)
            seen = set()
            for clause, text in v:
                if clause.split(":")[0] in seen:
                    continue                # one operand names a defect that affects every register of the list
                seen.add(clause.split(":")[0])
                key = "rw:a64:%s:%s" % (c.key, clause)
                desc = "%s [%s]: %s" % (c.line[4:], " ".join("o%d[%r]" % (i, o) for i, o in enumerate(r.ops)), text)
                out.append((key, desc, "C12 a64 case\nkey: %s\nline: %s\nclause: %s\n# %s\n" % (c.key, c.line, clause, text)))
            if not v and len(res.samples) < 10 and c.runs:
                res.samples.append("%s -> %s" % (c.line, " ".join("o%d[%r]" % (i, o) for i, o in enumerate(r.ops))))
        if unsupported:
            res.notes.append("AArch64 list mnemonics not accepted by the assembler (not judged): " + ", ".join(
                "%s x%d" % kv for kv in sorted(unsupported.items())))
        if skipped:
            res.notes.append("AArch64 list forms not instantiated (SVE/SME or system forms): " + "; ".join(sorted(set(skipped))[:20]))
    finally:
        shutil.rmtree(wd, ignore_errors=True)
    return out


CAP_KEYS_PER_CLASS = 4      # listed keys per failure class (clause kind + reason); the rest is counted
_NOCAP = [False]


def aggregate(viol, res=None, known=None, nocap=False):
    """One reported key per (mnemonic, clause): the first affected form in database order names it (64-bit instance
    preferred), the other forms and instances are counted and listed in the description.  Of every failure class at most
    CAP_KEYS_PER_CLASS keys are listed (a systematic defect affects hundreds of mnemonics), the rest is counted in
    'violation_keys_not_listed'.  Keys that match a line of known_findings.txt are always listed (the driver turns them
    into KNOWN-FINDING lines) and do NOT consume the cap, so a new defect of the same class still prints a new key.
    viol: [(key 'rw:<arch>:<mnemonic>:<form>:<clause>', desc, replay, mode or None, failure class)] in database order."""
    known = known or {}
    groups = collections.OrderedDict()
    for key, desc, rp, mode, cls in viol:
        p = key.split(":")
        name = p[2]
        clause = ":".join(p[-2:]) if p[-1].startswith("op") else p[-1]
        form = key[len("rw:%s:%s:" % (p[1], name)):-len(clause) - 1]
        g = groups.setdefault((name, clause), dict(first=None, forms=[], n=0, cls=cls))
        g["n"] += 1
        if form not in g["forms"]:
            g["forms"].append(form)
        if g["first"] is None or (g["first"][4] == form and mode == 64 and g["first"][3] != 64):
            g["first"] = (key, desc, rp, mode, form)
    out = []
    per = collections.Counter()
    unlisted = collections.defaultdict(list)
    for (name, clause), g in groups.items():
        key, desc, rp, mode, form = g["first"]
        is_known = runner.key_matches(known, key)[0] is not None
        if not is_known:
            per[g["cls"]] += 1
        if not is_known and not nocap and per[g["cls"]] > CAP_KEYS_PER_CLASS:
            unlisted[g["cls"]].append(name)
            if res is not None:
                res.count("violation_keys_not_listed")
                res.count("violating_cases_not_listed", g["n"])
            continue
        if len(g["forms"]) > 1:
            desc += " {also forms: %s}" % "; ".join(g["forms"][1:12])
        out.append((key, desc, rp, g["n"], g["cls"]))
    if res is not None:
        for cls, n in sorted(per.items()):
            res.notes.append("failure class '%s': %d mnemonic/clause keys%s" % (
                cls, n, (" (first %d listed; not listed: %s)" % (CAP_KEYS_PER_CLASS, ", ".join(unlisted[cls][:60])))
                if n > CAP_KEYS_PER_CLASS else ""))
    return [(k, d, r, n) for k, d, r, n, _ in out]


# ---------------------------------------------------------------------------------------------------------------
# driver
# ---------------------------------------------------------------------------------------------------------------
def run(res, ctx):
    tier = ctx["tier"]
    t0 = time.time()
    exe = vbuild.build("fast", os.path.join(vbuild.VERIF, SRC))
    only = ctx["opts"].get("only")
    only = set(only.split(",")) if only else None
    known = runner.load_known("C12")
    nocap = bool(ctx["opts"].get("nocap"))        # debugging: ./check C12 --opt nocap=1 lists every key
    _NOCAP[0] = nocap

    # (i)
    if not only:
        for key, desc in leg_tablegen(res):
            res.add_violation(key, desc, "C12 tablegen\n# %s\n" % desc)
        res.count("evaluations")
        res.count("distinct_nontrivial")

    # (ii) (iii) (iv-x86)
    leg = X86Leg(exe, vbuild.REPO)
    cases = leg.all_cases(only)
    leg.run_cases(cases, "run%d" % os.getpid())
    for k, v in leg.cnt.items():
        res.count(k, v)
    res.count("x86_forms_total", len(leg.forms))
    res.count("x86_forms_judged", len(leg.judged_forms))
    res.count("x86_forms_mnemonic_unknown_to_asmjit", len(leg.unsupported_forms - leg.judged_forms))
    for e in leg.errors:
        res.errors.append(e)
    for key, desc, rp, n in aggregate(leg.viol, res, known, nocap):
        res.add_violation(key, desc, rp, n)
    for s in leg.samples:
        res.samples.append(s)
    for k, v in leg.notes.items():
        res.notes.append(k + ", ".join(sorted(v)))

    # (iv) AArch64
    if not only:
        for key, desc, rp, n in aggregate([(k, d, r, None, "a64:" + k.split(":")[2] + ":" + k.rsplit(":", 2)[-2 if k.rsplit(":", 1)[-1].startswith("op") else -1])
                                           for k, d, r in a64_leg(exe, res)], res, known, nocap):
            res.add_violation(key, desc, rp, n)

    if tier == "thorough" or ctx["opts"].get("native"):
        native_leg(res, ctx, leg)

    res.strings["rule"] = ("x86: every non-APX db form x {32,64}-bit mode with all operands explicit, variants reg / no-option / "
                           "same-register / each r|m operand in memory / {k} / {k}{z}; every kRegMem operand of every register-only "
                           "case replaced by memory; regenerated tables; AArch64: every register-list form (first and last "
                           "arrangement)" + ("; silicon: every deterministic user-mode form executed from 4 base states x "
                                             "perturbations of every location not reported read" if tier == "thorough" else ""))
    res.strings["bound"] = "all forms (no deviation bound: one instantiation per variant)"
    res.strings["wall_pipeline_s"] = "%.1f" % (time.time() - t0)
    if res.counters.get("not_executed"):
        res.exhaustive = False


# ---------------------------------------------------------------------------------------------------------------
# silicon leg (thorough tier)
# ---------------------------------------------------------------------------------------------------------------
WIN_PTR = 0x30001000 + 2048         # harness/c12_native.cpp: kWin + 2048

# STATED EXCLUSION LIST of the silicon leg.
#  * privilege != L3, control flow, 32-bit only forms: by database attribute
#  * every mnemonic the database marks `volatile` (system state, I/O, stack frames, descriptor tables, MSRs, shadow
#    stack, TSX, monitor/wait, xsave family, vzeroall/vzeroupper, rdfsbase/wrfsbase ...) except the harmless ones below
NATIVE_KEEP_VOLATILE = {"lfence", "mfence", "sfence", "pause", "movnti", "prefetchnta", "prefetcht0", "prefetcht1", "prefetcht2",
                        "prefetchw", "prefetchwt1", "serialize", "xlatb", "endbr64"}
#  * nondeterministic / not a function of the modelled state / MXCSR / faults by design / stack pointer
NATIVE_EXCLUDE_NAMES = {
    "rdtsc", "rdtscp", "rdrand", "rdseed", "rdpid", "rdpkru", "wrpkru", "rdpru", "cpuid", "xgetbv", "rdpmc",
    "push", "pop", "pushw", "popw", "pushf", "pushfd", "pushfq", "popf", "popfd", "popfq", "pusha", "pushad", "popa", "popad", "enter", "leave",
    "ldmxcsr", "vldmxcsr", "stmxcsr", "vstmxcsr", "ud0", "ud1", "ud2", "int1", "icebp", "into", "int", "int3", "bound",
    "in", "out", "ins", "outs", "insb", "insw", "insd", "outsb", "outsw", "outsd", "cli", "sti", "hlt",
    "lar", "lsl", "verr", "verw", "sgdt", "sidt", "sldt", "str", "smsw", "lds", "les", "lfs", "lgs", "lss", "arpl",
    "xabort", "xbegin", "xend", "xtest", "fwait", "wait", "emms", "femms",
}
#  * state that is not modelled: x87 / MMX / AMX tiles / MPX bounds / virtualization / port I/O
NATIVE_EXCLUDE_CATEGORIES = {"FPU", "MMX", "AMX", "VIRTUALIZATION", "SYSTEM", "STATE", "GP_IN_OUT"}
#  * features that need OS / platform enabling beyond CPUID or talk to devices
NATIVE_EXCLUDE_EXT = {"CET_SS", "CET_IBT", "UINTR", "KL", "AESKLE", "AESKLEWIDE_KL", "ENQCMD", "RTM", "TSXLDTRK", "FSGSBASE", "XSAVE",
                      "XSAVEC", "XSAVEOPT", "XSAVES", "FXSR", "WAITPKG", "MONITOR", "MONITORX", "MPX", "LWP", "PTWRITE", "OSPKE",
                      "HRESET", "PCONFIG", "SMX", "SVM", "VMX", "MSR", "MSRLIST", "USER_MSR", "RDPRU", "RDPID", "RDTSC", "RDTSCP",
                      "RDRAND", "RDSEED", "AMX_TILE", "AMX_BF16", "AMX_INT8", "AMX_FP16", "AMX_COMPLEX"}
NATIVE_REG_KINDS = {"r8", "r16", "r32", "r64", "xmm", "ymm", "zmm", "k", "r8hi"}


def native_excluded(f, volatile_names):
    """Reason why form f is not executed by the silicon leg, or None."""
    if f["apx"]:
        return "apx"
    if 64 not in f["modes"]:
        return "not-64-bit"
    if f["privilege"] != "L3":
        return "privileged"
    if f["control"] != "none":
        return "control-flow"
    if f["name"] in volatile_names and f["name"] not in NATIVE_KEEP_VOLATILE:
        return "volatile (system / machine state)"
    if f["name"] in NATIVE_EXCLUDE_NAMES:
        return "stated name list"
    if set(f["category"]) & NATIVE_EXCLUDE_CATEGORIES:
        return "category " + ",".join(sorted(set(f["category"]) & NATIVE_EXCLUDE_CATEGORIES))
    if set(f["ext"]) & NATIVE_EXCLUDE_EXT:
        return "needs enabling: " + ",".join(sorted(set(f["ext"]) & NATIVE_EXCLUDE_EXT))
    if "rep" in f["prefixes"] and False:
        return "rep"
    for o in f["operands"]:
        for a in o["alts"]:
            if a[0] in ("reg", "fixed", "consec") and a[1] not in NATIVE_REG_KINDS:
                return "register kind " + str(a[1])
            if a[0] == "fixed" and a[1] in ("r16", "r32", "r64", "r8") and a[2] == 4:
                return "stack pointer"
            if a[0] in ("rel", "unknown", "dfv"):
                return "operand " + a[0]
            if a[0] == "mem" and a[2] in ("far", "mib", "tmem"):
                return "memory flavor " + a[2]
        if o["memSegment"] and o["memRegOnly"] in ("zsp", "rsp", "esp"):
            return "stack pointer"
    return None


_NATIVE_GP = ((1, 2, 3, 6, 7, 0), (8, 9, 10, 11, 12, 13))
_NATIVE_VEC = ((1, 2, 3, 5, 6, 0), (9, 10, 11, 12, 13, 14))
_NATIVE_K = ((1, 2, 3, 5, 6, 7), (5, 6, 7, 1, 2, 3))


def native_cases(f):
    """Case lines of one form for harness/c12_native: two register assignments, same-register, memory variants, {k}, {k}{z}."""
    hints = []
    und = sorted(k for k, v in f["io"].items() if v == "U" and k in L.CPU_FLAGS)
    if und:
        hints.append("U=" + ",".join(und))
    name = f["name"]
    if name in ("div", "idiv"):
        # #DE is avoided: the high half of the dividend is zero (8-bit forms: ax is small)
        if len(f["operands"]) == 3:
            hints.append("pin=g2:0")
        else:
            hints.append("pin=g0:11")
    if name == "xlatb" or name in ("bt", "btc", "btr", "bts"):
        # xlatb reads [rbx + al]; bt* with a register bit offset address memory outside their operand (SDM BT: the
        # offset is not masked for a memory operand)
        hints.append("anyea")
    evex = f["prefix"] == "EVEX"
    out = []
    seen = set()

    def ids_for(which):
        ids = {}
        epos = 0
        for j, o in enumerate(f["operands"]):
            a = L._pick(o, False)
            if a and a[0] == "reg":
                kind = a[1]
                if kind in ("xmm", "ymm", "zmm"):
                    ids[j] = _NATIVE_VEC[which][epos % 6] + (16 if evex else 0)
                elif kind == "k":
                    ids[j] = _NATIVE_K[which][epos % 6]
                elif kind in ("r8", "r16", "r32", "r64"):
                    ids[j] = _NATIVE_GP[which][epos % 6]
            if o["consecutive"]:
                ids[j] = 2 if o["consecutive"] == 2 else 4
            if not o["implicit"]:
                epos += 1
        return ids

    def fix_mem(ops):
        res = []
        for op in ops:
            if op[0] == "m":
                m = op[1]
                if m.base == "abs":
                    m = m.replace(disp=WIN_PTR)
                elif isinstance(m.base, tuple) and m.base[0] != "r64":
                    return None
                if m.index is not None and m.index[0] in ("r16", "r32"):
                    return None
                op = ("m", m)
            elif op[0] == "r" and op[1] in ("r8", "r16", "r32", "r64") and op[2] == 4:
                return None
            res.append(op)
        return res

    def mk(ops, variant, extra=None, opts=0):
        if ops is None:
            return
        ops = fix_mem(ops)
        if ops is None:
            return
        c = X.Case(64, name, opts, extra, ops, (), (), f["idx"], variant, f["sig"])
        k = c.key()
        if k in seen:
            return
        seen.add(k)
        out.append("%s | sig=%s var=%s%s" % (X.emit_line(c), f["sig"] or "-", variant, "".join(" " + h for h in hints)))

    opt = X.OPT["vex"] if f["prefix"] == "VEX" else 0
    base = L.full_operands(f, 64, ids=ids_for(0))
    mk(base, "reg", opts=opt)
    if opt:
        mk(base, "reg-noopt")
    mk(L.full_operands(f, 64, ids=ids_for(1)), "alt", opts=opt)
    kinds = collections.Counter(a[1] for o in f["operands"] for a in [L._pick(o, False)] if a and a[0] == "reg")
    if any(v >= 2 for v in kinds.values()):
        mk(L.full_operands(f, 64, same=True, ids=ids_for(0)), "same", opts=opt)
    for j, o in enumerate(f["operands"]):
        if any(a[0] in ("reg", "fixed") for a in o["alts"]) and any(a[0] == "mem" for a in o["alts"]):
            mk(L.full_operands(f, 64, mem_pos=j, ids=ids_for(0)), "mem%d" % j, opts=opt)
    if f["kmask"]:
        mk(base, "k", ("k", 1), opts=opt)
        mk(L.full_operands(f, 64, ids=ids_for(1)), "k-alt", ("k", 4), opts=opt)
        if f["zmask"]:
            mk(base, "kz", ("k", 1), opts=opt | X.OPT["z"])
    if name in ("vpternlogd", "vpternlogq") and base is not None and base[-1][0] == "i":
        # silicon leg: immediates whose two truth-table halves differ in exactly one / in all entries, plus 0xCA (A ? B : C)
        for imm in (0xCA, 0x01, 0x10, 0x02, 0x20, 0x04, 0x40, 0x08, 0x80, 0x19, 0x6E, 0x7F, 0xF7, 0x0F, 0xF0):
            mk(list(base[:-1]) + [("i", imm)], "imm=0x%02x" % imm, opts=opt)
    return out


def native_leg(res, ctx, leg):
    tier = ctx["tier"]
    only = ctx["opts"].get("only")
    only = set(only.split(",")) if only else None
    volatile_names = set(f["name"] for f in leg.forms if f["volatile"])
    lines = []
    excluded = collections.Counter()
    nforms = 0
    for f in leg.forms:
        if only and f["name"] not in only:
            continue
        why = native_excluded(f, volatile_names)
        if why is not None:
            excluded[why.split(":")[0].split(" ")[0] if why.startswith(("register", "needs", "category", "memory", "operand")) else why] += 1
            continue
        cl = native_cases(f)
        if cl:
            nforms += 1
            lines += cl
    res.count("native_forms_selected", nforms)
    res.count("native_cases_generated", len(lines))
    res.notes.append("silicon leg: forms excluded by the stated list: " + ", ".join("%s=%d" % kv for kv in sorted(excluded.items())))
    wd = _workdir("native-%d" % os.getpid())
    try:
        path = os.path.join(wd, "cases.txt")
        with open(path, "w") as fh:
            fh.write("\n".join(lines) + "\n")
        tmp = runner.Result()
        runner.run_harness(tmp, NATIVE_SRC, "fast", tier, args=["--cases", path], shards=16, deadline=1200, timeout=1800)
        _merge_native(res, tmp)
    finally:
        shutil.rmtree(wd, ignore_errors=True)


def _native_class(key, desc):
    """Failure class of a silicon-leg violation: clause kind + kind of location + variant kind."""
    p = key.split(":")
    clause = ":".join(p[-2:]) if p[-2].startswith("missing-") else p[-1]
    kind = clause.split(":")[0]
    loc = clause.split(":")[1] if ":" in clause else ""
    loc = re.sub(r"\d+", "", loc)
    if loc in ("rax", "rcx", "rdx", "rbx", "rbp", "rsi", "rdi", "r"):
        loc = "gp"
    m = re.search(r"variant ([a-z-]+)", desc)
    return "native:%s:%s:%s" % (kind, loc, m.group(1) if m else "")


def _merge_native(res, tmp):
    for k, v in tmp.counters.items():
        res.count(k if k in ("evaluations", "distinct_nontrivial") else "native_" + k, v)
    for s in tmp.samples[:6]:
        res.samples.append("native: " + s)
    for n in tmp.notes[:40]:
        res.notes.append("native: " + n)
    for e in tmp.errors:
        res.errors.append(e)
    res.exhaustive = res.exhaustive and tmp.exhaustive
    res.capped = res.capped or tmp.capped
    viol = sorted(tmp.violations, key=lambda v: v["key"])
    items = []
    for v in viol:
        if not v["key"].startswith("rw:"):
            res.add_violation(v["key"], v["desc"], v["replay"], v["count"])      # harness crash
            continue
        items.append((v["key"], v["desc"], v["replay"], 64, _native_class(v["key"], v["desc"])))
    for key, desc, rp, n in aggregate(items, res, runner.load_known("C12"), _NOCAP[0]):
        res.add_violation(key, desc, rp, n)


# ---------------------------------------------------------------------------------------------------------------
# replay
# ---------------------------------------------------------------------------------------------------------------
_REPLAY_CACHE = {}


def replay(res, path, ctx):
    # the driver confirms every violation by replaying it twice: build and database are loaded once per process
    if "exe" not in _REPLAY_CACHE:
        _REPLAY_CACHE["exe"] = vbuild.build("fast", os.path.join(vbuild.VERIF, SRC))
    exe = _REPLAY_CACHE["exe"]
    with open(path) as f:
        text = f.read()
    first = text.split("\n", 1)[0].strip()
    if first == "C12 tablegen":
        for key, desc in leg_tablegen(res):
            res.add_violation(key, desc, "C12 tablegen\n# %s\n" % desc)
        return 1 if res.violations else 0
    if first == "C12 a64 case":
        m = re.search(r"^key: (.*)$", text, re.M)
        for key, desc, rp in a64_leg(exe, res, only_key=m.group(1) if m else ""):
            res.add_violation(key, desc, rp)
        return 1 if res.violations else 0
    if first == "C12 x86 case":
        leg = X86Leg(exe, vbuild.REPO, _REPLAY_CACHE)
        m = re.search(r"^case: (.*)$", text, re.M)
        cc = case_from_json(m.group(1), leg.forms) if m else None
        if cc is None:
            res.errors.append("replay file has no usable case: line")
            return 2
        leg.run_cases([cc], "replay%d" % os.getpid())
        for e in leg.errors:
            res.errors.append(e)
        if ctx.get("replay"):
            print("replay: %s -> %d violation(s)" % (X.emit_line(cc.case), len(leg.viol)))
        for key, desc, rp, mode, cls in leg.viol:
            res.add_violation(key, desc, rp)
        return 1 if res.violations else 0
    if first == "C12 native case":
        return _native_replay(res, text, ctx)
    res.errors.append("unknown replay file kind: " + first)
    return 2


def _native_replay(res, text, ctx):
    wd = _workdir("native-replay-%d" % os.getpid())
    try:
        path = os.path.join(wd, "case.replay")
        with open(path, "w") as fh:
            fh.write(text)
        tmp = runner.Result()
        runner.run_harness(tmp, NATIVE_SRC, "fast", "thorough", replay=path, timeout=600)
        want = re.search(r"^clause: (.*)$", text, re.M)
        for v in tmp.violations:
            res.add_violation(v["key"], v["desc"], v["replay"], v["count"])
        for e in tmp.errors:
            res.errors.append(e)
    finally:
        shutil.rmtree(wd, ignore_errors=True)
    return 1 if res.violations else 0
