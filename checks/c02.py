"""C02 - the AArch64 assembler emits a correct encoding of every instruction it accepts.

Shape I (input space): every form of the ISA database (db/isa_aarch64.json, dumped by tools/dump_isa.js) is instantiated
with a default operand assignment plus every assignment with <= k deviations from per-slot alphabets (lib/a64cases.py;
quick: k=2, thorough: the full product of the alphabets + a second pass with every register id and k=2), emitted through
the public a64::Assembler API by harness/emit_a64 (one fresh CodeHolder per case) and judged by three legs (lib/a64ref.py):
  (a) llvm-mc assembles the same instruction text -> the words must be equal            (clause word-mismatch)
  (b) the db bit template: literal bits + register / simple immediate fields            (clause template-mismatch; only
      decisive where llvm-mc has no verdict - a template that contradicts llvm-mc AND the assembler is a db slip)
  (c) refusal: accepted although the reference says "not encodable"                      (clause accepted-unencodable[reason:slot])
      reasons: badid (register id > 31: decisive alone), gp31 (SP where 31 means ZR or vice versa), imm / off / idx / shift /
      arr / vm-range / pair (Arm ARM predicate in lib/a64cases.py) - these need llvm-mc to reject the text as well.
MOV Rd,#imm and the AdvSIMD modified-immediate group are judged by the value the emitted word materialises.

Violation keys:  a64:<mnemonic>:<db operand syntax>:<clause>      replay file: form index + slot choice (re-rendered).
opts (./check C02 --opt k=v): k, k2 (deviation bounds of the two passes), forms=<regex on 'mnemonic:syntax'>, budget=<seconds>.
"""
import os, re, subprocess, sys, time, json, tempfile, collections, multiprocessing

from lib import runner, vbuild
from lib import a64cases as ac
from lib import a64ref as ar

LEVEL = "exploration"
SRC = "harness/emit_a64.cpp"
WORKERS = 16
BATCH = 40000            # cases per emit_a64 / llvm-mc invocation
NO_CONFIRM = False

ASSUMPTIONS = [
    "MOV Rd,#imm and MOVI/MVNI/ORR/BIC (vector, immediate) are aliases with several legal encodings of one request: they are "
    "judged by the value the emitted word materialises (Arm ARM DecodeBitMasks / AdvSIMDExpandImm), not by word equality",
    "pre/post-index by #0 that the assembler writes as the plain [Xn] form (LDP/STP, LD1..ST4) and B with CondCode::kAL "
    "(= plain B in the AsmJit API) have the same architectural effect as the request and are not judged",
    "finite value alphabets per operand slot (register ids, arrangements, element indexes, shift/extend kinds and amounts, "
    "addressing modes and boundary offsets, immediates at field limits +-1); values outside the alphabets are not explored",
    "reference assembler = llvm-mc 14 (no CSSC / RCPC3 / FP8 / LUT / THE / GCS ...): forms it does not know are decided by the "
    "db template leg alone (counter template_only_forms)",
    "a db template that contradicts BOTH llvm-mc and the assembler is recorded as db_template_suspect, not as a violation "
    "(the db has demonstrably wrong lines, e.g. cbz carries the cbnz opcode)",
    "SVE/SME forms and mnemonics AsmJit has no instruction id for are out of reach of the API (forms_uncovered)",
]

UNSCALED_ALIAS = {"ldr": "ldur", "str": "stur", "ldrb": "ldurb", "strb": "sturb", "ldrh": "ldurh", "strh": "sturh",
                  "ldrsb": "ldursb", "ldrsh": "ldursh", "ldrsw": "ldursw", "prfm": "prfum"}


# ---------------------------------------------------------------------------------------------------------------------
# setup shared by run / replay / workers
# ---------------------------------------------------------------------------------------------------------------------

_SETUPS = {}


def get_setup():
    key = ac.repo_dir()          # forked pool workers inherit the parent's instance
    s = _SETUPS.get(key)
    if s is None:
        s = _SETUPS[key] = Setup()
    return s


class Setup:
    def __init__(self):
        self.exe = vbuild.build("fast", os.path.join(vbuild.VERIF, SRC))
        out = subprocess.run([self.exe, "--names"], stdout=subprocess.PIPE, text=True, timeout=60).stdout
        self.names = set(l.split("\t")[0] for l in out.split("\n") if l)
        self.forms = ac.load_db()
        self.by_name = collections.defaultdict(list)
        for f in self.forms:
            self.by_name[f["name"]].append(f)
        self.plans = {}
        self.unsupported = {}          # idx -> reason
        for f in self.forms:
            try:
                self.plans[f["idx"]] = ac.plan_form(f, self.names, siblings=self.by_name[f["name"]])
            except ac.Unsupported as e:
                self.unsupported[f["idx"]] = str(e)
        self._wide = None
        self.workdir = os.path.join(vbuild.BUILD, "out", "c02-%s" % vbuild.repo_key())
        os.makedirs(self.workdir, exist_ok=True)

    def wide_plans(self):
        """Same forms with every register id 0..30 / 0..31 in the register slots (thorough tier, second pass)."""
        if self._wide is None:
            self._wide = {}
            for idx in self.plans:
                p = ac.plan_form(self.forms[idx], self.names, wide=True, siblings=self.by_name[self.forms[idx]["name"]])
                p.wide = True
                self._wide[idx] = p
        return self._wide

    def siblings(self, form):
        out = [f for f in self.by_name[form["name"]] if f is not form]
        alias = UNSCALED_ALIAS.get(form["name"])
        if alias:
            out += self.by_name.get(alias, [])
        return out


def run_emit(exe, lines, workdir):
    """lines: emit_a64 case texts.  Returns list of (err:int, errname, hex) and the number of cases the process survived."""
    fd, path = tempfile.mkstemp(suffix=".in", dir=workdir)
    with os.fdopen(fd, "w") as f:
        for i, l in enumerate(lines):
            f.write("%d\t%s\n" % (i, l))
    try:
        r = subprocess.run([exe, "--in", path], stdout=subprocess.PIPE, stderr=subprocess.PIPE, text=True, timeout=1800)
    finally:
        os.unlink(path)
    res = []
    for l in r.stdout.split("\n"):
        if not l:
            continue
        c = l.split("\t")
        if len(c) < 4:
            break
        res.append((int(c[1]), c[2], c[3]))
    return res, r.returncode, r.stderr[-3000:]


def word_of(hx):
    return int.from_bytes(bytes.fromhex(hx), "little")


def replay_text(plan, case):
    return ("C02 case\nform=%d\nkey=%s\nalphabet=%s\nchoice=%s\nemit=%s\nref=%s\n" %
            (plan.idx, plan.key, "wide" if getattr(plan, "wide", False) else "narrow", ",".join(str(x) for x in case.choice),
             case.emit, case.ref if case.ref is not None else "-"))


# ---------------------------------------------------------------------------------------------------------------------
# evaluation of a list of (plan, choice)
# ---------------------------------------------------------------------------------------------------------------------

class Acc:
    """Per-worker accumulation (merged in the parent)."""
    def __init__(self):
        self.c = collections.Counter()
        self.viol = {}                 # key -> [desc, replay, count]
        self.samples = []
        self.db_suspect = {}           # form key -> reason
        self.suspects = {}             # form key -> example
        self.rbe = collections.Counter()   # rejected-but-encodable per form key
        self.template_only = set()
        self.llvm_known = set()
        self.accepted_forms = set()
        self.pseudo = set()
        self.equiv = {}
        self.errors = []

    def violation(self, key, desc, replay, word=None):
        v = self.viol.get(key)
        if v:
            v[2] += 1
        else:
            self.viol[key] = [desc, replay, 1, word]


def evaluate(setup, items, acc, llvm_known_hint=None):
    """items: list of (plan, choice, counted: bool).  All cases of one form must be in the same call (the form-level fact
    'llvm-mc knows this instruction' is derived from them; the default case is always among them)."""
    exe, workdir = setup.exe, setup.workdir
    cases = []
    for plan, choice, counted in items:
        try:
            cases.append((plan, plan.render(choice), counted))
        except ac.Unsupported as e:
            acc.c["render_unsupported"] += 1
    if not cases:
        return
    res, rc, err = run_emit(exe, [c.emit for _, c, _ in cases], workdir)
    if len(res) < len(cases):
        # the filter died: the case after the last answered one is the culprit
        k = len(res)
        plan, c, _ = cases[k]
        key = "a64:%s:%s:%s" % (plan.name, ac.form_signature(plan.form).replace(" ", ""), "crash")
        acc.violation(key, "emit_a64 died (rc=%s) while emitting `%s`: %s" % (rc, c.emit, runner.crash_key(err)), replay_text(plan, c))
        # continue with the rest in a fresh process
        rest = [(p, ch.choice, cn) for p, ch, cn in cases[k + 1:]]
        cases = cases[:k]
        if rest:
            evaluate(setup, rest, acc, llvm_known_hint)
        if not cases:
            return
    refs = [(i, c.ref) for i, (_, c, _) in enumerate(cases) if c.ref is not None]
    lres = {}
    if refs:
        out = ar.llvm_assemble([t for _, t in refs], workdir)
        for (i, _), o in zip(refs, out):
            lres[i] = o
    # form-level fact: does llvm-mc know the instruction at all?
    known = set(llvm_known_hint or ())
    for i, (plan, c, _) in enumerate(cases):
        o = lres.get(i)
        if o is not None and o[0] is not None:
            known.add(plan.idx)
    acc.llvm_known |= known

    for i, (plan, c, counted) in enumerate(cases):
        if not counted:
            continue
        errc, ename, hx = res[i]
        accepted = errc == 0
        form = plan.form
        fkey = plan.key
        sig = ac.form_signature(form).replace(" ", "")
        kbase = "a64:%s:%s:" % (plan.name, sig)
        acc.c["evaluations"] += 1
        o = lres.get(i)
        l_acc = o is not None and o[0] is not None
        l_rej = o is not None and o[0] is None
        what = plan.describe(c.choice)

        if not accepted:
            if hx:
                acc.violation(kbase + "word-mismatch", "`%s` was refused (%s) but %d byte(s) were appended: %s" % (c.emit, ename, len(hx) // 2, hx),
                              replay_text(plan, c))
            if l_acc:
                acc.c["rejected_but_encodable"] += 1
                acc.rbe[fkey] += 1
            else:
                acc.c["refused_agreed"] += 1
            continue

        acc.accepted_forms.add(plan.idx)
        if len(hx) != 8:
            if plan.name == "mov" and len(hx) in (16, 24, 32):
                acc.c["pseudo_sequences"] += 1      # MOV Rd, #imm expands to MOVZ/MOVN + MOVK sequences; not a db form
                acc.pseudo.add(fkey)
                if "movimm" in c.flags and not ac.has_ev(c, "badid"):
                    # judged by value: the first word writes the register, every following word must be a MOVK of the same register
                    reg, val, size, single = c.flags["movimm"]
                    words = [word_of(hx[i:i + 8]) for i in range(0, len(hx), 8)]
                    eff = ar.mov_imm_effect(words[0])
                    got, why = None, ""
                    if eff is None or eff[0] != "wide":
                        why = "first word %08x is no MOVZ/MOVN" % words[0]
                    else:
                        got, rd, sf0 = eff[2], eff[1], words[0] >> 31
                        for wk in words[1:]:
                            hw = (wk >> 21) & 3
                            sfk = wk >> 31
                            if (wk >> 23) & 0xFF != 0b11100101 or (wk & 31) != rd or (not sfk and hw > 1) or (size == 32 and sfk):
                                got, why = None, "word %08x is no MOVK of the same register" % wk
                                break
                            got = (got & ~(0xFFFF << (16 * hw))) | (((wk >> 5) & 0xFFFF) << (16 * hw))
                            if not sfk:
                                got &= 0xFFFFFFFF          # a write to the W view clears the upper half of the X register
                        if got is not None and (rd != ac.gp_field(reg) or reg == "sp" or (size == 32 and sf0)):
                            got, why = None, "sequence targets register field %d / width %d" % (rd, 64 if sf0 else 32)
                    if got == val:
                        acc.c["value_decided"] += 1
                        acc.c["distinct_nontrivial"] += 1
                    else:
                        acc.violation(kbase + "word-mismatch", "`%s` -> %s which %s; requested: %s := %#x" % (
                            c.emit, hx, why or "materialises %#x" % got, ac.gp_name("x" if size == 64 else "w", reg, False), val), replay_text(plan, c))
                    continue
                acc.c["undecided"] += 1
                continue
            acc.violation(kbase + "word-mismatch", "`%s` accepted but %d bytes were appended (%s)" % (c.emit, len(hx) // 2, hx), replay_text(plan, c))
            continue
        w = word_of(hx)

        # --- value legs for the two alias families with several legal encodings of one request
        if "movimm" in c.flags and not ac.has_ev(c, "badid"):
            reg, val, size, single = c.flags["movimm"]
            eff = ar.mov_imm_effect(w)
            ok = False
            if eff is not None:
                kind, rd, v = eff
                ok = (rd == ac.gp_field(reg) and v == val and not (reg == "zr" and kind != "wide") and not (reg == "sp" and kind != "orr")
                      and not (size == 32 and (w >> 31)))
            if ok:
                acc.c["value_decided"] += 1
                acc.c["distinct_nontrivial"] += 1
                continue
            acc.violation(kbase + "word-mismatch",
                          "`%s` -> %08x which %s; requested: %s := %#x" % (c.emit, w, "writes %#x to register field %d (%s)" % (eff[2], eff[1], eff[0]) if eff else "is no MOVZ/MOVN/ORR-immediate",
                                                                          ac.gp_name("x" if size == 64 else "w", reg, False), val), replay_text(plan, c))
            continue
        if "modimm" in c.flags and not ac.has_ev(c, "badid"):
            rq = c.flags["modimm"]
            eff = ar.modimm_effect(w)
            want_rd = next((x for f, x in c.expect if f in ("Vd", "Vx")), None)
            if rq is None:
                acc.violation(kbase + "accepted-unencodable[%s]" % (ac.primary_ev(c) or "imm"),
                              "`%s` (%s) was accepted and encoded as %08x although no MOVI/MVNI/ORR/BIC immediate encoding denotes these operands" % (c.emit, what, w),
                              replay_text(plan, c), w)
                continue
            if eff is not None and eff[0] == rq[0] and eff[2] == rq[1] and eff[3] == rq[2] and (want_rd is None or eff[1] == want_rd):
                acc.c["value_decided"] += 1
                acc.c["distinct_nontrivial"] += 1
                continue
            acc.violation(kbase + "word-mismatch",
                          "`%s` -> %08x which is %s; requested %s constant %016x (Q=%d)" % (
                              c.emit, w, "%s rd=%d Q=%d pattern %016x" % eff if eff else "no modified-immediate encoding", rq[0], rq[2], rq[1]),
                          replay_text(plan, c))
            continue

        # --- leg (b): db template, own form first, then the other forms the same API call may denote
        t_ok, t_why = ar.template_check(form, w, c.expect)
        if not t_ok:
            sibs = setup.siblings(form)
            if c.flags.get("plain_b"):
                sibs = sibs + setup.by_name.get("b", [])
            for sib in sibs:
                ok2, _ = ar.template_check(sib, w, c.expect)
                if ok2:
                    t_ok = True
                    break

        decided = False
        # --- refusal leg, part 1: a register id that does not exist can never be encoded
        if ac.has_ev(c, "badid"):
            ids = re.findall(r"\b([wxbhsdqv])(\d+)\b", c.emit)
            if not any(int(n) > 31 and not (k in "wx" and int(n) == 63) for k, n in ids):
                acc.errors.append("renderer self-check: '%s' is tagged badid but carries no invalid register id" % c.emit)
                continue
            acc.violation(kbase + "accepted-unencodable[%s]" % ac.primary_ev(c),
                          "`%s` (%s) was accepted and encoded as %08x although a register id > 31 does not exist (the id was masked)" % (c.emit, what, w),
                          replay_text(plan, c), w)
            continue

        if c.flags.get("zero_wb") and (l_rej or (l_acc and o[0] != hx)):
            # pre/post-index by #0 written as the plain [Xn] form (LDP/STP, LD1..ST4): same architectural effect,
            # the reference either has no such encoding or uses the write-back opcode with imm 0 - not judged
            acc.c["equivalent_form_not_judged"] += 1
            acc.c["undecided"] += 1
            acc.equiv.setdefault(fkey, "%s -> %08x (reference: %s)" % (c.emit, w, o[0] if l_acc else "no encoding"))
            continue

        # --- leg (a): reference assembler
        if l_acc:
            lw = word_of(o[0]) if len(o[0]) == 8 else None
            acc.c["llvm_decided"] += 1
            decided = True
            if lw != w:
                acc.violation(kbase + "word-mismatch",
                              "`%s` -> %08x but llvm-mc assembles `%s` to %s%s" % (c.emit, w, c.ref, o[0] if lw is None else "%08x" % lw,
                                                                                  "" if t_ok else " (db template also disagrees: %s)" % t_why),
                              replay_text(plan, c), w)
                continue
            if not t_ok:
                if getattr(plan, "sys_generic", False):
                    acc.violation(kbase + "template-mismatch", "`%s` -> %08x: %s" % (c.emit, w, t_why), replay_text(plan, c))
                    continue
                acc.c["db_template_suspect"] += 1
                acc.db_suspect.setdefault(fkey, "%s -> %08x = llvm-mc, but %s" % (c.emit, w, t_why))
            else:
                acc.c["template_decided"] += 1
        elif l_rej and plan.idx in known:
            # llvm-mc knows the instruction and rejects these operands
            if c.ev:
                acc.violation(kbase + "accepted-unencodable[%s]" % ac.primary_ev(c),
                              "`%s` (%s) was accepted and encoded as %08x; reference: not encodable (%s), llvm-mc: %s" % (c.emit, what, w, ",".join(c.ev), o[1]),
                              replay_text(plan, c), w)
                continue
            acc.c["undecided"] += 1
            acc.c["accepted_reference_rejects_unexplained"] += 1
            acc.suspects.setdefault(fkey, "%s -> %08x; llvm-mc rejects `%s` (%s)" % (c.emit, w, c.ref, o[1]))
            continue
        else:
            # no verdict from llvm-mc (unknown instruction / no text): template leg alone
            acc.template_only.add(fkey)
            if c.ev and not ac.has_ev(c, "gp31"):
                acc.violation(kbase + "accepted-unencodable[%s]" % ac.primary_ev(c),
                              "`%s` (%s) was accepted and encoded as %08x; reference (Arm ARM / db field range): not encodable (%s)" % (c.emit, what, w, ",".join(c.ev)),
                              replay_text(plan, c), w)
                continue
            if not t_ok:
                acc.violation(kbase + "template-mismatch", "`%s` -> %08x: %s (llvm-mc does not know the instruction)" % (c.emit, w, t_why),
                              replay_text(plan, c))
                continue
            acc.c["template_decided"] += 1
            decided = True
        if decided:
            acc.c["distinct_nontrivial"] += 1
            if len(acc.samples) < 6 and (acc.c["distinct_nontrivial"] % 997 == 1):
                acc.samples.append("%s -> %08x (%s)" % (c.emit, w, "llvm-mc+template" if l_acc and t_ok else "llvm-mc" if l_acc else "template"))


# ---------------------------------------------------------------------------------------------------------------------
# worker
# ---------------------------------------------------------------------------------------------------------------------

def _worker(args):
    try:
        return _worker2(args)
    except Exception as e:   # noqa
        import traceback
        return dict(c={}, viol={}, samples=[], db_suspect={}, suspects={}, rbe={}, template_only=[], llvm_known=[], accepted_forms=[],
                    pseudo=[], capped=True, errors=["worker failed: " + traceback.format_exc()[-1500:]], equiv={})


def _worker2(args):
    form_ids, k, deadline, wide = args
    setup = get_setup()
    acc = Acc()
    batch = []
    capped = False
    plans = setup.wide_plans() if wide else setup.plans

    def flush():
        if batch:
            evaluate(setup, batch, acc)
            del batch[:]

    for idx in form_ids:
        plan = plans[idx]
        if time.time() > deadline:
            capped = True
            break
        n = 0
        if wide:
            # second pass: only assignments that use at least one value outside the first pass' alphabets
            narrow = [set(map(repr, vals)) for _, vals in setup.plans[idx].slots]
            fresh = [[repr(v) not in narrow[i] for v in vals] for i, (_, vals) in enumerate(plan.slots)]
            batch.append((plan, tuple([0] * len(plan.slots)), False))      # default: tells whether llvm-mc knows the form
            for ch in plan.cases(k):
                if any(c and fresh[i][c] for i, c in enumerate(ch)):
                    batch.append((plan, ch, True))
                    n += 1
        else:
            for ch in plan.cases(k):
                batch.append((plan, ch, True))
                n += 1
        acc.c["cases_generated"] += n
        if len(batch) >= BATCH:
            flush()
    flush()
    return dict(c=dict(acc.c), viol=acc.viol, samples=acc.samples, db_suspect=acc.db_suspect, suspects=acc.suspects,
                rbe=dict(acc.rbe), template_only=sorted(acc.template_only), llvm_known=sorted(acc.llvm_known),
                accepted_forms=sorted(acc.accepted_forms), pseudo=sorted(acc.pseudo), capped=capped, errors=acc.errors,
                equiv=acc.equiv)


# ---------------------------------------------------------------------------------------------------------------------
# run / replay
# ---------------------------------------------------------------------------------------------------------------------

def run(res, ctx):
    tier = ctx["tier"]
    opts = ctx["opts"]
    quick = tier == "quick"
    k = int(opts.get("k", 2 if quick else 9))       # no form has more than 5 slots: k=9 is the full product of the alphabets
    budget = float(opts.get("budget", 160 if quick else 1300))
    t0 = time.time()
    if ar.llvm_version() is None:
        res.errors.append("llvm-mc not found: the reference assembler leg cannot run")
        return
    setup = get_setup()
    only = opts.get("forms")
    ids = [i for i in sorted(setup.plans) if not only or re.search(only, setup.plans[i].key)]

    # chunks of forms, balanced by the number of cases; all cases of a form stay together
    def chunked(plans, kk):
        sizes = {i: plans[i].n_cases(kk) for i in ids}
        nchunks = WORKERS * (2 if quick else 8)
        chunks = [[] for _ in range(nchunks)]
        load = [0] * nchunks
        for i in sorted(ids, key=lambda x: -sizes[x]):
            j = load.index(min(load))
            chunks[j].append(i)
            load[j] += sizes[i]
        return [c for c in chunks if c]

    deadline = t0 + budget
    jobs = [(c, k, deadline, False) for c in chunked(setup.plans, k)]
    k2 = int(opts.get("k2", 0 if quick else 2))
    if k2:
        jobs += [(c, k2, deadline, True) for c in chunked(setup.wide_plans(), k2)]
    with multiprocessing.Pool(min(WORKERS, max(1, len(jobs)))) as pool:
        outs = pool.map(_worker, jobs, chunksize=1)

    db_suspect, suspects, rbe, equiv = {}, {}, collections.Counter(), {}
    template_only, llvm_known, accepted_forms, pseudo = set(), set(), set(), set()
    words = sorted(set(v[3] for o in outs for v in o["viol"].values() if v[3] is not None))
    dis = dict(zip(words, ar.llvm_disassemble(words))) if words else {}
    for o in outs:
        for kk, v in o["c"].items():
            res.count(kk, v)
        for key, (desc, rp, n, w) in o["viol"].items():
            if "[gpwidth" in key and w is not None and dis.get(w):
                # a register of the other width was accepted: a violation when the word is ANOTHER instruction (strh x1 -> strb w1);
                # the same instruction with the same register numbers is leniency about the spelling (and the database has a few
                # forms whose listed width is itself a typo: ldaxrh Xd, crc32x Xd, ldset Xs,Wd) - counted, not judged
                if dis[w].split()[0] == key.split(":")[1]:
                    res.count("lenient_register_width", n)
                    continue
            res.add_violation(key, desc + decoded(w, dis), rp, n)
        for s in o["samples"]:
            if len(res.samples) < 24:
                res.samples.append(s)
        db_suspect.update(o["db_suspect"])
        for kk, v in o["suspects"].items():
            suspects.setdefault(kk, v)
        rbe.update(o["rbe"])
        for kk, v in o["equiv"].items():
            equiv.setdefault(kk, v)
        template_only |= set(o["template_only"])
        llvm_known |= set(o["llvm_known"])
        accepted_forms |= set(o["accepted_forms"])
        pseudo |= set(o["pseudo"])
        if o["capped"]:
            res.capped = True
            res.exhaustive = False
        res.errors += o["errors"]

    forms = setup.forms
    res.count("forms_total", len(forms))
    res.count("forms_instantiated", len(ids))
    res.count("forms_accepted_somewhere", len(accepted_forms))
    res.count("forms_uncovered", len(forms) - len(ids))
    res.count("forms_llvm_known", len(llvm_known))
    res.count("template_only_forms", len(template_only))
    for kk in ("evaluations", "distinct_nontrivial", "llvm_decided", "template_decided", "undecided", "rejected_but_encodable",
               "db_template_suspect", "pseudo_sequences"):
        res.count(kk, 0)
    res.counters["states"] = res.counters.get("evaluations", 0)
    res.counters["transitions"] = res.counters.get("evaluations", 0)
    res.counters["traces"] = res.counters.get("evaluations", 0)
    res.strings["rule"] = ("every db form x (default operand assignment + all assignments with <= %d slot deviations - the full product when that exceeds the number of slots); slots: "
                           "GP id {0,1,15,16,29,30,ZR,SP,32,40,62,255,256}, vector id {0,1,15,16,31,32,40,63,255}, every listed "
                           "arrangement, element index {0,1,max,max+1}, shift kinds x {0,1,size-1,size}, extend kinds x {0,4,5}, "
                           "addressing mode, offsets {0,+-scale,max,max+scale,min,min-scale,unaligned}, immediates at field limits +-1, "
                           "16 condition codes, system-register / SYS operation tuples" % k)
    maxslots = max([len(setup.plans[i].slots) for i in ids] or [0])
    res.strings["bound"] = "%s over %d instantiated forms (of %d db forms, at most %d slots per form)%s; llvm-mc %s" % (
        "full product of the slot alphabets" if k >= maxslots else "deviation bound k=%d" % k, len(ids), len(forms), maxslots,
        (" + second pass: every GP id 0..30 / vector id 0..31 in the register slots with deviation bound k=%d" % k2) if k2 else "",
        ar.llvm_version())

    # coverage honesty: what was not reached and why
    reasons = collections.Counter()
    by_reason = collections.defaultdict(list)
    for idx, why in setup.unsupported.items():
        r = re.sub(r"'.*'", "'..'", why)
        reasons[r] += 1
        by_reason[r].append(forms[idx]["name"])
    for r, n in reasons.most_common():
        names = sorted(set(by_reason[r]))
        res.notes.append("uncovered: %d forms - %s: %s%s" % (n, r, " ".join(names[:40]), " ..." if len(names) > 40 else ""))
    never = [setup.plans[i].key for i in ids if i not in accepted_forms]
    if never:
        res.notes.append("instantiated but never accepted by the assembler (%d forms; C13 material): %s%s" % (
            len(never), "; ".join(never[:25]), " ..." if len(never) > 25 else ""))
    if template_only:
        res.notes.append("decided by the template leg alone (llvm-mc 14 does not know them / no reference text), %d forms: %s%s" % (
            len(template_only), "; ".join(sorted(template_only)[:25]), " ..." if len(template_only) > 25 else ""))
    if db_suspect:
        res.notes.append("db template contradicts llvm-mc AND the assembler (db line suspect, not reported), %d forms, e.g.: %s" % (
            len(db_suspect), " | ".join("%s: %s" % kv for kv in sorted(db_suspect.items())[:12])))
    if suspects:
        res.notes.append("accepted, llvm-mc rejects the text, no reference-side reason found (undecided, needs a human), %d forms: %s" % (
            len(suspects), " | ".join("%s" % v for _, v in sorted(suspects.items())[:15])))
    if rbe:
        res.notes.append("rejected-but-encodable (belongs to C13), %d cases in %d forms, top: %s" % (
            sum(rbe.values()), len(rbe), "; ".join("%s x%d" % kv for kv in rbe.most_common(12))))
    if equiv:
        res.notes.append("write-back by #0 encoded as the plain [Xn] form (same effect, different or no reference encoding; not judged), %d forms, e.g.: %s" % (
            len(equiv), " | ".join(v for _, v in sorted(equiv.items())[:6])))
    if pseudo:
        res.notes.append("MOV immediate pseudo expansions (several words, not a db form): %s" % "; ".join(sorted(pseudo)))


def decoded(w, dis):
    if w is None:
        return ""
    t = dis.get(w)
    return " [%08x is `%s`]" % (w, t) if t else " [%08x is not an allocated encoding for llvm-mc]" % w


def replay(res, path, ctx):
    text = open(path).read()
    m = re.search(r"^form=(\d+)$", text, re.M)
    mk = re.search(r"^key=(.*)$", text, re.M)
    mc = re.search(r"^choice=([\d,]*)$", text, re.M)
    if not (m and mk and mc):
        res.errors.append("replay file not understood")
        return
    setup = get_setup()
    idx = int(m.group(1))
    plans = setup.wide_plans() if re.search(r"^alphabet=wide$", text, re.M) else setup.plans
    plan = plans.get(idx)
    if plan is None or plan.key != mk.group(1):
        plan = next((p for p in plans.values() if p.key == mk.group(1)), None)
    if plan is None:
        res.errors.append("replay: form %s not found in the db" % mk.group(1))
        return
    choice = tuple(int(x) for x in mc.group(1).split(",")) if mc.group(1) else ()
    if len(choice) != len(plan.slots):
        res.errors.append("replay: choice does not fit the form")
        return
    acc = Acc()
    items = [(plan, choice, True)]
    default = tuple([0] * len(plan.slots))
    if default != choice and not ac.has_ev(plan.render(choice), "badid"):
        items.append((plan, default, False))      # only to learn whether llvm-mc knows the instruction
    evaluate(setup, items, acc)
    explicit = bool(ctx.get("replay"))            # the driver's confirmation replays do not need the disassembly
    for key, (desc, rp, n, w) in acc.viol.items():
        if explicit and w is not None:
            desc += decoded(w, dict(zip([w], ar.llvm_disassemble([w]))))
        res.add_violation(key, desc, rp, n)
    for kk, v in acc.c.items():
        res.count(kk, v)
    res.errors += acc.errors
