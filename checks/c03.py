"""C03 label references - exhaustive op histories + boundary families on real CodeHolder/Assembler (harness/c03_labels.cpp)."""
from lib import runner

LEVEL = "model_checking"
SRC = "harness/c03_labels.cpp"


def run(res, ctx):
    tier = ctx["tier"]
    args = []
    if "depth" in ctx["opts"]:
        args = ["--depth", ctx["opts"]["depth"]]
    if tier == "quick":
        runner.run_harness(res, SRC, "asan", tier, args=args, deadline=480, timeout=1200, shards=16)
    else:
        runner.run_harness(res, SRC, "asan", tier, args=args, deadline=2400, timeout=3600, shards=16)


def replay(res, path, ctx):
    runner.run_harness(res, SRC, "asan", ctx["tier"], replay=path, timeout=300)
