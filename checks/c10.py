"""C10 section layout / flattened image - configuration enumeration on the real CodeHolder."""
from lib import runner

LEVEL = "model_checking"
SRC = "harness/c10_sections.cpp"


def run(res, ctx):
    tier = ctx["tier"]
    if tier == "quick":
        runner.run_harness(res, SRC, "asan", tier, deadline=480, timeout=1200, shards=16)
    else:
        runner.run_harness(res, SRC, "asan", tier, deadline=2400, timeout=3600, shards=16)


def replay(res, path, ctx):
    runner.run_harness(res, SRC, "asan", ctx["tier"], replay=path, timeout=300)
