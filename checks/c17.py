"""C17 displacement / immediate codecs - exhaustive sweeps of write_offset, arm::Utils immediates and the
a64 assembler's immediate encoders against Arm ARM / SDM reference decoders (harness/c17_codecs.cpp)."""
from lib import runner

LEVEL = "exploration"
SRC = "harness/c17_codecs.cpp"


def run(res, ctx):
    tier = ctx["tier"]
    if tier == "quick":
        runner.run_harness(res, SRC, "fast", tier, deadline=300, timeout=900, shards=16)
    else:
        runner.run_harness(res, SRC, "fast", tier, deadline=1100, timeout=1800, shards=16)


def replay(res, path, ctx):
    runner.run_harness(res, SRC, "fast", ctx["tier"], replay=path, timeout=300)
