"""C13 - validation, encoder and ISA database agree on which instruction forms exist; names map back to ids.

Shape I (input space).  Every case (one request to the assembler) is observed several times, each time on a fresh CodeHolder:
    N   = Assembler::emit, validation OFF                                  (harness/emit_x86 diag 'n'  /  harness/emit_a64)
    V   = Assembler::emit, DiagnosticOptions::kValidateAssembler ON       (emit_x86 diag 'v'  /  emit_a64 --validate)
    VAL = InstAPI::validate() called directly                              (harness/c13_names --mode validate-x86 | validate-a64)
    NW / VW (AArch64 only) = N / V emitted after a NOP                     (harness/c13_names --mode emit-a64-warm): emit_a64 emits
          every case as the first instruction of an empty buffer, which sends also the non-validating assembler down its slow
          path; after a NOP the non-validating run takes the fast path and the validating one the slow path, as in real code.
Cases: every form of the x86 ISA database x {32,64}-bit mode and every form of the AArch64 database, instantiated by the C01 / C02
generators (lib/x86cases.py, lib/a64cases.py): default operands + every single deviation (x86 k<=1; thorough: pairs on one
representative x86 form per encoder path; AArch64 quick k<=2, thorough: full product of the slot alphabets) + near-miss mutations of
the default (lib/c13lib.py: operand size one class off, two operands swapped, wrong operand count (a64), {k} {z} {er} {sae}
broadcast lock xacquire xrelease rep repne on forms that do not list them) + the instances of every x64-only form in 32-bit mode
and of every x86-only form in 64-bit mode.

Clauses (violation key  agree:<arch>:<mode>:<mnemonic>:<db form signature>:<clause>@<deviation class>):
  (A) validation-changes-success   VAL ok, but V and N (a64 also: VW and NW) do not return the same error code
      validation-changes-bytes     VAL ok, V and N succeed with different bytes / section growth / relocation count
      validate-vs-assembler        VAL refuses the request but V (which runs the same validator first) accepts it
  (B) validator-admits-encoder-rejects[<encoder error>]   VAL ok but N refuses the request.  Not asserted for refusals that depend on
      the code position, which validate() is not told (N fails with InvalidDisplacement / a label-state error).
      (the converse, N accepts what VAL refuses, is the permitted leniency of the fast path: counted as lenient_encoder)
  (C) validator-accepts-excluded-mode    an instance of a form the database marks x64-only in 32-bit mode / x86-only in 64-bit mode,
      VAL ok, and no other db form of the mnemonic that IS allowed in that mode admits the same operand list
  (D) implemented-form-rejected / validator-rejects-implemented-form   ref/implemented_{x86,a64}.txt lists one line per
      (mode, mnemonic, db form signature) that the pinned tree accepted with N, V and VAL for at least one *instance of the form
      itself* (x86: default operands / other reg-mem alternative / implicit operands written out / another register 0..7 of the
      same class; a64: any case without a reference-side 'not encodable' reason), and one line '<signature> +<feature>' per
      decoration / prefix / encoding option of the form ({k} {k}{z} {er} {sae} broadcast lock xacquire xrelease rep repne vex3
      modmr modrm short long rex) accepted likewise.  A listed line for which no instance is accepted by all three any more is a
      violation: 'validator-rejects-implemented-form' when N still accepts an instance that VAL now refuses, else
      'implemented-form-rejected' (also when the assembler no longer knows the mnemonic).  db forms not in the list are reported as
      unimplemented (evidence only).  The lists are written only by `./check C13 --opt regen=1`.
  (E) validator-refuses-db-instance[<validator error>]   (x86) the request was instantiated from a db form in a mode the db allows,
      N encodes it, and the reference says it IS an instance of a db form: the independent field decoder of C01 (lib/x86dec.py, driven
      by the database: registers, memory form, immediate field, decorations, prefixes) decodes N's bytes as exactly the requested
      operands under a non-APX db form allowed in the mode, every register exists in the mode, {k0} is not used as a write mask, a REP
      count register only goes with forms that list a real rep/repne prefix, an immediate the db types as unsigned (ret/retf immu16,
      and r64,immu32) lies inside the unsigned field, a memory operand carries the size the db gives it (a request that leaves it out is
      AsmJit's convenience, not a db instance), and an {evex}/{vex}/{vex3} request is matched by a form that has that encoding - but VAL
      (and V) refuse it.  "both accept it in the modes the database allows".  Everything else N accepts and VAL refuses is the permitted
      leniency of the fast path (lenient_encoder).
  (R) recycled-emitter-differs[<kind>:<way>]   "recycled emitter across modes" (harness/c13_names --mode recycle-x86): for the
      mode-dependent part of the sweep (every instance of an x64-only / x86-only form in BOTH modes + all single deviations of
      mov add push pop inc dec lea call jmp xchg movsxd vaddps kmovq) one x86::Assembler / x86::Builder / x86::Compiler object is
      attached to a CodeHolder of the OTHER mode, used, taken off it (code.detach(), holder.reset() + re-init of the same holder,
      holder destroyed) and attached to a holder of the case's mode with validation on: verdict and bytes (Builder/Compiler: after
      finalize()) must equal those of a fresh emitter of the same kind.  (AArch64 has one mode: nothing to recycle across.)
  (F) names: see harness/c13_names.cpp (keys names:<arch>:<clause>:<name>).

Root-cause classes.  The deviation class of a case whose clause the form's DEFAULT instantiation already shows is 'default'.  When
InstAPI::validate(Arch::kAArch64) accepts instruction id 0, an id beyond the table and ADD with six immediates (probe), the AArch64
validator is an accept-everything stub; its (B) violations are then filed as  validator-admits-encoder-rejects@validate-stub.
a64 names that are not found although the id table is not in name order carry the clause name-roundtrip[unsorted-id-table].

A systematic defect hits thousands of cases.  Violations are folded by key; per (arch, mode, clause, deviation class) CAP_PER_CLASS
keys are reported (classes 'default' and 'form': CAP_DEFAULT keys of different mnemonics), per (arch, mode, clause) at most CAP_PER_CLAUSE, per
name clause CAP_NAMES; keys matched by known findings are reported under the known key and consume none of the caps.  Totals are in
the evidence: violating_cases, violation_keys_not_listed, one note per (arch, mode, clause) with the classes and mnemonics.

opts: only=<mnemonic,...> (x86), forms=<regex on 'mnemonic:syntax'> (a64), arch=x86|a64|names|recycle, k=<a64 deviation bound>, regen=1.
Debugging: C13_DEBUG_DIR=<dir> dumps every violating key (viol.txt) and the encoder-only accepted form instances (enc_only.txt).
"""
import os, re, sys, json, time, shutil, subprocess, collections, multiprocessing, tempfile

from lib import runner, vbuild
from lib import x86cases as X
from lib import a64cases as ac
from lib import c13lib as L
from lib import x86dec as D
from checks import c01 as C01
from checks import c02 as C02

LEVEL = "exploration"
SRC_X86 = "harness/emit_x86.cpp"
SRC_A64 = "harness/emit_a64.cpp"
SRC_NAMES = "harness/c13_names.cpp"
NWORK = 16
CAP_PER_CLASS = 1
CAP_DEFAULT = 6
CAP_PER_CLAUSE = 12
CAP_NAMES = 5
A64_BATCH = 60000

# N refusals that depend on where the code is / on label state - information validate() does not get
POSITION_ERRORS = {"InvalidDisplacement", "InvalidLabel", "TooManyLabels", "LabelAlreadyBound", "LabelAlreadyDefined",
                   "InvalidLabelName", "LabelNameTooLong", "InvalidParentLabel", "RelocOffsetOutOfRange", "InvalidRelocEntry",
                   "InvalidSection", "TooLarge", "OutOfMemory"}

ASSUMPTIONS = [
    "finite alphabets of lib/x86cases.py / lib/a64cases.py (register ids, ~75 memory forms, boundary immediates, decorations one at a "
    "time) + the near-miss mutations of lib/c13lib.py; 'representative operands' = the default instantiation of each form",
    "APX forms and forms of mnemonics the assembler has no id for are instantiated with their default operands only (x86) / not at all "
    "(AArch64: SVE/SME, unknown mnemonics); they are reported as unimplemented, never as violations",
    "clause (B) is not asserted when the non-validating encoder fails with a code-position / label-state error (InvalidDisplacement, "
    "InvalidLabel, ...): validate() is not given the code position",
    "clause (C) is judged at the level 'some db form of the mnemonic admits these operands in this mode' with a generous matcher "
    "(a case another form may admit is not judged)",
    "one representative violation key per (arch, mode, clause, deviation class); totals in the evidence",
    "x86 cases are emitted as the first instruction of a soft-reset CodeHolder (harness/emit_x86); AArch64 cases additionally after a NOP "
    "so that the non-validating assembler is observed on its fast path",
    "the vendored lists are form-level: a line stays 'accepted' as long as one instance of the form / feature is accepted by all three "
    "observations",
]


def _workdir(tag):
    d = os.path.join(vbuild.BUILD, "c13", tag)
    os.makedirs(d, exist_ok=True)
    return d


# =====================================================================================================================
# x86
# =====================================================================================================================
def x86_replay_text(c, clause, note, extra=""):
    return "C13 x86 case\nclause: %s\nemit: %s\ncase: %s\n%s# %s\n" % (clause, X.emit_line(c), C01.case_to_json(c), extra, note.replace("\n", " "))


def run_validate_x86(exe, lines, workdir, tag):
    inp = os.path.join(workdir, tag + ".vcases")
    outp = os.path.join(workdir, tag + ".vout")
    with open(inp, "w") as f:
        f.write("\n".join(lines) + "\n")
    r = subprocess.run([exe, "--mode", "validate-x86", "--in", inp, "--res", outp], stdout=subprocess.PIPE, stderr=subprocess.PIPE)
    res = [None] * len(lines)
    if os.path.exists(outp):
        with open(outp) as f:
            for line in f:
                p = line.split()
                if len(p) >= 3:
                    res[int(p[0]) - 1] = (int(p[1]), p[2])
    crash = None
    if r.returncode != 0:
        err = r.stderr.decode("utf-8", "replace")
        cur = None
        for l in err.split("\n"):
            if l.startswith("VH-CURRENT-CASE: "):
                cur = l[len("VH-CURRENT-CASE: "):]
        crash = (r.returncode, cur, err[-1500:])
    return res, crash


def x86_observe(exes, cases, workdir, tag):
    """-> list of (rv, rn, val) per case + list of crash descriptions [(which, line)]."""
    lv = [X.emit_line(c, True) for c in cases]
    ln = [X.emit_line(c, False) for c in cases]
    both = []
    for a, b in zip(lv, ln):
        both.append(a)
        both.append(b)
    crashes = []
    eres, crash = C01.run_emit(exes["emit_x86"], both, workdir, tag)
    if crash is not None:
        crashes.append(("emit_x86", crash))
    vres, crash = run_validate_x86(exes["names"], lv, workdir, tag)
    if crash is not None:
        crashes.append(("validate", crash))
    out = []
    for i in range(len(cases)):
        out.append((eres[2 * i], eres[2 * i + 1], vres[i]))
    return out, crashes, lv


def x86_db_instance(c, rn, cands):
    """Reference-side verdict 'this accepted request IS an instance of a database form of the mnemonic in this mode': the
    independent field decoder of C01 (lib/x86dec.py, driven by the ISA database: registers, memory form, immediate field with the
    db's signedness, decorations, prefixes) confirms that the bytes the non-validating assembler appended denote exactly the
    requested operands under a db form allowed in the mode, and every register named exists in the mode.
    Returns (True, '') / (False, reason)."""
    err, errname, b, delta, extra = rn
    if err != 0 or b is None or delta != len(b) or "cursor-delta" in extra or "post=" in extra:
        return False, "not cleanly encoded"
    cc = X.semantic_canon(c)
    if D.unencodable_ids(cc):
        return False, "register id does not exist in the mode"
    # decorations that are not part of the bytes / not decorations at all
    if cc.extra is not None and cc.extra[0] == "k" and cc.extra[1] == 0:
        return False, "{k0} is not a write mask (EVEX.aaa = 000 means unmasked)"
    # APX is outside this AsmJit (see ASSUMPTIONS): EVEX-promoted legacy/VEX forms do not make a request an instance
    forms = [g for g in cands if cc.mode in g["modes"] and not g["apx"] and D.bind(g, cc) is not None]
    # an encoding request ({evex} / {vex} / {vex3}) is an instance only of a form that has that encoding
    if cc.opts & X.OPT["evex"]:
        forms = [g for g in forms if g["prefix"] == "EVEX"]
    if cc.opts & (X.OPT["vex"] | X.OPT["vex3"]):
        forms = [g for g in forms if g["prefix"] in ("VEX", "XOP")]
    if cc.extra is not None and cc.extra[0] != "k":
        # a REP count register belongs to forms that list a real rep/repne prefix (not 'repIgnore' / bnd)
        forms = [g for g in forms if {"rep", "repne"} & set(g["prefixes"])]
    # immediates the db types as unsigned: the value has to be inside the unsigned field
    def imm_ok(g):
        for o, r in zip(g["operands"], D.bind(g, cc)):
            if r is not None and r[0] == "i" and o["imm"] and o["immSign"] == "unsigned" and not (0 <= r[1] < (1 << o["imm"])):
                return False
        return True
    forms = [g for g in forms if imm_ok(g)]
    # the db gives every memory operand its size (or says 'mem' = no size): a request that leaves the size out where the db
    # has one is AsmJit's convenience, not an instance by the db's rules
    def mem_sized(g):
        for o, r in zip(g["operands"], D.bind(g, cc)):
            if r is not None and r[0] == "m" and r[1].size == 0 and o["mem"] and not o["vsibReg"] and o["memSize"] and o["memSize"] > 0:
                return False
        return True
    forms = [g for g in forms if mem_sized(g)]
    if not forms:
        return False, "no db form admits the request under the reference rules"
    v = D.check(cc, b, forms, relocated=not extra.startswith("r0"))
    if v.status != "pass":
        return False, "db decoder: %s %s" % (v.status, v.detail[:120])
    return True, ""


def x86_judge_case(c, rv, rn, val, cands=None):
    """Per-case clauses (A), (B) and - when `cands` (the db forms of the mnemonic) is given, i.e. for cases instantiated from a db
    form in a mode the db allows - (E).  Returns (list of (clause, description), verdict triple of booleans)."""
    out = []
    v_ok, n_ok, val_ok = rv[0] == 0, rn[0] == 0, val[0] == 0
    line = X.emit_line(c)
    if val_ok:
        if rv[0] != rn[0]:
            out.append(("validation-changes-success", "%s: validate() = Ok; emit without validation -> %s, with validation -> %s" % (line, rn[1], rv[1])))
        elif v_ok and (rv[2] != rn[2] or rv[3] != rn[3] or rv[4] != rn[4]):
            out.append(("validation-changes-bytes", "%s: validate() = Ok; bytes without validation %s (+%d, %s), with validation %s (+%d, %s)" % (
                line, rn[2].hex() if rn[2] else "-", rn[3], rn[4], rv[2].hex() if rv[2] else "-", rv[3], rv[4])))
        if not n_ok and rn[1] not in POSITION_ERRORS:
            out.append(("validator-admits-encoder-rejects[%s]" % rn[1], "%s: validate() = Ok but the non-validating assembler refuses it with %s" % (line, rn[1])))
    else:
        if v_ok:
            out.append(("validate-vs-assembler", "%s: validate() = %s but the validating assembler accepts it (bytes %s)" % (line, val[1], rv[2].hex() if rv[2] else "-")))
        if n_ok and cands is not None and x86_db_instance(c, rn, cands)[0]:
            out.append(("validator-refuses-db-instance[%s]" % val[1],
                        "%s: the assembler without validation encodes it as %s, which the ISA database decodes as exactly this request (an instance of a db form "
                        "allowed in %d-bit mode), but validate() = %s and the validating assembler answers %s" % (line, rn[2].hex(), c.mode, val[1], rv[1])))
    return out, (val_ok, n_ok, v_ok)


_XG = {}


def _x86_init(repo, exes, tier, pair_forms, run_id, known_names):
    _XG.update(repo=repo, exes=exes, tier=tier, pair_forms=pair_forms, run_id=run_id, known=known_names)
    forms = X.load_db(repo)
    by = collections.defaultdict(list)
    for f in forms:
        by[f["name"]].append(f)
    _XG["by_name"] = by


class VBag(dict):
    """Violations folded by full key (key@class): full key -> [key, clause, arch, mode, class, description, replay, count].
    The kept example is the first one, replaced by a later one only if that is the form's default instantiation."""

    def add(self, v, count=1):
        key, clause, arch, mode, dc, desc, rp = v
        full = "%s@%s" % (key, dc)
        e = self.get(full)
        if e is None:
            self[full] = [key, clause, arch, mode, dc, desc, rp, count]
        else:
            e[7] += count
            if "[dev default]" in desc and "[dev default]" not in e[5]:
                e[5], e[6] = desc, rp

    def append(self, v):
        self.add(v)

    def merge(self, other):
        for full, e in other.items():
            self.add(tuple(e[:7]), e[7])


def _new_out():
    return dict(counters=collections.Counter(), violations=VBag(), samples=[], errors=[], lines={}, hist=collections.Counter(),
                lenient=collections.Counter(), notes_excl=[], enc_only=[])


def _x86_work(args):
    chunk_id, names = args
    out = _new_out()
    try:
        _x86_work_inner(chunk_id, names, out)
    except Exception as e:   # machinery failure, never a violation
        import traceback
        out["errors"].append("x86 chunk %d: %s\n%s" % (chunk_id, e, traceback.format_exc()[-1500:]))
    return out


def x86_generate(names, by_name, known, tier, pair_forms, cnt):
    """-> (cases, attributions) : attributions[i] = list of (form idx, role, dev); role in inst / nm / excl."""
    cases, attrs, index = [], [], {}

    def add(c, fidx, role):
        k = c.key()
        i = index.get(k)
        if i is None:
            i = index[k] = len(cases)
            cases.append(c)
            attrs.append([])
        else:
            cnt["duplicate_cases"] += 1
        attrs[i].append((fidx, role, c.dev))

    for name in names:
        for f in by_name[name]:
            if name not in known:
                cnt["forms_unknown_mnemonic"] += 1
                continue
            full = not f["apx"]
            pairs = tier == "thorough" and f["idx"] in pair_forms
            for mode in (32, 64):
                if mode in f["modes"]:
                    for c in X.instantiate(f, mode, k=1 if full else 0, pairs=pairs and full):
                        add(c, f["idx"], "inst")
                    if full:
                        for c in L.x86_near_misses(f, mode):
                            add(c, f["idx"], "nm")
                elif full:
                    for c in X.instantiate(f, mode, k=1):
                        if L.is_form_instance(c.dev, mode):
                            add(c, f["idx"], "excl")
    return cases, attrs


def _x86_work_inner(chunk_id, names, out):
    by_name, tier = _XG["by_name"], _XG["tier"]
    cnt = out["counters"]
    wd = _workdir("%s-x%02d" % (_XG["run_id"], chunk_id))
    cases, attrs = x86_generate(names, by_name, _XG["known"], tier, _XG["pair_forms"], cnt)
    obs, crashes, lines = x86_observe(_XG["exes"], cases, wd, "c")
    for which, (rc, cur, err) in crashes:
        c = None
        if cur is not None:
            for i, l in enumerate(lines):
                if l == cur or l.replace(" v ", " n ", 1) == cur:
                    c = cases[i]
                    break
        if c is not None:
            out["violations"].add(("agree:x86:%d:%s:%s:crash" % (c.mode, c.name, c.sig), "crash", "x86", c.mode, L.x86_dev_class(c.dev),
                                      "%s died (rc %d) in %s" % (which, rc, cur), x86_replay_text(c, "crash", "process died")))
        else:
            out["errors"].append("%s died rc=%d: %s" % (which, rc, err[-600:]))
    forms_by_idx = {f["idx"]: f for n in names for f in by_name[n]}
    # root-cause folding: a clause the form's DEFAULT instantiation already shows is inherited by every deviation of
    # another slot; such cases are filed under the deviation class 'default'
    default_clauses = {}
    judged = [None] * len(cases)
    for i, (c, (rv, rn, val), at) in enumerate(zip(cases, obs, attrs)):
        if rv is None or rn is None or val is None:
            continue
        # clause (E) only for requests instantiated from a db form in a mode the db allows (not near-misses / excluded modes)
        inst = any(role == "inst" for _, role, _ in at)
        judged[i] = x86_judge_case(c, rv, rn, val, by_name[c.name] if inst else None)
        if c.dev == "default":
            default_clauses[(c.form, c.mode)] = set(cl for cl, _ in judged[i][0])
    for i, (c, (rv, rn, val), at) in enumerate(zip(cases, obs, attrs)):
        if rv is None or rn is None or val is None:
            cnt["not_executed"] += 1
            continue
        cnt["evaluations"] += 1
        cnt["observations"] += 3
        clauses, (val_ok, n_ok, v_ok) = judged[i]
        if not val_ok and n_ok and any(role == "inst" for _, role, _ in at):
            cnt["db_instance_candidates_checked_by_db_decoder"] += 1
        out["hist"]["val=%s n=%s v=%s" % ("Ok" if val_ok else "rej", "Ok" if n_ok else "rej", "Ok" if v_ok else "rej")] += 1
        if val_ok and n_ok and v_ok and not clauses:
            cnt["distinct_nontrivial"] += 1
            cnt["accepted_by_all_three_same_bytes"] += 1
            if len(out["samples"]) < 3 and cnt["distinct_nontrivial"] % 1013 == 5:
                out["samples"].append("x86 %s -> validate Ok, bytes %s with and without validation" % (X.emit_line(c), rn[2].hex() if rn[2] else "-"))
        elif not val_ok and not n_ok and not v_ok:
            cnt["refused_by_all_three"] += 1
        if not val_ok and n_ok:
            cnt["lenient_encoder"] += 1
            out["lenient"][val[1]] += 1
        if val_ok and not n_ok and rn[1] in POSITION_ERRORS:
            cnt["position_dependent_refusals_not_judged"] += 1
        if val_ok and v_ok and val[0] == 0 and rv[1] != val[1]:
            pass
        if not val_ok and not v_ok and rv[0] != val[0]:
            cnt["validating_assembler_reports_other_error_than_validate"] += 1
        for clause, desc in clauses:
            dc = "default" if clause in default_clauses.get((c.form, c.mode), ()) else L.x86_dev_class(c.dev)
            out["violations"].add(("agree:x86:%d:%s:%s:%s" % (c.mode, c.name, c.sig, clause), clause, "x86", c.mode, dc,
                                      "%s [dev %s]" % (desc, c.dev), x86_replay_text(c, clause, desc)))
        # attributions: mode clause (C) and the form-level acceptance table (D)
        for fidx, role, dev in at:
            f = forms_by_idx[fidx]
            if role == "excl":
                cnt["excluded_mode_cases"] += 1
                if n_ok:
                    cnt["excluded_mode_encoder_accepts"] += 1
                if val_ok:
                    shadow = [g for g in by_name[f["name"]] if g is not f and c.mode in g["modes"] and L.form_admits(g, c.ops)]
                    if shadow:
                        cnt["excluded_mode_admitted_by_another_form"] += 1
                    else:
                        d = "%s: db form '%s %s' (%s) is %s-only, no form of the mnemonic allowed in %d-bit mode admits these operands, but validate() = Ok (assembler without validation: %s)" % (
                            X.emit_line(c), f["name"], f["sig"], f["opcodeString"], f["arch"], c.mode, rn[1])
                        out["violations"].add(("agree:x86:%d:%s:%s:validator-accepts-excluded-mode" % (c.mode, f["name"], f["sig"]),
                                                  "validator-accepts-excluded-mode", "x86", c.mode, L.x86_dev_class(dev), d + " [dev %s]" % dev,
                                                  x86_replay_text(c, "validator-accepts-excluded-mode", d, "form: %d\n" % fidx)))
                else:
                    cnt["excluded_mode_refused"] += 1
                    cnt["distinct_nontrivial"] += 1
            elif role == "inst" and (L.is_form_instance(dev, c.mode) or L.x86_feature_of(dev)):
                feat = None if L.is_form_instance(dev, c.mode) else L.x86_feature_of(dev)
                key = (str(c.mode), f["name"], f["sig"] + (" +" + feat if feat else ""))
                st = out["lines"].get(key)
                if st is None:
                    st = out["lines"][key] = dict(full=False, val=False, n=False, v=False, sample=None, apx=True)
                st["apx"] = st["apx"] and f["apx"]
                full = val_ok and n_ok and v_ok
                st["full"] = st["full"] or full
                st["val"] = st["val"] or val_ok
                st["n"] = st["n"] or n_ok
                st["v"] = st["v"] or v_ok
                if st["sample"] is None or (dev == "default" and not st["sample"][3]):
                    st["sample"] = (C01.case_to_json(c), X.emit_line(c), "validate %s, emit %s, emit+validation %s" % (val[1], rn[1], rv[1]), dev == "default")
                if n_ok and not val_ok and feat is None:
                    cnt["db_form_instance_encoder_accepts_validator_refuses"] += 1
                    if len(out["enc_only"]) < 400:
                        out["enc_only"].append("%s (form '%s %s' %s): validate() = %s, bytes %s" % (X.emit_line(c), f["name"], f["sig"], f["opcodeString"], val[1], rn[2].hex() if rn[2] else "-"))
    shutil.rmtree(wd, ignore_errors=True)


def x86_leg(res, ctx, exes, acc):
    tier = ctx["tier"]
    forms = X.load_db(vbuild.REPO)
    names = sorted(set(f["name"] for f in forms))
    only = ctx["opts"].get("only")
    if only:
        names = [n for n in names if n in set(only.split(","))]
    wd = _workdir("run%d-main" % os.getpid())
    known = C01.known_mnemonics(exes["emit_x86"], names, wd)
    shutil.rmtree(wd, ignore_errors=True)
    pair_forms = C01.pick_pair_forms(forms, known) if tier == "thorough" else set()
    cost = collections.Counter()
    for f in forms:
        if f["name"] in known and not f["apx"]:
            cost[f["name"]] += (40 if f["idx"] in pair_forms else 1) * (2 + len(f["operands"]))
    order = sorted(names, key=lambda n: (-cost[n], n))
    nchunks = NWORK * (4 if tier == "thorough" else 2)
    chunks = [[] for _ in range(nchunks)]
    for i, n in enumerate(order):
        chunks[i % nchunks].append(n)
    args = [(i, ch) for i, ch in enumerate(chunks) if ch]
    with multiprocessing.Pool(NWORK, initializer=_x86_init, initargs=(vbuild.REPO, exes, tier, pair_forms, "run%d" % os.getpid(), known)) as pool:
        outs = pool.map(_x86_work, args, chunksize=1)
    lines = {}
    for o in outs:
        acc["counters"].update(o["counters"])
        acc["violations"].merge(o["violations"])
        acc["hist_x86"].update(o["hist"])
        acc["lenient_x86"].update(o["lenient"])
        acc["enc_only"].extend(o["enc_only"])
        for s in o["samples"]:
            if len(res.samples) < 8:
                res.samples.append(s)
        res.errors.extend(o["errors"])
        for k, st in o["lines"].items():
            lines[k] = st
    acc["lines_x86"] = lines
    acc["db_lines_x86"] = {(str(m), f["name"], f["sig"]): (None if f["name"] in known else "mnemonic unknown to the assembler (InstAPI::string_to_inst_id)")
                           for f in forms for m in f["modes"] if not only or f["name"] in set(only.split(","))}
    res.count("x86_forms_total", len(forms))
    res.count("x86_mnemonics_total", len(set(f["name"] for f in forms)))
    res.count("x86_mnemonics_known_to_assembler", len(known))
    acc["x86_complete"] = not only


# =====================================================================================================================
# x86: recycled emitter across modes
# =====================================================================================================================
RECYCLE_NAMES = ("mov", "add", "push", "pop", "inc", "dec", "lea", "call", "jmp", "xchg", "movsxd", "vaddps", "kmovq")
RECYCLE_KINDS = ("asm", "builder", "compiler")
RECYCLE_WAYS = ("detach", "reset+reinit-same-holder", "holder-destroyed")


def recycle_cases(forms, known):
    """The mode-dependent part of the sweep: every instance of a form the db allows in one mode only - in BOTH modes (in the
    excluded mode these are the requests of clause (C)) - and, for a handful of common mnemonics, all single deviations
    (registers 8..31, 16/32/64-bit addressing, ...), whose legality differs between the modes."""
    out, seen = [], set()
    for f in forms:
        if f["apx"] or f["name"] not in known:
            continue
        for mode in (32, 64):
            if f["arch"] != "ANY":
                gen = (c for c in X.instantiate(f, mode, k=1) if L.is_form_instance(c.dev, mode))
            elif f["name"] in RECYCLE_NAMES:
                gen = X.instantiate(f, mode, k=1)
            else:
                continue
            for c in gen:
                k = c.key()
                if k not in seen:
                    seen.add(k)
                    out.append(c)
    return out


def run_recycle(exe, lines, workdir, tag):
    inp = os.path.join(workdir, tag + ".rcases")
    outp = os.path.join(workdir, tag + ".rout")
    with open(inp, "w") as f:
        f.write("\n".join(lines) + "\n")
    r = subprocess.run([exe, "--mode", "recycle-x86", "--in", inp, "--res", outp], stdout=subprocess.PIPE, stderr=subprocess.PIPE)
    res = [None] * len(lines)
    if os.path.exists(outp):
        with open(outp) as f:
            for line in f:
                p = line.split()
                if len(p) == 16:
                    res[int(p[0]) - 1] = {p[1]: p[2:6], p[6]: p[7:11], p[11]: p[12:16]}
    err = r.stderr.decode("utf-8", "replace") if r.returncode != 0 else ""
    return res, r.returncode, err


def recycle_judge(c, r):
    """-> list of (clause, description): a recycled emitter must answer exactly like a fresh one of the same kind."""
    out = []
    other = 32 if c.mode == 64 else 64
    for kind in RECYCLE_KINDS:
        fresh = r[kind][0]
        for w, way in enumerate(RECYCLE_WAYS):
            got = r[kind][1 + w]
            if got != fresh:
                out.append(("recycled-emitter-differs[%s:%s]" % (kind, way),
                            "%s: a fresh x86::%s (validation on) on a %d-bit CodeHolder answers %s, but the same request through an emitter object that was "
                            "first attached to a %d-bit holder, used, and taken off it by '%s' answers %s" % (
                                X.emit_line(c), {"asm": "Assembler", "builder": "Builder", "compiler": "Compiler"}[kind], c.mode, fresh, other, way, got)))
    return out


def _recycle_work(args):
    i, idx = args
    out = _new_out()
    try:
        cases = [_XG["recycle_cases"][j] for j in idx]
        wd = _workdir("%s-r%02d" % (_XG["run_id"], i))
        lines = [X.emit_line(c) for c in cases]
        res, rc, err = run_recycle(_XG["exes"]["names"], lines, wd, "r")
        shutil.rmtree(wd, ignore_errors=True)
        cnt = out["counters"]
        for c, r in zip(cases, res):
            if r is None:
                if rc != 0:
                    out["violations"].add(("agree:x86:%d:%s:%s:crash" % (c.mode, c.name, c.sig), "crash", "x86", c.mode, "recycled-emitter",
                                           "c13_names --mode recycle-x86 died (rc %s): %s" % (rc, runner.crash_key(err)), x86_replay_text(c, "recycled-emitter", "process died")))
                    rc = 0
                cnt["not_executed"] += 1
                continue
            cnt["recycled_emitter_cases"] += 1
            cnt["recycled_emitter_emissions"] += 12
            cnt["evaluations"] += 1
            cnt["observations"] += 12
            cl = recycle_judge(c, r)
            if not cl:
                cnt["distinct_nontrivial"] += 1
                if r["asm"][0].startswith("Ok"):
                    cnt["recycled_emitter_accepted_like_fresh"] += 1
                else:
                    cnt["recycled_emitter_refused_like_fresh"] += 1
            for clause, desc in cl:
                out["violations"].add(("agree:x86:%d:%s:%s:%s" % (c.mode, c.name, c.sig, clause), clause, "x86", c.mode,
                                       "x%d-to-x%d" % (64 if c.mode == 32 else 86, 86 if c.mode == 32 else 64), desc + " [dev %s]" % c.dev,
                                       x86_replay_text(c, "recycled-emitter", desc)))
    except Exception as e:
        import traceback
        out["errors"].append("recycle chunk %d: %s\n%s" % (i, e, traceback.format_exc()[-1200:]))
    return out


def recycle_leg(res, ctx, exes, acc):
    forms = X.load_db(vbuild.REPO)
    names = sorted(set(f["name"] for f in forms))
    only = ctx["opts"].get("only")
    wd = _workdir("run%d-main" % os.getpid())
    known = C01.known_mnemonics(exes["emit_x86"], names, wd)
    shutil.rmtree(wd, ignore_errors=True)
    if only:
        known = known & set(only.split(","))
    cases = recycle_cases(forms, known)
    _XG.update(exes=exes, run_id="run%d" % os.getpid(), recycle_cases=cases)
    n = NWORK * 2
    jobs = [(i, list(range(i, len(cases), n))) for i in range(n) if i < len(cases)]
    with multiprocessing.Pool(NWORK) as pool:
        outs = pool.map(_recycle_work, jobs, chunksize=1)
    for o in outs:
        acc["counters"].update(o["counters"])
        acc["violations"].merge(o["violations"])
        res.errors.extend(o["errors"])


# =====================================================================================================================
# AArch64
# =====================================================================================================================
def a64_replay_text(plan, tag, text, clause, note, choice=None):
    return "C13 a64 case\nclause: %s\nform=%d\nkey=%s\ndev=%s\nchoice=%s\nemit=%s\n# %s\n" % (
        clause, plan.idx, plan.key, tag, ",".join(str(x) for x in choice) if choice is not None else "-", text, note.replace("\n", " "))


def run_emit_a64(exe, lines, workdir, validate):
    fd, path = tempfile.mkstemp(suffix=".in", dir=workdir)
    with os.fdopen(fd, "w") as f:
        for i, l in enumerate(lines):
            f.write("%d\t%s\n" % (i, l))
    try:
        r = subprocess.run([exe] + (["--validate"] if validate else []) + ["--in", path], stdout=subprocess.PIPE, stderr=subprocess.PIPE, text=True, timeout=1800)
    finally:
        os.unlink(path)
    res = [None] * len(lines)
    for l in r.stdout.split("\n"):
        c = l.split("\t")
        if len(c) >= 4:
            res[int(c[0])] = (int(c[1]), c[2], c[3])
    return res, r.returncode, r.stderr[-3000:]


def run_validate_a64(exe, lines, workdir, mode=("--mode", "validate-a64")):
    """c13_names filter modes: validate-a64 -> (err, name);  emit-a64-warm -> (err, name, hex)."""
    fd, path = tempfile.mkstemp(suffix=".vin", dir=workdir)
    outp = path + ".out"
    with os.fdopen(fd, "w") as f:
        for i, l in enumerate(lines):
            f.write("%d\t%s\n" % (i, l))
    try:
        r = subprocess.run([exe] + list(mode) + ["--in", path, "--res", outp], stdout=subprocess.PIPE, stderr=subprocess.PIPE, text=True, timeout=1800)
        res = [None] * len(lines)
        if os.path.exists(outp):
            with open(outp) as f:
                for l in f:
                    c = l.rstrip("\n").split("\t")
                    if len(c) >= 3:
                        res[int(c[0])] = (int(c[1]), c[2]) + ((c[3],) if len(c) > 3 else ())
    finally:
        os.unlink(path)
        if os.path.exists(outp):
            os.unlink(outp)
    return res, r.returncode, r.stderr[-3000:]


def a64_observe(exes, texts, workdir):
    rn, rc1, e1 = run_emit_a64(exes["emit_a64"], texts, workdir, False)
    rv, rc2, e2 = run_emit_a64(exes["emit_a64"], texts, workdir, True)
    val, rc3, e3 = run_validate_a64(exes["names"], texts, workdir)
    # the same two emits into a warmed-up buffer: only there the non-validating assembler takes its fast path
    nw, rc4, e4 = run_validate_a64(exes["names"], texts, workdir, ("--mode", "emit-a64-warm"))
    vw, rc5, e5 = run_validate_a64(exes["names"], texts, workdir, ("--mode", "emit-a64-warm", "--validate", "1"))
    crashes = []
    for which, rc, err, r in (("emit_a64", rc1, e1, rn), ("emit_a64 --validate", rc2, e2, rv), ("validate", rc3, e3, val),
                              ("emit (warm buffer)", rc4, e4, nw), ("emit+validation (warm buffer)", rc5, e5, vw)):
        if rc != 0:
            first = next((i for i, x in enumerate(r) if x is None), None)
            crashes.append((which, rc, err, first))
    return list(zip(rv, rn, val, vw, nw)), crashes


def a64_judge_case(text, rv, rn, val, vw=None, nw=None):
    """rv / rn: harness/emit_a64 (case = first instruction of a fresh CodeHolder); vw / nw: the same after a NOP (warm buffer:
    the non-validating assembler takes its fast path)."""
    out = []
    v_ok, n_ok, val_ok = rv[0] == 0, rn[0] == 0, val[0] == 0
    if val_ok:
        if rv[0] != rn[0]:
            out.append(("validation-changes-success", "`%s`: validate() = Ok; emit without validation -> %s, with validation -> %s" % (text, rn[1], rv[1])))
        elif v_ok and rv[2] != rn[2]:
            out.append(("validation-changes-bytes", "`%s`: validate() = Ok; bytes without validation %s, with validation %s" % (text, rn[2] or "-", rv[2] or "-")))
        elif vw is not None and nw is not None and vw[0] >= 0 and nw[0] >= 0:
            if vw[0] != nw[0]:
                out.append(("validation-changes-success", "`%s` (after a NOP, so that the non-validating assembler takes its fast path): validate() = Ok; emit without validation -> %s, "
                            "with validation -> %s" % (text, nw[1], vw[1])))
            elif vw[0] == 0 and vw[2] != nw[2]:
                out.append(("validation-changes-bytes", "`%s` (after a NOP): validate() = Ok; bytes without validation %s, with validation %s" % (text, nw[2] or "-", vw[2] or "-")))
        if not n_ok and rn[1] not in POSITION_ERRORS:
            out.append(("validator-admits-encoder-rejects[%s]" % rn[1], "`%s`: validate() = Ok but the non-validating assembler refuses it with %s" % (text, rn[1])))
    elif v_ok:
        out.append(("validate-vs-assembler", "`%s`: validate() = %s but the validating assembler accepts it (bytes %s)" % (text, val[1], rv[2] or "-")))
    return out, (val_ok, n_ok, v_ok)


def _a64_work(args):
    try:
        return _a64_work_inner(args)
    except Exception as e:
        import traceback
        o = _new_out()
        o["errors"].append("a64 chunk: %s\n%s" % (e, traceback.format_exc()[-1500:]))
        return o


def a64_generate(plan, k):
    """-> list of (tag, text, choice or None, valid_instance: bool)."""
    out, seen = [], set()
    default = None
    for ch in plan.cases(k):
        try:
            c = plan.render(ch)
        except ac.Unsupported:
            continue
        if default is None:
            default = c
        if c.emit in seen:
            continue
        seen.add(c.emit)
        tag = "+".join(c.dev) if c.dev else "default"
        out.append((tag, c.emit, ch, not c.ev))
    if default is not None:
        for tag, text in L.a64_near_misses(default.emit):
            if text not in seen:
                seen.add(text)
                out.append((tag, text, None, False))
    return out


def _a64_work_inner(args):
    form_ids, k, stub = args
    setup = C02.get_setup()
    exes = _XG["exes"]
    out = _new_out()
    cnt = out["counters"]
    wd = _workdir("%s-a64" % _XG["run_id"])
    items = []      # (plan, tag, text, choice, valid)
    default_clauses = {}    # plan idx -> clauses of its default case (generated first): inherited by the other cases = class 'default'
    for idx in form_ids:
        plan = setup.plans[idx]
        for tag, text, ch, valid in a64_generate(plan, k):
            items.append((plan, tag, text, ch, valid))
    for base in range(0, len(items), A64_BATCH):
        batch = items[base:base + A64_BATCH]
        obs, crashes = a64_observe(exes, [it[2] for it in batch], wd)
        for which, rc, err, first in crashes:
            if first is not None:
                plan, tag, text, ch, valid = batch[first]
                out["violations"].add(("agree:a64:64:%s:%s:crash" % (plan.name, ac.form_signature(plan.form).replace(" ", "")), "crash", "a64", 64,
                                          L.a64_dev_class(tag), "%s died (rc %s) in `%s`: %s" % (which, rc, text, runner.crash_key(err)),
                                          a64_replay_text(plan, tag, text, "crash", "process died", ch)))
            else:
                out["errors"].append("%s failed rc=%s: %s" % (which, rc, err[-500:]))
        for (plan, tag, text, ch, valid), (rv, rn, val, vw, nw) in zip(batch, obs):
            if rv is None or rn is None or val is None or vw is None or nw is None:
                cnt["not_executed"] += 1
                continue
            if rn[0] < 0 or val[0] < 0:
                cnt["a64_text_not_parsed"] += 1      # near-miss text the filter cannot build operands from
                continue
            cnt["evaluations"] += 1
            cnt["observations"] += 5
            clauses, (val_ok, n_ok, v_ok) = a64_judge_case(text, rv, rn, val, vw, nw)
            out["hist"]["val=%s n=%s v=%s" % ("Ok" if val_ok else "rej", "Ok" if n_ok else "rej", "Ok" if v_ok else "rej")] += 1
            if val_ok and n_ok and v_ok and not clauses:
                cnt["distinct_nontrivial"] += 1
                cnt["accepted_by_all_three_same_bytes"] += 1
                if len(out["samples"]) < 2 and cnt["distinct_nontrivial"] % 1511 == 3:
                    out["samples"].append("a64 `%s` -> validate Ok, word %s with and without validation" % (text, rn[2]))
            elif not val_ok and not n_ok and not v_ok:
                cnt["refused_by_all_three"] += 1
            if not val_ok and n_ok:
                cnt["lenient_encoder"] += 1
            sig = ac.form_signature(plan.form).replace(" ", "")
            if tag == "default":
                default_clauses[plan.idx] = set(cl for cl, _ in clauses)
            for clause, desc in clauses:
                dc = "default" if clause in default_clauses.get(plan.idx, ()) else L.a64_dev_class(tag)
                if stub and clause.startswith("validator-admits-encoder-rejects"):
                    dc = "validate-stub"
                    clause = "validator-admits-encoder-rejects"      # one root cause whatever the encoder's error code
                    desc += " (InstAPI::validate(Arch::kAArch64) is an accept-everything stub: it also admits instruction id 0 and ADD with six immediates)"
                out["violations"].add(("agree:a64:64:%s:%s:%s" % (plan.name, sig, clause), clause, "a64", 64, dc, "%s [dev %s]" % (desc, tag),
                                          a64_replay_text(plan, tag, text, clause, desc, ch)))
            if valid:
                key = ("64", plan.name, sig)
                st = out["lines"].get(key)
                if st is None:
                    st = out["lines"][key] = dict(full=False, val=False, n=False, v=False, sample=None, apx=False)
                st["full"] = st["full"] or (val_ok and n_ok and v_ok)
                st["val"] = st["val"] or val_ok
                st["n"] = st["n"] or n_ok
                st["v"] = st["v"] or v_ok
                if st["sample"] is None:
                    st["sample"] = (a64_replay_text(plan, tag, text, "?", "form level", ch), text, "validate %s, emit %s, emit+validation %s" % (val[1], rn[1], rv[1]), True)
                if n_ok and not val_ok:
                    cnt["db_form_instance_encoder_accepts_validator_refuses"] += 1
    return out


def a64_probe(exes):
    r = subprocess.run([exes["names"], "--mode", "probe-a64"], stdout=subprocess.PIPE, stderr=subprocess.PIPE, text=True, timeout=60)
    return r.stdout.strip() == "stub"


def a64_leg(res, ctx, exes, acc):
    tier = ctx["tier"]
    setup = C02.get_setup()
    only = ctx["opts"].get("forms")
    ids = [i for i in sorted(setup.plans) if not only or re.search(only, setup.plans[i].key)]
    k = int(ctx["opts"].get("k", 2 if tier == "quick" else 9))      # no form has more than 5 slots: 9 = full product
    stub = a64_probe(exes)
    acc["a64_stub"] = stub
    sizes = {i: setup.plans[i].n_cases(k) + 20 for i in ids}
    nchunks = NWORK * (2 if tier == "quick" else 6)
    chunks = [[] for _ in range(nchunks)]
    load = [0] * nchunks
    for i in sorted(ids, key=lambda x: -sizes[x]):
        j = load.index(min(load))
        chunks[j].append(i)
        load[j] += sizes[i]
    jobs = [(c, k, stub) for c in chunks if c]
    _XG.update(exes=exes, run_id="run%d" % os.getpid())
    with multiprocessing.Pool(min(NWORK, max(1, len(jobs)))) as pool:
        outs = pool.map(_a64_work, jobs, chunksize=1)
    lines = {}
    for o in outs:
        acc["counters"].update(o["counters"])
        acc["violations"].merge(o["violations"])
        acc["hist_a64"].update(o["hist"])
        for s in o["samples"]:
            if len(res.samples) < 14:
                res.samples.append(s)
        res.errors.extend(o["errors"])
        lines.update(o["lines"])
    acc["lines_a64"] = lines
    acc["db_lines_a64"] = {("64", f["name"], ac.form_signature(f).replace(" ", "")): setup.unsupported.get(f["idx"]) for f in setup.forms}
    acc["a64_k"] = k
    acc["a64_complete"] = not only
    res.count("a64_forms_total", len(setup.forms))
    res.count("a64_forms_instantiated", len(ids))
    res.count("a64_forms_out_of_reach", len(setup.forms) - len(setup.plans))
    shutil.rmtree(_workdir("run%d-a64" % os.getpid()), ignore_errors=True)


# =====================================================================================================================
# names
# =====================================================================================================================
def alias_file(workdir):
    """Alias lists of the two ISA databases: '<arch> <alias> <canonical,...>'."""
    path = os.path.join(workdir, "aliases.txt")
    out = []
    with open(os.path.join(vbuild.REPO, "db", "isa_x86.json")) as f:
        j = json.load(f)
    for canon, d in sorted(j.get("aliases", {}).items()):
        for a in d.get("aliases", []):
            out.append("x86 %s %s" % (a, canon))
    al = collections.defaultdict(set)
    for f in ac.load_db():
        if f.get("aliasOf") and "SVE" not in f["category"] and "SME" not in f["category"]:      # AsmJit has no SVE/SME
            al[f["name"]].add(f["aliasOf"])
    for a, cs in sorted(al.items()):
        out.append("a64 %s %s" % (a, ",".join(sorted(cs))))
    with open(path, "w") as f:
        f.write("\n".join(out) + "\n")
    return path


def names_leg(res, ctx, acc, replay=None):
    wd = _workdir("names-%d" % os.getpid())
    r = runner.Result()
    try:
        runner.run_harness(r, SRC_NAMES, "asan", ctx["tier"], args=["--aliases", alias_file(wd)], timeout=600, replay=replay)
    finally:
        shutil.rmtree(wd, ignore_errors=True)
    acc["names"] = r
    return r


# =====================================================================================================================
# driver
# =====================================================================================================================
_EXES = {}


def build_exes():
    if not _EXES:
        _EXES.update(_build_exes())
    return _EXES


def _build_exes():
    return dict(emit_x86=vbuild.build("fast", os.path.join(vbuild.VERIF, SRC_X86)),
                emit_a64=vbuild.build("fast", os.path.join(vbuild.VERIF, SRC_A64)),
                names=vbuild.build("fast", os.path.join(vbuild.VERIF, SRC_NAMES)))


def run(res, ctx):
    tier, opts = ctx["tier"], ctx["opts"]
    t0 = time.time()
    exes = build_exes()
    acc = dict(counters=collections.Counter(), violations=VBag(), hist_x86=collections.Counter(), hist_a64=collections.Counter(),
               lenient_x86=collections.Counter(), enc_only=[], lines_x86=None, lines_a64=None)
    arch = opts.get("arch")
    if arch in (None, "names"):
        names_leg(res, ctx, acc)
    if arch in (None, "x86"):
        x86_leg(res, ctx, exes, acc)
    if arch in (None, "x86", "recycle"):
        recycle_leg(res, ctx, exes, acc)
    t1 = time.time()
    if arch in (None, "a64"):
        a64_leg(res, ctx, exes, acc)
    res.strings["wall_x86_s"] = "%.1f" % (t1 - t0)
    res.strings["wall_a64_s"] = "%.1f" % (time.time() - t1)
    finish(res, ctx, acc)
    shutil.rmtree(_workdir("run%d-main" % os.getpid()), ignore_errors=True)


def _some(names, n=8):
    names = sorted(names)
    return " ".join(names[:n]) + (" ... %d mnemonics" % len(names) if len(names) > n else "")


def line_replay(arch, key, st):
    return "C13 form line\narch: %s\nline: %s\nsample: %s\n# %s\n" % (arch, L.line_of(*key), st["sample"][0].replace("\n", "\\n") if st and st["sample"] else "-",
                                                                     st["sample"][2] if st and st["sample"] else "")


def check_lists(res, ctx, acc, viol):
    regen = ctx["opts"].get("regen") == "1"
    for arch in ("x86", "a64"):
        lines = acc.get("lines_" + arch)
        if lines is None:
            continue
        accepted = set(k for k, st in lines.items() if st["full"])
        base = [k for k in lines if " +" not in k[2]]
        res.count("%s_form_lines" % arch, len(base))
        res.count("%s_form_lines_implemented" % arch, len([k for k in base if lines[k]["full"]]))
        res.count("%s_feature_lines" % arch, len(lines) - len(base))
        res.count("%s_feature_lines_implemented" % arch, len(accepted) - len([k for k in base if lines[k]["full"]]))
        unimpl = sorted(k for k in base if not lines[k]["full"])
        res.count("%s_form_lines_unimplemented" % arch, len(unimpl))
        real = [k for k in unimpl if not lines[k].get("apx")]
        if unimpl:
            res.notes.append("%s: %d db form lines (mode, mnemonic, signature) of known mnemonics are not accepted by validate+emit+emit(v) = unimplemented (%d of them APX); first: %s" % (
                arch, len(unimpl), len(unimpl) - len(real), "; ".join("%s %s %s [%s]" % (k[0], k[1], k[2], lines[k]["sample"][2] if lines[k]["sample"] else "") for k in real[:12])))
        if regen:
            if not acc.get(arch + "_complete"):
                res.errors.append("regen=1 needs the complete sweep (no only= / forms= filter)")
                continue
            L.write_implemented(arch, accepted, [
                "C13 vendored list: (mode, mnemonic, db form signature) lines whose form instance was accepted by InstAPI::validate(), by the",
                "assembler without validation and by the assembler with validation.  Generated by `./check C13 --opt regen=1` from the pinned",
                "tree; never written by a normal run.  A listed line that is no longer accepted is a C13 violation."])
            res.notes.append("regen=1: wrote %s (%d lines)" % (L.list_path(arch), len(accepted)))
            continue
        listed = L.load_implemented(arch)
        if listed is None:
            res.errors.append("vendored list %s is missing (generate it once with ./check C13 --opt regen=1)" % L.list_path(arch))
            continue
        res.count("%s_listed_lines" % arch, len(listed))
        complete = acc.get(arch + "_complete")
        gone = 0
        for key in sorted(listed):
            st = lines.get(key)
            if st is None:
                why = acc.get("db_lines_" + arch, {}).get((key[0], key[1], key[2].split(" +")[0]), "absent")
                if why is not None and "mnemonic unknown to the assembler" in why:
                    # the db still has the form but the assembler no longer knows the mnemonic at all
                    res.count("evaluations", 1)
                    d = "%s form '%s %s' (mode %s) is in the vendored implemented list but cannot be requested any more: %s" % (arch, key[1], key[2], key[0], why)
                    viol.append(("agree:%s:%s:%s:%s:implemented-form-rejected" % (arch, key[0], key[1], key[2]), "implemented-form-rejected", arch, int(key[0]), "form",
                                 d, line_replay(arch, key, None)))
                elif complete:
                    gone += 1
                continue
            res.count("evaluations", 1)
            if st["full"]:
                res.count("listed_lines_still_accepted", 1)
                res.count("distinct_nontrivial", 1)
                continue
            mode, name, sig = key
            if st["n"] and not st["val"]:
                clause = "validator-rejects-implemented-form"
            else:
                clause = "implemented-form-rejected"
            d = "%s form '%s %s' (mode %s) is in the vendored implemented list but no instance of it is accepted by validate(), emit and emit+validation any more: %s -> %s" % (
                arch, name, sig, mode, st["sample"][1] if st["sample"] else "?", st["sample"][2] if st["sample"] else "?")
            viol.append(("agree:%s:%s:%s:%s:%s" % (arch, mode, name, sig, clause), clause, arch, int(mode), "form", d, line_replay(arch, key, st)))
        if gone:
            res.notes.append("%s: %d listed lines name forms that the database / generator no longer produces (not judged)" % (arch, gone))
            res.count("%s_listed_lines_not_in_db" % arch, gone)
        new = sorted(accepted - listed)
        if new:
            res.count("%s_accepted_lines_not_listed" % arch, len(new))
            res.notes.append("%s: %d form lines are accepted now but not in the vendored list (list is older than the tree): %s" % (
                arch, len(new), "; ".join("%s %s %s" % k for k in new[:10])))


def finish(res, ctx, acc):
    viol = acc["violations"]
    check_lists(res, ctx, acc, viol)
    for k, v in acc["counters"].items():
        res.count(k, v)
    for k in ("evaluations", "distinct_nontrivial", "lenient_encoder", "not_executed"):
        res.count(k, 0)
    if acc["counters"].get("not_executed", 0):
        res.exhaustive = False
    known = runner.load_known("C13")
    # --- names: every failing name arrives as its own key; known ones pass, unknown ones are capped per clause
    nm = acc.get("names")
    if nm is not None:
        for k, v in nm.counters.items():
            res.count(k, v)
        for k, v in nm.strings.items():
            res.strings.setdefault(k, v)
        for s in nm.samples[:6]:
            res.samples.append(s)
        res.errors.extend(nm.errors)
        res.exhaustive = res.exhaustive and nm.exhaustive
        per = collections.Counter()
        fam_all = collections.defaultdict(list)
        for v in sorted(nm.violations, key=lambda v: v["key"]):
            fam = v["key"].rsplit(":", 1)[0] if v["key"].startswith("names:") else v["key"]
            fam_all[fam].append(v["key"].rsplit(":", 1)[-1])
            res.count("violating_cases", v["count"])
            k, _ = runner.key_matches(known, v["key"])
            if k is not None:
                res.add_violation(k, v["desc"], v["replay"], v["count"])
                continue
            if per[fam] >= CAP_NAMES:
                res.count("violation_keys_not_listed", 1)
                continue
            per[fam] += 1
            res.add_violation(v["key"], v["desc"], v["replay"], v["count"])
        for fam, names in sorted(fam_all.items()):
            res.notes.append("%s: %d names: %s" % (fam, len(names), " ".join(names)))
    # --- agree: representative keys per (arch, mode, clause, deviation class).  Groups whose class is 'default' (the form's own
    # default instantiation shows the clause: every mnemonic is its own root cause) come first and may list CAP_DEFAULT keys
    # of DIFFERENT mnemonics; every other class lists CAP_PER_CLASS; at most CAP_PER_CLAUSE keys per (arch, mode, clause).
    # Keys matched by known findings are reported under the known key and consume nothing.
    dbg = os.environ.get("C13_DEBUG_DIR")
    dbgf = open(os.path.join(dbg, "viol.txt"), "w") if dbg else None
    groups = collections.defaultdict(list)
    by_clause = collections.Counter()
    mnems = collections.defaultdict(set)
    for full in sorted(viol):
        key, clause, arch, mode, dc, desc, rp, count = viol[full]
        res.count("violating_cases", count)
        by_clause[(arch, mode, clause, dc)] += count
        mnems[(arch, mode, clause, dc)].add(key.split(":")[3])
        if dbgf:
            dbgf.write("%s x%d :: %s\n" % (full, count, desc))
        k, _ = runner.key_matches(known, full)
        if k is not None:
            res.add_violation(k, desc, rp, count)
            continue
        groups[(arch, mode, clause, dc)].append((full, desc, rp, count))
    if dbgf:
        dbgf.close()
    per_clause = collections.Counter()
    unlisted = set()
    for g in sorted(groups, key=lambda g: (g[0], g[2], g[1], g[3] != "default", g[3])):
        arch, mode, clause, dc = g
        chosen_mn = set()
        cap = CAP_DEFAULT if dc in ("default", "form") else CAP_PER_CLASS
        for full, desc, rp, count in sorted(groups[g]):
            mn = full.split(":")[3]
            if len(chosen_mn) >= cap or per_clause[(arch, mode, clause)] >= CAP_PER_CLAUSE or mn in chosen_mn:
                unlisted.add(full)
                continue
            chosen_mn.add(mn)
            per_clause[(arch, mode, clause)] += 1
            res.add_violation(full, desc, rp, count)
    unlisted -= set(v["key"] for v in res.violations)
    res.count("violation_keys_not_listed", len(unlisted))
    agg = collections.Counter()
    for (arch, mode, clause, dc), n in by_clause.items():
        agg[(arch, mode, clause)] += n
    for (arch, mode, clause), n in sorted(agg.items()):
        cls = sorted(((dc, m) for (a, mo, cl, dc), m in by_clause.items() if (a, mo, cl) == (arch, mode, clause)), key=lambda x: -x[1])
        res.notes.append("violating cases %s mode %s clause %s: %d; by deviation class: %s" % (arch, mode, clause, n, "; ".join(
            "%s=%d (%s)" % (dc, m, _some(mnems[(arch, mode, clause, dc)])) for dc, m in cls[:14])))
    if acc.get("a64_stub"):
        res.notes.append("AArch64: InstAPI::validate() accepts instruction id 0, an undefined id and ADD with six immediates - the validator is a stub "
                         "(a64instapi.cpp validate(): 'TODO', returns kOk); every request the a64 encoder refuses is therefore a validator/encoder disagreement")
    for tag in ("x86", "a64"):
        h = acc.get("hist_" + tag)
        if h:
            res.strings["verdicts_" + tag] = ", ".join("%s: %d" % kv for kv in sorted(h.items(), key=lambda kv: -kv[1]))
    if acc["lenient_x86"]:
        res.strings["lenient_encoder_x86_by_validator_error"] = ", ".join("%s=%d" % kv for kv in acc["lenient_x86"].most_common(16))
    if acc["enc_only"]:
        res.notes.append("x86 db form instances the non-validating encoder accepts but validate() refuses (%d; not asserted unless the form is in the vendored list): %s" % (
            acc["counters"].get("db_form_instance_encoder_accepts_validator_refuses", 0), " | ".join(sorted(acc["enc_only"])[:12])))
        if dbg:
            with open(os.path.join(dbg, "enc_only.txt"), "w") as f:
                f.write("\n".join(sorted(acc["enc_only"])) + "\n")
    tier = ctx["tier"]
    res.strings["rule"] = ("every x86 db form x {32,64} and every AArch64 db form: default instantiation + all single deviations (register ids, memory "
                           "forms, immediates, decorations, options, label placements)%s + near-miss mutations (size class off by one, operands "
                           "swapped, unlisted decorations/prefixes, operand count) + excluded-mode instantiations; each case observed three times "
                           "(emit, emit+validation, InstAPI::validate) and compared; form lines compared with the vendored implemented list; all "
                           "instruction ids, db aliases and derived non-names through the name lookup" % (
                               " + pairs on representative x86 forms, k<=2 on AArch64" if tier == "thorough" else ""))
    res.strings["bound"] = "x86: k<=1 deviations on all forms%s; a64: k<=%s; names: all ids" % ("; k<=2 on representatives" if tier == "thorough" else "", acc.get("a64_k", "-"))
    res.counters["states"] = res.counters.get("evaluations", 0)
    res.counters["transitions"] = res.counters.get("observations", 0)
    res.counters["traces"] = res.counters.get("observations", 0)


# =====================================================================================================================
# replay
# =====================================================================================================================
def replay(res, path, ctx):
    text = open(path).read()
    if text.startswith("C13 names"):
        acc = {}
        r = names_leg(res, ctx, acc, replay=path)
        for v in r.violations:
            res.add_violation(v["key"], v["desc"], v["replay"], v["count"])
        res.errors.extend(r.errors)
        return
    exes = build_exes()
    wd = _workdir("replay-%d" % os.getpid())
    try:
        if text.startswith("C13 x86 case"):
            _replay_x86(res, text, exes, wd, ctx)
        elif text.startswith("C13 a64 case"):
            _replay_a64(res, text, exes, wd, ctx)
        elif text.startswith("C13 form line"):
            _replay_line(res, text, exes, wd, ctx)
        else:
            res.errors.append("replay file not understood")
    finally:
        shutil.rmtree(wd, ignore_errors=True)


def _replay_x86(res, text, exes, wd, ctx):
    m = re.search(r"^case: (.*)$", text, re.M)
    mc = re.search(r"^clause: (.*)$", text, re.M)
    mf = re.search(r"^form: (\d+)$", text, re.M)
    if not m:
        res.errors.append("replay file has no case: line")
        return
    c = C01.case_from_json(m.group(1))
    obs, crashes, _ = x86_observe(exes, [c], wd, "r")
    if crashes:
        res.add_violation("agree:x86:%d:%s:%s:crash@%s" % (c.mode, c.name, c.sig, L.x86_dev_class(c.dev)), "%s died" % crashes[0][0], text)
        return
    rv, rn, val = obs[0]
    if ctx.get("replay"):
        print("replay: %s\n  emit          -> %s %s\n  emit+validate -> %s %s\n  validate()    -> %s" % (
            X.emit_line(c), rn[1], rn[2].hex() if rn[2] else "-", rv[1], rv[2].hex() if rv[2] else "-", val[1]))
    forms = X.load_db(vbuild.REPO)
    f = forms[c.form] if 0 <= c.form < len(forms) else None
    if f is not None and f["name"] != c.name:
        f = None
    # clause (E) applies to requests instantiated from a db form in a mode the db allows (not near-misses)
    inst = f is not None and c.mode in f["modes"] and not c.dev.startswith("nm=")
    cands = [g for g in forms if g["name"] == c.name] if inst else None
    clauses, (val_ok, n_ok, v_ok) = x86_judge_case(c, rv, rn, val, cands)
    if mc and mc.group(1) == "recycled-emitter":
        rres, rc, err = run_recycle(exes["names"], [X.emit_line(c)], wd, "rr")
        if rres[0] is None:
            res.add_violation("agree:x86:%d:%s:%s:crash@recycled-emitter" % (c.mode, c.name, c.sig), "recycle-x86 died rc=%s" % rc, text)
            return
        if ctx.get("replay"):
            print("  recycled emitter: %s" % rres[0])
        for clause, desc in recycle_judge(c, rres[0]):
            res.add_violation("agree:x86:%d:%s:%s:%s@x%d-to-x%d" % (c.mode, c.name, c.sig, clause, 64 if c.mode == 32 else 86, 86 if c.mode == 32 else 64), desc, text)
        return
    dc = L.x86_dev_class(c.dev)
    folded = set()
    if clauses and c.dev != "default" and f is not None:
        dflt = list(X.instantiate(f, c.mode, k=0))
        if dflt:
            o2, cr2, _ = x86_observe(exes, dflt[:1], wd, "d")
            if not cr2 and None not in o2[0]:
                folded = set(cl for cl, _ in x86_judge_case(dflt[0], *o2[0], cands)[0])
    for clause, desc in clauses:
        res.add_violation("agree:x86:%d:%s:%s:%s@%s" % (c.mode, c.name, c.sig, clause, "default" if clause in folded else dc), desc, text)
    if mc and mc.group(1) == "validator-accepts-excluded-mode" and mf and val_ok:
        forms = X.load_db(vbuild.REPO)
        f = forms[int(mf.group(1))] if int(mf.group(1)) < len(forms) else None
        if f is not None and f["name"] == c.name and c.mode not in f["modes"]:
            shadow = [g for g in forms if g["name"] == c.name and g is not f and c.mode in g["modes"] and L.form_admits(g, c.ops)]
            if not shadow:
                res.add_violation("agree:x86:%d:%s:%s:validator-accepts-excluded-mode@%s" % (c.mode, f["name"], f["sig"], dc),
                                  "%s: %s-only form accepted by validate() in %d-bit mode" % (X.emit_line(c), f["arch"], c.mode), text)


def _replay_a64(res, text, exes, wd, ctx):
    g = lambda k: (re.search(r"^%s=(.*)$" % k, text, re.M) or [None, None])[1]
    emit, key, dev = g("emit"), g("key"), g("dev") or "default"
    if emit is None or key is None:
        res.errors.append("replay file not understood")
        return
    obs, crashes = a64_observe(exes, [emit], wd)
    name, sig = key.split(":", 1) if ":" in key else (key, "")
    if crashes:
        res.add_violation("agree:a64:64:%s:%s:crash@%s" % (name, sig, L.a64_dev_class(dev)), "%s died" % crashes[0][0], text)
        return
    rv, rn, val, vw, nw = obs[0]
    if ctx.get("replay"):
        print("replay: `%s`\n  emit          -> %s %s\n  emit+validate -> %s %s\n  validate()    -> %s\n  after a NOP: emit -> %s %s, emit+validate -> %s %s" % (
            emit, rn[1], rn[2], rv[1], rv[2], val[1], nw[1], nw[2], vw[1], vw[2]))
    if rn[0] < 0 or val[0] < 0:
        return
    clauses, _ = a64_judge_case(emit, rv, rn, val, vw, nw)
    stub = a64_probe(exes)
    folded = set()
    if clauses and dev != "default":
        plan = next((p for p in C02.get_setup().plans.values() if p.key == key), None)
        if plan is not None:
            try:
                dtext = plan.render(tuple([0] * len(plan.slots))).emit
                o2, c2 = a64_observe(exes, [dtext], wd)
                if not c2 and None not in o2[0]:
                    folded = set(cl for cl, _ in a64_judge_case(dtext, *o2[0])[0])
            except ac.Unsupported:
                pass
    for clause, desc in clauses:
        dc = "default" if clause in folded else L.a64_dev_class(dev)
        if stub and clause.startswith("validator-admits-encoder-rejects"):
            dc, clause = "validate-stub", "validator-admits-encoder-rejects"
        res.add_violation("agree:a64:64:%s:%s:%s@%s" % (name, sig, clause, dc), desc, text)


def _replay_line(res, text, exes, wd, ctx):
    """Form-level clause (D): re-instantiate the form line and look for an instance accepted by all three."""
    arch = re.search(r"^arch: (.*)$", text, re.M).group(1)
    mode, name, sig = re.search(r"^line: (.*)$", text, re.M).group(1).split("\t")
    sig = "" if sig == "-" else sig
    listed = L.load_implemented(arch) or set()
    if (mode, name, sig) not in listed:
        return
    st = dict(full=False, val=False, n=False)
    if arch == "x86":
        forms = X.load_db(vbuild.REPO)
        cases = []
        base, _, feat = sig.partition(" +")
        for f in forms:
            if f["name"] == name and f["sig"] == base and int(mode) in f["modes"]:
                cases += [c for c in X.instantiate(f, int(mode), k=0 if f["apx"] else 1)
                          if (L.x86_feature_of(c.dev) == feat if feat else L.is_form_instance(c.dev, int(mode)))]
        obs, crashes, _ = x86_observe(exes, cases, wd, "l")
        for c, (rv, rn, val) in zip(cases, obs):
            if rv is None or rn is None or val is None:
                continue
            if ctx.get("replay"):
                print("replay: %s -> validate %s, emit %s, emit+validation %s" % (X.emit_line(c), val[1], rn[1], rv[1]))
            st["full"] = st["full"] or (val[0] == 0 and rn[0] == 0 and rv[0] == 0)
            st["val"] = st["val"] or val[0] == 0
            st["n"] = st["n"] or rn[0] == 0
    else:
        setup = C02.get_setup()
        texts = []
        for idx, plan in setup.plans.items():
            if plan.name == name and ac.form_signature(plan.form).replace(" ", "") == sig:
                texts += [t for _, t, _, valid in a64_generate(plan, 1) if valid]
        obs, crashes = a64_observe(exes, texts, wd)
        for t, (rv, rn, val, vw, nw) in zip(texts, obs):
            if rv is None or rn is None or val is None:
                continue
            st["full"] = st["full"] or (val[0] == 0 and rn[0] == 0 and rv[0] == 0)
            st["val"] = st["val"] or val[0] == 0
            st["n"] = st["n"] or rn[0] == 0
    if not st["full"]:
        clause = "validator-rejects-implemented-form" if (st["n"] and not st["val"]) else "implemented-form-rejected"
        res.add_violation("agree:%s:%s:%s:%s:%s@form" % (arch, mode, name, sig, clause), "listed form line no longer accepted", text)
