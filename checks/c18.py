"""C18 arena allocator, arena containers and String vs. textbook data types - BFS over operation histories
(harness/c18_containers.cpp, one process group per part so that a sanitizer abort in one part cannot hide the
others) + growth-table sweep of the hash table's reciprocal constants (harness/c18_hashprimes.cpp)."""
import re, concurrent.futures
from lib import runner

LEVEL = "model_checking"
SRC = "harness/c18_containers.cpp"
SRC_PRIMES = "harness/c18_hashprimes.cpp"
SRC_ASTR = "harness/c18_arenastring.cpp"
SRC_SFMT = "harness/c18_sformat.cpp"

# (part, shards)
# heaviest first; at most PAR parts (x 16 shards) run side by side
PAR = 4
PARTS = [("arena", 16), ("string", 16), ("bitset", 16), ("vector", 16), ("mix", 16), ("hash", 16), ("pool", 8),
         ("tree", 7), ("list", 15), ("treeperm", 16), ("hashgrow", 16), ("vecsort", 16), ("bitprims", 16), ("arenasizes", 16), ("arenastring", 16)]


def _merge(res, r):
    for k, v in r.counters.items():
        res.counters[k] = res.counters.get(k, 0) + v
    for k, v in r.strings.items():
        res.strings.setdefault(k, v)
    for x in r.samples:
        if len(res.samples) < 40:
            res.samples.append(x)
    for x in r.notes:
        if x not in res.notes:
            res.notes.append(x)
    for x in r.assumptions:
        if x not in res.assumptions:
            res.assumptions.append(x)
    for v in r.violations:
        res.add_violation(v["key"], v["desc"], v["replay"], v["count"])
    res.exhaustive = res.exhaustive and r.exhaustive
    res.capped = res.capped or r.capped
    res.outcomes += r.outcomes
    res.errors += r.errors


def run(res, ctx):
    tier = ctx["tier"]
    quick = tier == "quick"
    extra = []
    if "depth" in ctx["opts"]:
        extra = ["--depth", ctx["opts"]["depth"]]
    only = ctx["opts"].get("part")
    dl = dict(deadline=300 if quick else 1500, timeout=900 if quick else 2700)
    jobs = []
    for part, shards in PARTS:
        if only and part != only:
            continue
        jobs.append(lambda r, part=part, shards=shards: runner.run_harness(
            r, SRC, "asan", tier, args=["--part", part] + extra, shards=shards, label=part, **dl))
    if not only or only == "arenastring":
        jobs.append(lambda r: runner.run_harness(r, SRC_ASTR, "asan", tier, args=["--part", "arenastring"], shards=4,
                                                 label="wide", extra_cxx=["-fno-sanitize=bounds"], **dl))
    if not only or only == "hashprimes":
        jobs.append(lambda r: runner.run_harness(r, SRC_PRIMES, "asan", tier, exclude_objs=["support/arenahash.cpp"], **dl))
    if not only or only == "sformat":
        jobs.append(lambda r: runner.run_harness(r, SRC_SFMT, "asan", tier, label="sformat", **dl))
    # build the binaries one after the other first: concurrent first-time builds of one target would race on its ninja file
    from lib import vbuild
    import os
    vbuild.build("asan", os.path.join(vbuild.VERIF, SRC))
    if not only or only == "sformat":
        vbuild.build("asan", os.path.join(vbuild.VERIF, SRC_SFMT))
    if not only or only == "arenastring":
        vbuild.build("asan", os.path.join(vbuild.VERIF, SRC_ASTR), extra_cxx=["-fno-sanitize=bounds"])
    if not only or only == "hashprimes":
        vbuild.build("asan", os.path.join(vbuild.VERIF, SRC_PRIMES), exclude_objs=["support/arenahash.cpp"])
    # every part has its own Result (run_harness is not re-entrant on one Result); merged afterwards
    results = [runner.Result() for _ in jobs]
    with concurrent.futures.ThreadPoolExecutor(max_workers=PAR) as ex:
        list(ex.map(lambda jr: jr[0](jr[1]), zip(jobs, results)))
    for r in results:
        _merge(res, r)
    bounds = [v for k, v in sorted(res.strings.items()) if k.startswith("bound_")]
    res.strings["bound"] = " || ".join(b.strip() for b in bounds)
    for k in [k for k in res.strings if k.startswith("bound_")]:
        del res.strings[k]


def replay(res, path, ctx):
    text = open(path).read()
    if "harness=c18_sformat" in text:
        runner.run_harness(res, SRC_SFMT, "asan", ctx["tier"], replay=path, timeout=300)
    elif "harness=c18_hashprimes" in text:
        runner.run_harness(res, SRC_PRIMES, "asan", ctx["tier"], replay=path, timeout=300, exclude_objs=["support/arenahash.cpp"])
    elif "harness=c18_arenastring" in text or re.search(r"part=arenastring cfg=N=(32|64)", text):
        runner.run_harness(res, SRC_ASTR, "asan", ctx["tier"], replay=path, timeout=300, extra_cxx=["-fno-sanitize=bounds"])
    else:
        runner.run_harness(res, SRC, "asan", ctx["tier"], replay=path, timeout=300)
