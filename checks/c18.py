"""C18 arena allocator, arena containers and String vs. textbook data types - BFS over operation histories
(harness/c18_containers.cpp, one process group per part so that a sanitizer abort in one part cannot hide the
others) + growth-table sweep of the hash table's reciprocal constants (harness/c18_hashprimes.cpp)."""
import re, concurrent.futures
from lib import runner

LEVEL = "model_checking"
SRC = "harness/c18_containers.cpp"
SRC_PRIMES = "harness/c18_hashprimes.cpp"
SRC_ASTR = "harness/c18_arenastring.cpp"

# (part, shards)
PARTS = [("vector", 16), ("string", 16), ("mix", 16), ("arena", 16), ("bitset", 16), ("hash", 16), ("pool", 8),
         ("tree", 7), ("list", 15), ("treeperm", 16), ("bitprims", 16), ("arenasizes", 16), ("arenastring", 16)]


def _merge(res, r):
    for k, v in r.counters.items():
        res.counters[k] = res.counters.get(k, 0) + v
    for k, v in r.strings.items():
        res.strings.setdefault(k, v)
    for x in r.samples:
        if len(res.samples) < 40:
            res.samples.append(x)
    for x in r.notes:
        if x not in res.notes:
            res.notes.append(x)
    for x in r.assumptions:
        if x not in res.assumptions:
            res.assumptions.append(x)
    for v in r.violations:
        res.add_violation(v["key"], v["desc"], v["replay"], v["count"])
    res.exhaustive = res.exhaustive and r.exhaustive
    res.capped = res.capped or r.capped
    res.outcomes += r.outcomes
    res.errors += r.errors


def run(res, ctx):
    tier = ctx["tier"]
    quick = tier == "quick"
    extra = []
    if "depth" in ctx["opts"]:
        extra = ["--depth", ctx["opts"]["depth"]]
    only = ctx["opts"].get("part")
    dl = dict(deadline=100 if quick else 1000, timeout=600 if quick else 2400)
    jobs = []
    for part, shards in PARTS:
        if only and part != only:
            continue
        jobs.append(lambda r, part=part, shards=shards: runner.run_harness(
            r, SRC, "asan", tier, args=["--part", part] + extra, shards=shards, label=part, **dl))
    if not only or only == "arenastring":
        jobs.append(lambda r: runner.run_harness(r, SRC_ASTR, "asan", tier, args=["--part", "arenastring"], shards=4,
                                                 label="wide", extra_cxx=["-fno-sanitize=bounds"], **dl))
    if not only or only == "hashprimes":
        jobs.append(lambda r: runner.run_harness(r, SRC_PRIMES, "asan", tier, exclude_objs=["support/arenahash.cpp"], **dl))
    # build once (serialised by vbuild's lock anyway), then run all parts' shards side by side; the OS balances the cores
    results = [runner.Result() for _ in jobs]
    with concurrent.futures.ThreadPoolExecutor(max_workers=len(jobs)) as ex:
        list(ex.map(lambda jr: jr[0](jr[1]), zip(jobs, results)))
    for r in results:
        _merge(res, r)
    bounds = [v for k, v in sorted(res.strings.items()) if k.startswith("bound_")]
    res.strings["bound"] = " || ".join(b.strip() for b in bounds)
    for k in [k for k in res.strings if k.startswith("bound_")]:
        del res.strings[k]


def replay(res, path, ctx):
    text = open(path).read()
    if "harness=c18_hashprimes" in text:
        runner.run_harness(res, SRC_PRIMES, "asan", ctx["tier"], replay=path, timeout=300, exclude_objs=["support/arenahash.cpp"])
    elif "harness=c18_arenastring" in text or re.search(r"part=arenastring cfg=N=(32|64)", text):
        runner.run_harness(res, SRC_ASTR, "asan", ctx["tier"], replay=path, timeout=300, extra_cxx=["-fno-sanitize=bounds"])
    else:
        runner.run_harness(res, SRC, "asan", ctx["tier"], replay=path, timeout=300)
