"""C05 register allocation preserves meaning - enumerated Compiler programs, native execution vs. reference interpreter (harness/c05_ra.cpp)."""
from lib import runner

LEVEL = "model_checking"
SRC = "harness/c05_ra.cpp"


def run(res, ctx):
    tier = ctx["tier"]
    if tier == "quick":
        runner.run_harness(res, SRC, "asan", tier, deadline=400, timeout=900, shards=16)
    else:
        runner.run_harness(res, SRC, "asan", tier, deadline=3000, timeout=4000, shards=16)


def replay(res, path, ctx):
    runner.run_harness(res, SRC, "asan", ctx["tier"], args=["--quiet", "1"], replay=path, timeout=300)
