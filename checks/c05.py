"""C05 register allocation preserves meaning - enumerated Compiler programs, native execution vs. reference interpreter (harness/c05_ra.cpp)."""
from lib import runner

LEVEL = "model_checking"
SRC = "harness/c05_ra.cpp"


def run(res, ctx):
    tier = ctx["tier"]
    if tier == "quick":
        runner.run_harness(res, SRC, "asan", tier, deadline=170, timeout=600, shards=16)
    else:
        runner.run_harness(res, SRC, "asan", tier, deadline=1400, timeout=2400, shards=16)


def replay(res, path, ctx):
    runner.run_harness(res, SRC, "asan", ctx["tier"], args=["--quiet", "1"], replay=path, timeout=300)
