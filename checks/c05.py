"""C05 register allocation preserves meaning.

Two harnesses:
  harness/c05_ra.cpp    - enumerated Compiler programs, native execution (x86-64) / node-level simulation (x86-32, AArch64)
                          against a reference interpreter
  harness/c05_lists.cpp - register-list instructions that need consecutive physical registers (AArch64 ld1..ld4/st1..st4/
                          tbl/tbx, x86 vp2intersect mask pairs): uninterpreted-term simulation of the allocated node list.
                          Which operands are read / written is taken from the ISA database of the tree under test
                          (db/isa_aarch64.json, db/isa_x86.json) and handed to the harness with --roles.
"""
import json, os, re
from lib import runner, vbuild

LEVEL = "model_checking"
SRC = "harness/c05_ra.cpp"
SRC_LISTS = "harness/c05_lists.cpp"


def _role(letter):
    return {"d": "W", "x": "X"}.get(letter, "R")


def isa_roles():
    """form class -> roles of its operand groups, from the ISA database (naming: Vd written, Vx read+written, Vs/Vn/Vm read;
    x86: W:/X:/R: prefixes, no prefix = read)."""
    a64 = open(os.path.join(vbuild.REPO, "db", "isa_aarch64.json")).read()
    x86 = open(os.path.join(vbuild.REPO, "db", "isa_x86.json")).read()
    roles = {}

    def first(pattern, text):
        m = re.search(pattern, text)
        if not m:
            raise SystemExit("c05: ISA database entry not found: " + pattern)
        return m

    for n in (1, 2, 3, 4):
        roles["ld%d" % n] = _role(first(r'"inst": "ld%d %dx\{V(\w)\.t\}' % (n, max(n, 2) if n > 1 else 2), a64).group(1))
        roles["st%d" % n] = _role(first(r'"inst": "st%d %dx\{V(\w)\.t\}' % (n, max(n, 2) if n > 1 else 2), a64).group(1))
    for n in (2, 4):
        roles["ld%dr" % n] = _role(first(r'"inst": "ld%dr %dx\{V(\w)\.t\}' % (n, n), a64).group(1))
    for n in (2, 3):
        roles["ld%dlane" % n] = _role(first(r'"inst": "ld%d %dx\{V(\w)\.S\}\+?\[#idx\]' % (n, n), a64).group(1))
    roles["st2lane"] = _role(first(r'"inst": "st2 2x\{V(\w)\.S\}\+?\[#idx\]', a64).group(1))
    for mn in ("tbl", "tbx"):
        m = first(r'"inst": "%s V(\w)\.16B, 2x\{V(\w)\.16B\}\+?, V(\w)\.16B"' % mn, a64)
        roles[mn] = ",".join(_role(m.group(i)) for i in (1, 2, 3))
    for mn in ("vp2intersectd", "vp2intersectq"):
        m = first(r'"any": "%s ([^"]+)"' % mn, x86)
        ops = [o.strip() for o in m.group(1).split(",")]
        roles[mn] = ",".join((o[0] if re.match(r"[RWX]:", o) else "R") for o in ops)
    return ";".join("%s=%s" % kv for kv in sorted(roles.items()))


def run(res, ctx):
    tier = ctx["tier"]
    largs = ["--roles", isa_roles()]
    if tier == "quick":
        runner.run_harness(res, SRC, "asan", tier, deadline=400, timeout=900, shards=16)
        runner.run_harness(res, SRC_LISTS, "asan", tier, args=largs, deadline=300, timeout=900, shards=16)
    else:
        runner.run_harness(res, SRC, "asan", tier, deadline=3000, timeout=4000, shards=16)
        runner.run_harness(res, SRC_LISTS, "asan", tier, args=largs, deadline=1500, timeout=2400, shards=16)


def replay(res, path, ctx):
    text = open(path).read()
    if "harness=c05_lists" in text:
        runner.run_harness(res, SRC_LISTS, "asan", ctx["tier"], args=["--quiet", "1", "--roles", isa_roles()], replay=path, timeout=300)
    else:
        runner.run_harness(res, SRC, "asan", ctx["tier"], args=["--quiet", "1"], replay=path, timeout=300)
