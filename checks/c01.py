"""C01 - the x86/x64 assembler emits a correct encoding of every instruction it accepts.

Shape I (input space): every form of the ISA database (tools/dump_isa_x86.js) x {32,64}-bit mode, default
instantiation + all single deviations (quick) / + pairs of deviations on one representative form per encoder path
(thorough) from the alphabets of lib/x86cases.py.  Every case goes through harness/emit_x86 (public
x86::Assembler::emit_inst, strict validation on, fresh CodeHolder per case); ACCEPTED cases are judged by
  (a) lib/x86dec.py   - field decoder driven by the ISA database ("encoding rules of the database"),
  (b) objdump / llvm-objdump - each must decode exactly one instruction that consumes all appended bytes,
  (c) GNU as          - own Intel-syntax text (lib/x86cases.intel_text) assembled by gas;
                        decode(asmjit bytes) == decode(gas bytes) under the SAME decoder, for both decoders.
One clause per violating case, in this order: section size delta != bytes appended / more than 15 bytes; leg (a)
fails; BOTH decoders consume a different length; BOTH decoders read another instruction than they read from the
reference assembler's bytes.  A lone tool disagreement is counted and sampled (tool_disagreements), not reported;
a tool that does not know an instruction (or gas rejecting the text) is inconclusive for that leg.
Cases whose bytes carry a relocation (absolute address in 64-bit mode without AddrType::kAbs, ...) are judged by the
db leg with the address field exempt; short jumps whose label could not be bound are not judged.

Violation keys: x86:<mode>:<mnemonic>:<form signature>:<clause>.  A systematic defect hits thousands of cases of
hundreds of mnemonics, so per (mode, clause, class of deviation) ONE representative key (the first in sorted order)
is reported; the totals are in the evidence (violating_cases, violation_keys_not_listed, notes per clause).
A request naming a register that does not exist in the mode is filed under accepted-unencodable:register-id whatever
field shows the damage.

Debugging: C01_DEBUG_DIR=<dir> dumps all violating cases / tool disagreements / gas rejections;
           ./check C01 --opt only=<mnemonic,...> restricts the sweep.
"""
import os, re, sys, json, time, shutil, subprocess, collections, hashlib, multiprocessing

from lib import runner, vbuild
from lib import x86cases as X
from lib import x86tools as T
from lib import x86dec as D

LEVEL = "exploration"
SRC = "harness/emit_x86.cpp"
NWORK = 16
CAP_KEYS_PER_CLAUSE = 6     # ... and in total per (mode, clause)
CAP_PER_CLAUSE = 1          # violation keys reported per (mode, clause, deviation class); the rest is counted
ASSUMPTIONS = [
    "finite alphabets: register ids {0,1,3,4,5,7,8,12,13,15,16,24,31}, ~75 memory forms, boundary immediates, "
    "decorations/options one at a time (quick) or in pairs on representative forms (thorough)",
    "database records that contradict the SDM (listed with reasons in lib/x86dec.DB_ERRATA) are patched before use; a record "
    "whose tuple type contradicts its own memory operand size makes the db leg inconclusive for disp8 cases",
    "one representative violation key per (mode, clause, deviation class); totals in violating_cases",
    "x86-32 and x86-64 code is decoded, not executed",
    "binutils 2.40 / LLVM 14 do not know instructions newer than ~2023: those cases are decided by the db leg alone",
]


def _workdir(tag):
    d = os.path.join(vbuild.BUILD, "c01", tag)
    os.makedirs(d, exist_ok=True)
    return d


# ---------------------------------------------------------------------------------------------------------------
# case (de)serialisation for replay files
# ---------------------------------------------------------------------------------------------------------------
def _op_to_j(o):
    if o[0] == "m":
        m = o[1]
        return ["m", m.size, list(m.base) if isinstance(m.base, tuple) else m.base, list(m.index) if m.index else None,
                m.shift, m.disp, m.seg, m.bcst, m.addr]
    return list(o)


def _op_from_j(j):
    if j[0] == "m":
        base = tuple(j[2]) if isinstance(j[2], list) else j[2]
        return ("m", X.Mem(j[1], base=base, index=tuple(j[3]) if j[3] else None, shift=j[4], disp=j[5], seg=j[6],
                            bcst=j[7], addr=j[8]))
    return tuple(j)


def case_to_json(c):
    return json.dumps(dict(mode=c.mode, name=c.name, opts=c.opts, extra=list(c.extra) if c.extra else None,
                           ops=[_op_to_j(o) for o in c.ops], pre=list(c.pre), post=list(c.post), form=c.form,
                           dev=c.dev, sig=c.sig))


def case_from_json(s):
    j = json.loads(s)
    return X.Case(j["mode"], j["name"], j["opts"], tuple(j["extra"]) if j["extra"] else None,
                  [_op_from_j(o) for o in j["ops"]], j["pre"], j["post"], j["form"], j["dev"], j["sig"])


def replay_text(c, note):
    return "C01 x86 case\nemit: %s\ncase: %s\n# %s\n" % (X.emit_line(c), case_to_json(c), note.replace("\n", " "))


# ---------------------------------------------------------------------------------------------------------------
# running the emitter
# ---------------------------------------------------------------------------------------------------------------
class EmitCrash(Exception):
    pass


def run_emit(exe, lines, workdir, tag):
    """Returns list of (err, errname, bytes or None, delta, extra) per input line."""
    inp = os.path.join(workdir, tag + ".cases")
    outp = os.path.join(workdir, tag + ".out")
    with open(inp, "w") as f:
        f.write("\n".join(lines) + "\n")
    r = subprocess.run([exe, "--in", inp, "--out", outp], stdout=subprocess.PIPE, stderr=subprocess.PIPE)
    res = [None] * len(lines)
    if os.path.exists(outp):
        with open(outp) as f:
            for line in f:
                p = line.split()
                if len(p) < 6:
                    continue
                i = int(p[0]) - 1
                b = None if p[3] == "-" else bytes.fromhex(p[3])
                res[i] = (int(p[1]), p[2], b, int(p[4]), " ".join(p[5:]))
    crash = None
    if r.returncode != 0:
        err = r.stderr.decode("utf-8", "replace")
        cur = None
        for l in err.split("\n"):
            if l.startswith("VH-CURRENT-CASE: "):
                cur = l[len("VH-CURRENT-CASE: "):]
        crash = (r.returncode, cur, err[-1500:])
    return res, crash


# ---------------------------------------------------------------------------------------------------------------
# judging one batch of accepted cases (one mode)
# ---------------------------------------------------------------------------------------------------------------
def judge_mode(mode, items, cands_by_name, workdir, tag, out):
    """items: list of (case, bytes, delta, extra).  Fills out (dict of counters / lists)."""
    if not items:
        return
    items = [(X.semantic_canon(it[0]),) + tuple(it[1:]) for it in items]
    bs = [it[1] for it in items]
    texts = [X.intel_text(it[0], length=len(it[1])) for it in items]
    od = T.objdump_decode(bs, mode, workdir, tag + "-a")
    ld = T.llvm_decode(bs, mode, workdir, tag + "-a")
    gblob, grej = T.gas_assemble(texts, mode, workdir, tag + "-g")
    gslots = T.blob_slots(gblob, len(items))
    god = T.decode_raw_slots(gslots, mode, workdir, tag + "-g", "objdump")
    gld = T.decode_raw_slots(gslots, mode, workdir, tag + "-g", "llvm")
    cnt = out["counters"]
    for i, (c, b, delta, extra) in enumerate(items):
        cnt["accepted"] += 1
        L = len(b)
        clauses = []      # definite violations: (clause, description)
        disagree = []     # lone tool disagreements
        decided = False
        # nothing else appended
        if delta != L or "cursor-delta" in extra:
            clauses.append(("length:section-delta", "section grew by %d bytes, cursor advanced by %d (%s)" % (delta, L, extra)))
        if L > 15:
            clauses.append(("length:over-15-bytes", "%d bytes appended: %s" % (L, b.hex())))
        # (a) db leg
        v = D.check(c, b, cands_by_name.get(c.name, ()))
        if v.status == "pass":
            cnt["decided_db"] += 1
            decided = True
        elif v.status == "fail":
            cnt["decided_db"] += 1
            decided = True
            clauses.append((v.clause, "db leg: " + v.detail))
        else:
            cnt["db_inconclusive"] += 1
            if len(out["db_inconclusive_samples"]) < (100000 if os.environ.get("C01_DEBUG_DIR") else 6):
                out["db_inconclusive_samples"].append("%s [%s] %s" % (X.emit_line(c), b.hex(), v.detail))
        if L > 15:
            _finish(c, b, clauses, disagree, decided, out)
            continue
        # (b) both decoders: exactly one instruction consuming all bytes
        o, l = od[i], ld[i]
        o_len = None if (o is None or not o.known) else (o.length == L)
        l_len = None if (l is None or not l.known) else (l.length == L)
        if o_len is not None:
            cnt["decided_objdump"] += 1
            decided = True
        if l_len is not None:
            cnt["decided_llvm"] += 1
            decided = True
        if o_len is False and l_len is False:
            clauses.append(("length:decoders", "objdump consumes %d, llvm-objdump %d of %d appended bytes %s (%s | %s)" % (
                o.length, l.length, L, b.hex(), o.text.strip(), l.text.strip())))
        elif o_len is False:
            disagree.append("objdump length %d != %d: %s" % (o.length, L, o.text.strip()))
        elif l_len is False:
            disagree.append("llvm-objdump length %d != %d: %s" % (l.length, L, l.text.strip()))
        # (c) reference assembler under the same decoder
        o_cmp = l_cmp = None
        if texts[i] is None:
            cnt["gas_not_expressible"] += 1
        elif i in grej:
            cnt["gas_rejected"] += 1
            if len(out["gas_rejected_samples"]) < (100000 if os.environ.get("C01_DEBUG_DIR") else 40):
                out["gas_rejected_samples"].append("%s  <- %s" % (texts[i], grej[i]))
        else:
            go, gl = god[i], gld[i]
            if o is not None and o.known and go is not None and go.known:
                o_cmp = T.normalize(o.text) == T.normalize(go.text)
            if l is not None and l.known and gl is not None and gl.known:
                l_cmp = T.normalize(l.text) == T.normalize(gl.text)
            if o_cmp is not None or l_cmp is not None:
                cnt["decided_gas"] += 1
                decided = True
            if o_cmp is False and l_cmp is False:
                clauses.append(("operand-mismatch:reference-assembler",
                                "asmjit %s decodes as [%s | %s] but '%s' assembled by gas decodes as [%s | %s]" % (
                                    b.hex(), T.normalize(o.text), T.normalize(l.text), texts[i], T.normalize(go.text),
                                    T.normalize(gl.text))))
            elif o_cmp is False:
                disagree.append("objdump: asmjit %s -> '%s' but gas '%s' -> '%s'" % (b.hex(), T.normalize(o.text), texts[i], T.normalize(go.text)))
            elif l_cmp is False:
                disagree.append("llvm-objdump: asmjit %s -> '%s' but gas '%s' -> '%s'" % (b.hex(), T.normalize(l.text), texts[i], T.normalize(gl.text)))
        st = "tools: objdump-len %s, llvm-len %s" % (o_len, l_len)
        if texts[i] is not None and i not in grej:
            st += ", gas-vs-objdump %s, gas-vs-llvm %s" % (o_cmp, l_cmp)
        else:
            st += ", gas n/a"
        clauses = [(cl, d + " {" + st + "}") for cl, d in clauses]
        _finish(c, b, clauses, disagree, decided, out)


def judge_relocated(items, cands_by_name, out):
    """Cases whose bytes carry a relocation: db leg only, address field exempt."""
    cnt = out["counters"]
    for c, b, delta, extra in items:
        c = X.semantic_canon(c)
        cnt["accepted"] += 1
        cnt["accepted_with_relocation"] += 1
        clauses = []
        L = len(b)
        if delta != L or "cursor-delta" in extra:
            clauses.append(("length:section-delta", "section grew by %d bytes, cursor advanced by %d (%s)" % (delta, L, extra)))
        if L > 15:
            clauses.append(("length:over-15-bytes", "%d bytes appended: %s" % (L, b.hex())))
        v = D.check(c, b, cands_by_name.get(c.name, ()), relocated=True)
        decided = v.status in ("pass", "fail")
        if decided:
            cnt["decided_db"] += 1
        else:
            cnt["db_inconclusive"] += 1
        if v.status == "fail":
            clauses.append((v.clause, "db leg (relocated operand, address field exempt): " + v.detail))
        _finish(c, b, clauses, [], decided, out)


def _finish(c, b, clauses, disagree, decided, out):
    cnt = out["counters"]
    if decided:
        cnt["distinct_nontrivial"] += 1
    else:
        cnt["undecided"] += 1
    out["accepted_forms"].add(c.form)
    if disagree and not clauses:
        cnt["tool_disagreements"] += 1
        if len(out["disagree_samples"]) < (100000 if os.environ.get("C01_DEBUG_DIR") else 30):
            out["disagree_samples"].append("%s :: %s" % (X.emit_line(c), "; ".join(disagree)))
    if clauses:
        # one clause per case: appended-length bookkeeping first, then the db leg, then the tool legs
        prio = {"length:section-delta": 0, "length:over-15-bytes": 1}
        clauses.sort(key=lambda cd: prio.get(cd[0], 3 if cd[0] in ("length:decoders", "operand-mismatch:reference-assembler") else 2))
        clause, desc = clauses[0]
        if len(clauses) > 1:
            desc += " [also: %s]" % ", ".join(cl for cl, _ in clauses[1:])
        if not clause.startswith("accepted-unencodable"):
            bad = D.unencodable_ids(c)
            if bad:
                clause, desc = "accepted-unencodable:register-id", "%s does not exist in %d-bit mode; %s" % (", ".join(bad), c.mode, desc)
        key = "x86:%d:%s:%s:%s" % (c.mode, c.name, c.sig, clause)
        out["violations"].append((key, clause, c.mode, "%s [dev %s] bytes %s: %s" % (X.emit_line(c), c.dev, b.hex(), desc),
                                  replay_text(c, desc)))
    if len(out["samples"]) < 4 and decided and not clauses:
        out["samples"].append("%s -> %s" % (X.emit_line(c), b.hex()))


def new_out():
    return dict(counters=collections.Counter(), violations=[], samples=[], disagree_samples=[], gas_rejected_samples=[],
                db_inconclusive_samples=[], accepted_forms=set(), instantiated_forms=set(), errors=[],
                reject_hist=collections.Counter())


def classify(c, r, out, items):
    """Sorts one emitter result into: not executed / rejected / accepted-not-judged / accepted (-> items[mode])."""
    cnt = out["counters"]
    if r is None:
        cnt["not_executed"] += 1
        return
    cnt["evaluations"] += 1
    err, errname, b, delta, extra = r
    if err != 0:
        out["reject_hist"][errname] += 1
        if delta != 0 or b is not None:
            out["violations"].append(("x86:%d:%s:%s:rejected-but-appended" % (c.mode, c.name, c.sig), "rejected-but-appended",
                                      c.mode, "%s rejected (%s) but %d bytes were appended" % (X.emit_line(c), errname, delta),
                                      replay_text(c, "rejected but appended")))
        return
    if "post=" in extra:
        # the label could not be bound where the case wanted it (short jump out of range): the appended bytes still
        # hold the unresolved placeholder, there is nothing to judge
        cnt["accepted"] += 1
        cnt["accepted_label_bind_failed_not_judged"] += 1
    elif not extra.startswith("r0") and b is not None:
        # the bytes are completed by a relocation (absolute address turned into rip-relative, 32-bit label address):
        # the address field is decided at relocation time (property C04); everything else is judged by the db leg
        items.setdefault(("reloc", c.mode), []).append((c, b, delta, extra))
    elif b is not None:
        items[c.mode].append((c, b, delta, extra))
    else:
        cnt["accepted"] += 1
        out["violations"].append(("x86:%d:%s:%s:length:nothing-appended" % (c.mode, c.name, c.sig), "length:nothing-appended",
                                  c.mode, "%s accepted (kOk) but no byte was appended" % X.emit_line(c), replay_text(c, "no bytes")))


# ---------------------------------------------------------------------------------------------------------------
# worker: one chunk of mnemonics
# ---------------------------------------------------------------------------------------------------------------
_G = {}


def _init_worker(repo, exe, tier, pair_forms, run_id):
    _G["run_id"] = run_id
    _G["forms"] = X.load_db(repo)
    _G["exe"] = exe
    _G["tier"] = tier
    _G["pair_forms"] = pair_forms
    by = collections.defaultdict(list)
    for f in _G["forms"]:
        by[f["name"]].append(f)
    _G["by_name"] = by


def _work(args):
    chunk_id, names, known_names = args
    out = new_out()
    try:
        _work_inner(chunk_id, names, known_names, out)
    except Exception as e:  # machinery failure, never a violation
        import traceback
        out["errors"].append("chunk %d: %s\n%s" % (chunk_id, e, traceback.format_exc()[-1500:]))
    out.pop("_dup_forms", None)
    out["accepted_forms"] = sorted(out["accepted_forms"])
    out["instantiated_forms"] = sorted(out["instantiated_forms"])
    return out


def _work_inner(chunk_id, names, known_names, out):
    by_name = _G["by_name"]
    tier = _G["tier"]
    wd = _workdir("%s-w%02d" % (_G["run_id"], chunk_id))
    cases = []
    seen = {}
    dup_forms = {}
    cnt = out["counters"]
    for name in names:
        for f in by_name[name]:
            k = 1
            if f["apx"] or name not in known_names:
                k = 0           # the assembler does not know the mnemonic / APX: only the default request
            # pairs of deviations: thorough - one representative form per encoder path; quick - every form of the mnemonics whose
            # encoder case has operand-pair shortcuts (mov: accumulator + absolute address -> moffs forms)
            pairs = (tier == "thorough" and f["idx"] in _G["pair_forms"]) or name in QUICK_PAIR_NAMES
            n0 = len(cases)
            for mode in f["modes"]:
                for c in X.instantiate(f, mode, k=k, pairs=pairs):
                    key = c.key()
                    first = seen.get(key)
                    if first is not None:
                        cnt["duplicate_cases"] += 1
                        if first.form != f["idx"]:
                            dup_forms.setdefault(id(first), set()).add(f["idx"])
                        continue
                    seen[key] = c
                    cases.append(c)
            if len(cases) > n0 or True:
                out["instantiated_forms"].add(f["idx"])
    del seen
    out["_dup_forms"] = dup_forms
    lines = [X.emit_line(c) for c in cases]
    res, crash = run_emit(_G["exe"], lines, wd, "emit")
    if crash is not None:
        rc, cur, err = crash
        # the case that killed the emitter is a finding of its own
        c = None
        if cur is not None:
            for i, l in enumerate(lines):
                if l == cur:
                    c = cases[i]
                    break
        if c is not None:
            out["violations"].append(("x86:%d:%s:%s:crash" % (c.mode, c.name, c.sig), "crash", c.mode,
                                      "emit_x86 died (rc %d) in %s" % (rc, cur), replay_text(c, "emitter crashed")))
        else:
            out["errors"].append("emit_x86 died rc=%d: %s" % (rc, err[-600:]))
    items = {32: [], 64: []}
    for c, r in zip(cases, res):
        classify(c, r, out, items)
        if r is not None and r[0] == 0 and id(c) in dup_forms:
            out["accepted_forms"].update(dup_forms[id(c)])       # the same request also instantiates these forms
    del cases, res, lines
    for mode in (32, 64):
        judge_mode(mode, items[mode], by_name, wd, "m", out)
        judge_relocated(items.get(("reloc", mode), ()), by_name, out)
    shutil.rmtree(wd, ignore_errors=True)


# ---------------------------------------------------------------------------------------------------------------
# driver
# ---------------------------------------------------------------------------------------------------------------
def known_mnemonics(exe, names, workdir):
    """Which db mnemonics the assembler knows at all (one request without operands per name)."""
    names = sorted(names)
    res, crash = run_emit(exe, ["64 v %s 0 -" % n for n in names], workdir, "names")
    known = set()
    for n, r in zip(names, res):
        if r is not None and r[1] != "E_NAME":
            known.add(n)
    return known


QUICK_PAIR_NAMES = {"mov", "movabs", "xchg", "test"}


def pick_pair_forms(forms, known):
    reps = {}
    for f in forms:
        if f["apx"] or f["name"] not in known:
            continue
        k = X.representative_key(f)
        if k not in reps:
            reps[k] = f["idx"]
    return set(reps.values())


def run(res, ctx):
    tier = ctx["tier"]
    t0 = time.time()
    exe = vbuild.build("fast", os.path.join(vbuild.VERIF, SRC))
    forms = X.load_db(vbuild.REPO)
    names = sorted(set(f["name"] for f in forms))
    only = ctx["opts"].get("only")
    if only:
        names = [n for n in names if n in set(only.split(","))]
    wd = _workdir("run%d-main" % os.getpid())
    known = known_mnemonics(exe, names, wd)
    shutil.rmtree(wd, ignore_errors=True)
    pair_forms = pick_pair_forms(forms, known) if tier == "thorough" else set()
    # chunks: whole mnemonics, dealt round-robin over cost-sorted order so the workers finish together
    cost = collections.Counter()
    for f in forms:
        if f["name"] in known and not f["apx"]:
            cost[f["name"]] += (40 if f["idx"] in pair_forms else 1) * (2 + len(f["operands"]))
    order = sorted(names, key=lambda n: (-cost[n], n))
    nchunks = NWORK * (4 if tier == "thorough" else 2)
    chunks = [[] for _ in range(nchunks)]
    for i, n in enumerate(order):
        chunks[i % nchunks].append(n)
    args = [(i, ch, known) for i, ch in enumerate(chunks) if ch]
    with multiprocessing.Pool(NWORK, initializer=_init_worker, initargs=(vbuild.REPO, exe, tier, pair_forms, "run%d" % os.getpid())) as pool:
        outs = pool.map(_work, args, chunksize=1)
    merge(res, outs, forms, known, tier)
    res.strings["wall_pipeline_s"] = "%.1f" % (time.time() - t0)


def merge(res, outs, forms, known, tier):
    total = collections.Counter()
    accepted_forms = set()
    inst_forms = set()
    viol = []
    rej = collections.Counter()
    dsamples, gsamples, isamples = [], [], []
    for o in outs:
        total.update(o["counters"])
        accepted_forms.update(o["accepted_forms"])
        inst_forms.update(o["instantiated_forms"])
        viol.extend(o["violations"])
        rej.update(o["reject_hist"])
        for s in o["samples"]:
            if len(res.samples) < 12:
                res.samples.append(s)
        dsamples.extend(o["disagree_samples"])
        gsamples.extend(o["gas_rejected_samples"])
        isamples.extend(o["db_inconclusive_samples"])
        for e in o["errors"]:
            res.errors.append(e)
    dbg = os.environ.get("C01_DEBUG_DIR")
    if dbg:
        with open(os.path.join(dbg, "disagree.txt"), "w") as f:
            f.write("\n".join(sorted(dsamples)) + "\n")
        with open(os.path.join(dbg, "gasrej.txt"), "w") as f:
            f.write("\n".join(sorted(gsamples)) + "\n")
        with open(os.path.join(dbg, "dbinc.txt"), "w") as f:
            f.write("\n".join(sorted(isamples)) + "\n")
        with open(os.path.join(dbg, "viol.txt"), "w") as f:
            for v in sorted(viol, key=lambda v: (v[1], v[2], v[0])):
                f.write("%s :: %s\n" % (v[0], v[3]))
    for k in ("accepted_label_bind_failed_not_judged", "accepted_with_relocation", "evaluations", "distinct_nontrivial", "accepted", "decided_db", "decided_objdump", "decided_llvm", "decided_gas",
              "tool_disagreements", "undecided", "db_inconclusive", "gas_rejected", "gas_not_expressible", "duplicate_cases",
              "not_executed"):
        res.count(k, total.get(k, 0))
    res.count("forms_total", len(forms))
    res.count("forms_instantiated", len(inst_forms))
    res.count("forms_accepted", len(accepted_forms))
    res.count("forms_never_accepted", len(inst_forms - accepted_forms))
    res.count("forms_apx_or_unknown_mnemonic", len([f for f in forms if f["apx"] or f["name"] not in known]))
    res.count("mnemonics_total", len(set(f["name"] for f in forms)))
    res.count("mnemonics_known_to_assembler", len(known))
    res.strings["rule"] = ("every db form x {32,64} mode: default instantiation + all single deviations over register-id / "
                           "memory-form / immediate / decoration / option alphabets%s; accepted cases judged by db field decoder, "
                           "objdump, llvm-objdump and gas differential" % (" + pairs of deviations on one representative form per "
                                                                           "encoder path" if tier == "thorough" else ""))
    res.strings["bound"] = "k<=1 deviations on all forms" + ("; k<=2 on representatives" if tier == "thorough" else "")
    res.strings["rejections"] = ", ".join("%s=%d" % kv for kv in sorted(rej.items(), key=lambda kv: -kv[1])[:20])
    never = sorted(inst_forms - accepted_forms)
    byidx = {f["idx"]: f for f in forms}
    nn = [i for i in never if not byidx[i]["apx"] and byidx[i]["name"] in known]
    res.count("forms_never_accepted_known_mnemonic", len(nn))
    if nn:
        res.notes.append("forms of known mnemonics never accepted (first 40): " + "; ".join(
            "%s %s" % (byidx[i]["name"], byidx[i]["sig"]) for i in nn[:40]))
    for s in sorted(dsamples)[:25]:
        res.notes.append("tool disagreement: " + s[:400])
    for s in sorted(gsamples)[:25]:
        res.notes.append("gas rejected: " + s[:300])
    for s in sorted(isamples)[:10]:
        res.notes.append("db leg inconclusive: " + s[:300])
    if total.get("not_executed", 0):
        res.exhaustive = False
    # violations: deterministic order; one representative key per (mode, clause, deviation class) - a systematic
    # defect shows up in thousands of cases of hundreds of mnemonics, and every distinct kind of deviation that
    # exposes a clause is kept so that a new defect is not hidden behind an already known one of the same clause
    viol.sort(key=lambda v: (v[1], v[2], v[0], v[3]))
    # Known findings are listed per defect class as glob keys  x86:<mode>:*:<clause>@<deviation class>  (the deviation
    # class is what exposes the clause: 'opt=evex', 'a16' (16-bit addressing), 'seg', register class names ...).  A
    # case whose class is listed is reported under the glob itself (one KNOWN-FINDING line per class); any other
    # violating case is a NEW violation and is reported under its own key, at most CAP_PER_CLAUSE keys per
    # (mode, clause, deviation class) so that a systematic new defect does not print thousands of lines.
    known = runner.load_known("C01")
    per = collections.Counter()
    seen = {}
    unlisted = set()
    patterns = {}
    for key, clause, mode, desc, rp in viol:
        res.count("violating_cases", 1)
        dc = dev_class(desc)
        pat = "x86:%d:*:%s@%s" % (mode, clause, dc)
        patterns.setdefault(pat, desc)
        full = "%s@%s" % (key, dc)
        k = None
        for cand in [full] + ["%s@%s" % (key, comp) for comp in dc.split("+") if comp and "+" in dc]:
            k, _ = runner.key_matches(known, cand)   # a pair of deviations is known if one of its members exposes the listed class
            if k is not None:
                break
        if k is not None:
            res.add_violation(k, desc, rp)
            continue
        if full in seen:
            res.add_violation(full, desc, rp)
            continue
        if per[(mode, clause, dc)] >= 3:
            unlisted.add(full)
            continue
        per[(mode, clause, dc)] += 1
        seen[full] = 1
        res.add_violation(full, desc, rp)
    if os.environ.get("C01_DUMP_PATTERNS"):
        with open(os.environ["C01_DUMP_PATTERNS"], "a") as f:
            for pat, d in sorted(patterns.items()):
                f.write("%s\t%s\n" % (pat, d[:240].replace("\n", " ")))
    res.count("violation_keys_not_listed", len(unlisted))
    by_clause = collections.Counter((v[2], v[1]) for v in viol)
    for (mode, clause), n in sorted(by_clause.items()):
        res.notes.append("violating cases mode %d clause %s: %d" % (mode, clause, n))


_DEV = re.compile(r"\[dev ([^\]]*)\]")


def dev_class(desc):
    """Coarse class of the deviation that produced a case: 'opt=evex', 'label', 'a' (other address size), 'b'
    (base id), 'd' (displacement), 'vi' (vsib index), 'imm', register class names ..."""
    m = _DEV.search(desc)
    if not m:
        return ""
    out = []
    for part in m.group(1).split(","):
        part = re.sub(r"^op\d=", "", part)
        if part.startswith("opt=") or part in ("default", "implicit-explicit", "mem"):
            out.append(part)
        elif part.startswith("label="):
            out.append("label")
        else:
            mm = re.match(r"[a-z]+", part)
            out.append(mm.group(0) if mm else part[:3])
    return "+".join(out)


def replay(res, path, ctx):
    exe = vbuild.build("fast", os.path.join(vbuild.VERIF, SRC))
    case = None
    with open(path) as f:
        for line in f:
            if line.startswith("case: "):
                case = case_from_json(line[6:])
    if case is None:
        res.errors.append("replay file has no case: line")
        return 2
    forms = X.load_db(vbuild.REPO)
    by = collections.defaultdict(list)
    for f in forms:
        by[f["name"]].append(f)
    wd = _workdir("replay-%d" % os.getpid())
    try:
        out = new_out()
        r, crash = run_emit(exe, [X.emit_line(case)], wd, "emit")
        if crash is not None:
            res.add_violation("x86:%d:%s:%s:crash" % (case.mode, case.name, case.sig), "emit_x86 died rc=%s" % crash[0], replay_text(case, "crash"))
            return 1
        if ctx.get("replay"):
            print("replay: %s -> %s %s delta=%d %s" % (X.emit_line(case), r[0][1], r[0][2].hex() if r[0][2] else "-", r[0][3], r[0][4]))
        items = {32: [], 64: []}
        classify(case, r[0], out, items)
        judge_mode(case.mode, items[case.mode], by, wd, "m", out)
        judge_relocated(items.get(("reloc", case.mode), ()), by, out)
        for key, clause, mode, desc, rp in out["violations"]:
            res.add_violation(key, desc, rp or replay_text(case, desc))
        for s in out["disagree_samples"]:
            print("tool disagreement: " + s)
    finally:
        shutil.rmtree(wd, ignore_errors=True)
    return 1 if res.violations else 0
