"""C14 invalid input is rejected cleanly - weird-operand / perturbed-field / invalid-argument histories on the real
emitters (harness/c14_invalid.cpp, ASan+UBSan; every unit runs in a forked child) + a disassembler leg: whatever the
Assembler ACCEPTED is decoded by GNU objdump (x86) / llvm-mc (AArch64) and must be exactly one instruction that
consumes all bytes and names no extended register / memory component that was not requested."""
import os, re, subprocess, glob

from lib import runner

LEVEL = "exploration"
SRC = "harness/c14_invalid.cpp"
TAG = "c14_invalid"
MAX_KEYS_PER_FAMILY = 12      # distinct keys reported per (arch, emitter, call kind, clause); the rest is folded into ':more'

SLOT = 32
PAD = b"\xcc"


def _unesc(s):
    out, i = [], 0
    while i < len(s):
        if s[i] == "\\" and i + 1 < len(s):
            out.append("\n" if s[i + 1] == "n" else s[i + 1])
            i += 2
        else:
            out.append(s[i])
            i += 1
    return "".join(out)


def _read_acc(paths):
    """-> list of dict(arch, hex, req, desc, replay), de-duplicated on (arch, hex, req)."""
    seen, out = set(), []
    for p in sorted(paths):
        if not os.path.exists(p):
            continue
        with open(p, "r", errors="replace") as f:
            for line in f:
                q = _unesc(line.rstrip("\n")).split("\x1f")
                if len(q) < 5:
                    continue
                k = (q[0], q[1], q[2])
                if k in seen:
                    continue
                seen.add(k)
                out.append(dict(arch=q[0], hex=q[1], req=q[2], desc=q[3], replay=q[4]))
    return out


# ---------------------------------------------------------------------------------------------------------------
# x86: GNU objdump
# ---------------------------------------------------------------------------------------------------------------
_G64 = ["rax", "rcx", "rdx", "rbx", "rsp", "rbp", "rsi", "rdi"]
_G32 = ["eax", "ecx", "edx", "ebx", "esp", "ebp", "esi", "edi"]
_G16 = ["ax", "cx", "dx", "bx", "sp", "bp", "si", "di"]
_G8 = ["al", "cl", "dl", "bl", "spl", "bpl", "sil", "dil"]
_REGNUM = {}
for _i in range(8):
    for _t in (_G64, _G32, _G16, _G8):
        _REGNUM[_t[_i]] = _i
for _i, _n in enumerate(["ah", "ch", "dh", "bh"]):
    _REGNUM[_n] = _i
for _i in range(8, 32):
    for _sfx in ("", "d", "w", "b"):
        _REGNUM["r%d%s" % (_i, _sfx)] = _i
_EXT = re.compile(r"\b(?:r(\d+)[dwb]?|[xyz]mm(\d+)|k(\d)|st\((\d)\)|mm(\d)|cr(\d+)|d[br](\d+)|bnd(\d)|tmm(\d))\b")
_ADDR = re.compile(r"^\s*([0-9a-f]+):\t((?:[0-9a-f]{2} )+)\s*\t?(.*)$")
_STRING_OPS = ("movs", "cmps", "scas", "lods", "stos", "ins", "outs", "xlat", "maskmov")


def _req_options(req):
    for it in req.split(";"):
        if it.startswith("o:"):
            return int(it[2:], 16)
    return 0


def _req_types(req):
    """type signature of the request (no ids): the middle part of the violation key"""
    out = []
    for it in req.split(";"):
        f = it.split(":")
        if f[0] == "r" and len(f) >= 3:
            out.append(f[1])
        elif f[0] == "m" and len(f) >= 8:
            out.append("mem[" + f[1] + ("+" + f[3] if f[3] != "none" else "") + "]")
        elif f[0] in ("i", "l"):
            out.append("imm" if f[0] == "i" else "label")
        elif f[0] == "o":
            out.append("opt" + f[1])
    return ",".join(out) or "-"


def _requested(req):
    """-> (set of register numbers named anywhere, list of memory operand dicts)"""
    nums, mems = set(), []
    for it in req.split(";"):
        f = it.split(":")
        if f[0] == "r" and len(f) >= 3:
            nums.add(int(f[2]))
        elif f[0] == "m" and len(f) >= 8:
            m = dict(btype=f[1], bid=int(f[2]), itype=f[3], iid=int(f[4]), shift=int(f[5]), off=int(f[6]), seg=int(f[7]))
            mems.append(m)
            if m["btype"] not in ("none", "label", "pc"):
                nums.add(m["bid"])
            if m["itype"] != "none":
                nums.add(m["iid"])
    return nums, mems


def _objdump(cases, mode, workdir, tag):
    path = os.path.join(workdir, "%s-%d.bin" % (tag, mode))
    with open(path, "wb") as f:
        for c in cases:
            b = bytes.fromhex(c["hex"])
            if len(b) > SLOT - 16:
                b = b[:SLOT - 16]
            f.write(b + PAD * (SLOT - len(b)))
    cmd = ["objdump", "-D", "-b", "binary", "-m", "i386", "-M", "intel", "--insn-width=16"]
    if mode == 64:
        cmd += ["-M", "x86-64"]
    r = subprocess.run(cmd + [path], stdout=subprocess.PIPE, stderr=subprocess.PIPE)
    if r.returncode != 0:
        raise RuntimeError("objdump failed: " + r.stderr.decode("utf-8", "replace")[-400:])
    first = {}
    for line in r.stdout.decode("utf-8", "replace").split("\n"):
        m = _ADDR.match(line)
        if not m:
            continue
        a = int(m.group(1), 16)
        if a % SLOT == 0:
            first[a // SLOT] = (len(m.group(2).split()), m.group(3).strip())
    return first


def _check_x86_case(c, dec):
    """-> (what, text) for a violation, ('?', reason) when inconclusive, None when fine."""
    nbytes = len(c["hex"]) // 2
    if nbytes == 0:
        return None                      # an instruction class that emits nothing is not this leg's business
    if dec is None:
        return ("?", "no decode")
    n, text = dec
    low = text.lower()
    if "(bad)" in low or ".byte" in low or not low:
        return ("?", "objdump does not know the encoding: " + text)
    if n != nbytes:
        # a trailing / leading lone prefix is printed on its own line by objdump in a few cases: inconclusive
        if n < nbytes and low.split()[0] in ("lock", "rep", "repz", "repnz", "repe", "repne", "xacquire", "xrelease", "notrack", "cs", "ds", "es", "ss", "fs", "gs", "data16", "addr16", "addr32", "rex", "fwait", "wait", "bnd"):
            return ("?", "prefix printed separately")
        return ("decode-length:" + re.sub(r"[^a-z0-9.]", "_", low.split()[0]), "%d bytes were emitted but they decode as a %d-byte instruction '%s'" % (nbytes, n, text))
    nums, mems = _requested(c["req"])
    if _req_options(c["req"]) & 0x0F000000:
        return None                      # kX86_OpCodeB/X/R/W: the caller asked for REX/VEX register-extension bits
    body = low.split("#")[0]
    for m in _EXT.finditer(body):
        v = [g for g in m.groups() if g is not None]
        if not v:
            continue
        k = int(v[0])
        if k >= 8 and k not in nums:
            got = set(int([g for g in mm.groups() if g is not None][0]) for mm in _EXT.finditer(body))
            missing = sorted(set(re.findall(r"r:([a-z0-9]+:\d+)", c["req"])))
            missing = [x.replace(":", "#") for x in missing if int(x.split(":")[1]) >= 8 and int(x.split(":")[1]) not in got]
            return ("decode-reg:" + (",".join(missing) or "other"), "decodes as '%s' which names register number %d that no operand requested" % (text, k))
    br = re.findall(r"\[([^\]]*)\]", body)
    mnem = body.split()[0] if body.split() else ""
    if mnem in ("rep", "repz", "repnz", "lock", "repe", "repne") and len(body.split()) > 1:
        mnem = body.split()[1]
    if len(mems) == 1 and len(br) == 1:
        m = mems[0]
        if m["btype"] in ("gp16", "gp32", "gp64"):
            expr = br[0].replace("-", "+-")
            regs = []
            for part in expr.split("+"):
                part = part.strip()
                mm = re.match(r"^([a-z][a-z0-9]*)(?:\*(\d))?$", part)
                if mm and (mm.group(1) in _REGNUM or re.match(r"^[xyz]mm\d+$", mm.group(1))):
                    nm = mm.group(1)
                    k = _REGNUM[nm] if nm in _REGNUM else int(re.sub(r"\D", "", nm))
                    regs.append((k, int(mm.group(2) or 0)))
            want = [m["bid"]] + ([m["iid"]] if m["itype"] != "none" else [])
            got = [k for k, _ in regs]
            form = "mem[" + m["btype"] + ("+" + m["itype"] if m["itype"] != "none" else "") + "]->[" + re.sub(r"[+-]0x[0-9a-f]+$", "", br[0].split(":")[-1].strip("[")) + "]"
            if sorted(got) != sorted(want) and not (m["itype"] == "none" and got == [m["bid"], m["bid"]]):
                return ("decode-mem:" + form, "requested base/index register numbers %s but the bytes decode as '%s'" % (want, text))
            if m["itype"] != "none":
                sc = [s for k, s in regs if s]
                if sc and sc[0] != (1 << m["shift"]) and not (m["itype"] == "gp16"):
                    return ("decode-mem:scale:" + form, "requested index scale %d but the bytes decode as '%s'" % (1 << m["shift"], text))
    return None


# ---------------------------------------------------------------------------------------------------------------
# AArch64: llvm-mc --disassemble, cases separated by BRK #0xc14
# ---------------------------------------------------------------------------------------------------------------
_SEP_BYTES = "0x80 0x82 0x21 0xd4"
_SEP_TEXT = "brk\t#0xc14"
_A64REG = re.compile(r"(?<![\w.#])([wxbhsdqv])(\d+)\b")


def _llvm_a64(cases):
    lines = []
    for c in cases:
        h = c["hex"]
        lines.append(" ".join("0x" + h[i:i + 2] for i in range(0, len(h), 2)))
        lines.append(_SEP_BYTES)
    r = subprocess.run(["llvm-mc", "--disassemble", "--triple=aarch64",
                        "-mattr=+v8.5a,+crypto,+lse,+dotprod,+fullfp16,+fp16fml,+sha3,+sm4,+rcpc,+rdm,+aes,+sha2"],
                       input="\n".join(lines).encode() + b"\n", stdout=subprocess.PIPE, stderr=subprocess.PIPE)
    out, cur = [], []
    for l in r.stdout.decode("utf-8", "replace").split("\n"):
        t = l.strip()
        if not t or t.startswith("."):
            continue
        if t.replace(" ", "\t") == _SEP_TEXT or re.sub(r"\s+", " ", t) == "brk #0xc14":
            out.append(cur)
            cur = []
        else:
            cur.append(t)
    return out


def _check_a64_case(c, dec):
    if len(c["hex"]) != 8:
        return ("decode-length", "%d bytes emitted for one AArch64 instruction" % (len(c["hex"]) // 2)) if c["hex"] else None
    if dec is None:
        return ("?", "no decode")
    if len(dec) != 1:
        return ("decode-undefined", "word %s is not a defined A64 instruction according to llvm-mc" % c["hex"])
    text = dec[0]
    nums, _ = _requested(c["req"])
    body = text.split("//")[0]
    for m in _A64REG.finditer(body):
        k = int(m.group(2))
        if k not in nums and not (k == 31):
            return ("decode-reg", "decodes as '%s' which names register %s%d that no operand requested" % (re.sub(r"\s+", " ", text), m.group(1), k))
    return None


def disasm_leg(res, acc_paths, workdir):
    cases = _read_acc(acc_paths)
    viols = []
    inconclusive = 0
    by = {"x86-32": [], "x64": [], "a64": []}
    for c in cases:
        if c["arch"] in by:
            by[c["arch"]].append(c)
    for arch, mode in (("x86-32", 32), ("x64", 64)):
        cs = by[arch]
        if not cs:
            continue
        dec = _objdump(cs, mode, workdir, "c14acc")
        for i, c in enumerate(cs):
            v = _check_x86_case(c, dec.get(i))
            if v is None:
                continue
            if v[0] == "?":
                inconclusive += 1
                continue
            viols.append((arch, c, v))
    cs = by["a64"]
    if cs:
        dec = _llvm_a64(cs)
        for i, c in enumerate(cs):
            v = _check_a64_case(c, dec[i] if i < len(dec) else None)
            if v is None:
                continue
            if v[0] == "?":
                inconclusive += 1
                continue
            viols.append(("a64", c, v))
    res.count("accepted_decoded", len(cases))
    res.count("accepted_decode_inconclusive", inconclusive)
    for arch, c, (what, why) in viols:
        name = re.sub(r"[^A-Za-z0-9_.]", "_", c["desc"].split(" ")[0])
        if arch == "a64":
            what += ":" + name
        key = "invalid:%s:asm:inst:accepted-garbage:%s" % (arch, re.sub(r"\s", "", what))
        n0 = sum(1 for v in res.violations if v["key"] == key)
        res.add_violation(key, "%s :: accepted call: %s :: bytes %s" % (why, c["desc"], c["hex"]), c["replay"])
        note = "disassembler leg %s: %s" % (key.split(":", 5)[-1], name)
        if note not in res.notes and len(res.notes) < 200:
            res.notes.append(note)


def _fold(res):
    """Many instructions share one defect: keep MAX_KEYS_PER_FAMILY keys per family, fold the rest."""
    fam_count, kept, more = {}, [], {}
    for v in res.violations:
        parts = v["key"].split(":")
        fam = ":".join(parts[:5])
        n = fam_count.get(fam, 0)
        if n < MAX_KEYS_PER_FAMILY or len(parts) <= 5:
            fam_count[fam] = n + 1
            kept.append(v)
        else:
            m = more.get(fam)
            if m is None:
                m = dict(key=fam + ":more", desc="further keys of this family (first: %s) %s" % (v["key"], v["desc"]), replay=v["replay"], count=0)
                more[fam] = m
            m["count"] += v["count"]
    res.violations[:] = kept + list(more.values())


def _acc_paths(tier):
    return glob.glob(os.path.join(runner.OUT, "%s-%s-*.json.acc" % (TAG, tier)))


def run(res, ctx):
    tier = ctx["tier"]
    args = []
    for k, v in ctx.get("opts", {}).items():
        args += ["--" + k, v]
    for f in _acc_paths(tier):
        os.remove(f)
    # sizes are CPU time (measured): quick ~35 CPU-s per shard, thorough ~4 CPU-min per shard.  The wall-clock deadlines
    # are generous because the machine is shared; a deadline that strikes is reported as exhaustive:false.
    if tier == "quick":
        runner.run_harness(res, SRC, "asan", tier, args=args, deadline=1200, timeout=2400, shards=16)
    else:
        runner.run_harness(res, SRC, "asan", tier, args=args, deadline=5400, timeout=7200, shards=16)
    disasm_leg(res, _acc_paths(tier), runner.OUT)
    _fold(res)
    # leg 2: calls that fail because memory runs out (heap through ld --wrap, arena through hook H1) x handler kinds
    runner.run_harness(res, SRC_FAULT, "asan", tier, deadline=600, timeout=1200, shards=8, **KW_FAULT)


SRC_FAULT = "harness/c14_faultstate.cpp"
KW_FAULT = dict(extra_ld=["-Wl,--wrap=malloc,--wrap=realloc,--wrap=calloc"])


def replay(res, path, ctx):
    if "harness=c14_faultstate" in open(path).read():
        runner.run_harness(res, SRC_FAULT, "asan", ctx["tier"], replay=path, timeout=300, **KW_FAULT)
        return
    tier = ctx["tier"]
    acc = os.path.join(runner.OUT, "%s-%s-0.json.acc" % (TAG, tier))
    runner.run_harness(res, SRC, "asan", tier, replay=path, timeout=300)
    if os.path.exists(acc):
        disasm_leg(res, [acc], runner.OUT)
