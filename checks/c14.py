"""C14 invalid input is rejected cleanly - weird-operand / perturbed-field / invalid-argument histories on the real
emitters (harness/c14_invalid.cpp, ASan+UBSan) + a disassembler leg over everything that was accepted."""
import os, re, subprocess, glob

from lib import runner

LEVEL = "exploration"
SRC = "harness/c14_invalid.cpp"
TAG = "c14_invalid"


def run(res, ctx):
    tier = ctx["tier"]
    args = []
    for k, v in ctx.get("opts", {}).items():
        args += ["--" + k, v]
    for f in glob.glob(os.path.join(runner.OUT, "%s-%s-*.json.acc" % (TAG, tier))):
        os.remove(f)
    if tier == "quick":
        runner.run_harness(res, SRC, "asan", tier, args=args, deadline=300, timeout=900, shards=16)
    else:
        runner.run_harness(res, SRC, "asan", tier, args=args, deadline=1500, timeout=2700, shards=16)


def replay(res, path, ctx):
    runner.run_harness(res, SRC, "asan", ctx["tier"], replay=path, timeout=300)
