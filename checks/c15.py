"""C15 allocation failure yields an error - fault enumeration on the real library (harness/c15_faults.cpp).

Seams: arena hook H1 (asmjit_verif_arena_fault), heap = malloc/calloc/realloc/free and vm = mmap/munmap/mprotect/
ftruncate64/syscall(memfd_create) of the asmjit objects redirected with ld --wrap into the harness (requests are only
counted / failed while the harness has armed the injection around asmjit calls).  The ASan+UBSan build is part of the
oracle; every injection runs in its own fork()ed child of the harness process."""
from lib import runner

LEVEL = "fault_enumeration"
SRC = "harness/c15_faults.cpp"
WRAP = ["malloc", "calloc", "realloc", "free", "mmap", "munmap", "mprotect", "ftruncate64", "syscall"]
KW = dict(extra_ld=["-Wl," + ",".join("--wrap=" + s for s in WRAP)])


def run(res, ctx):
    # deadlines are generous on purpose: the stated bounds need ~5 CPU-minutes (quick) on 16 shards, the machine is shared
    tier = ctx["tier"]
    args = []
    if "workload" in ctx["opts"]:
        args = ["--workload", ctx["opts"]["workload"]]
    if tier == "quick":
        runner.run_harness(res, SRC, "asan", tier, args=args, deadline=900, timeout=1800, shards=16, **KW)
    else:
        runner.run_harness(res, SRC, "asan", tier, args=args, deadline=3000, timeout=4500, shards=16, **KW)


def replay(res, path, ctx):
    runner.run_harness(res, SRC, "asan", ctx["tier"], replay=path, timeout=600, **KW)
