"""C11 thread safety - preemption-bounded exploration of thread interleavings under TSan + free-running TSan pass."""
from lib import runner

LEVEL = "model_checking"
SRC = "harness/c11_threads.cpp"
SCHED = [("engine/sched.c", ["-x", "c", "-O1", "-g", "-fno-sanitize=all"])]
KW = dict(extra_cxx=["-fno-access-control"])


def run(res, ctx):
    tier = ctx["tier"]
    args = []
    if "bound" in ctx["opts"]:
        args = ["--bound", ctx["opts"]["bound"]]
    dl = 200 if tier == "quick" else 1500
    runner.run_harness(res, SRC, "tsan", tier, args=args, deadline=dl, timeout=dl + 300, shards=8, extra_srcs=SCHED, **KW)
    # separate free-running pass of the same thread bodies (no scheduler, no interposition)
    runner.run_harness(res, SRC, "tsan", tier, deadline=dl, timeout=dl + 300, shards=1, name="c11_threads_free",
                       extra_cxx=["-fno-access-control", "-DC11_FREE"])


def replay(res, path, ctx):
    if "c11_threads_free" in open(path).read():
        runner.run_harness(res, SRC, "tsan", ctx["tier"], timeout=600, name="c11_threads_free", extra_cxx=["-fno-access-control", "-DC11_FREE"])
        return
    runner.run_harness(res, SRC, "tsan", ctx["tier"], replay=path, timeout=300, extra_srcs=SCHED, **KW)
