"""C06 calling conventions.

Part (a) - harness/c06_abi.cpp: locations FuncDetail assigns to arguments / return values, stack argument area, callee-pops,
red/spill zone and preserved sets vs. a reference ABI classifier, for every signature of the bound x convention x target;
three legs: the full bound unsanitized ("fast"), a sub-bound under ASan+UBSan (each batch pre-flighted in a forked child),
and an executed interoperability leg on the x86-64 host against C code compiled by clang at check time (System V natively;
Win64 and __vectorcall via `clang --target=x86_64-pc-windows-msvc -S`, the assembly re-assembled as ELF).
Part (b) (argument shuffling, harness/c06_args.cpp) is added as one more function called from run()."""
import os, re, subprocess, hashlib, fcntl, concurrent.futures
from lib import runner, vbuild

LEVEL = "exploration"
SRC = "harness/c06_abi.cpp"


# ---------------------------------------------------------------------------------------------------------------
# interop libraries (generated C -> shared objects the harness dlopen()s)
# ---------------------------------------------------------------------------------------------------------------
def _sanitize_win_asm(text):
    """COFF assembly of a leaf-ish C file -> something the ELF assembler accepts (same instructions)."""
    out = []
    for line in text.splitlines(True):
        st = line.strip()
        if re.match(r"\.(def|scl|endef|addrsig|addrsig_sym|seh_\w+)\b", st) or re.match(r"\.type\s+\d+;", st):
            continue
        if "@feat.00" in st or "_fltused" in st:
            continue
        if re.match(r"\.globl\s+__(ymm|xmm|zmm|real)@", st):
            continue
        if st.startswith(".section"):
            m = re.match(r"\.section\s+\.(rdata|text|data|bss)\b", st)
            if not m:
                raise RuntimeError("unknown section directive in the Windows assembly: " + st)
            line = "\t.section .rodata\n" if m.group(1) == "rdata" else "\t.%s\n" % m.group(1)
        line = re.sub(r"__(ymm|xmm|zmm|real)@([0-9a-f]+)", r"__\1_\2", line)
        out.append(line)
    out.append('\t.section .note.GNU-stack,"",@progbits\n')
    return "".join(out)


def _sh(cmd):
    r = subprocess.run(cmd, stdout=subprocess.PIPE, stderr=subprocess.STDOUT, text=True)
    if r.returncode != 0:
        raise RuntimeError("%s failed: %s" % (" ".join(cmd[:4]), r.stdout[-1500:]))


def build_interop_libs(exe):
    """Returns (isa, sysv.so, win.so).  Raises RuntimeError when the C side cannot be built."""
    d = os.path.join(vbuild.BUILD, "c06-" + vbuild.repo_key())
    os.makedirs(d, exist_ok=True)
    try:
        isa = "avx512" if " avx512f" in open("/proc/cpuinfo").read() else "avx"
    except OSError:
        isa = "avx"
    mflags = ["-mavx"] + (["-mavx512f"] if isa == "avx512" else [])
    with open(os.path.join(d, ".lock"), "w") as lk:
        fcntl.flock(lk, fcntl.LOCK_EX)
        tmp = os.path.join(d, "gen-%d" % os.getpid())
        srcs = {}
        for lib in ("sysv", "win"):
            p = "%s-%s.c" % (tmp, lib)
            _sh([exe, "--emit-c", lib, "--isa", isa, "--c-out", p])
            srcs[lib] = open(p).read()
            os.remove(p)
        h = hashlib.sha1((srcs["sysv"] + srcs["win"] + isa).encode()).hexdigest()[:12]
        so_sysv = os.path.join(d, "libc06_sysv-%s.so" % h)
        so_win = os.path.join(d, "libc06_win-%s.so" % h)
        if not (os.path.exists(so_sysv) and os.path.exists(so_win)):
            c_sysv, c_win = os.path.join(d, "c06_sysv-%s.c" % h), os.path.join(d, "c06_win-%s.c" % h)
            open(c_sysv, "w").write(srcs["sysv"])
            open(c_win, "w").write(srcs["win"])
            common = ["-O1", "-fno-strict-aliasing", "-ffreestanding", "-w"] + mflags
            _sh(["clang"] + common + ["-fPIC", "-shared", "-o", so_sysv + ".tmp", c_sysv])
            s_win, s_elf, o_win = c_win[:-2] + ".s", c_win[:-2] + "-elf.s", c_win[:-2] + ".o"
            _sh(["clang", "--target=x86_64-pc-windows-msvc"] + common + ["-S", "-o", s_win, c_win])
            open(s_elf, "w").write(_sanitize_win_asm(open(s_win).read()))
            _sh(["clang", "-c", "-o", o_win, s_elf])
            _sh(["clang", "-shared", "-o", so_win + ".tmp", o_win])
            os.replace(so_sysv + ".tmp", so_sysv)
            os.replace(so_win + ".tmp", so_win)
    return isa, so_sysv, so_win


# ---------------------------------------------------------------------------------------------------------------
def _merge(res, r):
    for k, v in r.counters.items():
        res.counters[k] = res.counters.get(k, 0) + v
    for k, v in r.strings.items():
        res.strings.setdefault(k, v)
    for x in r.samples:
        if len(res.samples) < 40:
            res.samples.append(x)
    for x in r.notes:
        if x not in res.notes:
            res.notes.append(x)
    for x in r.assumptions:
        if x not in res.assumptions:
            res.assumptions.append(x)
    for v in r.violations:
        res.add_violation(v["key"], v["desc"], v["replay"], v["count"])
    res.exhaustive = res.exhaustive and r.exhaustive
    res.capped = res.capped or r.capped
    res.outcomes += r.outcomes
    res.errors += r.errors


def _interop_args(res, exe_fast):
    try:
        isa, so_sysv, so_win = build_interop_libs(exe_fast)
    except (RuntimeError, OSError) as e:
        res.errors.append("C06 interop leg: the C side could not be built: %s" % e)
        return None
    return ["--part", "interop", "--isa", isa, "--lib-sysv", so_sysv, "--lib-win", so_win]


def run_abi(res, ctx):
    tier = ctx["tier"]
    quick = tier == "quick"
    opts = ctx["opts"]
    extra = []
    for k in ("target", "conv", "full-len", "dev2-to"):
        if k in opts:
            extra += ["--" + k, opts[k]]
    only = opts.get("leg")
    dl = dict(deadline=300 if quick else 1500, timeout=900 if quick else 2400)
    # build the two binaries one after the other (concurrent first-time builds of one target would race on its ninja file)
    exe_fast = vbuild.build("fast", os.path.join(vbuild.VERIF, SRC))
    vbuild.build("asan", os.path.join(vbuild.VERIF, SRC))
    jobs = []
    if only in (None, "sweep"):
        jobs.append(lambda r: runner.run_harness(r, SRC, "fast", tier, args=["--part", "sweep"] + extra, shards=16, label="sweep", **dl))
    if only in (None, "san"):
        jobs.append(lambda r: runner.run_harness(r, SRC, "asan", tier, args=["--part", "sweep", "--scale", "small"] + extra, shards=16, label="san", **dl))
    if only in (None, "interop"):
        ia = _interop_args(res, exe_fast)
        if ia:
            jobs.append(lambda r: runner.run_harness(r, SRC, "fast", tier, args=ia, shards=4, label="interop", **dl))
    results = [runner.Result() for _ in jobs]
    with concurrent.futures.ThreadPoolExecutor(max_workers=max(1, len(jobs))) as ex:
        list(ex.map(lambda jr: jr[0](jr[1]), zip(jobs, results)))
    for r in results:
        _merge(res, r)
    bounds = [res.strings.get(k) for k in ("bound", "bound_sanitizer_leg", "bound_interop") if res.strings.get(k)]
    if bounds:
        res.strings["bound"] = " || sanitizer leg: ".join(bounds[:2]) + (" || interop leg: " + bounds[2] if len(bounds) > 2 else "")
    for k in ("bound_sanitizer_leg", "bound_interop"):
        res.strings.pop(k, None)
    res.assumptions.append("x86-32 and AArch64 locations are judged by the reference classifier only (cross-checked against clang/gcc -S output when the "
                           "classifier was written); the executed interop leg covers x86-64 System V, Win64 and __vectorcall")
    res.assumptions.append("types without a C ABI mapping (mask registers, __m64, long double on Microsoft targets) and LightCall stack layouts are counted "
                           "as undecided, not judged")


SRC_ARGS = "harness/c06_args.cpp"


def run_args(res, ctx):
    """part (b): argument shuffling, harness/c06_args.cpp (msim node simulator)"""
    tier = ctx["tier"]
    if ctx["opts"].get("leg") not in (None, "args"):
        return
    runner.run_harness(res, SRC_ARGS, "asan", tier, deadline=300 if tier == "quick" else 1500,
                       timeout=900 if tier == "quick" else 2400, shards=16)


def run(res, ctx):
    if ctx["opts"].get("leg") != "args":
        run_abi(res, ctx)
    run_args(res, ctx)


_exe_cache = {}


def _replay_one(res, variant, path, extra_args, tier):
    """Like runner.run_harness for a single replay, but builds the binary only once per process (drive() confirms every
    violation by two replays; a ninja no-op run per replay would dominate)."""
    exe = _exe_cache.get(variant)
    if exe is None:
        exe = _exe_cache[variant] = vbuild.build(variant, os.path.join(vbuild.VERIF, SRC))
    os.makedirs(runner.OUT, exist_ok=True)
    oj = os.path.join(runner.OUT, "c06_abi-replay-%s-%d.json" % (variant, os.getpid()))
    args = ["--tier", tier] + list(extra_args) + ["--replay", path]
    j, rc, err = runner.run_exe(exe, args, 300, oj)
    if j is not None:
        res.merge_json(j)
    if rc in (0, 1) and j is not None:
        return
    if rc == 2:
        res.errors.append("c06_abi replay: harness self-check failed: %s" % err[-1500:])
    elif rc == -999:
        res.errors.append("c06_abi replay: %s" % err)
    else:
        key = runner.crash_key(err)
        res.add_violation("c06_abi:%s" % key, "harness process died rc=%s (%s) replaying %s" % (rc, key, path), "CRASH\n" + err[-3000:])


def replay(res, path, ctx):
    text = open(path).read()
    if "harness=c06_args" in text:
        runner.run_harness(res, SRC_ARGS, "asan", ctx["tier"], replay=path, timeout=300)
        return
    if "harness=c06_abi" in text or "\ncase " in text or text.startswith("case ") or "interop sig=" in text:
        if "interop sig=" in text:
            exe = _exe_cache.get("fast")
            if exe is None:
                exe = _exe_cache["fast"] = vbuild.build("fast", os.path.join(vbuild.VERIF, SRC))
            ia = _exe_cache.get("interop-args")
            if ia is None:
                ia = _exe_cache["interop-args"] = _interop_args(res, exe)
            if ia:
                _replay_one(res, "fast", path, ia, ctx["tier"])
            return
        _replay_one(res, "asan" if "variant=asan" in text else "fast", path, [], ctx["tier"])
        return
    res.errors.append("C06: unknown replay file format")
