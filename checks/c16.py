"""C16 reset / reinit / reuse leave no residue - op histories on one recycled CodeHolder + emitter set,
differential against the normalized call list replayed on fresh objects (harness/c16_reuse.cpp)."""
from lib import runner

LEVEL = "model_checking"
SRC = "harness/c16_reuse.cpp"
# malloc/realloc/free of all linked objects go through the harness (fill pattern + shifted addresses);
# __real_* resolve to the ASan interceptors, so use-after-reset still aborts.
LD = ["-Wl,--wrap=malloc,--wrap=realloc,--wrap=free"]
CXX = ["-fno-access-control"]
SRC_HANDLERS = "harness/c16_handlers.cpp"   # leg 2: which ErrorHandler is in charge after attach/detach/finalize/re-attach histories


def run(res, ctx):
    tier = ctx["tier"]
    args = []
    for k in ("depth", "budget"):
        if k in ctx.get("opts", {}):
            args += ["--" + k, ctx["opts"][k]]
    if tier == "quick":
        runner.run_harness(res, SRC, "asan", tier, args=args, deadline=420, timeout=1200, shards=16, extra_cxx=CXX, extra_ld=LD)
    else:
        runner.run_harness(res, SRC, "asan", tier, args=args, deadline=1500, timeout=2700, shards=16, extra_cxx=CXX, extra_ld=LD)
    runner.run_harness(res, SRC_HANDLERS, "asan", tier, deadline=300, timeout=900, shards=3, label="handlers")
    b = [res.strings.get("bound"), res.strings.pop("bound_handlers_leg", None)]
    res.strings["bound"] = " || ".join(x for x in b if x)


def replay(res, path, ctx):
    if "harness=c16_handlers" in open(path).read():
        runner.run_harness(res, SRC_HANDLERS, "asan", ctx["tier"], replay=path, timeout=300)
        return
    runner.run_harness(res, SRC, "asan", ctx["tier"], replay=path, timeout=300, extra_cxx=CXX, extra_ld=LD)
