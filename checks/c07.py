"""C07 prolog/epilog and frame layout - configuration enumeration, node-level simulation (harness/c07_frames.cpp + engine/msim.h)."""
from lib import runner

LEVEL = "model_checking"
SRC = "harness/c07_frames.cpp"


def run(res, ctx):
    tier = ctx["tier"]
    args = []
    if "bound" in ctx["opts"]:
        args = ["--bound", ctx["opts"]["bound"]]
    if tier == "quick":
        runner.run_harness(res, SRC, "asan", tier, args=args, deadline=480, timeout=1200, shards=16)
    else:
        runner.run_harness(res, SRC, "asan", tier, args=args, deadline=3000, timeout=4200, shards=16)


def replay(res, path, ctx):
    runner.run_harness(res, SRC, "asan", ctx["tier"], replay=path, timeout=300)
