// c12_native - SILICON leg of property C12: the read/write information AsmJit reports for an x86-64 instruction is
// compared with what the host processor does when the instruction is executed.
//
// The cases come from checks/c12.py (python owns the selection: db forms that are user-mode, not control flow, deterministic,
// without x87/MMX/AMX/segment/stack-pointer state).  For every case this harness
//   1. builds the operands through the public API and asks InstAPI::query_rw_info() / query_features(),
//   2. assembles (x86::Assembler, strict validation) a trampoline that loads the WHOLE modelled architectural state from a
//      buffer (15 GPR - everything but rsp -, rflags status bits, zmm0-31, k0-7; a 4 KiB memory window that every memory
//      operand points into is copied in), executes the instruction, stores the state back,
//   3. runs it from a fixed structured set of states: 4 base patterns x (1 + 2 perturbations of every location that is NOT
//      reported as read), no randomness,
//   4. checks
//        write coverage     a location whose value changed is reported written (GP/vector: changed bytes - all 64 of a
//                           vector register - within write|extend byte mask; mask registers; each changed status flag in write_flags(); memory only inside
//                           [ea, ea+size) of an operand reported kWrite); bytes claimed zero-extended (kZExt) are zero
//        non-interference   perturbing a location that is not reported read changes no reported output (flags the db marks
//                           undefined 'U' and the perturbed flag itself - a conditionally written flag keeps its value - are
//                           not compared)
//        features           no SIGILL when CpuInfo::host().features() contains every reported feature
//      SIGSEGV/SIGFPE/SIGBUS (and SIGILL when a reported feature is missing on the host) make a state / case undecided.
//
// Case line:   64 v <mnemonic> <options-hex> <extra|-> <operand>... | sig=<db signature> var=<variant> [U=<flags>] [pin=g<id>:<hex>]...
//   operand language of harness/emit_x86.cpp restricted to r,gp8lo|gp16|gp32|gp64|vec128|vec256|vec512|mask,<id> / i,<v> /
//   m,<size>,<base>,<index>,<shift>,<offset>,<seg>,<bcst>,<addr>  (base 'abs' + offset = absolute address inside the window).
//   U=   status flags whose value the database declares undefined (not compared between runs)
//   pin= general-purpose register forced to a value in every base state (divisors / dividends, bit offsets)
//   anyea  the instruction addresses memory relative to its operand in a way the operand does not show (xlatb: rbx + al)
//
// Options: --cases FILE (one case per line; '#' comments), --replay FILE (first non-comment line is the case), --shard i/n.
// Violation keys: rw:x64:<mnemonic>:<sig>:<clause>  clause in missing-write:<loc> missing-read:<loc> byte-mask mem-flags
// cpu-flags features.
#include <asmjit/core.h>
#include <asmjit/x86.h>
#include "vh.h"

#include <setjmp.h>
#include <sys/mman.h>
#include <cinttypes>

using namespace asmjit;

// ------------------------------------------------------------------------------------------------------------------
// modelled machine state
// ------------------------------------------------------------------------------------------------------------------
static constexpr uint64_t kArena = 0x30000000ull;          // [guard][window][guard]
static constexpr uint64_t kWin = kArena + 4096;
static constexpr uint32_t kWinSize = 4096;
static constexpr uint64_t kPtr = kWin + 2048;               // where address registers point
static constexpr uint64_t kStatus = 0x8D5;                  // CF PF AF ZF SF OF
static constexpr uint64_t kDF = 0x400;

struct alignas(64) State {
  uint8_t zmm[32][64];
  uint64_t gpr[16];
  uint64_t flags;
  uint64_t k[8];
  uint8_t win[kWinSize];
};

static State g_in, g_out;                 // what the trampoline loads / stores
static uint32_t g_mxcsr = 0x1F80;

static const char* kGpNames[16] = {"rax", "rcx", "rdx", "rbx", "rsp", "rbp", "rsi", "rdi", "r8", "r9", "r10", "r11", "r12", "r13", "r14", "r15"};
static const struct { const char* name; uint64_t bit; CpuRWFlags rw; } kFlags[] = {
  {"CF", 0x001, CpuRWFlags::kX86_CF}, {"PF", 0x004, CpuRWFlags::kX86_PF}, {"AF", 0x010, CpuRWFlags::kX86_AF},
  {"ZF", 0x040, CpuRWFlags::kX86_ZF}, {"SF", 0x080, CpuRWFlags::kX86_SF}, {"OF", 0x800, CpuRWFlags::kX86_OF},
  {"DF", 0x400, CpuRWFlags::kX86_DF}
};

// base pattern p (0..3) of location `seed`, byte i.  No byte has its low five bits clear (shift / rotate counts and
// bit-scan sources are never zero); pattern 3 holds small positive numbers.
static inline uint8_t pat_byte(int p, uint32_t seed, uint32_t i) {
  uint32_t b;
  switch (p) {
    case 0: b = seed * 17 + i * 3 + 0x11; break;
    case 1: b = 0xF0 ^ (seed * 29 + i * 7 + 5); break;
    case 2: b = (i & 1) ? (0x80 | (seed * 5 + i)) : (0x7F - ((seed * 3 + i) & 0x3F)); break;
    default: b = 0; break;
  }
  b &= 0xFF;
  if ((b & 31) == 0) b |= 0x0B;
  return uint8_t(b);
}

static void make_state(int p, State& s) {
  memset(&s, 0, sizeof s);
  for (uint32_t r = 0; r < 16; r++) {
    uint64_t v = 0;
    if (p == 3) v = 3 + 2 * r;
    else for (uint32_t i = 0; i < 8; i++) v |= uint64_t(pat_byte(p, r, i)) << (8 * i);
    s.gpr[r] = v;
  }
  for (uint32_t r = 0; r < 32; r++)
    for (uint32_t i = 0; i < 64; i++)
      s.zmm[r][i] = p == 3 ? uint8_t((i & 7) == 0 ? (5 + r + i / 8) : 0) : pat_byte(p, 100 + r, i);
  for (uint32_t r = 0; r < 8; r++) {
    uint64_t v = 0;
    for (uint32_t i = 0; i < 8; i++) v |= uint64_t(pat_byte(p == 3 ? 1 : p, 200 + r, i)) << (8 * i);
    s.k[r] = v;
  }
  static const uint64_t fl[4] = {0x001 | 0x040, 0x800 | 0x080 | 0x004, 0x010, 0x8D5};
  s.flags = fl[p];
  for (uint32_t i = 0; i < kWinSize; i++) s.win[i] = p == 3 ? uint8_t((i & 7) == 0 ? (7 + (i >> 3)) & 0x7F | 1 : 0) : pat_byte(p, 300 + (i >> 6), i);
}

// ------------------------------------------------------------------------------------------------------------------
// case
// ------------------------------------------------------------------------------------------------------------------
enum OpKind { kNone = 0, kGp, kVec, kK, kImm, kMem };

struct OpDesc {
  OpKind kind = kNone;
  uint32_t id = 0, size = 0;              // register id / size in bytes
  uint32_t hi = 0;                        // 1 for ah/ch/dh/bh: byte 1 of register id
  // memory
  uint32_t msize = 0, shift = 0;
  int base = -1, index = -1;              // gp ids
  int vindex = -1;                        // vector index register id (VSIB)
  int64_t disp = 0;
  bool abs = false;
};

struct Case {
  std::string line, name, sig, variant;
  uint32_t inst_id = 0, options = 0;
  RegOnly extra;
  int extra_k = -1;
  Operand_ ops[6];
  OpDesc od[6];
  size_t n = 0;
  uint64_t undefined_flags = 0;
  std::vector<std::pair<int, uint64_t>> pins;
  bool any_ea = false;                    // the effective address is not base+index*scale+disp (xlatb: rbx+al)
  std::string bad;
};

static bool parse_u32(const std::string& s, uint32_t& out) {
  if (s.empty()) return false;
  char* e = nullptr; errno = 0;
  unsigned long long v = strtoull(s.c_str(), &e, 0);
  if (*e || errno || v > 0xFFFFFFFFull) return false;
  out = uint32_t(v); return true;
}
static bool parse_i64(const std::string& s, int64_t& out) {
  if (s.empty()) return false;
  char* e = nullptr; errno = 0;
  if (s.size() > 2 && s[0] == '0' && (s[1] == 'x' || s[1] == 'X')) { out = int64_t(strtoull(s.c_str(), &e, 16)); return !*e && !errno; }
  out = strtoll(s.c_str(), &e, 10);
  return !*e && !errno;
}

struct RT { const char* name; RegType type; OpKind kind; uint32_t size; };
static const RT kRegTypes[] = {
  {"gp8lo", RegType::kGp8Lo, kGp, 1}, {"gp8hi", RegType::kGp8Hi, kGp, 1}, {"gp16", RegType::kGp16, kGp, 2}, {"gp32", RegType::kGp32, kGp, 4}, {"gp64", RegType::kGp64, kGp, 8},
  {"vec128", RegType::kVec128, kVec, 16}, {"vec256", RegType::kVec256, kVec, 32}, {"vec512", RegType::kVec512, kVec, 64},
  {"mask", RegType::kMask, kK, 8}
};
static const RT* reg_type(const std::string& s) {
  for (const RT& r : kRegTypes) if (s == r.name) return &r;
  return nullptr;
}
static bool typed_reg(const std::string& s, const RT*& rt, uint32_t& id) {
  size_t d = s.find('.');
  if (d == std::string::npos) return false;
  rt = reg_type(s.substr(0, d));
  return rt && parse_u32(s.substr(d + 1), id);
}

static std::vector<std::string> tokens(const std::string& line) {
  std::vector<std::string> out; size_t i = 0;
  while (i < line.size()) {
    while (i < line.size() && (line[i] == ' ' || line[i] == '\t')) i++;
    size_t j = i;
    while (j < line.size() && line[j] != ' ' && line[j] != '\t') j++;
    if (j > i) out.push_back(line.substr(i, j - i));
    i = j;
  }
  return out;
}

static bool parse_case(const std::string& line, Case& c) {
  c.line = line;
  c.extra.reset();
  for (auto& o : c.ops) o.reset();
  std::vector<std::string> tk = tokens(line);
  size_t bar = tk.size();
  for (size_t i = 0; i < tk.size(); i++) if (tk[i] == "|") { bar = i; break; }
  if (bar < 5 || tk[0] != "64") { c.bad = "header"; return false; }
  c.name = tk[2];
  c.inst_id = InstAPI::string_to_inst_id(Arch::kX64, tk[2].c_str(), tk[2].size());
  if (!c.inst_id) { c.bad = "E_NAME"; return false; }
  c.options = uint32_t(strtoull(tk[3].c_str(), nullptr, 16));
  if (tk[4] != "-") {
    const RT* rt; uint32_t id;
    if (!typed_reg(tk[4], rt, id) || rt->kind != kK || id > 7) { c.bad = "extra"; return false; }
    c.extra.init(Reg::from_type_and_id(rt->type, id));
    c.extra_k = int(id);
  }
  for (size_t i = 5; i < bar; i++) {
    if (c.n >= 6) { c.bad = "too-many-operands"; return false; }
    std::vector<std::string> f = vh::split(tk[i], ',');
    OpDesc& d = c.od[c.n];
    if (f[0] == "r" && f.size() == 3) {
      const RT* rt = reg_type(f[1]); uint32_t id;
      if (!rt || !parse_u32(f[2], id)) { c.bad = "reg-kind:" + f[1]; return false; }
      if ((rt->kind == kGp && (id > 15 || id == 4)) || (rt->kind == kVec && id > 31) || (rt->kind == kK && id > 7)) { c.bad = "reg-id"; return false; }
      if (rt->type == RegType::kGp8Hi && id > 3) { c.bad = "reg-id"; return false; }
      d.kind = rt->kind; d.id = id; d.size = rt->size; d.hi = rt->type == RegType::kGp8Hi ? 1 : 0;
      c.ops[c.n++] = Reg::from_type_and_id(rt->type, id);
    }
    else if (f[0] == "i" && f.size() == 2) {
      int64_t v;
      if (!parse_i64(f[1], v)) { c.bad = "imm"; return false; }
      d.kind = kImm;
      c.ops[c.n++] = Imm(v);
    }
    else if (f[0] == "m" && f.size() == 9) {
      uint32_t size, shift, seg, bcst, addr; int64_t off;
      if (!parse_u32(f[1], size) || !parse_u32(f[4], shift) || !parse_i64(f[5], off) || !parse_u32(f[6], seg) || !parse_u32(f[7], bcst) ||
          !parse_u32(f[8], addr) || size > 255 || shift > 3 || seg > 6 || bcst > 6) { c.bad = "mem-values"; return false; }
      uint32_t bt = 0, bid = 0, it = 0, iid = 0;
      d.kind = kMem; d.msize = size; d.shift = shift; d.disp = off;
      if (f[2] == "abs") { d.abs = true; }
      else {
        const RT* rt; uint32_t id;
        if (!typed_reg(f[2], rt, id) || rt->type != RegType::kGp64 || id > 15 || id == 4) { c.bad = "mem-base"; return false; }
        bt = uint32_t(rt->type); bid = id; d.base = int(id);
      }
      if (f[3] != "-") {
        const RT* rt; uint32_t id;
        if (!typed_reg(f[3], rt, id)) { c.bad = "mem-index"; return false; }
        it = uint32_t(rt->type); iid = id;
        if (rt->kind == kVec) d.vindex = int(id); else if (rt->type == RegType::kGp64 && id != 4) d.index = int(id); else { c.bad = "mem-index"; return false; }
      }
      uint32_t sig = uint32_t(OperandType::kMem) | (bt << 3) | (it << 8) | (addr << 14) | (shift << 16) | (seg << 18) | (bcst << 21) | (size << 24);
      if (d.abs) bid = uint32_t(uint64_t(off) >> 32);
      c.ops[c.n++] = x86::Mem(OperandSignature{sig}, bid, iid, int32_t(uint32_t(uint64_t(off) & 0xFFFFFFFFu)));
    }
    else { c.bad = "operand:" + tk[i]; return false; }
  }
  for (size_t i = bar + 1; i < tk.size(); i++) {
    const std::string& t = tk[i];
    if (t.compare(0, 4, "sig=") == 0) c.sig = t.substr(4);
    else if (t.compare(0, 4, "var=") == 0) c.variant = t.substr(4);
    else if (t.compare(0, 2, "U=") == 0) {
      for (const std::string& n : vh::split(t.substr(2), ','))
        for (auto& fl : kFlags) if (n == fl.name) c.undefined_flags |= fl.bit;
    }
    else if (t == "anyea") c.any_ea = true;
    else if (t.compare(0, 5, "pin=g") == 0) {
      size_t col = t.find(':');
      uint32_t id;
      if (col == std::string::npos || !parse_u32(t.substr(5, col - 5), id) || id > 15) { c.bad = "pin"; return false; }
      c.pins.emplace_back(int(id), strtoull(t.substr(col + 1).c_str(), nullptr, 16));
    }
  }
  return true;
}

// ------------------------------------------------------------------------------------------------------------------
// trampoline
// ------------------------------------------------------------------------------------------------------------------
typedef void (*Tramp)(void);

static Error build_trampoline(JitRuntime& rt, const Case& c, Tramp* out, std::string* bytes_hex) {
  CodeHolder code;
  Error e = code.init(rt.environment(), rt.cpu_features());
  if (e != Error::kOk) return e;
  x86::Assembler a(&code);
  using namespace x86;
  const Gp callee[] = {rbx, rbp, r12, r13, r14, r15};
  for (const Gp& r : callee) a.push(r);
  // ---- load
  a.mov(rax, uint64_t(uintptr_t(&g_mxcsr)));
  a.ldmxcsr(dword_ptr(rax));                         // all FP exceptions masked, round to nearest
  a.mov(rax, uint64_t(uintptr_t(&g_in)));
  a.push(qword_ptr(rax, int32_t(offsetof(State, flags))));
  a.popfq();
  for (uint32_t i = 0; i < 8; i++) a.kmovq(k(i), qword_ptr(rax, int32_t(offsetof(State, k) + i * 8)));
  for (uint32_t i = 0; i < 32; i++) a.vmovdqu64(zmm(i), zmmword_ptr(rax, int32_t(offsetof(State, zmm) + i * 64)));
  for (uint32_t i = 1; i < 16; i++) if (i != 4) a.mov(gpq(i), qword_ptr(rax, int32_t(offsetof(State, gpr) + i * 8)));
  a.mov(rax, qword_ptr(rax, int32_t(offsetof(State, gpr))));
  // ---- the instruction
  size_t off0 = a.offset();
  a.add_diagnostic_options(DiagnosticOptions::kValidateAssembler);
  BaseInst inst(c.inst_id, InstOptions(c.options), c.extra);
  e = a.emit_inst(inst, c.ops, c.n);
  a.clear_diagnostic_options(DiagnosticOptions::kValidateAssembler);
  if (e != Error::kOk) return e;
  size_t off1 = a.offset();
  // ---- store (push / pushfq / pop / mov do not change the flags)
  a.push(rax);
  a.pushfq();
  a.mov(rax, uint64_t(uintptr_t(&g_out)));
  a.pop(qword_ptr(rax, int32_t(offsetof(State, flags))));
  a.pop(qword_ptr(rax, int32_t(offsetof(State, gpr))));
  a.cld();
  for (uint32_t i = 1; i < 16; i++) if (i != 4) a.mov(qword_ptr(rax, int32_t(offsetof(State, gpr) + i * 8)), gpq(i));
  for (uint32_t i = 0; i < 32; i++) a.vmovdqu64(zmmword_ptr(rax, int32_t(offsetof(State, zmm) + i * 64)), zmm(i));
  for (uint32_t i = 0; i < 8; i++) a.kmovq(qword_ptr(rax, int32_t(offsetof(State, k) + i * 8)), k(i));
  a.vzeroupper();
  for (int i = 5; i >= 0; i--) a.pop(callee[i]);
  a.ret();
  if (bytes_hex) {
    CodeBuffer& buf = code.text_section()->buffer();
    *bytes_hex = vh::hex(buf.data() + off0, off1 - off0);
  }
  return rt.add(out, &code);
}

// ------------------------------------------------------------------------------------------------------------------
// execution with fault capture
// ------------------------------------------------------------------------------------------------------------------
static sigjmp_buf g_env;
static volatile sig_atomic_t g_in_exec = 0;

static void on_fault(int sig) {
  if (g_in_exec) { g_in_exec = 0; siglongjmp(g_env, sig); }
  vh::on_fatal_signal(sig);
}

// returns 0 or the signal number
static int execute(Tramp fn, const State& in, State& out) {
  memcpy(&g_in, &in, sizeof(State));
  g_in.flags = (in.flags & (kStatus | kDF)) | 0x202;
  memcpy((void*)kWin, in.win, kWinSize);
  int sig = sigsetjmp(g_env, 1);
  if (sig == 0) {
    g_in_exec = 1;
    fn();
    g_in_exec = 0;
    memcpy(&out, &g_out, sizeof(State));
    out.flags &= (kStatus | kDF);
    out.gpr[4] = in.gpr[4];
    memcpy(out.win, (void*)kWin, kWinSize);
    vh::ctx().n("evaluations")++;
    return 0;
  }
  __asm__ volatile("cld");
  return sig;
}

// ------------------------------------------------------------------------------------------------------------------
// reported read / write sets
// ------------------------------------------------------------------------------------------------------------------
struct Sets {
  bool gp_read[16] = {}, vec_read[32] = {}, k_read[8] = {};
  uint64_t flags_read = 0, flags_write = 0;
  uint8_t gp_w[16] = {}, gp_z[16] = {};       // byte masks (write|extend) / claimed-zero bytes
  uint64_t vec_w[32] = {};                     // reported output bytes: (write|extend mask) within the operand's width
  bool vec_written[32] = {};
  uint64_t vec_cover[32] = {};                 // write|extend byte masks of every operand naming the register (all 64 bytes)
  bool k_w[8] = {};
  bool mem_read[6] = {}, mem_write[6] = {};
  bool gp_addr[16] = {};                         // used as base / index of a memory operand
  bool vec_addr[32] = {};
};

static void collect(const Case& c, const InstRWInfo& rw, Sets& s) {
  for (size_t j = 0; j < c.n; j++) {
    const OpDesc& d = c.od[j];
    const OpRWInfo& o = rw.operand(j);
    uint64_t we = o.write_byte_mask() | o.extend_byte_mask();
    switch (d.kind) {
      case kGp:
        if (o.is_read()) s.gp_read[d.id] = true;
        if (o.is_write()) {
          s.gp_w[d.id] |= uint8_t(((we & 0xFF) << d.hi) & 0xFF);
          if (o.is_zext()) s.gp_z[d.id] |= uint8_t(((o.extend_byte_mask() & 0xFF) << d.hi) & 0xFF);
        }
        break;
      case kVec:
        if (o.is_read()) s.vec_read[d.id] = true;
        if (o.is_write()) {
          // the property speaks of vector REGISTERS being written; byte masks are honoured only to recognise partial
          // writes (movss xmm, xmm) inside the operand's own width - what a legacy SSE / VEX instruction does to the
          // bytes above its operand width is not judged
          s.vec_written[d.id] = true;
          s.vec_cover[d.id] |= we;
          s.vec_w[d.id] |= we & (d.size >= 64 ? ~uint64_t(0) : ((uint64_t(1) << d.size) - 1));
        }
        break;
      case kK:
        if (o.is_read()) s.k_read[d.id] = true;
        if (o.is_write()) s.k_w[d.id] = true;
        break;
      case kMem:
        if (o.is_read()) s.mem_read[j] = true;
        if (o.is_write()) s.mem_write[j] = true;
        if (d.base >= 0) {
          s.gp_addr[d.base] = true;
          if (o.is_mem_base_read()) s.gp_read[d.base] = true;
          if (o.is_mem_base_write()) s.gp_w[d.base] = 0xFF;
        }
        if (d.index >= 0) {
          s.gp_addr[d.index] = true;
          if (o.is_mem_index_read()) s.gp_read[d.index] = true;
          if (o.is_mem_index_write()) s.gp_w[d.index] = 0xFF;
        }
        if (d.vindex >= 0) {
          s.vec_addr[d.vindex] = true;
          if (o.is_mem_index_read()) s.vec_read[d.vindex] = true;
          if (o.is_mem_index_write()) { s.vec_w[d.vindex] = ~uint64_t(0); s.vec_written[d.vindex] = true; s.vec_cover[d.vindex] = ~uint64_t(0); }
        }
        break;
      default: break;
    }
  }
  if (c.extra_k >= 0) {
    if (rw.extra_reg().is_read()) s.k_read[c.extra_k] = true;
    if (rw.extra_reg().is_write()) s.k_w[c.extra_k] = true;
  }
  for (auto& fl : kFlags) {
    if (Support::test(rw.read_flags(), fl.rw)) s.flags_read |= fl.bit;
    if (Support::test(rw.write_flags(), fl.rw)) s.flags_write |= fl.bit;
  }
}

// address registers point into the window in every state
static void apply_pins(const Case& c, State& s) {
  for (size_t j = 0; j < c.n; j++) {
    const OpDesc& d = c.od[j];
    if (d.kind != kMem) continue;
    if (d.index >= 0) s.gpr[d.index] = 16;
    if (d.vindex >= 0) {
      memset(s.zmm[d.vindex], 0, 64);
      for (uint32_t q = 0; q < 8; q++) s.zmm[d.vindex][q * 8] = uint8_t(8 * (q + 1));
    }
  }
  // every memory operand gets its own, 256-byte aligned place in the window (string moves: source != destination)
  for (size_t j = 0; j < c.n; j++) if (c.od[j].kind == kMem && c.od[j].base >= 0) s.gpr[c.od[j].base] = kPtr + 256 * j;
  for (auto& p : c.pins) s.gpr[p.first] = p.second;
}

struct Region { uint32_t lo, hi; bool any; };     // window offsets [lo, hi)

static bool g_any_ea = false;

static Region region_of(const OpDesc& d, const State& s) {
  Region r{0, 0, false};
  if (d.vindex >= 0 || d.msize == 0 || g_any_ea) { r.any = true; r.lo = 0; r.hi = kWinSize; return r; }
  uint64_t ea = d.abs ? uint64_t(d.disp) : uint64_t(d.disp);
  if (!d.abs) {
    if (d.base >= 0) ea += s.gpr[d.base];
    if (d.index >= 0) ea += s.gpr[d.index] << d.shift;
  }
  if (ea < kWin || ea + d.msize > kWin + kWinSize) { r.any = true; r.lo = 0; r.hi = kWinSize; return r; }
  r.lo = uint32_t(ea - kWin); r.hi = r.lo + d.msize;
  return r;
}

// ------------------------------------------------------------------------------------------------------------------
// judging
// ------------------------------------------------------------------------------------------------------------------
struct Loc { enum Kind { GP, VEC, K, FLAG, MEMOP, MEMREST } kind; uint32_t idx; };

static std::string loc_name(const Loc& l) {
  char b[32];
  switch (l.kind) {
    case Loc::GP: return kGpNames[l.idx];
    case Loc::VEC: snprintf(b, sizeof b, "zmm%u", l.idx); return b;
    case Loc::K: snprintf(b, sizeof b, "k%u", l.idx); return b;
    case Loc::FLAG: return kFlags[l.idx].name;
    case Loc::MEMOP: snprintf(b, sizeof b, "mem-op%u", l.idx); return b;
    default: return "mem-outside-operands";
  }
}

// name of a location inside a violation key: the operand it belongs to (stable across register assignments, same
// vocabulary as the quick tier) or, for a location that is no operand at all, its architectural name
static std::string loc_key(const Case& c, const Loc& l) {
  for (size_t j = 0; j < c.n; j++) {
    const OpDesc& d = c.od[j];
    std::string op = "op" + std::to_string(j);
    if (l.kind == Loc::GP && d.kind == kGp && d.id == l.idx) return op;
    if (l.kind == Loc::VEC && d.kind == kVec && d.id == l.idx) return op;
    if (l.kind == Loc::K && d.kind == kK && d.id == l.idx) return op;
    if (l.kind == Loc::MEMOP && l.idx == j) return op;
    if (d.kind == kMem) {
      if (l.kind == Loc::GP && d.base == int(l.idx)) return op + ".base";
      if (l.kind == Loc::GP && d.index == int(l.idx)) return op + ".index";
      if (l.kind == Loc::VEC && d.vindex == int(l.idx)) return op + ".index";
    }
  }
  if (l.kind == Loc::K && c.extra_k == int(l.idx)) return "mask";
  return loc_name(l);
}

static uint8_t diff_bytes8(uint64_t a, uint64_t b) {
  uint8_t m = 0; uint64_t x = a ^ b;
  for (int i = 0; i < 8; i++) if ((x >> (8 * i)) & 0xFF) m |= uint8_t(1u << i);
  return m;
}
static uint64_t diff_bytes64(const uint8_t* a, const uint8_t* b) {
  uint64_t m = 0;
  for (int i = 0; i < 64; i++) if (a[i] != b[i]) m |= uint64_t(1) << i;
  return m;
}

struct Judge {
  const Case& c;
  const Sets& s;
  std::string bytes;
  std::set<std::string> reported;
  Judge(const Case& c_, const Sets& s_) : c(c_), s(s_) {}

  void viol(const std::string& clause, const std::string& text) {
    if (!reported.insert(clause).second) return;
    vh::Ctx& x = vh::ctx();
    std::string key = "rw:x64:" + c.name + ":" + (c.sig.empty() ? "-" : c.sig) + ":" + clause;
    x.violation(key, c.line.substr(0, c.line.find(" |")) + " [" + bytes + ", variant " + c.variant + "]: " + text,
                "C12 native case\ncase: " + c.line + "\nclause: " + clause + "\n# " + text + "\n");
  }

  // everything that changed must be reported written
  void write_coverage(int p, const State& in, const State& out) {
    char b[256];
    for (uint32_t g = 0; g < 16; g++) {
      if (g == 4) continue;
      uint8_t ch = diff_bytes8(in.gpr[g], out.gpr[g]);
      if (ch & ~s.gp_w[g]) {
        snprintf(b, sizeof b, "%s changes %016" PRIx64 " -> %016" PRIx64 " (bytes %#x, base state %d) but reported write|extend byte mask is %#x",
                 kGpNames[g], in.gpr[g], out.gpr[g], ch, p, s.gp_w[g]);
        viol(s.gp_w[g] ? "byte-mask" : "missing-write:" + loc_key(c, Loc{Loc::GP, g}), b);
      }
      if (s.gp_z[g] && (diff_bytes8(out.gpr[g], 0) & s.gp_z[g])) {
        snprintf(b, sizeof b, "%s = %016" PRIx64 " after the instruction but bytes %#x are reported zero-extended (kZExt)", kGpNames[g], out.gpr[g], s.gp_z[g]);
        viol("byte-mask", b);
      }
    }
    for (uint32_t v = 0; v < 32; v++) {
      uint64_t ch = diff_bytes64(in.zmm[v], out.zmm[v]);
      if (ch && !s.vec_written[v]) {
        snprintf(b, sizeof b, "zmm%u changes in bytes %#" PRIx64 " (base state %d) but no operand reports it written", v, ch, p);
        viol("missing-write:" + loc_key(c, Loc{Loc::VEC, v}), b);
      }
      else if (ch & ~s.vec_cover[v]) {
        // byte level (under-reporting only): every byte of the register that changed - also the bytes a VEX / EVEX
        // instruction zeroes above its operand width - lies in write_byte_mask | extend_byte_mask.  Bytes that are
        // reported but do not change (legacy SSE "zero extension" above bit 127) are over-reporting and not judged.
        snprintf(b, sizeof b, "zmm%u changes in bytes %#" PRIx64 " (base state %d) but write|extend byte mask of the operand is %#" PRIx64
                 " (bytes %#" PRIx64 " unreported)", v, ch, p, s.vec_cover[v], ch & ~s.vec_cover[v]);
        viol("byte-mask", b);
      }
    }
    for (uint32_t k = 0; k < 8; k++)
      if (in.k[k] != out.k[k] && !s.k_w[k]) {
        snprintf(b, sizeof b, "k%u changes %016" PRIx64 " -> %016" PRIx64 " (base state %d) but no operand reports it written", k, in.k[k], out.k[k], p);
        viol("missing-write:" + loc_key(c, Loc{Loc::K, k}), b);
      }
    uint64_t fch = (in.flags ^ out.flags) & ~s.flags_write;
    if (fch) {
      std::string names;
      for (auto& fl : kFlags) if (fch & fl.bit) names += std::string(names.empty() ? "" : ",") + fl.name;
      snprintf(b, sizeof b, "flags %s change (rflags %#" PRIx64 " -> %#" PRIx64 ", base state %d) but are not in write_flags()", names.c_str(), in.flags, out.flags, p);
      viol("cpu-flags", b);
    }
    // memory
    bool allowed[kWinSize];
    memset(allowed, 0, sizeof allowed);
    for (size_t j = 0; j < c.n; j++)
      if (c.od[j].kind == kMem && s.mem_write[j]) {
        Region r = region_of(c.od[j], in);
        for (uint32_t i = r.lo; i < r.hi; i++) allowed[i] = true;
      }
    for (uint32_t i = 0; i < kWinSize; i++)
      if (in.win[i] != out.win[i] && !allowed[i]) {
        bool any_w = false;
        for (size_t j = 0; j < c.n; j++) any_w |= s.mem_write[j];
        snprintf(b, sizeof b, "memory byte at window offset %u changes %02x -> %02x (base state %d) but %s", i, in.win[i], out.win[i], p,
                 any_w ? "it lies outside [ea, ea+size) of the operands reported kWrite" : "no memory operand is reported kWrite");
        viol("mem-flags", b);
        break;
      }
  }

  // reported outputs of two runs must agree
  void compare(const Loc& l, int p, int q, const State& in2, const State& o1, const State& o2) {
    char b[320];
    std::string what;
    for (uint32_t g = 0; g < 16 && what.empty(); g++)
      if (g != 4 && (diff_bytes8(o1.gpr[g], o2.gpr[g]) & s.gp_w[g])) {
        snprintf(b, sizeof b, "%s (reported written, bytes %#x) = %016" PRIx64 " vs %016" PRIx64, kGpNames[g], s.gp_w[g], o1.gpr[g], o2.gpr[g]);
        what = b;
      }
    for (uint32_t v = 0; v < 32 && what.empty(); v++)
      if (diff_bytes64(o1.zmm[v], o2.zmm[v]) & s.vec_w[v]) {
        snprintf(b, sizeof b, "zmm%u (reported written, bytes %#" PRIx64 ") differs in bytes %#" PRIx64, v, s.vec_w[v], diff_bytes64(o1.zmm[v], o2.zmm[v]) & s.vec_w[v]);
        what = b;
      }
    for (uint32_t k = 0; k < 8 && what.empty(); k++)
      if (s.k_w[k] && o1.k[k] != o2.k[k]) {
        snprintf(b, sizeof b, "k%u (reported written) = %016" PRIx64 " vs %016" PRIx64, k, o1.k[k], o2.k[k]);
        what = b;
      }
    if (what.empty()) {
      uint64_t cmp = s.flags_write & kStatus & ~c.undefined_flags;
      if (l.kind == Loc::FLAG) cmp &= ~kFlags[l.idx].bit;
      uint64_t d = (o1.flags ^ o2.flags) & cmp;
      if (d) {
        snprintf(b, sizeof b, "flags (reported written) = %#" PRIx64 " vs %#" PRIx64, o1.flags, o2.flags);
        what = b;
      }
    }
    if (what.empty()) {
      for (size_t j = 0; j < c.n && what.empty(); j++)
        if (c.od[j].kind == kMem && s.mem_write[j]) {
          Region r = region_of(c.od[j], in2);
          if (r.any) continue;
          for (uint32_t i = r.lo; i < r.hi; i++)
            if (o1.win[i] != o2.win[i]) {
              snprintf(b, sizeof b, "memory operand %zu (reported written) differs at window offset %u: %02x vs %02x", j, i, o1.win[i], o2.win[i]);
              what = b;
              break;
            }
        }
    }
    if (!what.empty()) {
      std::string t = loc_name(l) + " is not reported read, but changing only it (base state " + std::to_string(p) + ", perturbation " +
                      std::to_string(q) + ") changes a reported output: " + what;
      viol("missing-read:" + loc_key(c, l), t);
    }
  }
};

static void perturb(const Case& c, const Sets& s, const Loc& l, int q, State& st, const State& base) {
  switch (l.kind) {
    case Loc::GP:
      if (s.gp_addr[l.idx]) st.gpr[l.idx] += q ? 128 : 64;            // stays inside the window
      else st.gpr[l.idx] ^= q ? 0xA5A5A5A5A5A5A5A5ull : 0x00FF00FF00FF0F01ull;
      break;
    case Loc::VEC:
      for (int i = 0; i < 64; i++) st.zmm[l.idx][i] ^= q ? uint8_t(0xA5) : uint8_t(i & 1 ? 0xFF : 0x01);
      break;
    case Loc::K: st.k[l.idx] ^= q ? 0xA5A5A5A5A5A5A5A5ull : 0xFFFFFFFF0000FF01ull; break;
    case Loc::FLAG: st.flags ^= kFlags[l.idx].bit; break;
    case Loc::MEMOP: {
      Region r = region_of(c.od[l.idx], base);
      for (uint32_t i = r.lo; i < r.hi; i++) st.win[i] ^= q ? uint8_t(0xA5) : uint8_t(i & 1 ? 0xFF : 0x01);
      break;
    }
    case Loc::MEMREST: {
      bool used[kWinSize];
      memset(used, 0, sizeof used);
      for (size_t j = 0; j < c.n; j++)
        if (c.od[j].kind == kMem) {
          Region r = region_of(c.od[j], base);
          if (r.any) { memset(used, 1, sizeof used); break; }
          for (uint32_t i = r.lo; i < r.hi; i++) used[i] = true;
        }
      for (uint32_t i = 0; i < kWinSize; i++) if (!used[i]) st.win[i] ^= q ? uint8_t(0xA5) : uint8_t(i & 1 ? 0xFF : 0x01);
      break;
    }
  }
}

static void run_case(JitRuntime& rt, const std::string& line) {
  vh::Ctx& x = vh::ctx();
  Case c;
  if (!parse_case(line, c)) {
    if (c.bad == "E_NAME") x.n("cases_mnemonic_unknown")++;
    else { x.n("cases_not_expressible")++; x.note("not expressible (" + c.bad + "): " + line.substr(0, 120)); }
    return;
  }
  vh::set_case("C12 native case\ncase: " + line + "\n");
  g_any_ea = c.any_ea;
  BaseInst inst(c.inst_id, InstOptions(c.options), c.extra);
  InstRWInfo rw;
  CpuFeatures need;
  if (InstAPI::validate(Arch::kX64, inst, c.ops, c.n) != Error::kOk) { x.n("cases_rejected_by_validator")++; return; }
  if (InstAPI::query_rw_info(Arch::kX64, inst, c.ops, c.n, &rw) != Error::kOk ||
      InstAPI::query_features(Arch::kX64, inst, c.ops, c.n, &need) != Error::kOk) { x.n("cases_query_failed")++; return; }
  bool on_host = CpuInfo::host().features().has_all(need);
  if (!on_host) { x.n("cases_not_executable_on_host")++; return; }

  Tramp fn = nullptr;
  std::string bytes;
  Error e = build_trampoline(rt, c, &fn, &bytes);
  if (e != Error::kOk) { x.n("cases_rejected_by_assembler")++; return; }
  x.n("cases_executed")++;

  Sets s;
  collect(c, rw, s);
  Judge J(c, s);
  J.bytes = bytes;

  // locations that are not reported read
  std::vector<Loc> locs;
  for (uint32_t g = 0; g < 16; g++) if (g != 4 && !s.gp_read[g]) locs.push_back(Loc{Loc::GP, g});
  for (uint32_t v = 0; v < 32; v++) if (!s.vec_read[v]) locs.push_back(Loc{Loc::VEC, v});
  for (uint32_t k = 0; k < 8; k++) if (!s.k_read[k]) locs.push_back(Loc{Loc::K, k});
  for (uint32_t f = 0; f < 6; f++) if (!(s.flags_read & kFlags[f].bit)) locs.push_back(Loc{Loc::FLAG, f});
  for (size_t j = 0; j < c.n; j++) if (c.od[j].kind == kMem && !s.mem_read[j] && c.od[j].msize && c.od[j].vindex < 0) locs.push_back(Loc{Loc::MEMOP, uint32_t(j)});
  locs.push_back(Loc{Loc::MEMREST, 0});

  static State in, out, in2, out2;
  int decided = 0, sigill = 0, faults = 0;
  for (int p = 0; p < 4; p++) {
    make_state(p, in);
    apply_pins(c, in);
    int sig = execute(fn, in, out);
    if (sig) {
      x.n("base_states_faulting")++;
      if (sig == SIGILL) sigill++; else faults++;
      continue;
    }
    decided++;
    J.write_coverage(p, in, out);
    for (const Loc& l : locs) {
      for (int q = 0; q < 2; q++) {
        if (l.kind == Loc::FLAG && q == 1) continue;          // a flag has one other value
        memcpy(&in2, &in, sizeof(State));
        perturb(c, s, l, q, in2, in);
        int sig2 = execute(fn, in2, out2);
        if (sig2) { x.n("perturbed_states_faulting")++; continue; }
        x.n("perturbations")++;
        J.compare(l, p, q, in2, out, out2);
      }
    }
    if (x.out_of_time()) break;
  }
  // #UD can also come from an operand constraint the variant violates on purpose (same register for destination and
  // source of vfcmaddcph / gathers, a {k} the form does not take, a gather / scatter without mask): the features clause
  // is judged on the plain variants only (VSIB forms: on the masked ones)
  bool has_vsib = false;
  for (size_t j = 0; j < c.n; j++) has_vsib |= c.od[j].vindex >= 0;
  bool plain = c.variant == "reg" || c.variant == "alt" || c.variant == "reg-noopt" || c.variant.compare(0, 3, "mem") == 0;
  bool feat_variant = has_vsib ? (c.variant == "k" || c.variant == "k-alt") : plain;
  if (sigill && !feat_variant) { x.n("cases_ud_in_constrained_variant")++; sigill = 0; }
  if (sigill) {
    std::string fs;
    CpuFeatures::Iterator it(need.iterator());
    while (it.has_next()) fs += (fs.empty() ? "" : ",") + std::to_string(uint32_t(it.next()));
    J.viol("features", "SIGILL (#UD) on this host although CpuInfo::host().features() contains every feature query_features() "
           "reports (feature ids {" + fs + "})");
  }
  if (decided) { x.n("distinct_nontrivial")++; x.n("cases_decided")++; }
  else if (!sigill && faults) { x.n("cases_undecided_fault")++; x.note("undecided (faults in every base state): " + line.substr(0, line.find(" |"))); }
  if (decided && J.reported.empty()) x.sample(line.substr(0, line.find(" |")) + " -> " + bytes + " ok in " + std::to_string(decided) + " base states, " +
                                              std::to_string(locs.size()) + " unread locations perturbed", 6);
  rt.release(fn);
}

int main(int argc, char** argv) {
  vh::parse_args(argc, argv);
  vh::Ctx& x = vh::ctx();
  x.strs["rule"] = "every case x 4 base states x (1 + 2 perturbations of every location not reported read); write coverage, "
                   "non-interference, #UD vs reported features";
  x.strs["bound"] = "4 base patterns, 2 perturbations per unread location";

  if (!CpuInfo::host().features().x86().has_avx512_f() || !CpuInfo::host().features().x86().has_avx512_bw()) {
    x.note("host has no AVX-512: silicon leg not executed");
    x.exhaustive = false;
    return vh::finish();
  }
  void* m = mmap((void*)kArena, 3 * 4096, PROT_READ | PROT_WRITE, MAP_PRIVATE | MAP_ANONYMOUS | MAP_FIXED_NOREPLACE, -1, 0);
  if (m != (void*)kArena) { fprintf(stderr, "c12_native: cannot map the memory window at %#llx\n", (unsigned long long)kArena); return 2; }
  mprotect((void*)kArena, 4096, PROT_NONE);
  mprotect((void*)(kArena + 2 * 4096), 4096, PROT_NONE);

  struct sigaction sa;
  memset(&sa, 0, sizeof sa);
  sa.sa_handler = on_fault;
  sa.sa_flags = SA_NODEFER;
  for (int sg : {SIGSEGV, SIGBUS, SIGILL, SIGFPE, SIGTRAP}) sigaction(sg, &sa, nullptr);

  JitRuntime rt;
  std::vector<std::string> lines;
  if (x.replaying()) {
    for (const std::string& l : vh::split(x.replay_text, '\n'))
      if (l.compare(0, 6, "case: ") == 0) { lines.push_back(l.substr(6)); break; }
    if (lines.empty()) { fprintf(stderr, "c12_native: replay file has no case: line\n"); return 2; }
  }
  else {
    std::string path = x.opt("cases");
    FILE* f = fopen(path.c_str(), "r");
    if (!f) { fprintf(stderr, "c12_native: cannot open --cases %s\n", path.c_str()); return 2; }
    char* line = nullptr; size_t cap = 0;
    while (getline(&line, &cap, f) > 0) {
      size_t n = strlen(line);
      while (n && (line[n - 1] == '\n' || line[n - 1] == '\r')) line[--n] = 0;
      if (n && line[0] != '#') lines.push_back(line);
    }
    free(line);
    fclose(f);
  }
  long long idx = 0;
  for (const std::string& l : lines) {
    if (!x.replaying() && !x.mine(idx++)) continue;
    if (x.out_of_time()) break;
    x.n("cases")++;
    run_case(rt, l);
  }
  vh::set_case("");
  return vh::finish();
}
