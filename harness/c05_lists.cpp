// C05 (lists leg) - register-list instructions that need consecutive physical registers.
//
// Programs: AArch64 Compiler programs with ld1..ld4 / ld2r / st1..st4 (1..4 consecutive vector registers, several
// arrangements, lane forms), tbl/tbx with 1..4 table registers; x86-64 Compiler programs with vp2intersectd/q
// (mask pair k(2n):k(2n+1)).  Enumerated: which virtual registers form each list (every tuple over the first values,
// including the same register twice, overlapping and conflicting lists across instructions, a member that is also the
// result or the index), list length, 1..3 list instructions, straight / diamond / loop, shrunk and full register files.
//
// Oracle: UNINTERPRETED-TERM SIMULATION.  Every instruction of the harness IR is an uninterpreted function of the
// terms of its read operands (in operand order, plus its static identity and - for loads/stores - the memory token),
// producing one fresh term per written operand.  Which operands are read / written comes from the ISA database
// (db/isa_aarch64.json, db/isa_x86.json; extracted by checks/c05.py and passed with --roles), NOT from
// InstAPI::query_rw_info.
//   REFERENCE  = the IR evaluated over named values.
//   UNDER TEST = the node list after run_passes(): original instructions (tagged before the passes) apply the same
//                function to the terms found in their PHYSICAL operands; everything the allocator inserted (moves, loads,
//                saves, prolog/epilog) is interpreted concretely by engine/msim.h - terms are 64/128/512-bit patterns, so
//                moving a register moves the term.
// Required: (1) every list occupies consecutive physical registers (modulo 32; mask pair = (even, even+1));
// (2) every original instruction reads exactly the reference terms; (3) the final memory token equals the reference
// (all stores happened with the right terms in the right order); (4) follows from (2)+(3): every value is stored at the
// end, so a clobbered live list member is read wrongly later; (5) run_passes() must not fail for a satisfiable program,
// and an unsatisfiable one (one virtual register at two positions of one list) must be reported as an error or - for a
// read-only list - be compiled correctly (copy), never silently miscompiled.
#include "vh.h"
#include <asmjit/core.h>
#include <asmjit/x86.h>
#include <asmjit/a64.h>
#include "msim.h"
#include <array>

using namespace asmjit;

// =========================================================================================================
// terms
// =========================================================================================================
struct Term { uint64_t lo = 0, hi = 0; bool operator==(const Term& o) const { return lo == o.lo && hi == o.hi; } bool operator!=(const Term& o) const { return !(*this == o); } };
static inline uint64_t mix(uint64_t h, uint64_t v) { h ^= v + 0x9E3779B97F4A7C15ull + (h << 6) + (h >> 2); h *= 0xFF51AFD7ED558CCDull; h ^= h >> 33; return h; }
static Term hterm(uint64_t id, uint64_t pos, const std::vector<Term>& reads) {
  uint64_t a = mix(0x1234567, id), b = mix(0x89ABCDEF, id ^ 0x5555);
  a = mix(a, pos); b = mix(b, pos * 7 + 1);
  for (const Term& t : reads) { a = mix(a, t.lo); a = mix(a, t.hi); b = mix(b, t.hi ^ 0xA5A5); b = mix(b, t.lo); }
  Term r; r.lo = a | 1; r.hi = b | 1; return r;   // never zero, so "upper half zeroed" is distinguishable
}
// the byte pattern of a term in a register of `bytes` bytes (8: gp / mask / 64-bit vector view; 16: q; 64: zmm)
static void expand(const Term& t, unsigned bytes, uint8_t* out) {
  for (unsigned q = 0; q * 8 < bytes; q++) { uint64_t v = q == 0 ? t.lo : q == 1 ? t.hi : mix(mix(t.lo, t.hi), q); memcpy(out + q * 8, &v, 8); }
}
static std::string tstr(const Term& t) { char b[48]; snprintf(b, sizeof b, "%016llx:%016llx", (unsigned long long)t.hi, (unsigned long long)t.lo); return b; }

// =========================================================================================================
// IR
// =========================================================================================================
enum { KIND_INST, KIND_LABEL, KIND_BR, KIND_JMP };
struct Opd { int val; char role; int width; };     // width: bytes of the register the instruction accesses (reads use the low `width` bytes, writes zero the rest of the vector)
struct LI {
  int kind = KIND_INST;
  std::string form;                 // alphabet form name ("ld2.4s", "tbl3", "vp2intersectd", "ldr", "str", ...)
  uint32_t inst_id = 0;             // asmjit instruction id (emission only)
  std::vector<Opd> ops;             // register operands in operand order
  int list_first = -1, list_len = 0;// which operands form the consecutive list
  bool has_mem = false; int64_t off = 0; bool mem_read = false, mem_write = false;
  int arr = 0; int lane = -1;       // a64 arrangement code / lane index (emission + identity)
  int lbl = -1; bool br_nz = false; // branches
  bool is_list = false;
  uint64_t ident() const { uint64_t h = vh::fnv(form.data(), form.size()); h = mix(h, uint64_t(off)); h = mix(h, uint64_t(lane + 1)); return h; }
};
struct LProg {
  int arch = 2;                     // 2 = a64, 0 = x64
  int K = 0;                        // size of the shrunk vector (a64) / mask (x64) file, 0 = full
  std::vector<char> kinds;          // per value: 'g' gp64, 'v' vector, 'k' mask
  std::vector<std::string> names;
  std::vector<LI> code; int nlabels = 0;
  bool unsat_w = false, unsat_r = false;   // a virtual register at two positions of a written / read list
  int newval(char k, const std::string& n) { kinds.push_back(k); names.push_back(n); return int(kinds.size()) - 1; }
};

static std::string li_str(const LProg& p, const LI& i) {
  if (i.kind == KIND_LABEL) return "L" + std::to_string(i.lbl) + ":";
  if (i.kind == KIND_JMP) return "b L" + std::to_string(i.lbl);
  std::string s = i.form;
  if (i.kind == KIND_BR) return s + " " + (i.ops.empty() ? std::string("") : p.names[size_t(i.ops[0].val)] + ",") + "L" + std::to_string(i.lbl);
  for (size_t k = 0; k < i.ops.size(); k++) {
    s += k ? "," : " ";
    if (int(k) == i.list_first) s += "{";
    s += p.names[size_t(i.ops[k].val)];
    if (i.list_len && int(k) == i.list_first + i.list_len - 1) s += "}";
  }
  if (i.has_mem) s += ",[mem+" + std::to_string(i.off) + "]";
  return s;
}
static std::string prog_str(const LProg& p, size_t from, size_t to) { std::string s; for (size_t k = from; k < to && k < p.code.size(); k++) { if (!s.empty()) s += "; "; s += li_str(p, p.code[k]); } return s; }

// roles from the ISA database: form-class -> roles of its operand groups
static std::map<std::string, std::string> g_roles;
static char role_of(const std::string& cls, size_t group) {
  auto it = g_roles.find(cls);
  if (it == g_roles.end()) { fprintf(stderr, "c05_lists: no ISA-database roles for '%s' (pass --roles, see checks/c05.py)\n", cls.c_str()); exit(2); }
  std::vector<std::string> parts = vh::split(it->second, ',');
  if (group >= parts.size() || parts[group].empty()) { fprintf(stderr, "c05_lists: roles of '%s' have no operand group %zu\n", cls.c_str(), group); exit(2); }
  return parts[group][0];
}

// =========================================================================================================
// REFERENCE evaluation: trace of (instruction, read terms, written terms) along a path script
// =========================================================================================================
struct Step { int k; std::vector<Term> reads; std::vector<Term> outs; };   // reads: R/X operands in order (+ pointer); outs: W/X operands in order
struct RefRun { std::vector<Step> trace; Term mem; bool ok = true; };
static const Term kMemPtr = {0x00004D454D505452ull, 0}, kSel = {0x53454C53454C5345ull, 0}, kMem0 = {0x4D454D4D454D3030ull, 0x1};

static Term narrow(const Term& t, int width) { Term r = t; if (width <= 8) r.hi = 0; return r; }

static void step_terms(const LI& I, const std::vector<Term>& cur, const Term& memtok, Step& st, Term& mem_out, const Term& ptr) {
  std::vector<Term> reads;
  for (const Opd& o : I.ops) if (o.role == 'R' || o.role == 'X') reads.push_back(narrow(cur[size_t(o.val)], o.width));
  st.reads = reads;
  std::vector<Term> fin = reads;
  if (I.has_mem) fin.push_back(ptr);
  if (I.mem_read) fin.push_back(memtok);
  uint64_t id = I.ident();
  size_t pos = 0;
  for (const Opd& o : I.ops) { if (o.role == 'W' || o.role == 'X') st.outs.push_back(narrow(hterm(id, pos, fin), o.width)); pos++; }
  mem_out = memtok;
  if (I.mem_write) { std::vector<Term> f2 = fin; f2.push_back(memtok); mem_out = hterm(id, 0xFF, f2); }
}

static void reference(const LProg& p, const std::vector<int>& script, RefRun& out) {
  std::vector<Term> cur(p.kinds.size());
  for (size_t i = 0; i < cur.size(); i++) cur[i] = Term{0xDEAD000000000000ull + i, 0xDEAD};   // never read before written in a well-formed program
  cur[0] = kMemPtr; cur[1] = kSel;
  out.mem = kMem0;
  std::vector<int> lpos(size_t(p.nlabels), -1);
  for (size_t k = 0; k < p.code.size(); k++) if (p.code[k].kind == KIND_LABEL) lpos[size_t(p.code[k].lbl)] = int(k);
  size_t bi = 0; long steps = 0;
  for (size_t pc = 0; pc < p.code.size(); pc++) {
    if (++steps > 10000) { out.ok = false; return; }
    const LI& I = p.code[pc];
    if (I.kind == KIND_LABEL) continue;
    if (I.kind == KIND_JMP) { pc = size_t(lpos[size_t(I.lbl)]); continue; }
    Step st; st.k = int(pc); Term m2;
    step_terms(I, cur, out.mem, st, m2, cur[0]);
    size_t oi = 0;
    for (const Opd& o : I.ops) if (o.role == 'W' || o.role == 'X') cur[size_t(o.val)] = st.outs[oi++];
    out.mem = m2;
    out.trace.push_back(st);
    if (I.kind == KIND_BR) { int take = bi < script.size() ? script[bi] : 0; bi++; if (take) pc = size_t(lpos[size_t(I.lbl)]); }
  }
}

// =========================================================================================================
// emission
// =========================================================================================================
static const uint64_t kTagBase = 0x100000;

struct Emit {
  BaseCompiler* cc; const LProg& p; bool a64m;
  std::vector<Operand> regs; std::vector<Label> labels;
  Error err = Error::kOk; int err_at = -1;
  Emit(BaseCompiler* c, const LProg& pr) : cc(c), p(pr), a64m(pr.arch == 2) {}
  void E(Error e, int at) { if (e != Error::kOk && err == Error::kOk) { err = e; err_at = at; } }
  Operand vec_opd(int val, int arr, int lane) {
    if (!a64m) return regs[size_t(val)];
    a64::Vec v = regs[size_t(val)].as<a64::Vec>();
    if (lane >= 0) return v.s(uint32_t(lane));
    switch (arr) { case 1: return v.b16(); case 2: return v.d2(); case 3: return v.s2(); case 4: return v.b8(); case 5: return v.h8(); case 9: return v.q(); default: return v.s4(); }
  }
  void build() {
    FuncSignature sig; sig.set_ret(TypeId::kVoid); sig.set_call_conv_id(CallConvId::kCDecl); sig.add_arg(TypeId::kUIntPtr); sig.add_arg(TypeId::kUInt64);
    FuncNode* fn = cc->add_func(sig);
    if (!fn) { E(Error::kOutOfMemory, -1); return; }
    if (a64m) { if (p.K) fn->frame().add_unavailable_regs(RegGroup::kVec, 0xFFFFFFFFu & ~((1u << p.K) - 1u)); }
    else { fn->frame().set_avx512_enabled(); if (p.K) fn->frame().add_unavailable_regs(RegGroup::kMask, 0xFFu & ~(((1u << p.K) - 1u) << 2)); }   // k2.. (pairs start at an even register)
    regs.resize(p.kinds.size());
    for (size_t i = 0; i < p.kinds.size(); i++) {
      const char* nm = p.names[i].c_str();
      if (a64m) { a64::Compiler* c = static_cast<a64::Compiler*>(cc); if (p.kinds[i] == 'g') regs[i] = c->new_gp64("%s", nm); else regs[i] = c->new_vec_q("%s", nm); }
      else { x86::Compiler* c = static_cast<x86::Compiler*>(cc); if (p.kinds[i] == 'g') regs[i] = c->new_gp64("%s", nm); else if (p.kinds[i] == 'v') regs[i] = c->new_zmm("%s", nm); else regs[i] = c->new_kq("%s", nm); }
    }
    fn->set_arg(0, regs[0].as<Reg>()); fn->set_arg(1, regs[1].as<Reg>());
    for (int i = 0; i < p.nlabels; i++) labels.push_back(cc->new_label());
    for (size_t k = 0; k < p.code.size(); k++) {
      const LI& I = p.code[k];
      BaseNode* before = cc->cursor();
      if (I.kind == KIND_LABEL) { E(cc->bind(labels[size_t(I.lbl)]), int(k)); continue; }
      Operand ops[6]; size_t n = 0;
      if (I.kind == KIND_JMP) { ops[n++] = labels[size_t(I.lbl)]; E(cc->emit_op_array(a64m ? uint32_t(a64::Inst::kIdB) : uint32_t(x86::Inst::kIdJmp), ops, n), int(k)); }
      else {
        for (const Opd& o : I.ops) ops[n++] = p.kinds[size_t(o.val)] == 'v' ? vec_opd(o.val, I.arr, I.lane) : regs[size_t(o.val)];
        if (I.has_mem) { if (a64m) ops[n++] = a64::ptr(regs[0].as<a64::Gp>(), int32_t(I.off)); else { x86::Mem m = x86::ptr(regs[0].as<x86::Gp>(), int32_t(I.off)); ops[n++] = m; } }
        if (I.kind == KIND_BR) ops[n++] = labels[size_t(I.lbl)];
        if (!a64m && I.has_mem && I.mem_write) { Operand t = ops[n - 1]; for (size_t j = n - 1; j > 0; j--) ops[j] = ops[j - 1]; ops[0] = t; }   // x86 stores: memory operand first
        E(cc->emit_op_array(I.inst_id, ops, n), int(k));
      }
      // tag the node(s) just added with the IR index
      for (BaseNode* nd = before ? before->next() : cc->first_node(); nd; nd = nd->next()) if (nd->is_inst()) nd->set_user_data_as_uint64(kTagBase + k);
    }
    if (a64m) E(static_cast<a64::Compiler*>(cc)->ret(), -1); else E(static_cast<x86::Compiler*>(cc)->ret(), -1);
    E(cc->end_func(), -1);
  }
};

// =========================================================================================================
// the walk over the allocated node list
// =========================================================================================================
struct CaseInfo { std::string arch, shape, replay, body; };
static bool g_verbose = false;
static bool g_reported = false;
static void violation(const CaseInfo& ci, const std::string& clause, const std::string& form, const std::string& what) {
  if (g_reported) return;
  g_reported = true;
  std::string f = form; size_t dot = f.find('.'); if (dot != std::string::npos) f = f.substr(0, dot);
  std::string key = "ra:" + ci.arch + ":lists:" + clause + ":" + f + "/" + ci.shape;
  vh::ctx().violation(key, what + " :: program {" + ci.body + "}", ci.replay);
  if (g_verbose) fprintf(stderr, "VIOLATION %s: %s\n", key.c_str(), what.c_str());
}

static unsigned reg_file_bytes(const LProg& p, char kind) { return kind == 'v' ? (p.arch == 2 ? 16u : 64u) : 8u; }

// read `n` bytes of a physical register of the simulated machine
static void read_phys(msim::Machine& m, const LProg& p, char kind, uint32_t id, uint8_t* out, unsigned n) {
  if (kind == 'v') memcpy(out, m.vec[id & 31], n);
  else if (kind == 'k') memcpy(out, &m.kreg[id & 7], 8);
  else { uint64_t v = p.arch == 2 ? (id == a64::Gp::kIdSp ? m.gp[31] : m.gp[id & 31]) : m.gp[id & 15]; memcpy(out, &v, 8); }
}
static void write_phys(msim::Machine& m, const LProg& p, char kind, uint32_t id, const Term& t, int width) {
  if (kind == 'v') { uint8_t buf[64]; memset(buf, 0, 64); expand(t, unsigned(width), buf); memcpy(m.vec[id & 31], buf, 64); }   // vector writes zero the rest (a64 / EVEX)
  else if (kind == 'k') m.kreg[id & 7] = t.lo;
  else { if (p.arch == 2) m.gp[id & 31] = t.lo; else m.gp[id & 15] = t.lo; }
}

static void run_one(const LProg& p, const CaseInfo& ci, const std::vector<std::vector<int>>& scripts) {
  vh::Ctx& c = vh::ctx();
  vh::set_case(ci.replay);
  g_reported = false;
  c.n("evaluations")++;
  const bool a64m = p.arch == 2;
  Environment env(a64m ? Arch::kAArch64 : Arch::kX64);
  CodeHolder code; code.init(env);
  x86::Compiler xc; a64::Compiler ac;
  BaseCompiler* cc = a64m ? (BaseCompiler*)&ac : (BaseCompiler*)&xc;
  code.attach(cc);
  cc->add_diagnostic_options(DiagnosticOptions::kRAAnnotate);
  Emit em(cc, p); em.build();
  std::string first_list, all_lists;
  for (const LI& I : p.code) if (I.is_list) { if (first_list.empty()) first_list = I.form; }
  const bool unsat = p.unsat_w || p.unsat_r;
  if (em.err != Error::kOk) {
    if (unsat) { c.n("unsat_reported")++; return; }
    violation(ci, "compile-error", em.err_at >= 0 ? p.code[size_t(em.err_at)].form : first_list, std::string("the Compiler refused '") + (em.err_at >= 0 ? li_str(p, p.code[size_t(em.err_at)]) : std::string("?")) + "': " + DebugUtils::error_as_string(em.err));
    return;
  }
  Error e = cc->run_passes();
  if (g_verbose) { String sb; FormatOptions fo; Formatter::format_node_list(sb, fo, cc); fprintf(stderr, "---- program ----\n%s\n---- run_passes: %s ----\n%s\n", prog_str(p, 0, p.code.size()).c_str(), DebugUtils::error_as_string(e), sb.data()); }
  if (e != Error::kOk) {
    if (unsat) { c.n("unsat_reported")++; return; }
    violation(ci, "compile-error", first_list, std::string("run_passes() failed on a program whose lists can be satisfied: ") + DebugUtils::error_as_string(e));
    return;
  }
  if (p.unsat_w) { violation(ci, "unsat-accepted", first_list, "one virtual register is written at two positions of a register list, run_passes() reported no error"); return; }
  // statistics: did the allocator insert anything?
  bool inserted = false;
  for (BaseNode* n = cc->first_node(); n; n = n->next()) if (n->is_inst() && n->user_data_as_uint64() < kTagBase) { const char* cm = n->inline_comment(); if (cm && cm[0] == '<') inserted = true; }
  if (inserted) c.n("distinct_nontrivial")++;

  std::map<uint32_t, BaseNode*> labels;
  for (BaseNode* n = cc->first_node(); n; n = n->next()) if (n->is_label()) labels[n->as<LabelNode>()->label_id()] = n;

  for (const std::vector<int>& script : scripts) {
    RefRun ref; reference(p, script, ref);
    if (!ref.ok) { fprintf(stderr, "c05_lists: reference step limit\ncase: %s\n", ci.replay.c_str()); exit(2); }
    c.n("traces")++;
    msim::Machine m; m.a64 = a64m; m.is64 = true;
    for (uint32_t i = 0; i < 32; i++) { m.gp[i] = 0xBAD0000000000000ull | (uint64_t(i) << 8); for (int q = 0; q < 8; q++) { uint64_t v = 0xBADBAD0000000000ull | (uint64_t(i) << 16) | uint64_t(q); memcpy(m.vec[i] + 8 * q, &v, 8); } }
    for (uint32_t i = 0; i < 8; i++) m.kreg[i] = 0xBADBAD00000000F0ull | i;
    const uint64_t S0 = 0x7FFF0000ull, RET = 0xDEADBEE0ull;
    if (a64m) { m.gp[0] = kMemPtr.lo; m.gp[1] = kSel.lo; m.gp[30] = RET; m.gp[31] = S0; for (uint64_t a = S0; a < S0 + 64; a++) m.wr8(a, 0x5C); }
    else { m.gp[7] = kMemPtr.lo; m.gp[6] = kSel.lo; m.gp[4] = S0 - 8; for (uint64_t a = S0 - 8; a < S0 + 64; a++) m.wr8(a, 0x5C); m.wr(S0 - 8, RET, 8); }
    uint64_t entry_gp[32]; memcpy(entry_gp, m.gp, sizeof entry_gp);
    uint8_t entry_vec[32][64]; memcpy(entry_vec, m.vec, sizeof entry_vec);
    msim::X86 xs(m); msim::A64 as(m);
    Term memtok = kMem0;
    size_t ti = 0, bi = 0; long steps = 0;
    std::string last_list = first_list;
    bool stop = false;
    for (BaseNode* n = cc->first_node(); n && !stop; ) {
      if (++steps > 20000) { violation(ci, "crash", last_list, "allocated code does not terminate (simulated)"); stop = true; break; }
      if (!n->is_inst()) { n = n->next(); continue; }
      InstNode* in = n->as<InstNode>();
      uint64_t tag = n->user_data_as_uint64();
      if (n->type() == NodeType::kFuncRet) { n = n->next(); continue; }
      if (tag < kTagBase) {
        int r = a64m ? as.step(in) : xs.step(in);
        if (!m.unsupported.empty()) { c.n("undecided")++; c.note("undecided (outside the simulator's vocabulary): " + m.unsupported); stop = true; break; }
        if (!m.fault.empty()) { violation(ci, "crash", last_list, "simulated fault: " + m.fault); stop = true; break; }
        if (r == 1) break;
        if (r == 2) { auto it = labels.find(a64m ? as.jump_label : xs.jump_label); if (it == labels.end()) { violation(ci, "crash", last_list, "jump to an unknown label"); stop = true; break; } n = it->second; continue; }
        n = n->next(); continue;
      }
      // ---- an original instruction ----
      int k = int(tag - kTagBase);
      const LI& I = p.code[size_t(k)];
      if (I.kind == KIND_JMP) { auto it = labels.find(in->op(0).as<Label>().id()); if (it == labels.end()) { violation(ci, "crash", last_list, "jump to an unknown label"); stop = true; break; } n = it->second; continue; }
      if (I.is_list) last_list = I.form;
      if (ti >= ref.trace.size() || ref.trace[ti].k != k) { violation(ci, "wrong-read", last_list, "the allocated code executes '" + li_str(p, I) + "' where the reference executes " + (ti < ref.trace.size() ? "'" + li_str(p, p.code[size_t(ref.trace[ti].k)]) + "'" : std::string("nothing more"))); stop = true; break; }
      const Step& st = ref.trace[ti++];
      // operand positions: register operands first (x86 stores: memory first)
      size_t base = (!a64m && I.has_mem && I.mem_write) ? 1 : 0;
      std::vector<uint32_t> ids;
      bool opd_ok = true;
      for (size_t j = 0; j < I.ops.size(); j++) { const Operand& o = in->op(base + j); if (!o.is_reg() || !o.as<Reg>().is_phys_reg()) { opd_ok = false; break; } ids.push_back(o.as<Reg>().id()); }
      if (!opd_ok) { violation(ci, "wrong-read", I.form, "operand of '" + li_str(p, I) + "' is not a physical register after allocation"); stop = true; break; }
      // (1) consecutive list
      if (I.list_len > 1) {
        std::string lst; bool cons = true;
        for (int j = 0; j < I.list_len; j++) { uint32_t id = ids[size_t(I.list_first + j)]; lst += (j ? "," : "") + std::to_string(id); if (j && id != ((ids[size_t(I.list_first + j - 1)] + 1) & (a64m ? 31u : 7u))) cons = false; }
        if (!a64m && (ids[size_t(I.list_first)] & 1)) cons = false;
        if (!cons) { violation(ci, unsat ? "unsat-accepted" : "not-consecutive", I.form, "'" + li_str(p, I) + "' got the physical registers {" + lst + "}" + (unsat ? " (one virtual register at two list positions and no error reported)" : "")); stop = true; break; }
      }
      // (2) reads
      size_t ri = 0;
      for (size_t j = 0; j < I.ops.size() && !stop; j++) {
        const Opd& o = I.ops[j]; if (o.role != 'R' && o.role != 'X') continue;
        char kind = p.kinds[size_t(o.val)];
        uint8_t got[64], want[64]; unsigned nb = unsigned(o.width);
        read_phys(m, p, kind, ids[j], got, nb); memset(want, 0, 64); expand(st.reads[ri], nb, want);
        if (memcmp(got, want, nb) != 0) {
          uint64_t g0, g1 = 0; memcpy(&g0, got, 8); if (nb > 8) memcpy(&g1, got + 8, 8);
          violation(ci, unsat ? "unsat-accepted" : "wrong-read", last_list, "'" + li_str(p, I) + "' reads operand " + std::to_string(j) + " (" + p.names[size_t(o.val)] + ") from physical register " + std::to_string(ids[j]) + " which holds " + tstr(Term{g0, g1}) + ", reference value " + tstr(st.reads[ri]));
          stop = true;
        }
        ri++;
      }
      if (stop) break;
      if (I.has_mem) {
        const Operand& mo = in->op(base ? 0 : I.ops.size());
        uint64_t ptr = 0;
        if (mo.is_mem() && mo.as<BaseMem>().has_base_reg()) { uint32_t bid = mo.as<BaseMem>().base_id(); ptr = a64m ? m.gp[bid & 31] : m.gp[bid & 15]; }
        if (ptr != kMemPtr.lo) { violation(ci, "wrong-read", last_list, "'" + li_str(p, I) + "' addresses memory through a register that does not hold the buffer pointer"); stop = true; break; }
      }
      // outputs
      size_t oi = 0;
      for (size_t j = 0; j < I.ops.size(); j++) { const Opd& o = I.ops[j]; if (o.role == 'W' || o.role == 'X') write_phys(m, p, p.kinds[size_t(o.val)], ids[j], st.outs[oi++], o.width); }
      if (I.mem_write) { std::vector<Term> fin = st.reads; fin.push_back(kMemPtr); if (I.mem_read) fin.push_back(memtok); fin.push_back(memtok); memtok = hterm(I.ident(), 0xFF, fin); }
      if (I.kind == KIND_BR) {
        int take = bi < script.size() ? script[bi] : 0; bi++;
        if (take) { auto it = labels.find(in->op(in->op_count() - 1).as<Label>().id()); if (it == labels.end()) { violation(ci, "crash", last_list, "branch to an unknown label"); stop = true; break; } n = it->second; continue; }
      }
      n = n->next();
    }
    if (stop) { if (!m.unsupported.empty()) continue; break; }
    if (ti != ref.trace.size()) { violation(ci, "wrong-result", last_list, "the allocated code returned after " + std::to_string(ti) + " of " + std::to_string(ref.trace.size()) + " instructions of the reference path"); break; }
    if (memtok != ref.mem) { violation(ci, "wrong-result", last_list, "the stores of the allocated code do not produce the reference memory"); break; }
    // ABI: callee-saved registers and the stack pointer
    if (a64m) {
      if (m.gp[31] != S0) { violation(ci, "crash", last_list, "stack pointer not restored on return"); break; }
      bool bad = false;
      for (int r = 19; r <= 29 && !bad; r++) if (m.gp[r] != entry_gp[r]) { violation(ci, "crash", last_list, "callee-saved register x" + std::to_string(r) + " not preserved"); bad = true; }
      for (int r = 8; r <= 15 && !bad; r++) if (memcmp(m.vec[r], entry_vec[r], 8) != 0) { violation(ci, "crash", last_list, "callee-saved register d" + std::to_string(r) + " (low half of v" + std::to_string(r) + ") not preserved"); bad = true; }
      if (bad) break;
    } else {
      if (m.gp[4] != S0) { violation(ci, "crash", last_list, "stack pointer not restored on return"); break; }
      bool bad = false;
      for (int r : {3, 5, 12, 13, 14, 15}) if (!bad && m.gp[r] != entry_gp[r]) { violation(ci, "crash", last_list, "callee-saved register id " + std::to_string(r) + " not preserved"); bad = true; }
      if (bad) break;
    }
  }
  if (unsat && !g_reported) c.n("unsat_compiled_correctly")++;
}

// =========================================================================================================
// alphabet of list forms
// =========================================================================================================
struct Form { const char* name; const char* cls; int arch; uint32_t inst; int n; int arr; int lane; int width; bool table; bool load; bool store; };
static const Form kForms[] = {
  // AArch64 loads (written lists)
  {"ld1x1.4s", "ld1", 2, a64::Inst::kIdLd1_v, 1, 0, -1, 16, false, true, false},
  {"ld1x2.4s", "ld1", 2, a64::Inst::kIdLd1_v, 2, 0, -1, 16, false, true, false},
  {"ld1x3.4s", "ld1", 2, a64::Inst::kIdLd1_v, 3, 0, -1, 16, false, true, false},
  {"ld1x4.4s", "ld1", 2, a64::Inst::kIdLd1_v, 4, 0, -1, 16, false, true, false},
  {"ld1x2.8b", "ld1", 2, a64::Inst::kIdLd1_v, 2, 4, -1, 8, false, true, false},
  {"ld2.4s", "ld2", 2, a64::Inst::kIdLd2_v, 2, 0, -1, 16, false, true, false},
  {"ld2.2s", "ld2", 2, a64::Inst::kIdLd2_v, 2, 3, -1, 8, false, true, false},
  {"ld2.16b", "ld2", 2, a64::Inst::kIdLd2_v, 2, 1, -1, 16, false, true, false},
  {"ld3.4s", "ld3", 2, a64::Inst::kIdLd3_v, 3, 0, -1, 16, false, true, false},
  {"ld3.8h", "ld3", 2, a64::Inst::kIdLd3_v, 3, 5, -1, 16, false, true, false},
  {"ld4.4s", "ld4", 2, a64::Inst::kIdLd4_v, 4, 0, -1, 16, false, true, false},
  {"ld4.2d", "ld4", 2, a64::Inst::kIdLd4_v, 4, 2, -1, 16, false, true, false},
  {"ld2r.4s", "ld2r", 2, a64::Inst::kIdLd2r_v, 2, 0, -1, 16, false, true, false},
  {"ld4r.4s", "ld4r", 2, a64::Inst::kIdLd4r_v, 4, 0, -1, 16, false, true, false},
  {"ld2lane.s", "ld2lane", 2, a64::Inst::kIdLd2_v, 2, 0, 1, 16, false, true, false},
  {"ld3lane.s", "ld3lane", 2, a64::Inst::kIdLd3_v, 3, 0, 2, 16, false, true, false},
  // AArch64 stores (read lists)
  {"st1x1.4s", "st1", 2, a64::Inst::kIdSt1_v, 1, 0, -1, 16, false, false, true},
  {"st1x2.4s", "st1", 2, a64::Inst::kIdSt1_v, 2, 0, -1, 16, false, false, true},
  {"st1x3.4s", "st1", 2, a64::Inst::kIdSt1_v, 3, 0, -1, 16, false, false, true},
  {"st1x4.4s", "st1", 2, a64::Inst::kIdSt1_v, 4, 0, -1, 16, false, false, true},
  {"st2.4s", "st2", 2, a64::Inst::kIdSt2_v, 2, 0, -1, 16, false, false, true},
  {"st2.2s", "st2", 2, a64::Inst::kIdSt2_v, 2, 3, -1, 8, false, false, true},
  {"st3.4s", "st3", 2, a64::Inst::kIdSt3_v, 3, 0, -1, 16, false, false, true},
  {"st3.16b", "st3", 2, a64::Inst::kIdSt3_v, 3, 1, -1, 16, false, false, true},
  {"st4.4s", "st4", 2, a64::Inst::kIdSt4_v, 4, 0, -1, 16, false, false, true},
  {"st4.2d", "st4", 2, a64::Inst::kIdSt4_v, 4, 2, -1, 16, false, false, true},
  {"st2lane.s", "st2lane", 2, a64::Inst::kIdSt2_v, 2, 0, 1, 16, false, false, true},
  // AArch64 table lookups (read lists + destination + index)
  {"tbl1", "tbl", 2, a64::Inst::kIdTbl_v, 1, 1, -1, 16, true, false, false},
  {"tbl2", "tbl", 2, a64::Inst::kIdTbl_v, 2, 1, -1, 16, true, false, false},
  {"tbl3", "tbl", 2, a64::Inst::kIdTbl_v, 3, 1, -1, 16, true, false, false},
  {"tbl4", "tbl", 2, a64::Inst::kIdTbl_v, 4, 1, -1, 16, true, false, false},
  {"tbx1", "tbx", 2, a64::Inst::kIdTbx_v, 1, 1, -1, 16, true, false, false},
  {"tbx2", "tbx", 2, a64::Inst::kIdTbx_v, 2, 1, -1, 16, true, false, false},
  {"tbx3", "tbx", 2, a64::Inst::kIdTbx_v, 3, 1, -1, 16, true, false, false},
  {"tbx4", "tbx", 2, a64::Inst::kIdTbx_v, 4, 1, -1, 16, true, false, false},
  // x86-64 mask pairs
  {"vp2intersectd", "vp2intersectd", 0, x86::Inst::kIdVp2intersectd, 2, 0, -1, 8, true, false, false},
  {"vp2intersectq", "vp2intersectq", 0, x86::Inst::kIdVp2intersectq, 2, 0, -1, 8, true, false, false},
};
static const int kFormCount = int(sizeof(kForms) / sizeof(kForms[0]));
static int form_by_name(const std::string& n) { for (int i = 0; i < kFormCount; i++) if (n == kForms[i].name) return i; return -1; }

struct Spec { int form; std::vector<int> sel; int d = -1, m = -1; };     // sel: indexes of the list members; d, m: destination / index (tbl, tbx) or the two vector sources (vp2intersect)
struct Desc { int arch = 2, K = 0, nv = 5, shape = 0; std::vector<Spec> insts; };
static const char* const kShapes[] = {"straight", "diamond", "loop"};

static std::string desc_str(const Desc& d) {
  std::string s = std::string("arch=") + (d.arch == 2 ? "a64" : "x64") + " K=" + std::to_string(d.K) + " nv=" + std::to_string(d.nv) + " shape=" + kShapes[d.shape] + " insts=";
  for (size_t i = 0; i < d.insts.size(); i++) {
    const Spec& sp = d.insts[i];
    s += (i ? "|" : "") + std::string(kForms[sp.form].name) + ":";
    for (size_t j = 0; j < sp.sel.size(); j++) s += (j ? "," : "") + std::to_string(sp.sel[j]);
    if (kForms[sp.form].table) s += ":" + std::to_string(sp.d) + ":" + std::to_string(sp.m);
  }
  return s;
}
static bool parse_desc(const std::string& text, Desc& d) {
  for (auto& line : vh::split(text, '\n')) {
    if (line.rfind("arch=", 0) != 0) continue;
    char ar[16], sh[32], in[2048];
    if (sscanf(line.c_str(), "arch=%15s K=%d nv=%d shape=%31s insts=%2047s", ar, &d.K, &d.nv, sh, in) != 5) return false;
    d.arch = !strcmp(ar, "a64") ? 2 : 0;
    d.shape = -1; for (int i = 0; i < 3; i++) if (!strcmp(sh, kShapes[i])) d.shape = i;
    if (d.shape < 0) return false;
    for (auto& is : vh::split(in, '|')) {
      auto parts = vh::split(is, ':'); if (parts.size() < 2) return false;
      Spec sp; sp.form = form_by_name(parts[0]); if (sp.form < 0) return false;
      for (auto& x : vh::split(parts[1], ',')) sp.sel.push_back(atoi(x.c_str()));
      if (kForms[sp.form].table) { if (parts.size() != 4) return false; sp.d = atoi(parts[2].c_str()); sp.m = atoi(parts[3].c_str()); }
      d.insts.push_back(sp);
    }
    return true;
  }
  return false;
}

// ---- program construction ----
static LI plain(const char* form, uint32_t inst, std::vector<Opd> ops, bool has_mem, int64_t off, bool rd, bool wr, int arr = 9) {
  LI i; i.form = form; i.inst_id = inst; i.ops = ops; i.has_mem = has_mem; i.off = off; i.mem_read = rd; i.mem_write = wr; i.arr = arr; return i;
}

static bool build(const Desc& d, LProg& p, size_t& body_from, size_t& body_to) {
  p.arch = d.arch; p.K = d.K;
  const bool a64m = d.arch == 2;
  p.newval('g', "mem"); p.newval('g', "sel");
  std::vector<int> vv, kv;
  if (a64m) for (int i = 0; i < d.nv; i++) vv.push_back(p.newval('v', "v" + std::to_string(i)));
  else { for (int i = 0; i < 2; i++) vv.push_back(p.newval('v', "z" + std::to_string(i))); for (int i = 0; i < d.nv; i++) kv.push_back(p.newval('k', "k" + std::to_string(i))); }
  const int VW = a64m ? 16 : 64;
  // init: every value is loaded from the buffer (distinct terms) and stays live until the final stores
  for (size_t i = 0; i < vv.size(); i++) p.code.push_back(plain(a64m ? "ldr" : "vmovdqu64.ld", a64m ? uint32_t(a64::Inst::kIdLdr_v) : uint32_t(x86::Inst::kIdVmovdqu64), {Opd{vv[i], 'W', VW}}, true, int64_t(VW * i), true, false));
  for (size_t i = 0; i < kv.size(); i++) p.code.push_back(plain("kmovq.ld", x86::Inst::kIdKmovq, {Opd{kv[i], 'W', 8}}, true, 256 + 8 * int64_t(i), true, false));
  body_from = p.code.size();
  auto mk = [&](const Spec& sp, LI& I) -> bool {
    const Form& f = kForms[sp.form];
    if (f.arch != d.arch || int(sp.sel.size()) != f.n) return false;
    const std::vector<int>& pool = a64m ? vv : kv;
    I = LI(); I.form = f.name; I.inst_id = f.inst; I.arr = f.arr; I.lane = f.lane; I.is_list = true;
    char lrole = role_of(f.cls, f.table && a64m ? 1 : 0);
    if (a64m && f.table) {
      if (sp.d < 0 || sp.d >= int(vv.size()) || sp.m < 0 || sp.m >= int(vv.size())) return false;
      I.ops.push_back(Opd{vv[size_t(sp.d)], role_of(f.cls, 0), 16});
    }
    I.list_first = int(I.ops.size()); I.list_len = f.n;
    for (int x : sp.sel) { if (x < 0 || x >= int(pool.size())) return false; I.ops.push_back(Opd{pool[size_t(x)], lrole, f.width}); }
    if (a64m && f.table) I.ops.push_back(Opd{vv[size_t(sp.m)], role_of(f.cls, 2), 16});
    if (!a64m) {   // vp2intersect k, k+1, zmm, zmm : the two masks share the role of the first operand group, then the sources
      if (sp.d < 0 || sp.d >= 2 || sp.m < 0 || sp.m >= 2) return false;
      I.ops[1].role = role_of(f.cls, 1);
      I.ops.push_back(Opd{vv[size_t(sp.d)], role_of(f.cls, 2), 64}); I.ops.push_back(Opd{vv[size_t(sp.m)], role_of(f.cls, 3), 64});
    }
    if (f.load || f.store) { I.has_mem = true; I.off = 0; I.mem_read = f.load; I.mem_write = f.store; }
    // one virtual register at two list positions cannot be satisfied
    for (size_t x = 0; x < sp.sel.size(); x++) for (size_t y = x + 1; y < sp.sel.size(); y++) if (sp.sel[x] == sp.sel[y]) { if (lrole == 'R') p.unsat_r = true; else p.unsat_w = true; }
    return true;
  };
  std::vector<LI> li(d.insts.size());
  for (size_t i = 0; i < d.insts.size(); i++) if (!mk(d.insts[i], li[i])) return false;
  auto br = [&](bool nz, int lbl) { LI b; b.kind = KIND_BR; b.lbl = lbl; b.br_nz = nz; b.ops.push_back(Opd{1, 'R', 8});
    if (a64m) { b.form = nz ? "cbnz" : "cbz"; b.inst_id = nz ? a64::Inst::kIdCbnz : a64::Inst::kIdCbz; p.code.push_back(b); }
    else { LI t = plain("test", x86::Inst::kIdTest, {Opd{1, 'R', 8}, Opd{1, 'R', 8}}, false, 0, false, false); p.code.push_back(t); b.ops.clear(); b.form = nz ? "jnz" : "jz"; b.inst_id = nz ? x86::Inst::kIdJnz : x86::Inst::kIdJz; p.code.push_back(b); } };
  auto lab = [&](int l) { LI x; x.kind = KIND_LABEL; x.lbl = l; p.code.push_back(x); };
  auto jmp = [&](int l) { LI x; x.kind = KIND_JMP; x.lbl = l; x.form = "b"; p.code.push_back(x); };
  size_t n = li.size();
  if (d.shape == 0) { for (auto& x : li) p.code.push_back(x); }
  else if (d.shape == 1) {
    int le = p.nlabels++, lj = p.nlabels++;
    br(false, le); p.code.push_back(li[0]); jmp(lj); lab(le); if (n >= 2) p.code.push_back(li[1]); lab(lj); if (n >= 3) p.code.push_back(li[2]);
  } else {
    int lh = p.nlabels++;
    lab(lh); p.code.push_back(li[0]); if (n >= 2) p.code.push_back(li[1]); br(true, lh); if (n >= 3) p.code.push_back(li[2]);
  }
  body_to = p.code.size();
  // every value is consumed (stored) at the end
  for (size_t i = 0; i < vv.size(); i++) p.code.push_back(plain(a64m ? "str" : "vmovdqu64.st", a64m ? uint32_t(a64::Inst::kIdStr_v) : uint32_t(x86::Inst::kIdVmovdqu64), {Opd{vv[i], 'R', VW}}, true, 1024 + int64_t(VW * i), false, true));
  for (size_t i = 0; i < kv.size(); i++) p.code.push_back(plain("kmovq.st", x86::Inst::kIdKmovq, {Opd{kv[i], 'R', 8}}, true, 2048 + 8 * int64_t(i), false, true));
  return true;
}

static std::vector<std::vector<int>> scripts_for(int shape, bool thorough) {
  if (shape == 0) return {{}};
  if (shape == 1) return {{0}, {1}};
  if (thorough) return {{0}, {1, 0}, {1, 1, 0}};
  return {{0}, {1, 0}};
}

static long long g_idx = 0; static bool g_stop = false, g_dry = false;
static void run_desc(const Desc& d) {
  vh::Ctx& c = vh::ctx();
  if (g_stop) return;
  if (g_dry) { g_idx++; return; }
  if (!c.replaying() && !c.mine(g_idx++)) return;
  if ((c.n("evaluations") & 255) == 0 && c.out_of_time()) { g_stop = true; return; }
  LProg p; size_t bf = 0, bt = 0;
  if (!build(d, p, bf, bt)) { fprintf(stderr, "c05_lists: cannot build %s\n", desc_str(d).c_str()); exit(2); }
  CaseInfo ci; ci.arch = d.arch == 2 ? "a64" : "x64"; ci.shape = kShapes[d.shape];
  ci.replay = "harness=c05_lists\n" + desc_str(d) + "\n";
  ci.body = desc_str(d) + " :: " + prog_str(p, bf, bt);
  if (p.unsat_w || p.unsat_r) c.n("programs_unsatisfiable")++;
  c.n(d.arch == 2 ? "programs_a64" : "programs_x64")++;
  c.n(("programs_" + std::to_string(d.insts.size()) + "_list_insts").c_str())++;
  run_one(p, ci, scripts_for(d.shape, c.thorough()));
  c.sample(ci.body, 10);
}

// all tuples of length L over [0, M)
static void tuples(int M, int L, std::vector<std::vector<int>>& out) {
  std::vector<int> t(size_t(L), 0);
  for (;;) { out.push_back(t); int i = L - 1; while (i >= 0 && ++t[size_t(i)] == M) { t[size_t(i)] = 0; i--; } if (i < 0) break; }
}
// the selection patterns used when several list instructions are combined
static std::vector<std::vector<int>> patterns(int L, int M, bool more) {
  std::vector<std::vector<int>> r; std::vector<int> id, rev, sh, rot, sw;
  for (int i = 0; i < L; i++) { id.push_back(i % M); rev.push_back((L - 1 - i) % M); sh.push_back((i + 1) % M); rot.push_back((i + 1) % L); sw.push_back(i); }
  if (L >= 2) std::swap(sw[0], sw[1]);
  r.push_back(id); r.push_back(rev); r.push_back(sh); if (L >= 2) { r.push_back(rot); r.push_back(sw); }
  if (more) { std::vector<int> hi; for (int i = 0; i < L; i++) hi.push_back((M - L + i + M) % M); r.push_back(hi); if (L >= 2) { std::vector<int> dup = id; dup[size_t(L - 1)] = dup[0]; r.push_back(dup); } }
  std::vector<std::vector<int>> u; for (auto& x : r) { bool s = false; for (auto& y : u) if (x == y) s = true; if (!s) u.push_back(x); }
  return u;
}

int main(int argc, char** argv) {
  vh::parse_args(argc, argv);
  vh::Ctx& c = vh::ctx();
  for (auto& kv : vh::split(c.opt("roles"), ';')) { size_t eq = kv.find('='); if (eq != std::string::npos) g_roles[kv.substr(0, eq)] = kv.substr(eq + 1); }
  if (g_roles.empty()) { fprintf(stderr, "c05_lists: --roles \"<class>=<R|W|X>,...;...\" (from the ISA database, see checks/c05.py) is required\n"); return 2; }
  if (c.replaying()) {
    Desc d; if (!parse_desc(c.replay_text, d)) { fprintf(stderr, "c05_lists: cannot parse replay file\n"); return 2; }
    g_verbose = c.opt("quiet") != "1";
    run_desc(d);
    return vh::finish();
  }
  g_dry = c.opt("dry") == "1";
  const bool T = c.thorough();
  struct Cfg { int K, nv; };
  // ---------------- AArch64 ----------------
  std::vector<Cfg> acfg = {{0, 6}, {6, 5}, {6, 8}, {5, 5}};
  if (T) { acfg.push_back({8, 7}); acfg.push_back({7, 9}); acfg.push_back({0, 34}); }
  std::vector<int> aforms, xforms; for (int i = 0; i < kFormCount; i++) (kForms[i].arch == 2 ? aforms : xforms).push_back(i);
  // (A) one list instruction, EVERY tuple of list members over the first 5 values (incl. the same register twice), straight line;
  //     tbl/tbx: destination in {first member, last value} x index in {last member, last value}
  for (const Cfg& cf : acfg) for (int f : aforms) {
    int M = std::min(cf.nv, 5); std::vector<std::vector<int>> ts; tuples(M, kForms[f].n, ts);
    for (auto& t : ts) {
      int nd = kForms[f].table ? 2 : 1, nm = nd;
      for (int di = 0; di < nd; di++) for (int mi = 0; mi < nm; mi++) {
        Desc d; d.arch = 2; d.K = cf.K; d.nv = cf.nv; d.shape = 0;
        Spec sp; sp.form = f; sp.sel = t; if (kForms[f].table) { sp.d = di ? cf.nv - 1 : t[0]; sp.m = mi ? cf.nv - 1 : t.back(); }
        d.insts = {sp}; run_desc(d);
      }
    }
  }
  // (B) one list instruction inside a diamond arm / a loop body, selection patterns
  for (const Cfg& cf : acfg) for (int f : aforms) for (int sh = 1; sh <= 2; sh++) for (auto& t : patterns(kForms[f].n, std::min(cf.nv, 5), true)) {
    Desc d; d.arch = 2; d.K = cf.K; d.nv = cf.nv; d.shape = sh;
    Spec sp; sp.form = f; sp.sel = t; if (kForms[f].table) { sp.d = t[0]; sp.m = cf.nv - 1; }
    d.insts = {sp}; run_desc(d);
  }
  // (C) two (thorough: also three) list instructions: overlapping / conflicting lists across instructions, all shapes
  std::vector<int> f2;
  for (const char* nm : {"ld2.4s", "ld3.4s", "ld4.4s", "st2.4s", "st3.4s", "st4.4s", "tbl3", "tbx2", "ld2lane.s", "ld1x3.4s", "st1x4.4s", "tbl4"}) f2.push_back(form_by_name(nm));
  if (T) for (const char* nm : {"tbx3", "ld2r.4s", "st2.2s", "ld2.2s", "ld3lane.s", "st2lane.s", "tbl2", "tbx4"}) f2.push_back(form_by_name(nm));
  for (const Cfg& cf : acfg) {
    if (cf.nv > 8) continue;
    int M = std::min(cf.nv, 5);
    std::vector<Spec> specs;
    for (int f : f2) for (auto& t : patterns(kForms[f].n, M, T)) { Spec sp; sp.form = f; sp.sel = t; if (kForms[f].table) { sp.d = t[0]; sp.m = cf.nv - 1; } specs.push_back(sp); }
    for (int sh = 0; sh < 3; sh++) for (auto& a : specs) for (auto& b : specs) { Desc d; d.arch = 2; d.K = cf.K; d.nv = cf.nv; d.shape = sh; d.insts = {a, b}; run_desc(d); }
    if (T && ((cf.K == 6 && cf.nv == 5) || (cf.K == 0 && cf.nv == 6) || (cf.K == 6 && cf.nv == 8))) {
      std::vector<Spec> s3; for (auto& s : specs) { const char* nm = kForms[s.form].name; if (!strcmp(nm, "ld2.4s") || !strcmp(nm, "st3.4s") || !strcmp(nm, "ld4.4s") || !strcmp(nm, "tbl3") || !strcmp(nm, "tbx2")) s3.push_back(s); }
      for (int sh = 0; sh < 3; sh++) for (auto& a : s3) for (auto& b : s3) for (auto& e : s3) { Desc d; d.arch = 2; d.K = cf.K; d.nv = cf.nv; d.shape = sh; d.insts = {a, b, e}; run_desc(d); }
    }
  }
  // ---------------- x86-64: vp2intersectd/q mask pairs ----------------
  std::vector<Cfg> xcfg = {{0, 3}, {0, 8}, {4, 3}, {4, 6}};
  for (const Cfg& cf : xcfg) for (int f : xforms) {
    int M = std::min(cf.nv, 4); std::vector<std::vector<int>> ts; tuples(M, 2, ts);
    for (int sh = 0; sh < 3; sh++) for (auto& t : ts) for (int src = 0; src < 2; src++) { Desc d; d.arch = 0; d.K = cf.K; d.nv = cf.nv; d.shape = sh; Spec sp; sp.form = f; sp.sel = t; sp.d = 0; sp.m = src ? 0 : 1; d.insts = {sp}; run_desc(d); }
    // two / three pair instructions: overlapping pairs (a mask that is the first member of one pair and the second of another)
    std::vector<std::vector<int>> ps; for (auto& t : ts) if (t[0] != t[1] && t[0] < 3 && t[1] < 3) ps.push_back(t);
    for (int sh = 0; sh < 3; sh++) for (auto& a : ps) for (auto& b : ps) {
      Desc d; d.arch = 0; d.K = cf.K; d.nv = cf.nv; d.shape = sh; Spec s1, s2; s1.form = s2.form = f; s1.sel = a; s2.sel = b; s1.d = s2.d = 0; s1.m = s2.m = 1; d.insts = {s1, s2}; run_desc(d);
      if (T) for (auto& e : ps) { Desc d3 = d; Spec s3 = s1; s3.sel = e; d3.insts.push_back(s3); run_desc(d3); }
    }
  }
  if (g_dry) { printf("programs in this tier: %lld\n", g_idx); return 0; }
  c.n("states") = c.n("evaluations");
  c.n("transitions") = c.n("traces");
  c.strs["lists_bound"] = T ? "lists leg: AArch64 vector file {full, 5, 6, 7, 8} x values {5..9, 34}; one list instruction: every member tuple over the first 5 values x all 35 forms (tbl/tbx: destination {member, other} x index {member, other}); two list instructions: 20 forms x 7 selection patterns, squared, x 3 shapes; three list instructions: 5 forms x 7 patterns, cubed, x 3 shapes x 3 configurations; x86-64 mask file {full, 4} x masks {3,6,8}, 1..3 vp2intersectd/q (every pair tuple incl. the same mask twice)"
                            : "lists leg: AArch64 vector file {full, 5, 6} x values {5,6,8}; one list instruction: every member tuple over the first 5 values x all 35 forms (straight) + selection patterns in diamond/loop; two list instructions: 12 forms x 5 selection patterns, squared, x 3 shapes; x86-64 mask file {full, 4} x masks {3,6,8}, 1..2 vp2intersectd/q (every pair tuple incl. the same mask twice)";
  c.strs["lists_rule"] = "register-list programs = arch{AArch64, x86-64} x register file x number of values x shape{straight, diamond, loop} x 1..3 list instructions (ld1..ld4, ld2r/ld4r, lane forms, st1..st4, tbl/tbx 1..4, vp2intersectd/q) x member tuples "
                         "(incl. one register twice, reversed/rotated/overlapping lists, a member that is also destination or index); oracle = uninterpreted-term simulation of the allocated node list against the IR (roles from the ISA database): "
                         "lists consecutive, every original instruction reads the reference terms, final memory equal, callee-saved registers preserved, unsatisfiable lists reported as errors";
  return vh::finish();
}
