// C08 - Builder/Compiler serialisation is byte-identical to direct assembling.
//
// A history is a list of ops.  Every op is ONE call on a BaseEmitter* (instruction with options / extra register /
// inline comment, label ops, align, data, constant pool, comment, section switch) or ONE node-list edit on a
// BaseBuilder* (set_cursor, remove_node, remove_nodes, add_after, add_before, add_node of a removed or fresh node).
// For every history the harness builds
//   * X  = x86::Builder / a64::Builder and X' = x86::Compiler / a64::Compiler (physical registers only, no FuncNode),
//          issues the history, calls finalize();
//   * R_lit = an Assembler on a fresh holder that receives the same emitter calls in the same order (histories
//          without edit ops);
//   * R_lin = an Assembler on a fresh holder that receives the harness's own node list (a std::vector that mirrors
//          the documented meaning of every op: "emit inserts after the cursor", "section() moves the cursor to the end
//          of that section or appends the section", "remove_node moves the cursor to the previous node", ...),
//          i.e. "the edited sequence";
// and compares: the first error (call or finalize), every section's bytes/size, every label's bound state / section /
// offset, the relocation entries, unresolved_fixup_count.  Both sides are compared only up to the first error.
#include "xplor.h"
#include <asmjit/core.h>
#include <asmjit/x86.h>
#include <asmjit/a64.h>
#include <memory>
#include <sys/wait.h>
#include <fcntl.h>

using namespace asmjit;

// every case allocates and frees a few fresh 64 KiB arenas: a small quarantine keeps the allocator from unmapping and
// re-mapping them all the time (use-after-free inside one case is still caught, a case frees < 1 MiB)
extern "C" const char* __asan_default_options() { return "quarantine_size_mb=8"; }

enum { AX64 = 0, AX86 = 1, AA64 = 2 };
static const char* arch_name(int a) { return a == AX64 ? "x64" : a == AX86 ? "x86" : "a64"; }
static const uint32_t kInv = Globals::kInvalidId;
static const char* errname(Error e) { return DebugUtils::error_as_string(e); }

// ---------------------------------------------------------------------------------------------------------
// prefix state (what add_inst_options / set_extra_reg / set_inline_comment leave for the next instruction)
struct Pfx {
  uint32_t opts = 0; int extra = 0; int comment = 0;
  void merge(const Pfx& o) { opts |= o.opts; if (o.extra) extra = o.extra; if (o.comment) comment = o.comment; }
};
static const char* kComments[] = {nullptr, "c-one", "a longer inline comment ; with [punctuation] and some length to it"};
static Reg extra_reg_of(int arch, int which) {
  if (arch == AA64) return a64::x5;
  switch (which) { case 1: return x86::k1; case 2: return x86::k2; default: return arch == AX64 ? Reg(x86::rcx) : Reg(x86::ecx); }
}
static void apply_pfx(BaseEmitter* e, int arch, const Pfx& p) {
  if (p.opts) e->add_inst_options(InstOptions(p.opts));
  if (p.extra) e->set_extra_reg(extra_reg_of(arch, p.extra));
  if (p.comment) e->set_inline_comment(kComments[p.comment]);
}

// ---------------------------------------------------------------------------------------------------------
// instruction instantiations
struct InstDef { std::string name; int nops; Pfx pfx; std::function<Error(BaseEmitter*, const Label*)> fn; bool small; };
static std::vector<InstDef> g_inst[3];
static size_t g_inst_late[3];   // instructions from this index on were added later: their ops sit at the end of the alphabet (stable op indices)

#define OPT(x) uint32_t(InstOptions::x)
#define I(NAME, NOPS, OPTS, EXTRA, CMT, SMALL, ...) \
  T.push_back(InstDef{NAME, NOPS, Pfx{uint32_t(OPTS), EXTRA, CMT}, [=](BaseEmitter* e, const Label* L) -> Error { (void)L; return e->emit(__VA_ARGS__); }, SMALL})

static void build_x86(int arch) {
  using namespace x86;
  bool is64 = arch == AX64;
  Gp zax = is64 ? Gp(rax) : Gp(eax), zbx = is64 ? Gp(rbx) : Gp(ebx), zsi = is64 ? Gp(rsi) : Gp(esi), zdi = is64 ? Gp(rdi) : Gp(edi);
  auto& T = g_inst[arch];
  // 0 operands
  I("ret", 0, 0, 0, 0, true, Inst::kIdRet);
  I("nop ;comment", 0, 0, 0, 1, false, Inst::kIdNop);
  // 1 operand
  I("inc ecx", 1, 0, 0, 0, false, Inst::kIdInc, ecx);
  I("lock inc dword[zbx]", 1, OPT(kX86_Lock), 0, 0, true, Inst::kIdInc, dword_ptr(zbx));
  I("jmp L0", 1, 0, 0, 0, true, Inst::kIdJmp, L[0]);
  I("jmp L1", 1, 0, 0, 0, false, Inst::kIdJmp, L[1]);
  I("jz L1", 1, 0, 0, 0, true, Inst::kIdJz, L[1]);
  I("short jmp L0", 1, OPT(kShortForm), 0, 0, false, Inst::kIdJmp, L[0]);
  I("long jz L0", 1, OPT(kLongForm), 0, 0, false, Inst::kIdJz, L[0]);
  I("jmp L2", 1, 0, 0, 0, true, Inst::kIdJmp, L[2]);
  I("call L1", 1, 0, 0, 2, false, Inst::kIdCall, L[1]);
  I("taken jnz L0", 1, OPT(kTaken), 0, 0, false, Inst::kIdJnz, L[0]);
  I("jmp abs 0x12345678", 1, 0, 0, 0, false, Inst::kIdJmp, Imm(0x12345678));
  // 2 operands
  I("jecxz ecx,L1", 2, 0, 0, 0, false, Inst::kIdJecxz, ecx, L[1]);
  I("mov eax,ecx", 2, 0, 0, 0, false, Inst::kIdMov, eax, ecx);
  I("mov eax,ecx {modmr}", 2, OPT(kX86_ModMR), 0, 0, false, Inst::kIdMov, eax, ecx);
  I("mov eax,ecx {modrm}", 2, OPT(kX86_ModRM), 0, 0, false, Inst::kIdMov, eax, ecx);
  I("mov ecx,[L1+4]", 2, 0, 0, 0, true, Inst::kIdMov, ecx, dword_ptr(L[1], 4));
  I("lea zax,[L0]", 2, 0, 0, 0, false, Inst::kIdLea, zax, ptr(L[0]));
  I("mov eax,0x12345678", 2, 0, 0, 0, false, Inst::kIdMov, eax, 0x12345678);
  I("long add ecx,1", 2, OPT(kLongForm), 0, 0, false, Inst::kIdAdd, ecx, 1);
  I("xacquire lock add [zbx],eax", 2, OPT(kX86_XAcquire) | OPT(kX86_Lock), 0, 0, false, Inst::kIdAdd, dword_ptr(zbx), eax);
  I("xrelease lock sub [zbx],eax", 2, OPT(kX86_XRelease) | OPT(kX86_Lock), 0, 0, false, Inst::kIdSub, dword_ptr(zbx), eax);
  I("rep movs byte", 2, OPT(kX86_Rep), 3, 0, true, Inst::kIdMovs, byte_ptr(zdi), byte_ptr(zsi));
  I("repne scas al", 2, OPT(kX86_Repne), 3, 0, false, Inst::kIdScas, al, byte_ptr(zdi));
  if (is64) {
    I("rex mov al,cl", 2, OPT(kX86_Rex), 0, 0, false, Inst::kIdMov, al, cl);
    I("mov rax,imm64", 2, 0, 0, 0, false, Inst::kIdMov, rax, uint64_t(0x1122334455667788ull));
  } else {
    I("mov ah,cl", 2, 0, 0, 0, false, Inst::kIdMov, ah, cl);
    I("mov eax,[0x1000]", 2, 0, 0, 0, false, Inst::kIdMov, eax, dword_ptr(uint64_t(0x1000)));
  }
  I("overwrite unfollow mov eax,1", 2, OPT(kOverwrite) | OPT(kUnfollow), 0, 0, false, Inst::kIdMov, eax, 1);
  // 3 operands
  I("imul ecx,edx,1000", 3, 0, 0, 0, false, Inst::kIdImul, ecx, edx, 1000);
  I("shld eax,ecx,cl", 3, 0, 0, 0, false, Inst::kIdShld, eax, ecx, cl);
  I("vaddps xmm1,xmm2,xmm3", 3, 0, 0, 0, true, Inst::kIdVaddps, xmm1, xmm2, xmm3);
  I("vaddps xmm1,xmm2,xmm3 {vex3}", 3, OPT(kX86_Vex3), 0, 0, false, Inst::kIdVaddps, xmm1, xmm2, xmm3);
  I("vaddps xmm1,xmm2,xmm3 {evex}", 3, OPT(kX86_Evex), 0, 0, false, Inst::kIdVaddps, xmm1, xmm2, xmm3);
  I("vaddps zmm1{k1}{z},zmm2,zmm3", 3, OPT(kX86_ZMask), 1, 0, true, Inst::kIdVaddps, zmm1, zmm2, zmm3);
  I("vaddps zmm1,zmm2,zmm3 {ru-sae}", 3, OPT(kX86_ER) | OPT(kX86_RU_SAE), 0, 0, false, Inst::kIdVaddps, zmm1, zmm2, zmm3);
  I("vaddps xmm1{k2},xmm2,[zbx]{1to4}", 3, 0, 2, 0, false, Inst::kIdVaddps, xmm1, xmm2, dword_ptr(zbx)._1to4());
  // 4 operands
  I("vcmpps k3{k1},zmm1,zmm2,4", 4, 0, 1, 0, false, Inst::kIdVcmpps, k3, zmm1, zmm2, 4);
  I("vblendvps xmm1,xmm2,xmm3,xmm4", 4, 0, 0, 0, true, Inst::kIdVblendvps, xmm1, xmm2, xmm3, xmm4);
  I("mulx ecx,esi,ebx,edx", 4, 0, 0, 0, false, Inst::kIdMulx, ecx, esi, ebx, edx);
  // 5 operands
  I("vpermil2ps xmm1,xmm2,xmm3,xmm4,1", 5, 0, 0, 0, true, Inst::kIdVpermil2ps, xmm1, xmm2, xmm3, xmm4, 1);
  if (is64) I("lock cmpxchg16b [rbx],rdx,rax,rcx,rbx", 5, OPT(kX86_Lock), 0, 0, false, Inst::kIdCmpxchg16b, ptr(rbx), rdx, rax, rcx, rbx);
  else I("lock cmpxchg8b [ebx],edx,eax,ecx,ebx", 5, OPT(kX86_Lock), 0, 0, false, Inst::kIdCmpxchg8b, ptr(ebx), edx, eax, ecx, ebx);
  // 6 operands
  I("pcmpestri xmm1,xmm2,1,ecx,eax,edx", 6, 0, 0, 0, true, Inst::kIdPcmpestri, xmm1, xmm2, 1, ecx, eax, edx);
  I("pcmpestrm xmm1,[zbx],1,xmm0,eax,edx ;comment", 6, 0, 0, 2, false, Inst::kIdPcmpestrm, xmm1, xmmword_ptr(zbx), 1, xmm0, eax, edx);
  // failing
  I("BAD add eax,xmm1", 2, 0, 0, 0, true, Inst::kIdAdd, eax, xmm1);
  I("BAD lock mov eax,ecx", 2, OPT(kX86_Lock), 0, 0, false, Inst::kIdMov, eax, ecx);
  I("pcmpestri xmm1,xmm2,1,eax,eax,eax (wrong implicit regs)", 6, 0, 0, 0, false, Inst::kIdPcmpestri, xmm1, xmm2, 1, eax, eax, eax);
  // physical-register forms that only strict validation refuses (or refuses differently than the encoder)
  g_inst_late[arch] = T.size();
  I("movzx eax,ecx (validator only)", 2, 0, 0, 0, true, Inst::kIdMovzx, eax, ecx);
  I("vaddps xmm0,ymm1,xmm2 (validator only)", 3, 0, 0, 0, false, Inst::kIdVaddps, xmm0, ymm1, xmm2);
  if (is64) I("add eax,rbx (validator only)", 2, 0, 0, 0, false, Inst::kIdAdd, eax, rbx);
  else I("mov eax,r8d (validator only)", 2, 0, 0, 0, false, Inst::kIdMov, eax, r8d);
}

static void build_a64() {
  using namespace a64;
  auto& T = g_inst[AA64];
  I("nop", 0, 0, 0, 0, false, Inst::kIdNop);
  I("ret x30", 1, 0, 0, 0, true, Inst::kIdRet, x30);
  I("br x1 ;comment", 1, 0, 0, 1, false, Inst::kIdBr, x1);
  I("b L0", 1, 0, 0, 0, true, Inst::kIdB, L[0]);
  I("b L1", 1, 0, 0, 0, false, Inst::kIdB, L[1]);
  I("b.ne L1", 1, 0, 0, 0, true, BaseInst::compose_arm_inst_id(Inst::kIdB, CondCode::kNE), L[1]);
  I("bl L0", 1, 0, 0, 0, false, Inst::kIdBl, L[0]);
  I("b L2", 1, 0, 0, 0, true, Inst::kIdB, L[2]);
  I("cbz x1,L0", 2, 0, 0, 0, true, Inst::kIdCbz, x1, L[0]);
  I("cbnz w2,L1", 2, 0, 0, 0, false, Inst::kIdCbnz, w2, L[1]);
  I("adr x2,L1", 2, 0, 0, 0, false, Inst::kIdAdr, x2, L[1]);
  I("adrp x2,L0", 2, 0, 0, 0, false, Inst::kIdAdrp, x2, L[0]);
  I("ldr x3,[L0]", 2, 0, 0, 0, true, Inst::kIdLdr, x3, ptr(L[0]));
  I("mov x0,x1", 2, 0, 0, 0, true, Inst::kIdMov, x0, x1);
  I("mov w0,0x1234", 2, 0, 0, 0, false, Inst::kIdMov, w0, 0x1234);
  I("ldr x0,[x1,8]", 2, 0, 0, 0, false, Inst::kIdLdr, x0, ptr(x1, 8));
  I("overwrite mov x7,x8 ;comment", 2, OPT(kOverwrite), 1, 2, false, Inst::kIdMov, x7, x8);
  I("add x0,x1,x2", 3, 0, 0, 0, false, Inst::kIdAdd, x0, x1, x2);
  I("add x0,x1,123", 3, 0, 0, 0, false, Inst::kIdAdd, x0, x1, 123);
  I("tbz x1,5,L0", 3, 0, 0, 0, true, Inst::kIdTbz, x1, 5, L[0]);
  I("ldp x0,x1,[sp,16]", 3, 0, 0, 0, false, Inst::kIdLdp, x0, x1, ptr(sp, 16));
  I("stp x0,x1,[sp,-16]!", 3, 0, 0, 0, false, Inst::kIdStp, x0, x1, ptr_pre(sp, -16));
  I("tbl v1.16b,{v2},v3.16b", 3, 0, 0, 0, false, Inst::kIdTbl_v, v1.b16(), v2.b16(), v3.b16());
  I("add x0,x1,x2,lsl 3", 4, 0, 0, 0, true, Inst::kIdAdd, x0, x1, x2, Imm(lsl(3)));
  I("madd x0,x1,x2,x3", 4, 0, 0, 0, false, Inst::kIdMadd, x0, x1, x2, x3);
  I("sys 1,2,3,4", 4, 0, 0, 0, false, Inst::kIdSys, 1, 2, 3, 4);
  I("csel x0,x1,x2,ne", 4, 0, 0, 0, false, Inst::kIdCsel, x0, x1, x2, Imm(uint32_t(CondCode::kNE)));
  I("ccmp x1,x2,3,eq", 4, 0, 0, 0, false, Inst::kIdCcmp, x1, x2, 3, Imm(uint32_t(CondCode::kEQ)));
  I("fmadd d1,d2,d3,d4", 4, 0, 0, 0, false, Inst::kIdFmadd_v, d1, d2, d3, d4);
  I("tbl v1.16b,{v2,v3},v4.16b", 4, 0, 0, 0, false, Inst::kIdTbl_v, v1.b16(), v2.b16(), v3.b16(), v4.b16());
  I("sys 1,2,3,4,x19", 5, 0, 0, 0, true, Inst::kIdSys, 1, 2, 3, 4, x19);
  I("casp x2,x3,x8,x9,[x3]", 5, 0, 0, 0, false, Inst::kIdCasp, x2, x3, x8, x9, ptr(x3));
  I("tbl v1.16b,{v2,v3,v4},v5.16b", 5, 0, 0, 0, false, Inst::kIdTbl_v, v1.b16(), v2.b16(), v3.b16(), v4.b16(), v5.b16());
  I("tbl v1.16b,{v2,v3,v4,v5},v6.16b", 6, 0, 0, 0, true, Inst::kIdTbl_v, v1.b16(), v2.b16(), v3.b16(), v4.b16(), v5.b16(), v6.b16());
  I("BAD madd x0,w1,x2,x3", 4, 0, 0, 0, true, Inst::kIdMadd, x0, w1, x2, x3);
  I("BAD ldr x0,[x1,0x7FFFFFF]", 2, 0, 0, 0, false, Inst::kIdLdr, x0, ptr(x1, 0x7FFFFFF));
  I("tbl v1.16b,{v2,v4,v6,v8},v6.16b (non-consecutive list)", 6, 0, 0, 0, false, Inst::kIdTbl_v, v1.b16(), v2.b16(), v4.b16(), v6.b16(), v8.b16(), v6.b16());
  g_inst_late[AA64] = T.size();
  I("tbl v1.8b,{v31,v1},v3.8b (wrapping list, validator)", 4, 0, 0, 0, true, Inst::kIdTbl_v, v1.b8(), v31.b16(), v1.b16(), v3.b8());
  I("add w0,x1,w2 (mixed sizes)", 3, 0, 0, 0, false, Inst::kIdAdd, w0, x1, w2);
}
#undef I

// ---------------------------------------------------------------------------------------------------------
// constant pools and data
static Arena g_pool_arena(16384);
static const int kNumPools = 3;
static ConstPool* g_pools[kNumPools];
static std::vector<std::vector<uint8_t>> g_pool_adds[kNumPools];
static std::vector<uint8_t> g_pool_bytes[kNumPools];
static uint8_t g_data[64];
struct ArrayVariant { TypeId type; size_t items, repeat; const char* name; };
static const ArrayVariant kArrays[] = {
  {TypeId::kUInt16, 3, 2, "u16x3*2"}, {TypeId::kUInt32, 1, 1, "u32x1"}, {TypeId::kFloat64, 2, 0, "f64x2*0"},
  {TypeId::kUIntPtr, 1, 1, "uintptr x1"}, {TypeId::kVoid, 1, 1, "void x1 (invalid)"}, {TypeId::kUInt8, 0, 3, "u8x0*3"},
};
static void build_pools() {
  for (size_t i = 0; i < sizeof g_data; i++) g_data[i] = uint8_t(0xC0 + i * 7);
  auto bytes = [](size_t n, uint8_t seed) { std::vector<uint8_t> v(n); for (size_t i = 0; i < n; i++) v[i] = uint8_t(seed + i); return v; };
  g_pool_adds[0] = {bytes(8, 0x10)};
  g_pool_adds[1] = {bytes(4, 0x20), bytes(1, 0x30), bytes(2, 0x40)};
  g_pool_adds[2] = {bytes(32, 0x50), bytes(8, 0x10)};
  for (int p = 0; p < kNumPools; p++) {
    g_pools[p] = new ConstPool(g_pool_arena);
    for (auto& d : g_pool_adds[p]) { size_t off; if (g_pools[p]->add(d.data(), d.size(), Out(off)) != Error::kOk) { fprintf(stderr, "c08: pool setup failed\n"); exit(2); } }
    g_pool_bytes[p].assign(g_pools[p]->size(), 0);
    g_pools[p]->fill(g_pool_bytes[p].data());
  }
}

// ---------------------------------------------------------------------------------------------------------
// concrete (label-resolved) actions: what is executed on an emitter / what an entry of the model node list is
enum ActKind { A_INST, A_PREFIX, A_NEWLABEL, A_BIND, A_EMBLABEL, A_DELTA, A_ALIGN, A_EMBED, A_ARRAY, A_CONSTPOOL, A_POOLDATA, A_COMMENT, A_SECTION, A_GCINST, A_AJMP };
struct Act {
  int kind = A_COMMENT; int a = 0, b = 0; uint32_t l0 = kInv, l1 = kInv; uint32_t labs[3] = {kInv, kInv, kInv}; Pfx pfx;
  int ident = 0;   // identity of nodes that exist once per builder: 1000+section id, 2000+label id; 0 = anonymous
};

// constants of the Compiler's global constant pool (BaseCompiler::_new_const with ConstPoolScope::kGlobal)
struct GConst { size_t size; uint8_t data[16]; const char* name; };
static const GConst kGConsts[3] = {
  {4, {0x44, 0x33, 0x22, 0x11}, "dword"}, {8, {1, 2, 3, 4, 5, 6, 7, 8}, "qword"},
  {16, {0xF0, 0xF1, 0xF2, 0xF3, 0xF4, 0xF5, 0xF6, 0xF7, 0xF8, 0xF9, 0xFA, 0xFB, 0xFC, 0xFD, 0xFE, 0xFF}, "oword"}};
// the pool the harness expects: the same constants added in the same order to an own ConstPool
static void build_gpool(const std::vector<int>& adds, ConstPool& pool, size_t* last_off) {
  for (int v : adds) { size_t off = 0; if (pool.add(kGConsts[v].data, kGConsts[v].size, Out(off)) != Error::kOk) { fprintf(stderr, "c08: pool add failed\n"); exit(2); } if (last_off) *last_off = off; }
}
// the instruction that reads constant v through memory operand [label + off]
static Error emit_gcinst(BaseEmitter* e, int arch, int v, const BaseMem& m) {
  if (arch == AA64) return v == 0 ? e->emit(a64::Inst::kIdLdr, a64::w3, m) : v == 1 ? e->emit(a64::Inst::kIdLdr, a64::x3, m) : e->emit(a64::Inst::kIdLdr_v, a64::q2, m);
  return v == 0 ? e->emit(x86::Inst::kIdMov, x86::ecx, m) : v == 1 ? e->emit(x86::Inst::kIdMovq, x86::xmm1, m) : e->emit(x86::Inst::kIdMovaps, x86::xmm2, m);
}

// annotated jumps of the Compiler (BaseCompiler::emit_annotated_jump): target slot (0/1 = label L0/L1, -1 = register), prefix
struct AJmp { int target; Pfx pfx; bool x64_only; bool small; const char* name; };
static const AJmp kAJmpX86[] = {
  {0, {0, 0, 0}, false, false, "jmp L0"}, {0, {OPT(kShortForm), 0, 0}, false, true, "short jmp L0"}, {1, {OPT(kLongForm), 0, 0}, false, false, "long jmp L1"},
  {0, {OPT(kX86_Rex), 0, 0}, true, false, "rex jmp L0"}, {1, {0, 0, 2}, false, false, "jmp L1 ;comment"}, {-1, {0, 0, 0}, false, false, "jmp zax"}, {-1, {OPT(kX86_Rex), 0, 1}, true, false, "rex jmp zax ;comment"},
  // added later (ops at the end of the alphabet): an extra register that only strict validation refuses
  {1, {0, 1, 0}, false, false, "jmp L1 {k1} (validator only)"}};
static const int kAJmpEarlyX86 = 7;
static const AJmp kAJmpA64[] = {{0, {0, 0, 1}, false, true, "b L0 ;comment"}, {1, {OPT(kOverwrite), 0, 0}, false, false, "overwrite b L1"}, {-1, {0, 0, 0}, false, false, "br x1"}};
static const AJmp& ajmp_of(int arch, int v) { return arch == AA64 ? kAJmpA64[v] : kAJmpX86[v]; }
static InstId ajmp_inst(int arch, const AJmp& j) { return arch == AA64 ? InstId(j.target < 0 ? a64::Inst::kIdBr : a64::Inst::kIdB) : InstId(x86::Inst::kIdJmp); }
static Operand ajmp_target(int arch, const AJmp& j, const uint32_t* labs) {
  if (j.target >= 0) return Label(labs[j.target]);
  if (arch == AA64) return a64::x1;
  return arch == AX64 ? Operand(x86::rax) : Operand(x86::eax);
}

struct Holder {
  CodeHolder code; Section* sec[3]; StringLogger logger;
  Holder(int arch, int cfg) {
    Environment env(arch == AX64 ? Arch::kX64 : arch == AX86 ? Arch::kX86 : Arch::kAArch64);
    if (code.init(env) != Error::kOk) { fprintf(stderr, "c08: init failed\n"); exit(2); }
    sec[0] = code.text_section();
    if (code.new_section(Out(sec[1]), ".s1", SIZE_MAX, SectionFlags::kNone, 8, 1) != Error::kOk || code.new_section(Out(sec[2]), ".s2", SIZE_MAX, SectionFlags::kNone, 1, 2) != Error::kOk) { fprintf(stderr, "c08: new_section failed\n"); exit(2); }
    if (cfg == 4) code.set_logger(&logger);
  }
};
static const char* kCfgNames[] = {"default", "enc=size|align|predicted", "diag=validate-assembler", "diag=validate-assembler(+intermediate on builder)", "logger",
                                  "diag=validate (assembler: validate-assembler, builder/compiler: validate-intermediate only)"};
static const int kNumCfg = 6;
static void apply_cfg(BaseEmitter* e, int cfg, bool is_builder) {
  if (cfg == 1) e->add_encoding_options(EncodingOptions::kOptimizeForSize | EncodingOptions::kOptimizedAlign | EncodingOptions::kPredictedJumps);
  if (cfg == 2) e->add_diagnostic_options(DiagnosticOptions::kValidateAssembler);
  if (cfg == 5) e->add_diagnostic_options(is_builder ? DiagnosticOptions::kValidateIntermediate : DiagnosticOptions::kValidateAssembler);
  if (cfg == 3) e->add_diagnostic_options(is_builder ? (DiagnosticOptions::kValidateAssembler | DiagnosticOptions::kValidateIntermediate) : DiagnosticOptions::kValidateAssembler);
}
// L0 is created through the emitter, L1 directly on the holder (a Builder then has no LabelNode for it yet)
static bool setup_labels(BaseEmitter* e, Holder& H) {
  Label l0 = e->new_label(); uint32_t id1 = kInv;
  if (H.code.new_label_id(Out(id1)) != Error::kOk) return false;
  return l0.id() == 0 && id1 == 1;
}

static const Pfx kPrefixOps[3][3] = {
  {{OPT(kX86_Lock), 0, 0}, {0, 1, 0}, {0, 0, 1}}, {{OPT(kX86_Lock), 0, 0}, {0, 1, 0}, {0, 0, 1}}, {{OPT(kOverwrite), 0, 0}, {0, 1, 0}, {0, 0, 1}}};
static const char* kPrefixNames[3] = {"add_inst_options", "set_extra_reg", "set_inline_comment"};

static Error exec_act(BaseEmitter* e, Holder& H, int arch, const Act& t) {
  switch (t.kind) {
    case A_INST: {
      const InstDef& d = g_inst[arch][t.a];
      Label L[3] = {Label(t.labs[0]), Label(t.labs[1]), Label(t.labs[2])};
      apply_pfx(e, arch, t.pfx); apply_pfx(e, arch, d.pfx);
      return d.fn(e, L);
    }
    case A_PREFIX: apply_pfx(e, arch, kPrefixOps[arch][t.a]); return Error::kOk;
    case A_NEWLABEL: { Label l = e->new_label(); return l.id() == uint32_t(t.b) ? Error::kOk : Error::kInvalidState; }
    case A_BIND: return e->bind(Label(t.l0));
    case A_EMBLABEL: return e->embed_label(Label(t.l0), size_t(t.a));
    case A_DELTA: return e->embed_label_delta(Label(t.l0), Label(t.l1), size_t(t.a));
    case A_ALIGN: return e->align(AlignMode(t.a), uint32_t(t.b));
    case A_EMBED: return e->embed(g_data, size_t(t.a));
    case A_ARRAY: return e->embed_data_array(kArrays[t.a].type, g_data, kArrays[t.a].items, kArrays[t.a].repeat);
    case A_CONSTPOOL: return e->embed_const_pool(Label(t.l0), *g_pools[t.a]);
    case A_POOLDATA: return e->embed(g_pool_bytes[t.a].data(), g_pool_bytes[t.a].size());
    case A_COMMENT: return e->comment("harness comment line");
    case A_SECTION: return e->section(H.sec[t.a]);
    case A_AJMP: {   // reference for an annotated jump: the plain jump with the same options
      const AJmp& j = ajmp_of(arch, t.a);
      apply_pfx(e, arch, t.pfx); apply_pfx(e, arch, j.pfx);
      return e->emit(ajmp_inst(arch, j), ajmp_target(arch, j, t.labs));
    }
    case A_GCINST: {
      if (t.labs[0] == 1) { Label l = e->new_label(); if (l.id() != t.l0) return Error::kInvalidState; }   // call-order reference: the pool label is created here
      apply_pfx(e, arch, t.pfx);
      if (arch == AA64) return emit_gcinst(e, arch, t.a, a64::ptr(Label(t.l0), int32_t(t.b)));
      return emit_gcinst(e, arch, t.a, x86::ptr(Label(t.l0), int32_t(t.b), uint32_t(kGConsts[t.a].size)));
    }
  }
  return Error::kInvalidState;
}

// ---------------------------------------------------------------------------------------------------------
// op alphabet
enum OpType { O_INST, O_PREFIX, O_NEWLABEL, O_BIND, O_EMBLABEL, O_DELTA, O_ALIGN, O_EMBED, O_ARRAY, O_CONSTPOOL, O_COMMENT, O_SECTION,
              O_CUR_FIRST, O_CUR_LAST, O_CUR_PREV, O_CUR_NEXT, O_REMOVE, O_REMOVE_PAIR, O_REINS_AFTER, O_REINS_BEFORE, O_REINS_ADD, O_ADD_CPNODE, O_ADD_LABELNODE, O_REMOVE_RANGE, O_GCONST, O_AJMP };
static bool is_edit(int t) { return t >= O_CUR_FIRST && t != O_GCONST && t != O_AJMP; }
static const char* op_kind(int t) {
  static const char* n[] = {"inst", "prefix", "new_label", "bind", "embed_label", "embed_label_delta", "align", "embed", "embed_data_array", "embed_const_pool", "comment", "section",
                            "set_cursor", "set_cursor", "set_cursor", "set_cursor", "remove_node", "remove_nodes", "add_after", "add_before", "add_node", "add_node(ConstPoolNode)", "add_node(LabelNode)", "remove_nodes", "inst(new_const global)", "annotated_jump"};
  return n[t];
}
struct OpDef { int type; int a, b, c; std::string name; bool small; };
static std::vector<OpDef> g_ops[3];

static void build_ops(int arch) {
  auto& V = g_ops[arch];
  char b[96];
  for (size_t i = 0; i < g_inst_late[arch]; i++) V.push_back(OpDef{O_INST, int(i), 0, 0, g_inst[arch][i].name, g_inst[arch][i].small});
  for (int p = 0; p < 3; p++) V.push_back(OpDef{O_PREFIX, p, 0, 0, std::string(kPrefixNames[p]) + "()", p == 0});
  V.push_back(OpDef{O_NEWLABEL, 0, 0, 0, "L2=new_label()", true});
  for (int s = 0; s < 3; s++) { snprintf(b, sizeof b, "bind(L%d)", s); V.push_back(OpDef{O_BIND, s, 0, 0, b, s < 2}); }
  const int el[][2] = {{0, 0}, {1, 4}, {2, 8}, {0, 3}, {1, 1}};
  for (auto& x : el) { snprintf(b, sizeof b, "embed_label(L%d,%d)", x[0], x[1]); V.push_back(OpDef{O_EMBLABEL, x[0], x[1], 0, b, x[1] == 0}); }
  const int ed[][3] = {{0, 1, 4}, {1, 0, 1}, {0, 1, 0}, {2, 0, 8}, {1, 0, 3}};
  for (auto& x : ed) { snprintf(b, sizeof b, "embed_label_delta(L%d,L%d,%d)", x[0], x[1], x[2]); V.push_back(OpDef{O_DELTA, x[0], x[1], x[2], b, x[2] == 4}); }
  const char* am[] = {"code", "data", "zero"};
  for (int m = 0; m < 3; m++) for (int n : {0, 1, 8, 16}) { snprintf(b, sizeof b, "align(%s,%d)", am[m], n); V.push_back(OpDef{O_ALIGN, m, n, 0, b, n == 8 && m != 2}); }
  V.push_back(OpDef{O_ALIGN, 0, 3, 0, "align(code,3)", false});
  V.push_back(OpDef{O_ALIGN, 1, 64, 0, "align(data,64)", false});
  for (int n : {1, 5, 0}) { snprintf(b, sizeof b, "embed(%d bytes)", n); V.push_back(OpDef{O_EMBED, n, 0, 0, b, n == 5}); }
  for (int v = 0; v < int(sizeof kArrays / sizeof kArrays[0]); v++) V.push_back(OpDef{O_ARRAY, v, 0, 0, std::string("embed_data_array(") + kArrays[v].name + ")", v == 0});
  const int cp[][2] = {{1, 0}, {0, 1}, {2, 2}};
  for (auto& x : cp) { snprintf(b, sizeof b, "embed_const_pool(L%d,pool%d)", x[0], x[1]); V.push_back(OpDef{O_CONSTPOOL, x[0], x[1], 0, b, x[1] == 0}); }
  V.push_back(OpDef{O_COMMENT, 0, 0, 0, "comment()", true});
  for (int s = 0; s < 3; s++) { snprintf(b, sizeof b, "section(%d)", s); V.push_back(OpDef{O_SECTION, s, 0, 0, b, s < 2}); }
  V.push_back(OpDef{O_CUR_FIRST, 0, 0, 0, "set_cursor(first)", true});
  V.push_back(OpDef{O_CUR_LAST, 0, 0, 0, "set_cursor(last)", true});
  V.push_back(OpDef{O_CUR_PREV, 0, 0, 0, "set_cursor(prev)", true});
  V.push_back(OpDef{O_CUR_NEXT, 0, 0, 0, "set_cursor(next)", true});
  V.push_back(OpDef{O_REMOVE, 0, 0, 0, "remove_node(cursor)", true});
  V.push_back(OpDef{O_REMOVE_PAIR, 0, 0, 0, "remove_nodes(prev,cursor)", true});
  V.push_back(OpDef{O_REINS_AFTER, 0, 0, 0, "add_after(removed,cursor)", true});
  V.push_back(OpDef{O_REINS_BEFORE, 0, 0, 0, "add_before(removed,cursor)", true});
  V.push_back(OpDef{O_REINS_ADD, 0, 0, 0, "add_node(removed)", true});
  V.push_back(OpDef{O_ADD_CPNODE, 1, 0, 0, "L2=add_node(new ConstPoolNode pool1)", true});
  V.push_back(OpDef{O_ADD_LABELNODE, 0, 0, 0, "L2=add_node(new LabelNode)", true});
  // remove_nodes(first,last) over a range of `len` nodes that is placed relative to the cursor: the cursor is the k-th node
  // of the range (k = 0 first .. len-1 last), the node right before the range (k = -1) or right after it (k = len).
  // c = 1: member of the extended reduced alphabet of the thorough tier
  for (int len : {3, 4}) for (int k = -1; k <= len; k++) {
    snprintf(b, sizeof b, "remove_nodes(%d nodes,cursor@%d)", len, k);
    bool mid = (len == 3 && (k == -1 || k == 1 || k == 3)) || (len == 4 && (k == 1 || k == 2));
    V.push_back(OpDef{O_REMOVE_RANGE, len, k, mid ? 1 : 0, b, false});
  }
  // Compiler only: an instruction whose memory operand is a constant of the global constant pool (the same op twice = the
  // same constant twice); the Builder has no such call, these histories are evaluated on the Compiler alone
  for (int v = 0; v < 3; v++) { snprintf(b, sizeof b, "inst [new_const(global,%s)]", kGConsts[v].name); V.push_back(OpDef{O_GCONST, v, 0, 0, b, v == 1}); }
  // Compiler only: emit_annotated_jump() (JumpNode with a JumpAnnotation that lists L0 and L1) with each prefix option
  { int nj = arch == AA64 ? int(sizeof kAJmpA64 / sizeof kAJmpA64[0]) : int(sizeof kAJmpX86 / sizeof kAJmpX86[0]);
    if (arch != AA64) nj = kAJmpEarlyX86;
    for (int v = 0; v < nj; v++) { const AJmp& j = ajmp_of(arch, v); if (j.x64_only && arch != AX64) continue; V.push_back(OpDef{O_AJMP, v, 0, 0, std::string("annotated ") + j.name, j.small}); } }
  // instructions added later (validator-only refusals)
  for (size_t i = g_inst_late[arch]; i < g_inst[arch].size(); i++) V.push_back(OpDef{O_INST, int(i), 0, 0, g_inst[arch][i].name, g_inst[arch][i].small});
  if (arch != AA64) for (int v = kAJmpEarlyX86; v < int(sizeof kAJmpX86 / sizeof kAJmpX86[0]); v++) V.push_back(OpDef{O_AJMP, v, 0, 0, std::string("annotated ") + kAJmpX86[v].name, false});
  // alignments outside the valid range (valid: 0, 1 or a power of two <= 64), every mode
  for (int m = 0; m < 3; m++) for (unsigned n : {24u, 128u, 256u, 264u, 4096u, 0x80000000u}) { snprintf(b, sizeof b, "align(%s,%u)", am[m], n); V.push_back(OpDef{O_ALIGN, m, int(n), 0, b, m == 0 && n == 264u}); }
}
static int find_op(int arch, const std::string& name) {
  for (size_t i = 0; i < g_ops[arch].size(); i++) if (g_ops[arch][i].name == name) return int(i);
  fprintf(stderr, "c08: op '%s' not in the alphabet of %s\n", name.c_str(), arch_name(arch)); exit(2);
}

// ---------------------------------------------------------------------------------------------------------
// model of the node list (the harness's own op list = "the edited sequence")
struct Step { int opi = 0; int type = 0; Act lit; std::vector<Act> items; int cur_after = 0; int size_after = 0; bool model_valid_after = true; };

struct Model {
  int arch = 0;
  std::vector<Act> list; int cur = 0; std::vector<Act> stash;
  uint32_t next_label = 2; uint32_t slot[3] = {0, 1, kInv}; Pfx pending;
  std::vector<int> label_kind = {0, 0};    // by label id: 0 plain LabelNode, 1+p ConstPoolNode with pool p
  bool has_edit = false, has_section = false, became_empty = false, invalid = false;
  bool compiler_only = false;   // the history uses calls that only a Compiler has
  uint32_t gpool_label = kInv; std::vector<int> gadds;   // global constant pool of the Compiler: label and constants in creation order
  explicit Model(int arch_ = 0) : arch(arch_) { Act s; s.kind = A_SECTION; s.a = 0; s.ident = 1000; list.push_back(s); }
  bool active(int ident) const { for (auto& t : list) if (t.ident == ident) return true; return false; }
  void add_node(const Act& t) { list.insert(list.begin() + (cur + 1), t); cur++; }
  Act label_item(uint32_t l) const {
    Act t; t.ident = 2000 + int(l); t.l0 = l;
    if (label_kind[l] == 0) t.kind = A_BIND; else { t.kind = A_CONSTPOOL; t.a = label_kind[l] - 1; }
    return t;
  }
  // returns false when the op is not applicable in this state (its precondition does not hold)
  bool apply(const OpDef& op, Step& st) {
    st.type = op.type; st.items.clear(); st.lit = Act();
    if (is_edit(op.type)) has_edit = true;
    auto emit_item = [&](const Act& t) { st.items.push_back(t); add_node(t); };
    switch (op.type) {
      case O_INST: {
        Act t; t.kind = A_INST; t.a = op.a; for (int i = 0; i < 3; i++) t.labs[i] = slot[i];
        st.lit = t; t.pfx = pending; pending = Pfx(); emit_item(t); break;
      }
      case O_PREFIX: st.lit.kind = A_PREFIX; st.lit.a = op.a; pending.merge(kPrefixOps[arch][op.a]); break;
      case O_NEWLABEL: st.lit.kind = A_NEWLABEL; st.lit.b = int(next_label); slot[2] = next_label++; label_kind.push_back(0); break;
      case O_BIND: {
        uint32_t l = slot[op.a]; st.lit.kind = A_BIND; st.lit.l0 = l;
        if (l == kInv) break;
        if (active(2000 + int(l))) { if (has_edit) return false; invalid = true; break; }
        emit_item(label_item(l)); break;
      }
      case O_EMBLABEL: { Act t; t.kind = A_EMBLABEL; t.l0 = slot[op.a]; t.a = op.b; st.lit = t; emit_item(t); break; }
      case O_DELTA: { Act t; t.kind = A_DELTA; t.l0 = slot[op.a]; t.l1 = slot[op.b]; t.a = op.c; st.lit = t; emit_item(t); break; }
      case O_ALIGN: { Act t; t.kind = A_ALIGN; t.a = op.a; t.b = op.b; st.lit = t; emit_item(t); break; }
      case O_EMBED: { Act t; t.kind = A_EMBED; t.a = op.a; st.lit = t; emit_item(t); break; }
      case O_ARRAY: { Act t; t.kind = A_ARRAY; t.a = op.a; st.lit = t; emit_item(t); break; }
      case O_COMMENT: { Act t; t.kind = A_COMMENT; st.lit = t; emit_item(t); break; }
      case O_CONSTPOOL: {
        uint32_t l = slot[op.a]; st.lit.kind = A_CONSTPOOL; st.lit.l0 = l; st.lit.a = op.b;
        if (l == kInv) break;
        if (active(2000 + int(l))) { if (has_edit) return false; invalid = true; break; }
        Act al; al.kind = A_ALIGN; al.a = int(AlignMode::kData); al.b = int(g_pools[op.b]->alignment()); emit_item(al);
        emit_item(label_item(l));
        Act d; d.kind = A_POOLDATA; d.a = op.b; emit_item(d);
        break;
      }
      case O_SECTION: {
        has_section = true;
        Act t; t.kind = A_SECTION; t.a = op.a; t.ident = 1000 + op.a; st.lit = t;
        int idx = -1; for (size_t i = 0; i < list.size(); i++) if (list[i].ident == t.ident) idx = int(i);
        if (idx < 0) { list.push_back(t); cur = int(list.size()) - 1; st.items.push_back(t); }
        else { int j = -1; for (size_t i = size_t(idx) + 1; i < list.size(); i++) if (list[i].kind == A_SECTION) { j = int(i); break; } cur = j >= 0 ? j - 1 : int(list.size()) - 1; }
        break;
      }
      case O_CUR_FIRST: cur = list.empty() ? -1 : 0; break;
      case O_CUR_LAST: cur = int(list.size()) - 1; break;
      case O_CUR_PREV: if (cur < 0) return false; cur--; break;
      case O_CUR_NEXT: if (cur + 1 >= int(list.size())) return false; cur++; break;
      case O_REMOVE: if (cur < 0) return false; stash.push_back(list[cur]); list.erase(list.begin() + cur); cur--; break;
      case O_REMOVE_PAIR: if (cur < 1) return false; list.erase(list.begin() + (cur - 1), list.begin() + (cur + 1)); cur -= 2; break;
      case O_REINS_AFTER: case O_REINS_BEFORE: case O_REINS_ADD: {
        if (stash.empty()) return false;
        if (op.type != O_REINS_ADD && cur < 0) return false;
        Act t = stash.back();
        if (t.ident && active(t.ident)) return false;     // the removed node was re-activated by bind()/section(): it is not "removed" any more
        stash.pop_back();
        if (op.type == O_REINS_ADD) add_node(t);
        else if (op.type == O_REINS_AFTER) list.insert(list.begin() + (cur + 1), t);
        else { list.insert(list.begin() + cur, t); cur++; }
        break;
      }
      case O_ADD_CPNODE: { uint32_t l = next_label++; slot[2] = l; label_kind.push_back(1 + op.a); st.lit.b = int(l); st.lit.a = op.a; add_node(label_item(l)); break; }
      case O_ADD_LABELNODE: { uint32_t l = next_label++; slot[2] = l; label_kind.push_back(0); st.lit.b = int(l); add_node(label_item(l)); break; }
      case O_AJMP: {
        compiler_only = true;
        Act t; t.kind = A_AJMP; t.a = op.a; for (int i = 0; i < 3; i++) t.labs[i] = slot[i];
        st.lit = t; t.pfx = pending; pending = Pfx(); emit_item(t); break;
      }
      case O_GCONST: {
        compiler_only = true;
        bool first = gpool_label == kInv;
        if (first) { gpool_label = next_label++; label_kind.push_back(0); }
        gadds.push_back(op.a);
        size_t off = 0; { Arena ar(1024); ConstPool cp(ar); build_gpool(gadds, cp, &off); }
        Act t; t.kind = A_GCINST; t.a = op.a; t.b = int(off); t.l0 = gpool_label;
        st.lit = t; st.lit.labs[0] = first ? 1 : 0;
        t.labs[0] = 0; t.pfx = pending; pending = Pfx(); emit_item(t); break;
      }
      case O_REMOVE_RANGE: {
        int first = cur - op.b, last = first + op.a - 1;
        if (first < 0 || last >= int(list.size())) return false;
        st.lit.a = first; st.lit.b = last;    // positions of the range ends (the harness walks there from first_node())
        list.erase(list.begin() + first, list.begin() + last + 1);
        if (cur >= first && cur <= last) cur = first - 1;      // the cursor moves to the node that precedes the range
        else if (cur > last) cur -= op.a;
        break;
      }
    }
    if (list.empty()) became_empty = true;
    st.cur_after = cur; st.size_after = int(list.size()); st.model_valid_after = !invalid;
    return true;
  }
};

// ---------------------------------------------------------------------------------------------------------
// snapshots of a holder
struct Snap { std::vector<std::string> sec; std::string labels, relocs; size_t unresolved = 0; };
static void take_snap(CodeHolder& code, Snap& s) {
  char b[160];
  for (Section* x : code.sections()) {
    std::string t = std::to_string(x->section_id()) + ":v" + std::to_string((unsigned long long)x->virtual_size()) + ":";
    t.append(reinterpret_cast<const char*>(x->data()), x->buffer_size());
    s.sec.push_back(t);
  }
  for (uint32_t id = 0; id < uint32_t(code.label_count()); id++) {
    const LabelEntry& le = code.label_entry_of(id);
    if (le.is_bound()) { snprintf(b, sizeof b, "b%u+%llu;", le.section_id(), (unsigned long long)code.label_offset(id)); s.labels += b; }
    else s.labels += "u;";
  }
  for (const RelocEntry* re : code.reloc_entries()) {
    const OffsetFormat& f = re->format();
    snprintf(b, sizeof b, "[#%u t%u f%u/%u/%u/%u/%u/%u/%u/%u s%u+%llu t%u ", re->id(), unsigned(re->reloc_type()), unsigned(f.type()), f.flags(), f.region_size(), f.value_size(), f.value_offset(),
             f.imm_bit_count(), f.imm_bit_shift(), f.imm_discard_lsb(), re->source_section_id(), (unsigned long long)re->source_offset(), re->target_section_id());
    s.relocs += b;
    if (re->reloc_type() == RelocType::kExpression) {
      const Expression* ex = re->payload_as_expression();
      snprintf(b, sizeof b, "expr op%u", unsigned(ex->op_type)); s.relocs += b;
      for (int i = 0; i < 2; i++) {
        if (ex->value_type[i] == ExpressionValueType::kLabel) snprintf(b, sizeof b, " L%u", ex->value[i].label_id);
        else if (ex->value_type[i] == ExpressionValueType::kConstant) snprintf(b, sizeof b, " c%llu", (unsigned long long)ex->value[i].constant);
        else snprintf(b, sizeof b, " vt%u", unsigned(ex->value_type[i]));
        s.relocs += b;
      }
    } else { snprintf(b, sizeof b, "p%llu", (unsigned long long)re->payload()); s.relocs += b; }
    s.relocs += "]";
  }
  s.unresolved = code.unresolved_fixup_count();
}
static std::string sec_str(const std::string& s) { size_t p = s.find(':', s.find(':') + 1); return s.substr(0, p + 1) + vh::hex(s.data() + p + 1, std::min<size_t>(s.size() - p - 1, 48)) + (s.size() - p - 1 > 48 ? "..." : "") + " (" + std::to_string(s.size() - p - 1) + " bytes)"; }
// returns "" when equal, else clause; detail filled
static std::string diff_snap(const Snap& ref, const Snap& got, std::string& detail) {
  if (ref.sec.size() != got.sec.size()) { detail = "section count " + std::to_string(ref.sec.size()) + " vs " + std::to_string(got.sec.size()); return "bytes-differ"; }
  for (size_t i = 0; i < ref.sec.size(); i++) if (ref.sec[i] != got.sec[i]) { detail = "section " + std::to_string(i) + ": assembler " + sec_str(ref.sec[i]) + " vs " + sec_str(got.sec[i]); return "bytes-differ"; }
  if (ref.labels != got.labels) { detail = "labels: assembler " + ref.labels + " vs " + got.labels; return "label-differs"; }
  if (ref.relocs != got.relocs) { detail = "relocations: assembler " + ref.relocs + " vs " + got.relocs; return "reloc-differs"; }
  if (ref.unresolved != got.unresolved) { detail = "unresolved_fixup_count: assembler " + std::to_string(ref.unresolved) + " vs " + std::to_string(got.unresolved); return "unresolved-differs"; }
  return "";
}
// state after flatten + resolve_cross_section_fixups + relocate_to_base (used when the node order legitimately differs
// from the call order, i.e. with section switches: only the final image is comparable then)
struct RSnap { Error e_flat, e_res, e_rel; std::vector<std::string> sec; std::string labels; size_t unresolved; };
static void take_rsnap(CodeHolder& code, RSnap& r) {
  r.e_flat = code.flatten();
  r.e_res = code.resolve_cross_section_fixups();
  r.e_rel = code.relocate_to_base(0x10000);
  Snap s; take_snap(code, s);
  for (Section* x : code.sections()) { r.sec.push_back("@" + std::to_string((unsigned long long)x->offset()) + " " + s.sec[x->section_id()]); }
  r.labels = s.labels; r.unresolved = s.unresolved;
}
static std::string diff_rsnap(const RSnap& ref, const RSnap& got, std::string& detail) {
  // with several unresolvable references the *first* failure depends on the order of the relocation entries, i.e. on the
  // node order: only success/failure of each step is comparable
  auto ok = [](Error e) { return e == Error::kOk; };
  if (ok(ref.e_flat) != ok(got.e_flat) || ok(ref.e_res) != ok(got.e_res) || ok(ref.e_rel) != ok(got.e_rel)) {
    detail = std::string("after flatten/resolve/relocate: assembler ") + errname(ref.e_flat) + "/" + errname(ref.e_res) + "/" + errname(ref.e_rel) + " vs " + errname(got.e_flat) + "/" + errname(got.e_res) + "/" + errname(got.e_rel);
    return "resolve-error-differs";
  }
  if (ref.labels != got.labels) { detail = "labels: assembler " + ref.labels + " vs " + got.labels; return "label-differs"; }
  if (ref.e_flat != Error::kOk || ref.e_res != Error::kOk || ref.e_rel != Error::kOk) return "";   // a failed relocation leaves order dependent bytes
  if (ref.sec.size() != got.sec.size()) { detail = "section count differs"; return "bytes-differ"; }
  for (size_t i = 0; i < ref.sec.size(); i++) if (ref.sec[i] != got.sec[i]) { detail = "relocated section " + std::to_string(i) + ": assembler " + sec_str(ref.sec[i]) + " vs " + sec_str(got.sec[i]); return "bytes-differ"; }
  if (ref.unresolved != got.unresolved) { detail = "unresolved_fixup_count after resolve: assembler " + std::to_string(ref.unresolved) + " vs " + std::to_string(got.unresolved); return "unresolved-differs"; }
  return "";
}

// ---------------------------------------------------------------------------------------------------------
// runs
struct RefOut { Error err = Error::kOk; int idx = -1; Snap snap; std::unique_ptr<Holder> H; std::unique_ptr<BaseEmitter> e; };
// gm: model whose global constant pool (if any) is flushed after the last act ("at the end of the code"), final_section >= 0:
// switch to that section first (call-order reference: the section of the last node is not the section of the last call)
static void run_ref(int arch, int cfg, int n_pre_labels, const std::vector<Act>& acts, RefOut& out, const Model* gm = nullptr, int final_section = -1) {
  out.H.reset(new Holder(arch, cfg));
  if (arch == AA64) out.e.reset(new a64::Assembler()); else out.e.reset(new x86::Assembler());
  if (out.H->code.attach(out.e.get()) != Error::kOk) { fprintf(stderr, "c08: attach failed\n"); exit(2); }
  apply_cfg(out.e.get(), cfg, false);
  if (!setup_labels(out.e.get(), *out.H)) { fprintf(stderr, "c08: label setup failed\n"); exit(2); }
  for (int i = 2; i < n_pre_labels; i++) (void)out.e->new_label();
  for (size_t i = 0; i < acts.size(); i++) {
    Error e = exec_act(out.e.get(), *out.H, arch, acts[i]);
    if (e != Error::kOk) { out.err = e; out.idx = int(i); break; }
  }
  if (out.err == Error::kOk && gm && gm->gpool_label != kInv) {
    Error e = Error::kOk;
    if (final_section >= 0) e = out.e->section(out.H->sec[final_section]);
    if (e == Error::kOk) { Arena ar(1024); ConstPool cp(ar); build_gpool(gm->gadds, cp, nullptr); e = out.e->embed_const_pool(Label(gm->gpool_label), cp); }
    if (e != Error::kOk) { out.err = e; out.idx = int(acts.size()); }
  }
  take_snap(out.H->code, out.snap);
}

struct XOut {
  Error call_err = Error::kOk; int call_idx = -1; Error fin = Error::kOk; Snap snap;
  int desync_at = -1; std::string desync; bool cyclic = false;
  std::unique_ptr<Holder> H; std::unique_ptr<BaseBuilder> b;
};
static void node_pos(BaseBuilder* b, int& size, int& cur) {
  size = 0; cur = -1; BaseNode* c = b->cursor();
  for (BaseNode* n = b->first_node(); n && size < 4096; n = n->next()) { if (n == c) cur = size; size++; }
  if (c && cur < 0) cur = -2;   // cursor points to a node that is not in the list
}
static void run_x(int arch, int cfg, bool compiler, const std::vector<Step>& tr, XOut& out) {
  out.H.reset(new Holder(arch, cfg));
  if (arch == AA64) { if (compiler) out.b.reset(new a64::Compiler()); else out.b.reset(new a64::Builder()); }
  else { if (compiler) out.b.reset(new x86::Compiler()); else out.b.reset(new x86::Builder()); }
  BaseBuilder* b = out.b.get();
  if (out.H->code.attach(b) != Error::kOk) { fprintf(stderr, "c08: attach failed\n"); exit(2); }
  apply_cfg(b, cfg, true);
  if (!setup_labels(b, *out.H)) { fprintf(stderr, "c08: label setup failed\n"); exit(2); }
  std::vector<BaseNode*> stash;
  auto is_cyclic = [&]() { int hops = 0; for (BaseNode* n = b->first_node(); n && hops <= 8192; n = n->next()) hops++; return hops > 8192; };
  for (size_t i = 0; i < tr.size(); i++) {
    const Step& st = tr[i];
    Error e = Error::kOk;
    if (is_cyclic()) { out.cyclic = true; return; }   // section() and the passes walk the list to its end
    switch (st.type) {
      case O_CUR_FIRST: b->set_cursor(b->first_node()); break;
      case O_CUR_LAST: b->set_cursor(b->last_node()); break;
      case O_CUR_PREV: b->set_cursor(b->cursor()->prev()); break;
      case O_CUR_NEXT: b->set_cursor(b->cursor() ? b->cursor()->next() : b->first_node()); break;
      case O_REMOVE: { BaseNode* n = b->cursor(); b->remove_node(n); stash.push_back(n); break; }
      case O_REMOVE_PAIR: { BaseNode* last = b->cursor(); BaseNode* first = last->prev(); b->remove_nodes(first, last); break; }
      case O_REINS_AFTER: { BaseNode* n = stash.back(); stash.pop_back(); b->add_after(n, b->cursor()); break; }
      case O_REINS_BEFORE: { BaseNode* n = stash.back(); stash.pop_back(); b->add_before(n, b->cursor()); break; }
      case O_REINS_ADD: { BaseNode* n = stash.back(); stash.pop_back(); b->add_node(n); break; }
      case O_ADD_CPNODE: {
        ConstPoolNode* n = nullptr; e = b->new_const_pool_node(Out(n));
        if (e == Error::kOk) {
          for (auto& d : g_pool_adds[st.lit.a]) { size_t off; if (e == Error::kOk) e = n->add(d.data(), d.size(), Out(off)); }
          if (e == Error::kOk && n->label_id() != uint32_t(st.lit.b)) e = Error::kInvalidState;
          if (e == Error::kOk) b->add_node(n);
        }
        break;
      }
      case O_AJMP: {
        const AJmp& j = ajmp_of(arch, st.lit.a);
        BaseCompiler* cc = static_cast<BaseCompiler*>(b);
        JumpAnnotation* ann = cc->new_jump_annotation();
        if (!ann) { e = Error::kOutOfMemory; break; }
        for (int k = 0; k < 2 && e == Error::kOk; k++) e = ann->add_label(Label(st.lit.labs[k]));
        if (e != Error::kOk) break;
        apply_pfx(b, arch, j.pfx);
        e = cc->emit_annotated_jump(ajmp_inst(arch, j), ajmp_target(arch, j, st.lit.labs), ann);
        break;
      }
      case O_GCONST: {
        const GConst& g = kGConsts[st.lit.a];
        apply_pfx(b, arch, Pfx());
        if (arch == AA64) { a64::Mem m = static_cast<a64::Compiler*>(b)->new_const(ConstPoolScope::kGlobal, g.data, g.size); e = emit_gcinst(b, arch, st.lit.a, m); }
        else { x86::Mem m = static_cast<x86::Compiler*>(b)->new_const(ConstPoolScope::kGlobal, g.data, g.size); e = emit_gcinst(b, arch, st.lit.a, m); }
        break;
      }
      case O_REMOVE_RANGE: {
        BaseNode* first = b->first_node(); for (int k = 0; k < st.lit.a && first; k++) first = first->next();
        BaseNode* last = first; for (int k = st.lit.a; k < st.lit.b && last; k++) last = last->next();
        if (!first || !last) { out.desync_at = int(i); out.desync = "the node list is shorter than the edited sequence"; return; }
        b->remove_nodes(first, last);
        break;
      }
      case O_ADD_LABELNODE: {
        LabelNode* n = nullptr; e = b->new_label_node(Out(n));
        if (e == Error::kOk && n->label_id() != uint32_t(st.lit.b)) e = Error::kInvalidState;
        if (e == Error::kOk) b->add_node(n);
        break;
      }
      default: e = exec_act(b, *out.H, arch, st.lit); break;
    }
    if (e != Error::kOk) { out.call_err = e; out.call_idx = int(i); break; }
    if (st.model_valid_after) {
      int size, cur; node_pos(b, size, cur);
      if (size != st.size_after || cur != st.cur_after) {
        out.desync_at = int(i);
        out.desync = "node list has " + std::to_string(size) + " nodes, cursor at " + std::to_string(cur) + "; the edited sequence has " + std::to_string(st.size_after) + " entries, cursor at " + std::to_string(st.cur_after) + " (-1 = before the first node)";
        return;
      }
    }
  }
  // a cyclic node list cannot be finalized (the passes of a Compiler walk it to the end): detect instead of hanging
  if (is_cyclic()) { out.cyclic = true; return; }
  out.fin = b->finalize();
  take_snap(out.H->code, out.snap);
}

// ---------------------------------------------------------------------------------------------------------
// one case
enum Verdict { V_OK, V_OK_EDIT_ONLY, V_TERMINAL, V_VIOLATION, V_NA };
struct CaseResult { Verdict v = V_OK; std::string clause, detail; int blame_type = -1; bool compiler_only = false; bool nontrivial = false; int used_len = 0; };

static std::string hist_names(int arch, const std::vector<int>& h) { std::string s; for (int i : h) { s += g_ops[arch][i].name; s += "; "; } return s; }
static std::string replay_text(int arch, int cfg, const std::vector<int>& h) {
  std::string s = std::string("harness=c08_builder\narch=") + arch_name(arch) + "\ncfg=" + std::to_string(cfg) + "\nops=";
  for (size_t i = 0; i < h.size(); i++) { if (i) s += ","; s += std::to_string(h[i]); }
  return s + "\n# " + hist_names(arch, h) + "\n";
}

static bool build_trace(int arch, const std::vector<int>& h, Model& m, std::vector<Step>& tr, Model* before_last) {
  tr.clear();
  for (size_t i = 0; i < h.size(); i++) {
    const OpDef& op = g_ops[arch][h[i]];
    if (before_last && i + 1 == h.size()) *before_last = m;
    Step st; st.opi = h[i];
    if (!m.apply(op, st)) return false;
    tr.push_back(st);
  }
  return true;
}

static CaseResult evaluate(int arch, int cfg, const std::vector<int>& hist) {
  CaseResult R; R.used_len = int(hist.size());
  Model m(arch), pre(arch); std::vector<Step> tr;
  if (!build_trace(arch, hist, m, tr, &pre)) { R.v = V_NA; return R; }
  const int n = int(hist.size());
  auto fail = [&](const std::string& clause, const std::string& detail, bool compiler) { R.v = V_VIOLATION; R.clause = clause; R.detail = detail; R.compiler_only = compiler; R.blame_type = n ? g_ops[arch][hist.back()].type : -1; return R; };

  // literal reference: the same calls in the same order (only meaningful without edit ops)
  RefOut lit; bool have_lit = !m.has_edit;
  if (have_lit) {
    std::vector<Act> acts; for (auto& st : tr) acts.push_back(st.lit);
    int fs = -1; for (auto& t : m.list) if (t.kind == A_SECTION) fs = t.a;    // section of the last node = where the code ends
    run_ref(arch, cfg, 2, acts, lit, &m, m.gpool_label != kInv ? fs : -1);
    if (lit.err != Error::kOk && lit.idx < n - 1) return evaluate(arch, cfg, std::vector<int>(hist.begin(), hist.begin() + lit.idx + 1));   // compare only up to the first error
  }
  // node-order reference: the harness's edited sequence
  RefOut lin_m, lin_p; bool have_lin_m = false, have_lin_p = false;
  auto need_lin = [&](bool of_pre) -> RefOut& {
    if (of_pre) { if (!have_lin_p) { run_ref(arch, cfg, int(m.next_label), pre.list, lin_p, &m); have_lin_p = true; } return lin_p; }
    if (!have_lin_m) { run_ref(arch, cfg, int(m.next_label), m.list, lin_m, &m); have_lin_m = true; } return lin_m;
  };
  RSnap lit_r; bool have_lit_r = false;

  const int first_which = m.compiler_only ? 1 : 0;   // new_const() / emit_annotated_jump() exist on the Compiler only
  for (int which = first_which; which < 2; which++) {
    XOut X; run_x(arch, cfg, which == 1, tr, X);
    bool comp = which == 1;
    if (X.desync_at >= 0) {
      if (X.desync_at < n - 1) return evaluate(arch, cfg, std::vector<int>(hist.begin(), hist.begin() + X.desync_at + 1));
      return fail("nodelist-differs", X.desync, comp);
    }
    if (X.cyclic) return fail("nodelist-cyclic", "after the last call the node list of the builder is cyclic (next links never reach the end): finalize() cannot serialize it / does not terminate, while the assembler handles the same calls" + std::string(have_lit ? std::string(" (assembler result: ") + errname(lit.err) + ")" : std::string()), comp);
    if (X.call_idx >= 0 && X.call_idx < n - 1) return evaluate(arch, cfg, std::vector<int>(hist.begin(), hist.begin() + X.call_idx + 1));
    std::string detail, clause;
    if (X.call_idx == n - 1 && n > 0) {
      // the builder rejected the last call itself
      const Step& last = tr.back();
      if (is_edit(last.type)) return fail("error-differs", std::string("node-list operation failed with ") + errname(X.call_err), comp);
      if (have_lit) {
        // no edits: every earlier call was accepted by the assembler, so only the rejected call may be wrong
        if (lit.err != X.call_err) return fail(std::string("error-differs:asm=") + errname(lit.err) + ":bld=" + errname(X.call_err), std::string("assembler call returns ") + errname(lit.err) + ", builder call returns " + errname(X.call_err), comp);
        if (X.fin != Error::kOk) return fail(std::string("error-differs:call=") + errname(X.call_err) + ":finalize=" + errname(X.fin), "the call was rejected like the assembler's, but finalize() of the accepted calls failed", comp);
        // (with a pending global constant pool the accepted nodes + the pool are still finalized: compared below)
        if (!m.has_section && m.gpool_label == kInv) { clause = diff_snap(lit.snap, X.snap, detail); if (!clause.empty()) return fail(clause, detail, comp); }
      } else {
        // the op issued to an assembler that is positioned like the builder's cursor
        std::vector<Act> acts(pre.list.begin(), pre.list.begin() + (pre.cur + 1)); size_t at = acts.size();
        Act t = last.lit; if (t.kind == A_INST || t.kind == A_GCINST || t.kind == A_AJMP) t.pfx = pre.pending;
        if (t.kind == A_GCINST) t.labs[0] = 0;   // all labels exist already in this reference (created up front)
        acts.push_back(t);
        RefOut er; run_ref(arch, cfg, int(m.next_label), acts, er);
        if (er.idx < 0 || er.idx >= int(at)) {
          Error ee = er.idx >= int(at) ? er.err : Error::kOk;
          if (ee != X.call_err) return fail(std::string("error-differs:asm=") + errname(ee) + ":bld=" + errname(X.call_err), std::string("assembler call returns ") + errname(ee) + ", builder call returns " + errname(X.call_err), comp);
        }
      }
      if ((m.has_edit || m.has_section || m.gpool_label != kInv) && !pre.invalid && !m.invalid) {   // (m.invalid: the rejected call may have left nodes behind, like the assembler leaves bytes)
        // what was accepted before must still finalize like the (edited) sequence without the rejected call
        RefOut& lin = need_lin(true);
        if (lin.err != X.fin) return fail(std::string("error-differs:asm=") + errname(lin.err) + ":bld=" + errname(X.fin), "a call was rejected; finalize() of the accepted nodes differs from assembling the edited sequence", comp);
        clause = diff_snap(lin.snap, X.snap, detail); if (!clause.empty()) return fail(clause, detail + " (reference: edited sequence in node order)", comp);
      }
      R.v = V_TERMINAL;
      continue;
    }
    // all calls accepted
    if (have_lit && !m.has_section) {
      if (lit.err != X.fin) return fail(std::string("error-differs:asm=") + errname(lit.err) + ":bld=" + errname(X.fin), std::string("assembler: ") + (lit.err == Error::kOk ? "no error" : errname(lit.err)) + (lit.idx >= 0 ? " at call " + std::to_string(lit.idx) : std::string()) + ", finalize(): " + errname(X.fin), comp);
      clause = diff_snap(lit.snap, X.snap, detail); if (!clause.empty()) return fail(clause, detail, comp);
    } else if (have_lit) {
      // section switches: the node order (all of section A, then all of section B) legitimately differs from the call order
      bool order_artefact = false;
      if (!m.invalid) {
        RefOut& lin = need_lin(false);
        if (lin.err != X.fin) return fail(std::string("error-differs:asm=") + errname(lin.err) + ":bld=" + errname(X.fin), "finalize() result differs from assembling the node sequence", comp);
        clause = diff_snap(lin.snap, X.snap, detail); if (!clause.empty()) return fail(clause, detail + " (reference: calls in node order)", comp);
        // an error that exists only in one of the two orders (e.g. a delta that is computed immediately in one order and
        // deferred to relocation in the other) is not a property of the builder
        if (lin.err != lit.err) { order_artefact = true; vh::ctx().n("order_dependent_error_cases")++; }
      }
      if (!order_artefact && lit.err != X.fin) return fail(std::string("error-differs:asm=") + errname(lit.err) + ":bld=" + errname(X.fin), std::string("assembler (call order): ") + errname(lit.err) + ", finalize(): " + errname(X.fin), comp);
      if (lit.err == Error::kOk && X.fin == Error::kOk) {
        if (!have_lit_r) { take_rsnap(lit.H->code, lit_r); have_lit_r = true; }
        RSnap xr; take_rsnap(X.H->code, xr);
        clause = diff_rsnap(lit_r, xr, detail); if (!clause.empty()) return fail(clause, detail + " (reference: calls in call order, after flatten/resolve/relocate)", comp);
      }
    } else {
      RefOut& lin = need_lin(false);
      if (lin.err != X.fin) return fail(std::string("error-differs:asm=") + errname(lin.err) + ":bld=" + errname(X.fin), std::string("assembling the edited sequence: ") + errname(lin.err) + (lin.idx >= 0 ? " at entry " + std::to_string(lin.idx) : std::string()) + ", finalize(): " + errname(X.fin), comp);
      clause = diff_snap(lin.snap, X.snap, detail); if (!clause.empty()) return fail(clause, detail + " (reference: edited sequence)", comp);
    }
    if (which == first_which) vh::ctx().outcomes.insert(std::string(arch_name(arch)) + ":" + errname(X.call_idx >= 0 ? X.call_err : X.fin));
    if (which == first_which) { for (auto& s : X.snap.sec) if (s.size() > s.find(':', s.find(':') + 1) + 1) R.nontrivial = true; if (X.fin != Error::kOk || X.snap.labels.find('b') != std::string::npos) R.nontrivial = true; }
  }
  if (R.v == V_TERMINAL) return R;
  if (m.invalid) { R.v = V_TERMINAL; return R; }
  if (have_lit && lit.err != Error::kOk) { R.v = V_OK_EDIT_ONLY; return R; }
  R.v = V_OK;
  return R;
}

// A case whose node list becomes empty is run in a child process first: the statement covers it (removing every node
// yields the empty program), and a crash must not take the rest of the shard with it.
static bool g_no_fork = false;
static CaseResult evaluate_guarded(int arch, int cfg, const std::vector<int>& hist) {
  Model m(arch); std::vector<Step> tr;
  if (!build_trace(arch, hist, m, tr, nullptr)) { CaseResult R; R.v = V_NA; return R; }
  if (!m.became_empty || g_no_fork) return evaluate(arch, cfg, hist);
  fflush(nullptr);
  pid_t pid = fork();
  if (pid < 0) { fprintf(stderr, "c08: fork failed\n"); exit(2); }
  if (pid == 0) {
    int fd = open("/dev/null", O_WRONLY); if (fd >= 0) { dup2(fd, 2); dup2(fd, 1); }
    CaseResult r = evaluate(arch, cfg, hist);
    _exit(r.v == V_VIOLATION ? 3 : 0);
  }
  int status = 0; waitpid(pid, &status, 0);
  if (WIFEXITED(status) && (WEXITSTATUS(status) == 0 || WEXITSTATUS(status) == 3)) return evaluate(arch, cfg, hist);
  CaseResult R; R.v = V_VIOLATION; R.clause = "crash"; R.blame_type = hist.empty() ? -1 : g_ops[arch][hist.back()].type; R.used_len = int(hist.size());
  R.detail = std::string("the process died (") + (WIFSIGNALED(status) ? "signal " + std::to_string(WTERMSIG(status)) : "exit code " + std::to_string(WEXITSTATUS(status))) + ", sanitizer report or fault) while building/finalizing a history that empties the node list";
  return R;
}

static void report(int arch, int cfg, const std::vector<int>& hist, const CaseResult& r) {
  std::vector<int> h(hist.begin(), hist.begin() + std::min<size_t>(hist.size(), size_t(r.used_len)));
  std::string key = std::string("builder:") + arch_name(arch) + ":" + r.clause + ":" + (r.blame_type >= 0 ? op_kind(r.blame_type) : "none") + (r.compiler_only ? ":compiler" : "");
  vh::Ctx& c = vh::ctx();
  std::string desc = r.detail + " :: " + arch_name(arch) + " cfg=" + kCfgNames[cfg] + " history: " + hist_names(arch, h);
  static std::map<std::string, size_t> shortest;
  auto it = shortest.find(key);
  c.violation(key, desc, replay_text(arch, cfg, h));
  if (it == shortest.end()) shortest[key] = h.size();
  else if (h.size() < it->second) {   // keep the shortest history of every class as its witness
    it->second = h.size();
    for (auto& v : c.violations) if (v.key == key) { v.desc = desc; v.replay = replay_text(arch, cfg, h); }
  }
}

// evaluates one history (with blame search: shortest violating prefix); returns verdict
static Verdict run_case(int arch, int cfg, const std::vector<int>& hist, bool prefixes_clean) {
  vh::Ctx& c = vh::ctx();
  vh::set_case(replay_text(arch, cfg, hist));
  CaseResult r = evaluate_guarded(arch, cfg, hist);
  if (r.v == V_NA) { c.n("not_applicable")++; return V_NA; }
  c.n("evaluations")++;
  if (r.nontrivial) c.n("distinct_nontrivial")++;
  if (r.v == V_VIOLATION) {
    std::vector<int> h(hist.begin(), hist.begin() + r.used_len);
    if (!prefixes_clean) {
      for (size_t p = 1; p < h.size(); p++) {
        std::vector<int> ph(h.begin(), h.begin() + p);
        CaseResult pr = evaluate_guarded(arch, cfg, ph);
        if (pr.v == V_VIOLATION) { report(arch, cfg, ph, pr); return V_VIOLATION; }
      }
    }
    report(arch, cfg, h, r);
  }
  return r.v;
}

// ---------------------------------------------------------------------------------------------------------
// exhaustive histories: prefix + every sequence over `alpha` up to `depth`; subtrees below relative depth 2 are sharded
struct Layer { long long cases = 0, pruned = 0; };
static long long g_idx2 = 0;
static void explore(int arch, int cfg, std::vector<int>& h, size_t base_len, const std::vector<int>& alpha, int depth, Layer& L) {
  vh::Ctx& c = vh::ctx();
  if (c.capped) return;
  int rel = int(h.size() - base_len);
  bool counted = rel >= 2 ? true : c.shard_i == 0;
  Verdict v;
  if (counted) { v = run_case(arch, cfg, h, rel > 0 || base_len == 0); if (v != V_NA) { L.cases++; if (rel >= 3 || depth < 3) c.sample(std::string(arch_name(arch)) + " cfg" + std::to_string(cfg) + ": " + hist_names(arch, h), 10); } }
  else { CaseResult r = evaluate_guarded(arch, cfg, h); v = r.v; }
  if ((L.cases & 255) == 0 && c.out_of_time()) return;
  if (v == V_NA || v == V_VIOLATION || v == V_TERMINAL) { if (v != V_NA) L.pruned++; return; }
  if (rel >= depth) return;
  for (int op : alpha) {
    if (v == V_OK_EDIT_ONLY && !is_edit(g_ops[arch][op].type)) continue;
    if (rel + 1 == 2 && !c.mine(g_idx2++)) continue;
    h.push_back(op); explore(arch, cfg, h, base_len, alpha, depth, L); h.pop_back();
    if (c.capped) return;
  }
}

static std::vector<int> alphabet(int arch, bool small_only, bool with_edit, bool with_emit = true, bool with_mid = false) {
  std::vector<int> v;
  for (size_t i = 0; i < g_ops[arch].size(); i++) {
    const OpDef& o = g_ops[arch][i];
    if (is_edit(o.type) ? !with_edit : !with_emit) continue;
    if (small_only && !o.small && !(with_mid && o.type == O_REMOVE_RANGE && o.c == 1)) continue;
    v.push_back(int(i));
  }
  return v;
}

// kind 3: one section with 7 nodes behind the SectionNode and the cursor in the middle (range removal around the cursor)
// kind 0: short program with two sections; 1: rich program (deviation base); 2: three sections, links cached, cursor on the
// trailing (empty) SectionNode - removing / moving that node and switching sections afterwards starts here
static std::vector<int> base_program(int arch, int kind) {
  bool a = arch == AA64;
  bool rich = kind == 1;
  std::vector<std::string> names;
  if (kind == 3) names = {a ? "mov x0,x1" : "vaddps xmm1,xmm2,xmm3", "bind(L0)", "embed(5 bytes)", "comment()", "align(code,8)", a ? "b.ne L1" : "jz L1", "embed_label(L0,0)",
                          "set_cursor(prev)", "set_cursor(prev)", "set_cursor(prev)"};
  else if (kind == 2) names = {a ? "mov x0,x1" : "vaddps xmm1,xmm2,xmm3", "section(1)", "embed(5 bytes)", "section(2)", "section(0)", "section(2)"};
  else if (rich) names = {a ? "mov x0,x1" : "lock inc dword[zbx]", "bind(L0)", a ? "b.ne L1" : "jz L1", a ? "tbl v1.16b,{v2,v3,v4,v5},v6.16b" : "vaddps zmm1{k1}{z},zmm2,zmm3", "section(1)", "embed_label(L0,0)",
                     "embed_label_delta(L0,L1,4)", "section(0)", "align(code,16)", "bind(L1)", a ? "b L0" : "jmp L0", "L2=new_label()", "embed_const_pool(L2,pool2)"};
  else names = {a ? "add x0,x1,x2,lsl 3" : "vblendvps xmm1,xmm2,xmm3,xmm4", "section(1)", "embed(5 bytes)", "section(0)", "bind(L0)", a ? "cbz x1,L0" : "jmp L0"};
  std::vector<int> h; for (auto& nme : names) h.push_back(find_op(arch, nme));
  return h;
}

int main(int argc, char** argv) {
  vh::parse_args(argc, argv);
  vh::Ctx& c = vh::ctx();
  build_pools(); build_x86(AX64); build_x86(AX86); build_a64();
  for (int a = 0; a < 3; a++) build_ops(a);

  g_no_fork = !c.opt("nofork").empty();
  if (!c.opt("list").empty()) {   // self description: every instruction instantiation and what the assembler makes of it
    for (int arch = 0; arch < 3; arch++) for (size_t i = 0; i < g_ops[arch].size(); i++) {
      std::vector<int> h = {int(i)}; Model m(arch); std::vector<Step> tr; std::string res = "n/a";
      if (build_trace(arch, h, m, tr, nullptr) && !m.has_edit) { RefOut r; std::vector<Act> acts = {tr[0].lit}; run_ref(arch, 0, 2, acts, r); res = std::string(errname(r.err)) + " " + sec_str(r.snap.sec[0]); }
      printf("%s %3zu %-50s %s\n", arch_name(arch), i, g_ops[arch][i].name.c_str(), res.c_str());
    }
    return 0;
  }
  if (c.replaying()) {
    int arch = AX64, cfg = 0; std::vector<int> h;
    for (auto& line : vh::split(c.replay_text, '\n')) {
      if (line.rfind("arch=", 0) == 0) arch = line.substr(5) == "x64" ? AX64 : line.substr(5) == "x86" ? AX86 : AA64;
      if (line.rfind("cfg=", 0) == 0) cfg = atoi(line.c_str() + 4);
      if (line.rfind("ops=", 0) == 0) for (auto& x : vh::split(line.substr(4), ',')) if (!x.empty()) h.push_back(atoi(x.c_str()));
    }
    for (int i : h) if (i < 0 || i >= int(g_ops[arch].size())) { fprintf(stderr, "c08: bad op index in replay\n"); return 2; }
    run_case(arch, cfg, h, false);
    return vh::finish();
  }

  bool th = c.thorough();
  std::string bounds;
  auto optint = [&](const char* k, int d) { return c.opt(k).empty() ? d : atoi(c.opt(k).c_str()); };
  // quick: every op of the full alphabet in every pair; triples only over the reduced alphabet.  thorough: full triples, reduced quadruples.
  int d_full = optint("dfull", th ? 3 : 2), d_small = optint("dsmall", th ? 4 : 3), d_edit = optint("dedit", th ? 4 : 3), d_cfg = optint("dcfg", th ? 2 : 1),
      d_cfg_small = optint("dcfgsmall", th ? 3 : 2), d_range = optint("drange", th ? 4 : 3), dev_k = optint("devk", th ? 2 : 1);
  long long total_cases = 0;
  std::string sizes;
  for (int arch = 0; arch < 3; arch++) {
    if (!c.opt("arch").empty() && c.opt("arch") != arch_name(arch)) continue;
    std::vector<int> full = alphabet(arch, false, true), small = alphabet(arch, true, true, true, th), small_emit = alphabet(arch, true, false);
    std::vector<int> h;
    // layer 1: every history over the full alphabet (emitter calls + node-list edits)
    { Layer L; h.clear(); explore(arch, 0, h, 0, full, d_full, L); total_cases += L.cases;
      bounds += std::string(arch_name(arch)) + ": all histories to depth " + std::to_string(d_full) + " over " + std::to_string(full.size()) + " ops; "; }
    // layer 1b (thorough): deeper over the reduced alphabet
    if (d_small > d_full) { Layer L; h.clear(); explore(arch, 0, h, 0, small, d_small, L); total_cases += L.cases;
      bounds += "depth " + std::to_string(d_small) + " over " + std::to_string(small.size()) + " ops; "; }
    // layer 2: node-list edits on top of prefix programs with sections, labels and forward/backward references
    for (int kind = 0; kind < 3; kind++) {
      Layer L; h = base_program(arch, kind); size_t bl = h.size();
      int d = kind == 1 ? d_edit - 1 : d_edit;
      explore(arch, 0, h, bl, small, d, L); total_cases += L.cases;
      bounds += std::string("prefix program of ") + std::to_string(bl) + " ops + all histories to depth " + std::to_string(d) + " over " + std::to_string(small.size()) + " ops; ";
    }
    // layer 2b: remove_nodes over ranges of 3 and 4 nodes with the cursor on every node of the range / next to it, then emission
    {
      std::vector<int> ra;
      for (size_t i = 0; i < g_ops[arch].size(); i++) { int t = g_ops[arch][i].type; if (t == O_REMOVE_RANGE || t == O_CUR_FIRST || t == O_CUR_LAST || t == O_CUR_PREV || t == O_CUR_NEXT || t == O_REMOVE) ra.push_back(int(i)); }
      for (const char* nm : {"bind(L1)", "embed(5 bytes)", "section(1)"}) ra.push_back(find_op(arch, nm));
      ra.push_back(find_op(arch, arch == AA64 ? "ret x30" : "ret"));
      for (int kind : {0, 2, 3}) {
        Layer L; h = base_program(arch, kind); size_t bl = h.size();
        explore(arch, 0, h, bl, ra, d_range, L); total_cases += L.cases;
      }
      bounds += "3 prefix programs + all histories to depth " + std::to_string(d_range) + " over " + std::to_string(ra.size()) + " ops (range removal, cursor moves, emission); ";
    }
    // layer 3: emitter configurations (encoding options, validation, logger)
    for (int cfg = 1; cfg < kNumCfg; cfg++) {
      Layer L; h.clear(); explore(arch, cfg, h, 0, full, d_cfg, L); total_cases += L.cases;
      if (d_cfg_small > d_cfg) { Layer L2; h.clear(); explore(arch, cfg, h, 0, small, d_cfg_small, L2); total_cases += L2.cases; }
    }
    bounds += "configurations 1.." + std::to_string(kNumCfg - 1) + ": depth " + std::to_string(d_cfg) + " over the full alphabet" + (d_cfg_small > d_cfg ? ", depth " + std::to_string(d_cfg_small) + " over the reduced alphabet" : std::string()) + "; ";
    // layer 4: deviation-bounded: a rich base program with <= k ops deleted / replaced / preceded by an inserted op
    {
      std::vector<int> base = base_program(arch, 1);
      long long idx = 0;
      for (int cfg = 0; cfg < kNumCfg; cfg++) {
        int k = cfg == 0 ? dev_k : 1;
        const std::vector<int>& al = (k >= 2 || (cfg != 0 && !th) ? small : full);
        int N = int(al.size());
        auto st = xplor::explore_deviations(k, [&](xplor::Chooser& ch) -> bool {
          std::vector<int> hh;
          for (size_t p = 0; p <= base.size(); p++) {
            int choice = ch.choose(p < base.size() ? 2 + 2 * N : 1 + N);
            // 0 keep; 1 delete; 2..N+1 replace by al[i]; N+2.. insert al[i] before   (after the end: 0 nothing, 1..N append)
            if (p == base.size()) { if (choice > 0) hh.push_back(al[choice - 1]); break; }
            if (choice == 0) hh.push_back(base[p]);
            else if (choice == 1) {}
            else if (choice < 2 + N) hh.push_back(al[choice - 2]);
            else { hh.push_back(al[choice - 2 - N]); hh.push_back(base[p]); }
          }
          if (!c.mine(idx++)) return true;
          if ((idx & 127) == 0 && c.out_of_time()) return false;
          Verdict v = run_case(arch, cfg, hh, false);
          if (v != V_NA) { total_cases++; c.n("deviation_cases")++; }
          return true;
        });
        if (cfg == 0) bounds += "base program of " + std::to_string(base.size()) + " ops with <=" + std::to_string(k) + " deviations (delete/replace/insert, " + std::to_string(N) + " ops)" + (st.bound_completed < 0 ? " (capped)" : "") + "; ";
      }
    }
  }
  (void)total_cases;
  c.n("states") = c.n("evaluations");
  c.n("transitions") = c.n("evaluations");
  c.n("traces") = c.n("evaluations") * 2;
  c.strs["bound"] = bounds;
  c.strs["rule"] = "every history (each op = one emitter call or one node-list edit) is executed on a fresh x86/a64 Builder and Compiler + finalize() and compared with an Assembler "
                   "receiving the same calls (no edits) / the harness's own edited sequence (edits, section switches): first error, section bytes, labels, relocations, unresolved fixups; "
                   "histories are not extended past the first error; every history is a distinct program (distinct_nontrivial counts those that produce bytes, bound labels or an error)";
  c.assumptions.push_back("instruction instantiations, label pool (3 slots), 3 sections, data/alignment values limited to the listed alphabet; Compiler gets physical registers only and no FuncNode");
  c.assumptions.push_back("with section switches the node order differs from the call order by design: against the call-order assembler only the final relocated image, labels and errors are compared; the strict comparison uses the node order");
  return vh::finish();
}
