// C05 - register allocation preserves the meaning of Compiler programs.
//
// The harness holds every program as its own small IR (values, ops, labels, branches, jump tables, calls).
//   REFERENCE   = direct interpretation of that IR over an unbounded set of named values (never looks at asmjit).
//   UNDER TEST  = the same IR built with x86::Compiler, run_passes() + serialize (== finalize()), JitRuntime::add,
//                 native execution on a fixed input set; compared: return value, memory buffer, external-call log.
// Programs are ENUMERATED: shape x register-file size K x pressure n x argument mode x value mode x slot fillings
// (alphabet entry x operand pattern).  No randomness, no clocks in decisions.
#include "vh.h"
#include <asmjit/core.h>
#include <asmjit/x86.h>
#include <asmjit/a64.h>
#include "msim.h"
#include <setjmp.h>
#include <sys/time.h>
#include <unordered_set>
#include <array>

using namespace asmjit;

// =========================================================================================================
// IR
// =========================================================================================================
enum Kind : uint8_t { KG = 0, KX = 1, KY = 2, KZ = 3, KK = 4, KW = 5,   // gp native (64-bit; pointer), xmm, ymm, zmm, k-mask, gp32 (UInt32)
                      K8S = 6, K8U = 7, K16S = 8, K16U = 9, K32S = 10, K64S = 11 };   // typed narrow / signed GP virtual registers (argument marshalling)
static inline bool is_gp_kind(Kind k) { return k == KG || k >= KW; }
static inline int gp_bits(Kind k) { switch (k) { case K8S: case K8U: return 8; case K16S: case K16U: return 16; case KW: case K32S: return 32; default: return 64; } }
static inline bool gp_signed(Kind k) { return k == K8S || k == K16S || k == K32S || k == K64S; }
static inline uint64_t bits_mask(int bits) { return bits >= 64 ? ~0ull : ((1ull << bits) - 1); }
static int lanes_of(Kind k) { return k == KX ? 2 : k == KY ? 4 : k == KZ ? 8 : 1; }

#define C05_OPS(X) \
  X(MOV) X(MOV32) X(MOVI) X(ADD) X(SUB) X(XOR) X(AND) X(OR) X(ADD32) X(ADDW) X(SUB32) X(XOR32) X(AND32) X(OR32) \
  X(ADDI) X(SUBI) X(XORI) X(ANDI) X(ORI) X(ADDI32) X(XORI32) X(ANDI32) X(ORI32) \
  X(LEA) X(SHL) X(SHR) X(SAR) X(SHL32) X(SHLI) X(SHRI) X(SARI) X(ROLI) X(RORI) X(SHLI32) \
  X(IMUL2) X(IMUL3) X(MUL) X(IMUL1) X(CQO) X(IDIV) X(CDQ) X(IDIV32) X(CMPXCHG) X(CMPXCHGM) \
  X(MOVZX8) X(MOVZX16) X(MOVSX8) X(MOVSX16) X(MOVSXD) X(MOV8) X(MOV16) X(MOVI8) X(MOVHI8) X(MOVZXHI) X(ADD8) \
  X(INC) X(DEC) X(NEG) X(NOT) X(INC32) X(LOAD) X(STORE) X(ADDM) X(ADDST) X(BTSET) X(SETLT) X(CMOVLT) X(XCHG) \
  X(STKST) X(STKLD) X(STKADD) X(ADDC) X(MADD) X(ADDADC) X(SUBSBB) \
  X(VMOV_VG) X(VMOV_GV) X(VMOVD_VG) X(VMOVD_GV) X(VMOV) X(PADDD) X(PADDQ) X(PSUBD) X(PXOR) X(PCMPEQD) \
  X(VPADDD) X(VPADDQ) X(VPXOR) X(VPSUBQ) X(VPTERNLOG) X(PEXTRQ) X(PINSRQ) X(PSHUFD) X(PUNPCKLQDQ) X(VLOAD) X(VSTORE) X(VPADDQM) X(VBCAST) \
  X(KMOV_KG) X(KMOV_GK) X(KMOV) X(KAND) X(KOR) X(KXOR) X(KXNOR) X(KANDN) X(KNOT) X(KADD) X(KSHL) X(KMOVW_GK) X(KMOVD_GK) X(KMOVB_GK) X(KMOVW_KG) X(KMOVD_KG) X(KGATHER) X(KSCATTER) \
  X(LABEL) X(JMP) X(JZ) X(JNZ) X(DECJNZ) X(DECJG) X(JT) X(CALL) X(RET)

enum Op : int {
#define X(n) O_##n,
  C05_OPS(X)
#undef X
  O__COUNT
};
static const char* const kOpName[] = {
#define X(n) #n,
  C05_OPS(X)
#undef X
};

struct Ins {
  Op op; int a = -1, b = -1, c = -1; int64_t imm = 0; int sz = 0; int lbl = -1; int fn = -1;
  std::vector<int> lbls;   // jump table targets
  std::vector<int> ann;    // order of the labels in the jump annotation (empty: same as the table)
  std::vector<int> args;   // call arguments: value index, or <= -1000 : immediate (-1000 - k) => constant k
};

struct Prog {
  std::vector<Kind> kinds; std::vector<std::string> names;
  std::vector<Ins> code; int nlabels = 0;
  int nargs = 6; std::vector<int> arg_val;   // value bound to each function argument (or -1)
  int K = 0, Kx = 0, Kk = 0;                 // size of the shrunk GP / vector / mask file (0 = full)
  bool avx = false, avx512 = false; int nstk = 0;
  bool w32 = false;                          // data values are 32-bit virtual registers (kind KW); calls/return use 32-bit types
  int stk_align = 8;                         // alignment of the new_stack() variable
  std::vector<int> arg_tid;                  // declared type of each function argument: 0 = natural type of the bound register, 16 = Int16 (narrower than the register)
  std::vector<int> call10_ptype;             // marshalling call (fn 10): declared parameter types (bits, negative = signed) of its 10 parameters
  std::vector<uint64_t> call10_mask;         // ... and the bits of each parameter slot that are defined (compared)
  int newval(Kind k, const std::string& n) { kinds.push_back(k); names.push_back(n); return int(kinds.size()) - 1; }
};

static const size_t kBufQ = 768;            // memory buffer: qwords [0..7] input, [8..] output
static const size_t kBufBytes = kBufQ * 8;

static std::string ins_str(const Prog& p, const Ins& i) {
  auto v = [&](int x) { return x >= 0 ? p.names[x] : std::string("_"); };
  char b[64];
  std::string s = kOpName[i.op];
  for (char& ch : s) ch = char(tolower(ch));
  switch (i.op) {
    case O_LABEL: snprintf(b, sizeof b, "L%d:", i.lbl); return b;
    case O_JMP: snprintf(b, sizeof b, "jmp L%d", i.lbl); return b;
    case O_JZ: case O_JNZ: case O_DECJNZ: case O_DECJG: snprintf(b, sizeof b, " %s,L%d", v(i.a).c_str(), i.lbl); return s + b;
    case O_JT: { s += " " + v(i.a) + ",{"; for (size_t k = 0; k < i.lbls.size(); k++) s += (k ? ",L" : "L") + std::to_string(i.lbls[k]); return s + "}"; }
    case O_CALL: { s += " f" + std::to_string(i.fn) + "("; for (size_t k = 0; k < i.args.size(); k++) { s += k ? "," : ""; s += i.args[k] == -999 ? "#" + std::to_string((long long)i.imm) : i.args[k] <= -1000 ? "#" + std::to_string(-1000 - i.args[k]) : v(i.args[k]); } return s + ")->" + v(i.a); }
    default: break;
  }
  if (i.a >= 0) s += " " + v(i.a);
  if (i.b >= 0) s += "," + v(i.b);
  if (i.c >= 0) s += "," + v(i.c);
  if (i.imm || i.op == O_MOVI || i.op == O_ADDI || i.op == O_SUBI || i.op == O_XORI || i.op == O_ANDI || i.op == O_ORI || i.op == O_ANDI32 || i.op == O_SHLI || i.op == O_ROLI) { snprintf(b, sizeof b, ",#%lld", (long long)i.imm); s += b; }
  if (i.sz) { snprintf(b, sizeof b, "/%d", i.sz); s += b; }
  return s;
}

static std::string prog_str(const Prog& p, size_t from = 0, size_t to = ~size_t(0)) {
  std::string s;
  for (size_t k = from; k < p.code.size() && k < to; k++) { if (!s.empty()) s += "; "; s += ins_str(p, p.code[k]); }
  return s;
}

// =========================================================================================================
// external functions called by the generated code: log the arguments, return a function of them, and
// trash every caller-saved register (so that a value wrongly kept in a volatile register is lost)
// =========================================================================================================
struct CallRec { int fn; std::vector<uint64_t> args; bool operator==(const CallRec& o) const { return fn == o.fn && args == o.args; } };
static std::vector<CallRec> g_calls;
static bool g_has_avx512 = false;

static uint64_t callee_value(int fn, const uint64_t* a, int n) {
  uint64_t r = 0x9E3779B97F4A7C15ull * uint64_t(fn + 1);
  for (int i = 0; i < n; i++) { r ^= a[i]; r *= 0x100000001B3ull; r = (r << 13) | (r >> 51); }
  return r;
}

__attribute__((noinline)) static void trash_sse() {
  __asm__ volatile(
    "mov $0xDEAD0001DEAD0001, %%rcx\n mov %%rcx, %%rdx\n mov %%rcx, %%rsi\n mov %%rcx, %%rdi\n mov %%rcx, %%r8\n mov %%rcx, %%r9\n mov %%rcx, %%r10\n mov %%rcx, %%r11\n"
    "pcmpeqd %%xmm0,%%xmm0\n pcmpeqd %%xmm1,%%xmm1\n pcmpeqd %%xmm2,%%xmm2\n pcmpeqd %%xmm3,%%xmm3\n pcmpeqd %%xmm4,%%xmm4\n pcmpeqd %%xmm5,%%xmm5\n pcmpeqd %%xmm6,%%xmm6\n pcmpeqd %%xmm7,%%xmm7\n"
    "pcmpeqd %%xmm8,%%xmm8\n pcmpeqd %%xmm9,%%xmm9\n pcmpeqd %%xmm10,%%xmm10\n pcmpeqd %%xmm11,%%xmm11\n pcmpeqd %%xmm12,%%xmm12\n pcmpeqd %%xmm13,%%xmm13\n pcmpeqd %%xmm14,%%xmm14\n pcmpeqd %%xmm15,%%xmm15\n"
    ::: "rcx", "rdx", "rsi", "rdi", "r8", "r9", "r10", "r11", "xmm0", "xmm1", "xmm2", "xmm3", "xmm4", "xmm5", "xmm6", "xmm7", "xmm8", "xmm9", "xmm10", "xmm11", "xmm12", "xmm13", "xmm14", "xmm15", "cc");
}
__attribute__((noinline, target("avx512f,avx512bw,avx512dq,avx512vl"))) static void trash_avx512() {
  __asm__ volatile(
    "vpternlogd $0xFF,%%zmm0,%%zmm0,%%zmm0\n vmovdqa64 %%zmm0,%%zmm1\n vmovdqa64 %%zmm0,%%zmm2\n vmovdqa64 %%zmm0,%%zmm3\n vmovdqa64 %%zmm0,%%zmm4\n vmovdqa64 %%zmm0,%%zmm5\n vmovdqa64 %%zmm0,%%zmm6\n vmovdqa64 %%zmm0,%%zmm7\n"
    "vmovdqa64 %%zmm0,%%zmm8\n vmovdqa64 %%zmm0,%%zmm9\n vmovdqa64 %%zmm0,%%zmm10\n vmovdqa64 %%zmm0,%%zmm11\n vmovdqa64 %%zmm0,%%zmm12\n vmovdqa64 %%zmm0,%%zmm13\n vmovdqa64 %%zmm0,%%zmm14\n vmovdqa64 %%zmm0,%%zmm15\n"
    "vmovdqa64 %%zmm0,%%zmm16\n vmovdqa64 %%zmm0,%%zmm17\n vmovdqa64 %%zmm0,%%zmm18\n vmovdqa64 %%zmm0,%%zmm19\n vmovdqa64 %%zmm0,%%zmm20\n vmovdqa64 %%zmm0,%%zmm21\n vmovdqa64 %%zmm0,%%zmm22\n vmovdqa64 %%zmm0,%%zmm23\n"
    "vmovdqa64 %%zmm0,%%zmm24\n vmovdqa64 %%zmm0,%%zmm25\n vmovdqa64 %%zmm0,%%zmm26\n vmovdqa64 %%zmm0,%%zmm27\n vmovdqa64 %%zmm0,%%zmm28\n vmovdqa64 %%zmm0,%%zmm29\n vmovdqa64 %%zmm0,%%zmm30\n vmovdqa64 %%zmm0,%%zmm31\n"
    "kxnorq %%k1,%%k1,%%k1\n kxnorq %%k2,%%k2,%%k2\n kxnorq %%k3,%%k3,%%k3\n kxnorq %%k4,%%k4,%%k4\n kxnorq %%k5,%%k5,%%k5\n kxnorq %%k6,%%k6,%%k6\n kxnorq %%k7,%%k7,%%k7\n kxnorq %%k0,%%k0,%%k0\n"
    ::: "xmm0", "xmm1", "xmm2", "xmm3", "xmm4", "xmm5", "xmm6", "xmm7", "xmm8", "xmm9", "xmm10", "xmm11", "xmm12", "xmm13", "xmm14", "xmm15",
        "xmm16", "xmm17", "xmm18", "xmm19", "xmm20", "xmm21", "xmm22", "xmm23", "xmm24", "xmm25", "xmm26", "xmm27", "xmm28", "xmm29", "xmm30", "xmm31",
        "k0", "k1", "k2", "k3", "k4", "k5", "k6", "k7");
}
static inline void trash_volatile() { if (g_has_avx512) trash_avx512(); trash_sse(); }

extern "C" uint64_t c05_callee2(uint64_t a0, uint64_t a1) {
  uint64_t a[2] = {a0, a1};
  if (g_calls.size() < 4096) g_calls.push_back(CallRec{2, std::vector<uint64_t>(a, a + 2)});
  volatile uint64_t r = callee_value(2, a, 2);
  trash_volatile();
  return r;
}
extern "C" uint64_t c05_callee8(uint64_t a0, uint64_t a1, uint64_t a2, uint64_t a3, uint64_t a4, uint64_t a5, uint64_t a6, uint64_t a7) {
  uint64_t a[8] = {a0, a1, a2, a3, a4, a5, a6, a7};
  if (g_calls.size() < 4096) g_calls.push_back(CallRec{8, std::vector<uint64_t>(a, a + 8)});
  volatile uint64_t r = callee_value(8, a, 8);
  trash_volatile();
  return r;
}
extern "C" uint64_t c05_callee0() {
  if (g_calls.size() < 4096) g_calls.push_back(CallRec{0, {}});
  volatile uint64_t r = callee_value(0, nullptr, 0);
  trash_volatile();
  return r;
}
extern "C" uint32_t c05_callee2w(uint32_t a0, uint32_t a1) {
  uint64_t a[2] = {a0, a1};
  if (g_calls.size() < 4096) g_calls.push_back(CallRec{2, std::vector<uint64_t>(a, a + 2)});
  volatile uint32_t r = uint32_t(callee_value(2, a, 2));
  trash_volatile();
  return r;
}
extern "C" uint32_t c05_callee8w(uint32_t a0, uint32_t a1, uint32_t a2, uint32_t a3, uint32_t a4, uint32_t a5, uint32_t a6, uint32_t a7) {
  uint64_t a[8] = {a0, a1, a2, a3, a4, a5, a6, a7};
  if (g_calls.size() < 4096) g_calls.push_back(CallRec{8, std::vector<uint64_t>(a, a + 8)});
  volatile uint32_t r = uint32_t(callee_value(8, a, 8));
  trash_volatile();
  return r;
}
// marshalling probe: ten raw 64-bit slots; the declared parameter types (set by the harness before the run) decide which bits are defined
static uint64_t g_call10_mask[10];
extern "C" uint64_t c05_callee10(uint64_t a0, uint64_t a1, uint64_t a2, uint64_t a3, uint64_t a4, uint64_t a5, uint64_t a6, uint64_t a7, uint64_t a8, uint64_t a9) {
  uint64_t a[10] = {a0, a1, a2, a3, a4, a5, a6, a7, a8, a9};
  for (int i = 0; i < 10; i++) a[i] &= g_call10_mask[i];
  if (g_calls.size() < 4096) g_calls.push_back(CallRec{10, std::vector<uint64_t>(a, a + 10)});
  volatile uint64_t r = callee_value(10, a, 10);
  trash_volatile();
  return r;
}
static void* fn_ptr(int fn, bool w32) { return fn == 10 ? (void*)c05_callee10 : fn == 0 ? (void*)c05_callee0 : fn == 2 ? (w32 ? (void*)c05_callee2w : (void*)c05_callee2) : (w32 ? (void*)c05_callee8w : (void*)c05_callee8); }

// =========================================================================================================
// REFERENCE INTERPRETER (the oracle): evaluates the IR directly.
// =========================================================================================================
struct Val { uint64_t q[8] = {0, 0, 0, 0, 0, 0, 0, 0}; };
struct Input { uint64_t sel = 0, cnt = 0; uint64_t a[13] = {}; uint64_t m[8] = {}; };
struct Outcome { uint64_t ret = 0; std::vector<uint8_t> mem; std::vector<CallRec> calls; bool ok = true; std::string why; };

static inline int64_t sx(uint64_t v, int bits) { uint64_t m = 1ull << (bits - 1); v &= (bits == 64 ? ~0ull : ((1ull << bits) - 1)); return int64_t((v ^ m) - m); }

static void interp(const Prog& p, const Input& in, uint64_t mem_ptr, Outcome& out) {
  std::vector<Val> v(p.kinds.size());
  std::vector<uint64_t> stk(size_t(p.nstk) + 1, 0);
  out.mem.assign(kBufBytes, 0);
  for (int i = 0; i < 8; i++) memcpy(&out.mem[size_t(i) * 8], &in.m[i], 8);
  // argument binding: arg0 = mem, arg1 = sel, arg2 = cnt, arg3.. = data
  for (int i = 0; i < p.nargs; i++) {
    int vi = p.arg_val[size_t(i)]; if (vi < 0) continue;
    v[size_t(vi)].q[0] = i == 0 ? mem_ptr : i == 1 ? in.sel : i == 2 ? in.cnt : in.a[i - 3];
    // an int16_t argument bound to a wider register: asmjit's conversion rule (emit_arg_move) sign extends when source AND destination
    // types are signed, and zero extends otherwise
    if (size_t(i) < p.arg_tid.size() && p.arg_tid[size_t(i)] == 16) v[size_t(vi)].q[0] = gp_signed(p.kinds[size_t(vi)]) ? uint64_t(sx(v[size_t(vi)].q[0], 16)) : (v[size_t(vi)].q[0] & 0xFFFF);
    v[size_t(vi)].q[0] &= bits_mask(gp_bits(p.kinds[size_t(vi)]));
  }
  std::vector<int> lpos(size_t(p.nlabels), -1);
  for (size_t k = 0; k < p.code.size(); k++) if (p.code[k].op == O_LABEL) lpos[size_t(p.code[k].lbl)] = int(k);
  auto fail = [&](const std::string& w) { out.ok = false; out.why = w; };
  auto rd = [&](int64_t off, int n) -> uint64_t { if (off < 0 || size_t(off) + size_t(n) > kBufBytes) { fail("reference: memory access out of the buffer"); return 0; } uint64_t r = 0; memcpy(&r, &out.mem[size_t(off)], size_t(n)); return r; };
  auto wr = [&](int64_t off, uint64_t x, int n) { if (off < 0 || size_t(off) + size_t(n) > kBufBytes) { fail("reference: memory access out of the buffer"); return; } memcpy(&out.mem[size_t(off)], &x, size_t(n)); };
  long steps = 0;
  for (size_t pc = 0; pc < p.code.size() && out.ok; pc++) {
    if (++steps > 200000) { fail("reference: step limit"); break; }
    const Ins& I = p.code[pc];
    uint64_t* A = I.a >= 0 ? v[size_t(I.a)].q : nullptr;
    const uint64_t* Bq = I.b >= 0 ? v[size_t(I.b)].q : nullptr;
    const uint64_t* Cq = I.c >= 0 ? v[size_t(I.c)].q : nullptr;
    uint64_t b = Bq ? Bq[0] : 0, c = Cq ? Cq[0] : 0;
    uint64_t imm = uint64_t(I.imm);
    int L = I.a >= 0 ? lanes_of(p.kinds[size_t(I.a)]) : 1;
    auto k32 = [&](int x) { return x >= 0 && is_gp_kind(p.kinds[size_t(x)]) && gp_bits(p.kinds[size_t(x)]) == 32; };
    // "equalized" operations take all their register operands at one width: 32 bits as soon as one of them is a 32-bit virtual register
    // (the 32-bit view of a 64-bit register is used; a full write through that view zero extends the 64-bit register)
    const bool equalized = I.op == O_MOV || I.op == O_ADD || I.op == O_SUB || I.op == O_XOR || I.op == O_AND || I.op == O_OR || I.op == O_IMUL2 || I.op == O_XCHG || I.op == O_LEA || I.op == O_IMUL3 || I.op == O_MUL || I.op == O_IMUL1;
    const int W = (k32(I.a) || (I.a < 0 && k32(I.b)) || (equalized && (k32(I.b) || k32(I.c)))) ? 32 : 64;   // operation width
    if (equalized && W == 32) { b &= 0xFFFFFFFFull; c &= 0xFFFFFFFFull; }
    const uint64_t WM = W == 32 ? 0xFFFFFFFFull : ~0ull; const int WB = W / 8;
    auto m32 = [](uint64_t x) { return x & 0xFFFFFFFFull; };
    auto lane32 = [](uint64_t x, uint64_t y, int op) { uint32_t xl = uint32_t(x), xh = uint32_t(x >> 32), yl = uint32_t(y), yh = uint32_t(y >> 32), rl, rh;
      if (op == 0) { rl = xl + yl; rh = xh + yh; } else if (op == 1) { rl = xl - yl; rh = xh - yh; } else { rl = xl == yl ? ~0u : 0u; rh = xh == yh ? ~0u : 0u; }
      return uint64_t(rl) | (uint64_t(rh) << 32); };
    switch (I.op) {
      case O_MOV: A[0] = b; break;
      case O_MOV32: A[0] = m32(b); break;
      case O_MOVI: A[0] = imm; break;
      case O_ADD: A[0] += b; break;
      case O_SUB: A[0] -= b; break;
      case O_XOR: A[0] ^= b; break;
      case O_AND: A[0] &= b; break;
      case O_OR: A[0] |= b; break;
      case O_ADD32: A[0] = m32(A[0] + b); break;
      case O_ADDW: A[0] += b; break;   // 64-bit add whose source is the 64-bit view of a (zero extended) 32-bit virtual register
      case O_SUB32: A[0] = m32(A[0] - b); break;
      case O_XOR32: A[0] = m32(A[0] ^ b); break;
      case O_AND32: A[0] = m32(A[0] & b); break;
      case O_OR32: A[0] = m32(A[0] | b); break;
      case O_ADDI: A[0] += imm; break;
      case O_SUBI: A[0] -= imm; break;
      case O_XORI: A[0] ^= imm; break;
      case O_ANDI: A[0] &= imm; break;
      case O_ORI: A[0] |= imm; break;
      case O_ADDI32: A[0] = m32(A[0] + imm); break;
      case O_XORI32: A[0] = m32(A[0] ^ imm); break;
      case O_ANDI32: A[0] = m32(A[0] & imm); break;
      case O_ORI32: A[0] = m32(A[0] | imm); break;
      case O_LEA: A[0] = b + (Cq ? (c << I.sz) : 0) + imm; break;
      case O_SHL: A[0] = A[0] << (b & (W - 1)); break;
      case O_SHR: A[0] = A[0] >> (b & (W - 1)); break;
      case O_SAR: A[0] = uint64_t(sx(A[0], W) >> (b & (W - 1))); break;
      case O_SHL32: A[0] = m32(m32(A[0]) << (b & 31)); break;
      case O_SHLI: A[0] = A[0] << (imm & (W - 1)); break;
      case O_SHRI: A[0] = A[0] >> (imm & (W - 1)); break;
      case O_SARI: A[0] = uint64_t(sx(A[0], W) >> (imm & (W - 1))); break;
      case O_ROLI: { unsigned s = imm & (W - 1); A[0] = s ? ((A[0] << s) | (A[0] >> (W - s))) & WM : A[0]; break; }
      case O_RORI: { unsigned s = imm & (W - 1); A[0] = s ? ((A[0] >> s) | (A[0] << (W - s))) & WM : A[0]; break; }
      case O_SHLI32: A[0] = m32(m32(A[0]) << (imm & 31)); break;
      case O_IMUL2: A[0] *= b; break;
      case O_IMUL3: A[0] = b * imm; break;
      case O_MUL: { unsigned __int128 r = (unsigned __int128)b * c; uint64_t lo = uint64_t(r) & WM, hi = uint64_t(r >> W) & WM; v[size_t(I.b)].q[0] = lo; A[0] = hi; break; }   // a=hi(out) b=lo(in/out) c=src ; hi written last (as rdx)
      case O_IMUL1: { __int128 r = (__int128)sx(b, W) * sx(c, W); v[size_t(I.b)].q[0] = uint64_t(r) & WM; A[0] = uint64_t((unsigned __int128)r >> W) & WM; break; }
      case O_CQO: A[0] = (b >> 63) ? ~0ull : 0; break;
      case O_IDIV: { __int128 dv = (__int128)(((unsigned __int128)A[0] << 64) | b); int64_t d = int64_t(c); if (d == 0) { fail("reference: division by zero"); break; } __int128 q = dv / d, r = dv % d; if (q != (__int128)int64_t(q)) { fail("reference: quotient overflow"); break; } v[size_t(I.b)].q[0] = uint64_t(int64_t(q)); A[0] = uint64_t(int64_t(r)); break; }
      case O_CDQ: A[0] = (b >> 31) & 1 ? 0xFFFFFFFFull : 0; break;
      case O_IDIV32: { int64_t dv = int64_t((m32(A[0]) << 32) | m32(b)); int32_t d = int32_t(c); if (d == 0) { fail("reference: division by zero"); break; } int64_t q = dv / d, r = dv % d; if (q != int64_t(int32_t(q))) { fail("reference: quotient overflow"); break; } v[size_t(I.b)].q[0] = m32(uint64_t(q)); A[0] = m32(uint64_t(r)); break; }
      case O_CMPXCHG: { uint64_t acc = c, dst = A[0]; if (acc == dst) A[0] = b; else v[size_t(I.c)].q[0] = dst; break; }   // a=dst b=src c=accumulator
      case O_CMPXCHGM: { uint64_t dst = rd(I.imm, WB); if (c == dst) wr(I.imm, b, WB); else v[size_t(I.c)].q[0] = dst; break; }
      case O_MOVZX8: A[0] = b & 0xFF; break;
      case O_MOVZX16: A[0] = b & 0xFFFF; break;
      case O_MOVSX8: A[0] = uint64_t(sx(b, 8)); break;
      case O_MOVSX16: A[0] = uint64_t(sx(b, 16)); break;
      case O_MOVSXD: A[0] = uint64_t(sx(b, 32)); break;
      case O_MOV8: A[0] = (A[0] & ~0xFFull) | (b & 0xFF); break;
      case O_MOV16: A[0] = (A[0] & ~0xFFFFull) | (b & 0xFFFF); break;
      case O_MOVI8: A[0] = (A[0] & ~0xFFull) | (imm & 0xFF); break;
      case O_MOVHI8: A[0] = (A[0] & ~0xFF00ull) | ((b & 0xFF) << 8); break;
      case O_MOVZXHI: A[0] = (b >> 8) & 0xFF; break;
      case O_ADD8: A[0] = (A[0] & ~0xFFull) | ((A[0] + b) & 0xFF); break;
      case O_INC: A[0] += 1; break;
      case O_DEC: A[0] -= 1; break;
      case O_NEG: A[0] = 0 - A[0]; break;
      case O_NOT: A[0] = ~A[0]; break;
      case O_INC32: A[0] = m32(A[0] + 1); break;
      case O_LOAD: A[0] = rd(I.imm, I.sz); break;
      case O_STORE: wr(I.imm, A[0], I.sz); break;
      case O_ADDM: A[0] += rd(I.imm, WB); break;
      case O_ADDST: wr(I.imm, rd(I.imm, WB) + A[0], WB); break;
      case O_BTSET: A[0] = (A[0] & ~0xFFull) | ((b >> (c & (W - 1))) & 1); break;
      case O_SETLT: A[0] = (A[0] & ~0xFFull) | (sx(b, W) < sx(c, W) ? 1 : 0); break;
      case O_CMOVLT: if (sx(b, W) < sx(c, W)) A[0] = b; break;
      case O_XCHG: { uint64_t t = A[0]; A[0] = b; v[size_t(I.b)].q[0] = t; break; }
      case O_STKST: stk[size_t(I.imm)] = A[0]; break;
      case O_STKLD: A[0] = stk[size_t(I.imm)]; break;
      case O_STKADD: A[0] += stk[size_t(I.imm)]; break;
      case O_ADDC: A[0] += imm; break;
      case O_MADD: A[0] = b * c + A[0]; break;
      // carry chains: add b,c ; adc a,imm   /   sub b,c ; sbb a,imm   (the second instruction consumes the carry / borrow of the first)
      case O_ADDADC: { uint64_t x = v[size_t(I.b)].q[0] & WM, y = v[size_t(I.c)].q[0] & WM, r = (x + y) & WM; uint64_t cy = r < x ? 1 : 0; v[size_t(I.b)].q[0] = r; A[0] = (A[0] + imm + cy) & WM; break; }
      case O_SUBSBB: { uint64_t x = v[size_t(I.b)].q[0] & WM, y = v[size_t(I.c)].q[0] & WM, r = (x - y) & WM; uint64_t bw = x < y ? 1 : 0; v[size_t(I.b)].q[0] = r; A[0] = (A[0] - imm - bw) & WM; break; }
      // ---- vectors: lanes of 64 bits, L = lanes of the destination kind ----
      case O_VMOV_VG: for (int k = 0; k < 8; k++) A[k] = 0; A[0] = b; break;                 // (v)movq v, r64 : zero-extends
      case O_VMOV_GV: A[0] = b; break;
      case O_VMOVD_VG: for (int k = 0; k < 8; k++) A[k] = 0; A[0] = m32(b); break;
      case O_VMOVD_GV: A[0] = m32(b); break;
      case O_VMOV: for (int k = 0; k < L; k++) A[k] = Bq[k]; break;
      case O_PADDD: for (int k = 0; k < L; k++) A[k] = lane32(A[k], Bq[k], 0); break;
      case O_PADDQ: for (int k = 0; k < L; k++) A[k] += Bq[k]; break;
      case O_PSUBD: for (int k = 0; k < L; k++) A[k] = lane32(A[k], Bq[k], 1); break;
      case O_PXOR: for (int k = 0; k < L; k++) A[k] ^= Bq[k]; break;
      case O_PCMPEQD: for (int k = 0; k < L; k++) A[k] = lane32(A[k], Bq[k], 2); break;
      case O_VPADDD: { uint64_t t[8]; for (int k = 0; k < L; k++) t[k] = lane32(Bq[k], Cq[k], 0); for (int k = 0; k < L; k++) A[k] = t[k]; break; }
      case O_VPADDQ: { uint64_t t[8]; for (int k = 0; k < L; k++) t[k] = Bq[k] + Cq[k]; for (int k = 0; k < L; k++) A[k] = t[k]; break; }
      case O_VPXOR: { uint64_t t[8]; for (int k = 0; k < L; k++) t[k] = Bq[k] ^ Cq[k]; for (int k = 0; k < L; k++) A[k] = t[k]; break; }
      case O_VPSUBQ: { uint64_t t[8]; for (int k = 0; k < L; k++) t[k] = Bq[k] - Cq[k]; for (int k = 0; k < L; k++) A[k] = t[k]; break; }
      case O_VPTERNLOG: for (int k = 0; k < L; k++) A[k] = (imm & 0xFF) == 0xFF ? ~0ull : 0; break;  // only predicates 0x00 / 0xFF are generated
      case O_PEXTRQ: A[0] = Bq[1]; break;
      case O_PINSRQ: A[1] = b; break;
      case O_PSHUFD: { uint64_t lo = Bq[0], hi = Bq[1]; A[0] = hi; A[1] = lo; break; }       // imm 0x4E: swap the qword halves
      case O_PUNPCKLQDQ: A[1] = Bq[0]; break;
      case O_VLOAD: for (int k = 0; k < L; k++) A[k] = rd(I.imm + 8 * k, 8); break;
      case O_VSTORE: for (int k = 0; k < L; k++) wr(I.imm + 8 * k, A[k], 8); break;
      case O_VPADDQM: for (int k = 0; k < L; k++) A[k] += rd(I.imm + 8 * k, 8); break;
      case O_VBCAST: { uint64_t x = Bq[0]; for (int k = 0; k < L; k++) A[k] = x; break; }
      // ---- masks ----
      case O_KMOV_KG: case O_KMOV_GK: case O_KMOV: A[0] = b; break;
      case O_KAND: A[0] = b & c; break;
      case O_KOR: A[0] = b | c; break;
      case O_KXOR: A[0] = b ^ c; break;
      case O_KXNOR: A[0] = ~(b ^ c); break;
      case O_KANDN: A[0] = ~b & c; break;
      case O_KNOT: A[0] = ~b; break;
      case O_KADD: A[0] = b + c; break;
      case O_KSHL: A[0] = (imm & 0xFF) > 63 ? 0 : b << (imm & 0xFF); break;
      case O_KMOVW_GK: case O_KMOVW_KG: A[0] = b & 0xFFFFu; break;
      case O_KMOVD_GK: case O_KMOVD_KG: A[0] = b & 0xFFFFFFFFull; break;
      case O_KMOVB_GK: A[0] = b & 0xFFu; break;
      // vpgatherdd zmm{k}, [mem + imm + zmm(0)*4]: every selected lane receives the dword at mem+imm; the instruction CLEARS the mask
      // vpscatterdd [mem + imm + zmm(0)*4]{k}, zmm(broadcast of the low dword): stores if any of the 16 lanes is selected; CLEARS the mask
      case O_KSCATTER: if (b & 0xFFFFu) wr(I.imm, A[0] & 0xFFFFFFFFull, 4); v[size_t(I.b)].q[0] = 0; break;
      case O_KGATHER: A[0] = rd(I.imm, 4) != 0 ? (b & 0xFFFFu) : 0; v[size_t(I.b)].q[0] = 0; break;
      // ---- control ----
      case O_LABEL: break;
      case O_JMP: pc = size_t(lpos[size_t(I.lbl)]); break;
      case O_JZ: if (A[0] == 0) pc = size_t(lpos[size_t(I.lbl)]); break;
      case O_JNZ: if (A[0] != 0) pc = size_t(lpos[size_t(I.lbl)]); break;
      case O_DECJNZ: A[0] = (A[0] - 1) & WM; if (A[0] != 0) pc = size_t(lpos[size_t(I.lbl)]); break;
      case O_DECJG: A[0] = (A[0] - 1) & WM; if (sx(A[0], W) > 0) pc = size_t(lpos[size_t(I.lbl)]); break;
      case O_JT: if (A[0] >= I.lbls.size()) { fail("reference: jump table index out of range"); break; } pc = size_t(lpos[size_t(I.lbls[size_t(A[0])])]); break;
      case O_CALL: {
        CallRec r; r.fn = I.fn;
        for (size_t ai = 0; ai < I.args.size(); ai++) {
          int x = I.args[ai];
          uint64_t val = x == -999 ? uint64_t(I.imm) : x <= -1000 ? uint64_t(-1000 - x) : v[size_t(x)].q[0];
          if (I.fn == 10 && x == -999) val &= p.call10_mask[ai];   // an immediate is converted to the parameter's type
          if (I.fn == 10 && x >= 0) {   // marshalling: the value is extended according to the signedness of the SOURCE register, the callee sees the parameter's width
            // same conversion rule as for function arguments: sign extension when both the register type and the parameter type are signed
            Kind sk = p.kinds[size_t(x)]; int pt = p.call10_ptype[ai];
            if (gp_signed(sk) && pt < 0) val = uint64_t(sx(val, gp_bits(sk)));
            val &= p.call10_mask[ai];
          }
          r.args.push_back(val);
        }
        uint64_t rv = callee_value(I.fn, r.args.data(), int(r.args.size())) & (p.w32 ? 0xFFFFFFFFull : ~0ull);
        out.calls.push_back(r);
        if (A) A[0] = rv;
        break;
      }
      case O_RET: out.ret = A[0] & WM; return;
      default: fail("reference: unknown op"); break;
    }
    // a full write at 32 bits zero extends a 64-bit destination
    if (equalized && W == 32) { if (I.a >= 0) v[size_t(I.a)].q[0] &= 0xFFFFFFFFull; if ((I.op == O_MUL || I.op == O_IMUL1 || I.op == O_XCHG) && I.b >= 0) v[size_t(I.b)].q[0] &= 0xFFFFFFFFull; }
    // narrow virtual registers hold their width
    for (int x : {I.a, I.b, I.c}) if (x >= 0 && is_gp_kind(p.kinds[size_t(x)])) v[size_t(x)].q[0] &= bits_mask(gp_bits(p.kinds[size_t(x)]));
  }
  if (out.ok) fail("reference: fell off the end");
}

// =========================================================================================================
// x86-64 EMITTER: builds the IR with x86::Compiler
// =========================================================================================================
struct EmitX86 {
  x86::Compiler& cc; const Prog& p;
  std::vector<x86::Gp> g; std::vector<x86::Vec> vx; std::vector<x86::KReg> kr;
  std::vector<Label> labels;
  x86::Mem stk;
  struct Table { Label tbl; std::vector<int> lbls; };
  std::vector<Table> tables;
  Error err = Error::kOk; int err_at = -1; int cur = -1;
  FuncNode* fn = nullptr;
  bool is32 = false;                       // 32-bit x86 target
  std::vector<std::pair<uint64_t, int>> call_targets;   // (address token, fn) for the simulated legs

  EmitX86(x86::Compiler& c, const Prog& pr) : cc(c), p(pr) {}
  void E(Error e) { if (e != Error::kOk && err == Error::kOk) { err = e; err_at = cur; } }
  x86::Gp G(int i) { return g[size_t(i)]; }
  x86::Vec V(int i) { return vx[size_t(i)]; }
  x86::KReg Kr(int i) { return kr[size_t(i)]; }
  x86::Mem M(int64_t off, int sz) { x86::Mem m = x86::ptr(g[0], int32_t(off)); m.set_size(uint32_t(sz)); return m; }
  x86::Mem S(int64_t slot, int sz) { x86::Mem m = stk.clone_adjusted(slot * 8); m.set_size(uint32_t(sz)); return m; }
  int WB(int v) const { return is32 ? 4 : gp_bits(p.kinds[size_t(v)]) / 8; }
  TypeId arg_type(int v) const { return v >= 0 && p.kinds[size_t(v)] == KG ? TypeId::kUIntPtr : (v >= 0 && gp_bits(p.kinds[size_t(v)]) == 32) ? TypeId::kUInt32 : (p.w32 || is32) ? TypeId::kUInt32 : TypeId::kUInt64; }
  // operand views of an "equalized" operation: 32-bit views as soon as one operand is a 32-bit virtual register
  bool any32(const Ins& I) const { for (int x : {I.a, I.b, I.c}) if (x >= 0 && is_gp_kind(p.kinds[size_t(x)]) && gp_bits(p.kinds[size_t(x)]) == 32) return true; return false; }
  x86::Gp Q(int v, bool m32) { return m32 ? g[size_t(v)].r32() : g[size_t(v)]; }
  bool has_addw = false;   // the program reads 64-bit views of 32-bit virtual registers

  void build() {
    is32 = cc.arch() == Arch::kX86;
    FuncSignature sig; sig.set_ret((p.w32 || is32) ? TypeId::kUInt32 : TypeId::kUInt64); sig.set_call_conv_id(CallConvId::kCDecl);
    for (int i = 0; i < p.nargs; i++) sig.add_arg(size_t(i) < p.arg_tid.size() && p.arg_tid[size_t(i)] == 16 ? TypeId::kInt16 : arg_type(p.arg_val[size_t(i)]));
    fn = cc.add_func(sig);
    if (!fn) { E(Error::kOutOfMemory); return; }
    if (p.K) {
      static const uint32_t sets[] = {0, 0, 0x3 /*rax rcx*/, 0x7 /*+rdx*/, 0xF /*+rbx*/, 0x4F /*+rsi*/, 0xCF /*+rdi*/};
      fn->frame().add_unavailable_regs(RegGroup::kGp, 0xFFFFu & ~sets[p.K]);
    }
    if (p.Kx) fn->frame().add_unavailable_regs(RegGroup::kVec, 0xFFFFFFFFu & ~((1u << p.Kx) - 1u));
    if (p.Kk) fn->frame().add_unavailable_regs(RegGroup::kMask, 0xFFu & ~(((1u << p.Kk) - 1u) << 1));
    if (p.avx) fn->frame().set_avx_enabled();
    if (p.avx512) fn->frame().set_avx512_enabled();
    g.resize(p.kinds.size()); vx.resize(p.kinds.size()); kr.resize(p.kinds.size());
    for (size_t i = 0; i < p.kinds.size(); i++) {
      const char* nm = p.names[i].c_str();
      switch (p.kinds[i]) {
        case KG: g[i] = is32 ? cc.new_gp32("%s", nm) : cc.new_gp64("%s", nm); break;
        case KW: g[i] = cc.new_gp32("%s", nm); break;
        case K8S: g[i] = cc.new_reg<x86::Gp>(TypeId::kInt8, "%s", nm); break;
        case K8U: g[i] = cc.new_reg<x86::Gp>(TypeId::kUInt8, "%s", nm); break;
        case K16S: g[i] = cc.new_reg<x86::Gp>(TypeId::kInt16, "%s", nm); break;
        case K16U: g[i] = cc.new_reg<x86::Gp>(TypeId::kUInt16, "%s", nm); break;
        case K32S: g[i] = cc.new_reg<x86::Gp>(TypeId::kInt32, "%s", nm); break;
        case K64S: g[i] = cc.new_reg<x86::Gp>(TypeId::kInt64, "%s", nm); break;
        case KX: vx[i] = cc.new_xmm("%s", nm); break;
        case KY: vx[i] = cc.new_ymm("%s", nm); break;
        case KZ: vx[i] = cc.new_zmm("%s", nm); break;
        case KK: kr[i] = cc.new_kq("%s", nm); break;
      }
    }
    for (int i = 0; i < p.nargs; i++) if (p.arg_val[size_t(i)] >= 0) fn->set_arg(size_t(i), g[size_t(p.arg_val[size_t(i)])]);
    // a UInt32 argument arrives with an unspecified upper half: programs that read 64-bit views of 32-bit values (ADDW) normalise it first
    { for (const Ins& q : p.code) if (q.op == O_ADDW) has_addw = true;
      if (has_addw) for (int i = 0; i < p.nargs; i++) { int vi = p.arg_val[size_t(i)]; if (vi >= 0 && is_gp_kind(p.kinds[size_t(vi)]) && gp_bits(p.kinds[size_t(vi)]) == 32) E(cc.or_(g[size_t(vi)].r32(), 0)); } }
    for (int i = 0; i < p.nlabels; i++) labels.push_back(cc.new_label());
    if (p.nstk) stk = cc.new_stack(std::max<uint32_t>(uint32_t(p.nstk) * 8, uint32_t(p.stk_align)), uint32_t(p.stk_align));
    for (size_t k = 0; k < p.code.size(); k++) { cur = int(k); ins(p.code[k]); }
    E(cc.end_func());
    for (auto& t : tables) { E(cc.bind(t.tbl)); for (int l : t.lbls) E(cc.embed_label_delta(labels[size_t(l)], t.tbl, 4)); }
  }

  void ins(const Ins& I) {
    int a = I.a, b = I.b, c = I.c; int64_t imm = I.imm;
    Kind ka = a >= 0 ? p.kinds[size_t(a)] : KG;
    bool vex = ka != KX && (ka == KY || ka == KZ);
    switch (I.op) {
      case O_MOV: { bool m = any32(I); E(cc.mov(Q(a, m), Q(b, m))); break; }
      case O_MOV32: E(cc.mov(G(a).r32(), G(b).r32())); break;
      case O_MOVI: E(cc.mov(G(a), imm)); break;
      case O_ADD: { bool m = any32(I); E(cc.add(Q(a, m), Q(b, m))); break; }
      case O_SUB: { bool m = any32(I); E(cc.sub(Q(a, m), Q(b, m))); break; }
      case O_XOR: { bool m = any32(I); E(cc.xor_(Q(a, m), Q(b, m))); break; }
      case O_AND: { bool m = any32(I); E(cc.and_(Q(a, m), Q(b, m))); break; }
      case O_OR: { bool m = any32(I); E(cc.or_(Q(a, m), Q(b, m))); break; }
      case O_ADD32: E(cc.add(G(a).r32(), G(b).r32())); break;
      case O_ADDW: E(cc.add(G(a).r64(), G(b).r64())); break;
      case O_SUB32: E(cc.sub(G(a).r32(), G(b).r32())); break;
      case O_XOR32: E(cc.xor_(G(a).r32(), G(b).r32())); break;
      case O_AND32: E(cc.and_(G(a).r32(), G(b).r32())); break;
      case O_OR32: E(cc.or_(G(a).r32(), G(b).r32())); break;
      case O_ADDI: E(cc.add(G(a), imm)); break;
      case O_SUBI: E(cc.sub(G(a), imm)); break;
      case O_XORI: E(cc.xor_(G(a), imm)); break;
      case O_ANDI: E(cc.and_(G(a), imm)); break;
      case O_ORI: E(cc.or_(G(a), imm)); break;
      case O_ADDI32: E(cc.add(G(a).r32(), int32_t(imm))); break;
      case O_XORI32: E(cc.xor_(G(a).r32(), int32_t(imm))); break;
      case O_ANDI32: E(cc.and_(G(a).r32(), int32_t(imm))); break;
      case O_ORI32: E(cc.or_(G(a).r32(), int32_t(imm))); break;
      case O_LEA: { bool m = any32(I); if (c >= 0) E(cc.lea(Q(a, m), x86::ptr(Q(b, m), Q(c, m), uint32_t(I.sz), int32_t(imm)))); else E(cc.lea(Q(a, m), x86::ptr(Q(b, m), int32_t(imm)))); break; }
      case O_SHL: E(cc.shl(G(a), G(b).r8())); break;
      case O_SHR: E(cc.shr(G(a), G(b).r8())); break;
      case O_SAR: E(cc.sar(G(a), G(b).r8())); break;
      case O_SHL32: E(cc.shl(G(a).r32(), G(b).r8())); break;
      case O_SHLI: E(cc.shl(G(a), imm)); break;
      case O_SHRI: E(cc.shr(G(a), imm)); break;
      case O_SARI: E(cc.sar(G(a), imm)); break;
      case O_ROLI: E(cc.rol(G(a), imm)); break;
      case O_RORI: E(cc.ror(G(a), imm)); break;
      case O_SHLI32: E(cc.shl(G(a).r32(), imm)); break;
      case O_IMUL2: { bool m = any32(I); E(cc.imul(Q(a, m), Q(b, m))); break; }
      case O_IMUL3: { bool m = any32(I); E(cc.imul(Q(a, m), Q(b, m), imm)); break; }
      case O_MUL: { bool m = any32(I); E(cc.mul(Q(a, m), Q(b, m), Q(c, m))); break; }
      case O_IMUL1: { bool m = any32(I); E(cc.imul(Q(a, m), Q(b, m), Q(c, m))); break; }
      case O_CQO: E(cc.cqo(G(a), G(b))); break;
      case O_IDIV: E(cc.idiv(G(a), G(b), G(c))); break;
      case O_CDQ: E(cc.cdq(G(a).r32(), G(b).r32())); break;
      case O_IDIV32: E(cc.idiv(G(a).r32(), G(b).r32(), G(c).r32())); break;
      case O_CMPXCHG: E(cc.cmpxchg(G(a), G(b), G(c))); break;
      case O_CMPXCHGM: E(cc.cmpxchg(M(imm, WB(b)), G(b), G(c))); break;
      case O_MOVZX8: E(cc.movzx(G(a).r32(), G(b).r8())); break;
      case O_MOVZX16: E(cc.movzx(G(a).r32(), G(b).r16())); break;
      case O_MOVSX8: E(cc.movsx(G(a), G(b).r8())); break;
      case O_MOVSX16: E(cc.movsx(G(a), G(b).r16())); break;
      case O_MOVSXD: E(cc.movsxd(G(a), G(b).r32())); break;
      case O_MOV8: E(cc.mov(G(a).r8(), G(b).r8())); break;
      case O_MOV16: E(cc.mov(G(a).r16(), G(b).r16())); break;
      case O_MOVI8: E(cc.mov(G(a).r8(), imm)); break;
      case O_MOVHI8: E(cc.mov(G(a).r8_hi(), G(b).r8())); break;
      case O_MOVZXHI: E(cc.movzx(G(a).r32(), G(b).r8_hi())); break;
      case O_ADD8: E(cc.add(G(a).r8(), G(b).r8())); break;
      case O_INC: E(cc.inc(G(a))); break;
      case O_DEC: E(cc.dec(G(a))); break;
      case O_NEG: E(cc.neg(G(a))); break;
      case O_NOT: E(cc.not_(G(a))); break;
      case O_INC32: E(cc.inc(G(a).r32())); break;
      case O_LOAD: if (gp_bits(p.kinds[size_t(a)]) < 32) E(cc.mov(G(a), M(imm, I.sz))); else if (I.sz == 8) E(cc.mov(G(a).r64(), M(imm, 8))); else if (I.sz == 4) E(cc.mov(G(a).r32(), M(imm, 4))); else E(cc.movzx(G(a).r32(), M(imm, I.sz))); break;
      case O_STORE: E(cc.mov(M(imm, I.sz), I.sz == 8 ? G(a).r64() : I.sz == 4 ? G(a).r32() : I.sz == 2 ? G(a).r16() : G(a).r8())); break;
      case O_ADDM: E(cc.add(G(a), M(imm, WB(a)))); break;
      case O_ADDST: E(cc.add(M(imm, WB(a)), G(a))); break;
      case O_BTSET: E(cc.bt(G(b), G(c))); E(cc.setc(G(a).r8())); break;
      case O_SETLT: E(cc.cmp(G(b), G(c))); E(cc.setl(G(a).r8())); break;
      case O_CMOVLT: E(cc.cmp(G(b), G(c))); E(cc.cmovl(G(a), G(b))); break;
      case O_XCHG: { bool m = any32(I); E(cc.xchg(Q(a, m), Q(b, m))); break; }
      case O_STKST: E(cc.mov(S(imm, WB(a)), G(a))); break;
      case O_STKLD: E(cc.mov(G(a), S(imm, WB(a)))); break;
      case O_STKADD: E(cc.add(G(a), S(imm, WB(a)))); break;
      case O_ADDADC: E(cc.add(G(b), G(c))); E(cc.adc(G(a), imm)); break;
      case O_SUBSBB: E(cc.sub(G(b), G(c))); E(cc.sbb(G(a), imm)); break;
      case O_ADDC: { ConstPoolScope sc = (imm & 1) ? ConstPoolScope::kGlobal : ConstPoolScope::kLocal; x86::Mem m = WB(a) == 4 ? cc.new_uint32_const(sc, uint32_t(imm)) : cc.new_uint64_const(sc, uint64_t(imm)); E(cc.add(G(a), m)); break; }
      // vectors
      case O_VMOV_VG: if (p.avx) E(cc.vmovq(V(a).xmm(), G(b))); else E(cc.movq(V(a).xmm(), G(b))); break;
      case O_VMOV_GV: if (p.avx) E(cc.vmovq(G(a), V(b).xmm())); else E(cc.movq(G(a), V(b).xmm())); break;
      case O_VMOVD_VG: if (p.avx) E(cc.vmovd(V(a).xmm(), G(b).r32())); else E(cc.movd(V(a).xmm(), G(b).r32())); break;
      case O_VMOVD_GV: if (p.avx) E(cc.vmovd(G(a).r32(), V(b).xmm())); else E(cc.movd(G(a).r32(), V(b).xmm())); break;
      case O_VMOV: if (vex) E(cc.vmovdqa(V(a), V(b))); else E(cc.movdqa(V(a), V(b))); break;
      case O_PADDD: if (vex) E(cc.vpaddd(V(a), V(a), V(b))); else E(cc.paddd(V(a), V(b))); break;
      case O_PADDQ: if (vex) E(cc.vpaddq(V(a), V(a), V(b))); else E(cc.paddq(V(a), V(b))); break;
      case O_PSUBD: if (vex) E(cc.vpsubd(V(a), V(a), V(b))); else E(cc.psubd(V(a), V(b))); break;
      case O_PXOR: if (vex) E(cc.vpxor(V(a), V(a), V(b))); else E(cc.pxor(V(a), V(b))); break;
      case O_PCMPEQD: if (vex) E(cc.vpcmpeqd(V(a), V(a), V(b))); else E(cc.pcmpeqd(V(a), V(b))); break;
      case O_VPADDD: E(cc.vpaddd(V(a), V(b), V(c))); break;
      case O_VPADDQ: E(cc.vpaddq(V(a), V(b), V(c))); break;
      case O_VPXOR: if (ka == KZ) E(cc.vpxord(V(a), V(b), V(c))); else E(cc.vpxor(V(a), V(b), V(c))); break;
      case O_VPSUBQ: E(cc.vpsubq(V(a), V(b), V(c))); break;
      case O_VPTERNLOG: E(cc.vpternlogd(V(a), V(a), V(a), imm)); break;
      case O_PEXTRQ: if (p.avx) E(cc.vpextrq(G(a), V(b).xmm(), 1)); else E(cc.pextrq(G(a), V(b).xmm(), 1)); break;
      case O_PINSRQ: if (p.avx) E(cc.vpinsrq(V(a).xmm(), V(a).xmm(), G(b), 1)); else E(cc.pinsrq(V(a).xmm(), G(b), 1)); break;
      case O_PSHUFD: E(cc.pshufd(V(a), V(b), 0x4E)); break;
      case O_PUNPCKLQDQ: E(cc.punpcklqdq(V(a), V(b))); break;
      case O_VLOAD: if (ka == KX && !p.avx) E(cc.movdqu(V(a), M(imm, 16))); else if (ka == KZ) E(cc.vmovdqu64(V(a), M(imm, 64))); else E(cc.vmovdqu(V(a), M(imm, ka == KX ? 16 : 32))); break;
      case O_VSTORE: if (ka == KX && !p.avx) E(cc.movdqu(M(imm, 16), V(a))); else if (ka == KZ) E(cc.vmovdqu64(M(imm, 64), V(a))); else E(cc.vmovdqu(M(imm, ka == KX ? 16 : 32), V(a))); break;
      case O_VPADDQM: E(cc.vpaddq(V(a), V(a), M(imm, ka == KX ? 16 : ka == KY ? 32 : 64))); break;
      case O_VBCAST: E(cc.vpbroadcastq(V(a), V(b).xmm())); break;
      // masks
      case O_KMOV_KG: E(cc.kmovq(Kr(a), G(b))); break;
      case O_KMOV_GK: E(cc.kmovq(G(a), Kr(b))); break;
      case O_KMOV: E(cc.kmovq(Kr(a), Kr(b))); break;
      case O_KAND: E(cc.kandq(Kr(a), Kr(b), Kr(c))); break;
      case O_KOR: E(cc.korq(Kr(a), Kr(b), Kr(c))); break;
      case O_KXOR: E(cc.kxorq(Kr(a), Kr(b), Kr(c))); break;
      case O_KXNOR: E(cc.kxnorq(Kr(a), Kr(b), Kr(c))); break;
      case O_KANDN: E(cc.kandnq(Kr(a), Kr(b), Kr(c))); break;
      case O_KNOT: E(cc.knotq(Kr(a), Kr(b))); break;
      case O_KADD: E(cc.kaddq(Kr(a), Kr(b), Kr(c))); break;
      case O_KSHL: E(cc.kshiftlq(Kr(a), Kr(b), imm)); break;
      case O_KMOVW_GK: E(cc.kmovw(G(a).r32(), Kr(b))); break;
      case O_KMOVD_GK: E(cc.kmovd(G(a).r32(), Kr(b))); break;
      case O_KMOVB_GK: E(cc.kmovb(G(a).r32(), Kr(b))); break;
      case O_KMOVW_KG: E(cc.kmovw(Kr(a), G(b).r32())); break;
      case O_KMOVD_KG: E(cc.kmovd(Kr(a), G(b).r32())); break;
      case O_KSCATTER: {
        x86::Vec idx = cc.new_zmm("s_idx"), src = cc.new_zmm("s_src");
        E(cc.vpxord(idx, idx, idx)); E(cc.vpbroadcastd(src, G(a).r32()));
        x86::Mem m = M(imm, 4); m.set_index(idx); m.set_shift(2);
        E(cc.k(Kr(b)).vpscatterdd(m, src));
        E(cc.vpaddd(src, src, idx));
        break;
      }
      case O_KGATHER: {
        x86::Vec idx = cc.new_zmm("g_idx"), dst = cc.new_zmm("g_dst"); x86::KReg kt = cc.new_kq("g_k");
        E(cc.vpxord(idx, idx, idx)); E(cc.vpxord(dst, dst, dst));
        x86::Mem m = M(imm, 4); m.set_index(idx); m.set_shift(2);
        E(cc.k(Kr(b)).vpgatherdd(dst, m));
        E(cc.vpaddd(dst, dst, idx));                                             // keeps the index alive: destination and index must differ
        E(cc.vptestmd(kt, dst, dst));
        E(cc.kmovd(G(a).r32(), kt));
        break;
      }
      // control
      case O_LABEL: E(cc.bind(labels[size_t(I.lbl)])); break;
      case O_JMP: E(cc.jmp(labels[size_t(I.lbl)])); break;
      case O_JZ: E(cc.test(G(a), G(a))); E(cc.jz(labels[size_t(I.lbl)])); break;
      case O_JNZ: E(cc.test(G(a), G(a))); E(cc.jnz(labels[size_t(I.lbl)])); break;
      case O_DECJNZ: E(cc.sub(G(a), 1)); E(cc.jnz(labels[size_t(I.lbl)])); break;
      case O_DECJG: E(cc.sub(G(a), 1)); E(cc.jg(labels[size_t(I.lbl)])); break;
      case O_JT: {
        Table t; t.tbl = cc.new_label(); t.lbls = I.lbls;
        x86::Gp off = cc.new_gp64("jt_off"), tgt = cc.new_gp64("jt_tgt"), idx = G(a);
        if (gp_bits(p.kinds[size_t(a)]) == 32) { x86::Gp z = cc.new_gp32("jt_idx"); E(cc.mov(z, G(a))); idx = z.r64(); }   // zero-extend a 32-bit selector
        E(cc.lea(off, x86::ptr(t.tbl)));
        E(cc.movsxd(tgt, x86::dword_ptr(off, idx, 2)));
        E(cc.add(tgt, off));
        JumpAnnotation* ann = cc.new_jump_annotation();
        if (!ann) { E(Error::kOutOfMemory); break; }
        for (int l : (I.ann.empty() ? I.lbls : I.ann)) E(ann->add_label(labels[size_t(l)]));
        E(cc.jmp(tgt, ann));
        tables.push_back(t);
        break;
      }
      case O_CALL: {
        bool w = p.w32 || is32;
        FuncSignature sig; sig.set_ret(w ? TypeId::kUInt32 : TypeId::kUInt64); sig.set_call_conv_id(CallConvId::kCDecl);
        for (size_t k = 0; k < I.args.size(); k++) {
          if (I.fn == 10) { int pt = p.call10_ptype[k]; sig.add_arg(pt == -32 ? TypeId::kInt32 : pt == 32 ? TypeId::kUInt32 : pt == -64 ? TypeId::kInt64 : TypeId::kUInt64); }
          else sig.add_arg(w ? TypeId::kUInt32 : TypeId::kUInt64);
        }
        InvokeNode* inv = nullptr;
        uint64_t target = native ? uint64_t(uintptr_t(fn_ptr(I.fn, p.w32))) : (0x00F00000ull + 0x100 * call_targets.size());
        call_targets.push_back(std::make_pair(target, I.fn));
        E(cc.invoke(Out(inv), Imm(int64_t(target)), sig));
        if (!inv) break;
        for (size_t k = 0; k < I.args.size(); k++) { if (I.args[k] == -999) inv->set_arg(k, Imm(I.imm)); else if (I.args[k] <= -1000) inv->set_arg(k, Imm(int64_t(-1000 - I.args[k]))); else inv->set_arg(k, G(I.args[k])); }
        if (a >= 0) inv->set_ret(0, G(a));
        // the upper half of a returned value bound to a 32-bit virtual register is unspecified: normalise it where 64-bit views are read (ADDW)
        if (a >= 0 && has_addw && is_gp_kind(p.kinds[size_t(a)]) && gp_bits(p.kinds[size_t(a)]) == 32) E(cc.or_(G(a).r32(), 0));
        break;
      }
      case O_RET: E(cc.ret(G(a))); break;
      default: E(Error::kInvalidState); break;
    }
  }
  bool native = true;
};

// =========================================================================================================
// NATIVE EXECUTION
// =========================================================================================================
extern "C" { uint64_t c05_saved_out = 0, c05_saved_rsp = 0; uint64_t c05_tramp(void* fn, const uint64_t* args, uint64_t* saved); }
__asm__(R"(
.text
.globl c05_tramp
.type c05_tramp,@function
c05_tramp:
  pushq %rbp
  pushq %rbx
  pushq %r12
  pushq %r13
  pushq %r14
  pushq %r15
  subq $8, %rsp
  movq %rdx, c05_saved_out(%rip)
  movq %rdi, %r10
  pushq 120(%rsi)
  pushq 112(%rsi)
  pushq 104(%rsi)
  pushq 96(%rsi)
  pushq 88(%rsi)
  pushq 80(%rsi)
  pushq 72(%rsi)
  pushq 64(%rsi)
  pushq 56(%rsi)
  pushq 48(%rsi)
  movq %rsp, c05_saved_rsp(%rip)
  movq %rsi, %r11
  leaq -16384(%rsp), %rdi
  movl $2048, %ecx
  movabsq $0xA5A5A5A5A5A5A5A5, %rax
  cld
  rep stosq
  movq %r11, %rsi
  movabsq $0x1111111111111111, %rbx
  movabsq $0x2222222222222222, %rbp
  movabsq $0x3333333333333333, %r12
  movabsq $0x4444444444444444, %r13
  movabsq $0x5555555555555555, %r14
  movabsq $0x6666666666666666, %r15
  movabsq $0xAAAAAAAAAAAAAAAA, %rax
  movq %rax, %r11
  movq 0(%rsi), %rdi
  movq 16(%rsi), %rdx
  movq 24(%rsi), %rcx
  movq 32(%rsi), %r8
  movq 40(%rsi), %r9
  movq 8(%rsi), %rsi
  callq *%r10
  movq c05_saved_out(%rip), %r10
  movq %rbx, 0(%r10)
  movq %rbp, 8(%r10)
  movq %r12, 16(%r10)
  movq %r13, 24(%r10)
  movq %r14, 32(%r10)
  movq %r15, 40(%r10)
  movq %rsp, 48(%r10)
  movq c05_saved_rsp(%rip), %rsp
  addq $88, %rsp
  popq %r15
  popq %r14
  popq %r13
  popq %r12
  popq %rbx
  popq %rbp
  retq
.size c05_tramp, .-c05_tramp
)");

static sigjmp_buf g_jb;
static volatile sig_atomic_t g_in_native = 0, g_sig = 0;
static volatile unsigned long g_epoch = 0, g_tick_epoch = ~0ul; static volatile int g_same_ticks = 0;

static void on_signal(int sig) {
  if (sig == SIGVTALRM) {
    if (!g_in_native) { g_tick_epoch = ~0ul; return; }
    if (g_tick_epoch == g_epoch) { if (++g_same_ticks >= 2) { g_sig = sig; siglongjmp(g_jb, 1); } }
    else { g_tick_epoch = g_epoch; g_same_ticks = 0; }
    return;
  }
  if (g_in_native) { g_sig = sig; siglongjmp(g_jb, 1); }
  vh::on_fatal_signal(sig);
}
static void install_native_hooks() {
  static char alt[1 << 16];
  stack_t ss; ss.ss_sp = alt; ss.ss_size = sizeof alt; ss.ss_flags = 0; sigaltstack(&ss, nullptr);
  struct sigaction sa; memset(&sa, 0, sizeof sa); sa.sa_handler = on_signal; sa.sa_flags = SA_ONSTACK | SA_NODEFER; sigemptyset(&sa.sa_mask);
  for (int s : {SIGSEGV, SIGBUS, SIGILL, SIGFPE, SIGTRAP, SIGVTALRM}) sigaction(s, &sa, nullptr);
  struct itimerval it; it.it_interval.tv_sec = 1; it.it_interval.tv_usec = 0; it.it_value = it.it_interval; setitimer(ITIMER_VIRTUAL, &it, nullptr);
}

struct NativeRun { uint64_t ret = 0; int sig = 0; uint64_t saved[7] = {}; };
__attribute__((noinline)) static bool run_native(void* fn, const uint64_t* args, NativeRun& r) {
  g_epoch++;
  if (sigsetjmp(g_jb, 1) == 0) { g_in_native = 1; r.ret = c05_tramp(fn, args, r.saved); g_in_native = 0; return true; }
  g_in_native = 0; r.sig = g_sig; return false;
}

// =========================================================================================================
// compile + run + compare one program
// =========================================================================================================
struct CaseInfo { std::string arch = "x64"; std::string shape; std::string ops; std::string replay; std::string body; };   // body = compact rendering of the interesting part
struct Stats { long long spills = 0, loads = 0, moves = 0, swaps = 0, rm = 0; };

static JitRuntime* g_rt;
static bool g_verbose = false;
static const uint64_t kGuardQ = 64;

static std::string hex64(uint64_t v) { char b[24]; snprintf(b, sizeof b, "0x%llx", (unsigned long long)v); return b; }
static std::string input_str(const Input& in, int nargs) {
  std::string s = "sel=" + std::to_string(in.sel) + " cnt=" + std::to_string(in.cnt) + " args=[";
  for (int i = 0; i < nargs - 3; i++) s += (i ? "," : "") + hex64(in.a[i]);
  s += "] mem=["; for (int i = 0; i < 8; i++) s += (i ? "," : "") + hex64(in.m[i]);
  return s + "]";
}

struct Pending { bool have = false; std::string key, desc, replay; };
static Pending g_pending;           // the violation of the program being run (reported by run_desc after minimisation)
static bool g_reported = false;   // one violation per program: the first failing input decides the clause
static void violation(const CaseInfo& ci, const char* clause, const std::string& what) {
  if (g_reported) { if (g_verbose) fprintf(stderr, "VIOLATION(further input) %s: %s\n", clause, what.c_str()); return; }
  g_reported = true;
  std::string key = "ra:" + ci.arch + ":" + ci.shape + ":" + clause + ":" + ci.ops;
  g_pending.have = true; g_pending.key = key; g_pending.desc = what + " :: program {" + ci.body + "}"; g_pending.replay = ci.replay;
  if (g_verbose) fprintf(stderr, "VIOLATION %s: %s\n", key.c_str(), what.c_str());
}

// returns false when the program could not be judged (reference ill-defined => harness error)
static bool run_case(const Prog& p, const CaseInfo& ci, const std::vector<Input>& inputs) {
  vh::Ctx& c = vh::ctx();
  vh::set_case(ci.replay);
  g_reported = false;
  c.n("evaluations")++;
  CodeHolder code;
  code.init(g_rt->environment(), g_rt->cpu_features());
  StringLogger logger;
  if (g_verbose) { logger.add_flags(FormatFlags::kMachineCode); code.set_logger(&logger); }
  x86::Compiler cc(&code);
  cc.add_diagnostic_options(DiagnosticOptions::kRAAnnotate);
  EmitX86 em(cc, p);
  em.build();
  if (em.err != Error::kOk) {
    violation(ci, "compile-error", std::string("building the program with x86::Compiler failed at '") + (em.err_at >= 0 ? ins_str(p, p.code[size_t(em.err_at)]) : std::string("?")) + "': " + DebugUtils::error_as_string(em.err));
    return true;
  }
  // tag the nodes of the program (everything present before the passes run) and remember the number of memory operands
  for (BaseNode* n = cc.first_node(); n; n = n->next()) {
    uint64_t tag = 0x100;
    if (n->is_inst()) { InstNode* in = n->as<InstNode>(); for (size_t k = 0; k < in->op_count(); k++) if (in->op(k).is_mem()) tag++; }
    n->set_user_data_as_uint64(tag);
  }
  Error e = cc.run_passes();
  if (e != Error::kOk) { violation(ci, "compile-error", std::string("run_passes() failed on a well-formed program: ") + DebugUtils::error_as_string(e)); return true; }
  Stats st;
  for (BaseNode* n = cc.first_node(); n; n = n->next()) {
    if (!n->is_inst()) continue;
    InstNode* in = n->as<InstNode>();
    uint64_t tag = n->user_data_as_uint64();
    if (tag >= 0x100) { uint64_t mem_now = 0; for (size_t k = 0; k < in->op_count(); k++) if (in->op(k).is_mem()) mem_now++; if (!n->is_invoke() && mem_now > tag - 0x100) st.rm++; continue; }
    const char* cm = n->inline_comment();
    if (!cm) continue;
    if (!strncmp(cm, "<SAVE>", 6) || !strncmp(cm, "<SPILL>", 7)) st.spills++;
    else if (!strncmp(cm, "<LOAD>", 6)) st.loads++;
    else if (!strncmp(cm, "<MOVE>", 6)) st.moves++;
    else if (!strncmp(cm, "<SWAP>", 6)) st.swaps++;
  }
  {
    x86::Assembler as(&code);
    e = cc.serialize_to(&as);
  }
  if (e != Error::kOk) { violation(ci, "compile-error", std::string("serializing the allocated program failed: ") + DebugUtils::error_as_string(e)); return true; }
  void* fnp = nullptr;
  e = g_rt->add(&fnp, &code);
  if (e != Error::kOk || !fnp) { violation(ci, "compile-error", std::string("JitRuntime::add failed: ") + DebugUtils::error_as_string(e)); return true; }
  if (g_verbose) fprintf(stderr, "---- program ----\n%s\n---- code ----\n%s\n", prog_str(p).c_str(), logger.data());
  bool nontrivial = st.spills || st.loads || st.moves || st.swaps || st.rm;
  if (nontrivial) c.n("distinct_nontrivial")++;
  c.n("ra_saves") += st.spills; c.n("ra_loads") += st.loads; c.n("ra_moves") += st.moves; c.n("ra_swaps") += st.swaps; c.n("ra_reg_to_mem") += st.rm;
  if (st.swaps) c.n("programs_with_swap")++;
  if (st.rm) c.n("programs_with_reg_to_mem")++;

  static std::vector<uint64_t> buf(kBufQ + 2 * kGuardQ);
  bool judged = true;
  for (const Input& in : inputs) {
    uint64_t* mem = buf.data() + kGuardQ;
    Outcome ref;
    interp(p, in, uint64_t(uintptr_t(mem)), ref);
    if (!ref.ok) { fprintf(stderr, "c05: generator produced an ill-defined program (%s): %s\ncase: %s\n", ref.why.c_str(), prog_str(p).c_str(), ci.replay.c_str()); exit(2); }
    for (size_t i = 0; i < buf.size(); i++) buf[i] = 0xA5A5A5A5A5A5A5A5ull;
    memset(mem, 0, kBufBytes);
    for (int i = 0; i < 8; i++) mem[i] = in.m[i];
    uint64_t args[16] = {uint64_t(uintptr_t(mem)), in.sel, in.cnt};
    for (int i = 0; i < 13; i++) args[3 + i] = in.a[i];
    for (int i = 0; i < 10; i++) g_call10_mask[i] = i < int(p.call10_mask.size()) ? p.call10_mask[size_t(i)] : ~0ull;
    g_calls.clear();
    NativeRun nr;
    c.n("traces")++;
    bool ok = run_native(fnp, args, nr);
    std::string at = " on input " + input_str(in, p.nargs);
    if (!ok) {
      violation(ci, "crash", std::string(nr.sig == SIGVTALRM ? "generated code does not terminate" : "generated code died with signal " + std::to_string(nr.sig)) + at);
      if (nr.sig == SIGVTALRM) { c.n("hangs")++; break; }   // a hang costs seconds: the remaining inputs of this program are not run
      continue;
    }
    static const uint64_t sent[6] = {0x1111111111111111ull, 0x2222222222222222ull, 0x3333333333333333ull, 0x4444444444444444ull, 0x5555555555555555ull, 0x6666666666666666ull};
    static const char* const sname[6] = {"rbx", "rbp", "r12", "r13", "r14", "r15"};
    bool bad = false;
    for (int i = 0; i < 6 && !bad; i++) if (nr.saved[i] != sent[i]) { violation(ci, "crash", std::string("callee-saved register ") + sname[i] + " not preserved (" + hex64(nr.saved[i]) + ")" + at); bad = true; }
    if (!bad && nr.saved[6] != c05_saved_rsp) { violation(ci, "crash", "stack pointer not restored on return" + at); bad = true; }
    if (bad) continue;
    // one clause per failing input: the call log first (earliest observable effect), then the return value, then memory
    if (!(g_calls == ref.calls)) {
      std::string d = "external calls differ: " + std::to_string(g_calls.size()) + " calls, reference " + std::to_string(ref.calls.size());
      for (size_t k = 0; k < g_calls.size() && k < ref.calls.size(); k++) if (!(g_calls[k] == ref.calls[k])) {
        d += "; call #" + std::to_string(k) + " f" + std::to_string(g_calls[k].fn) + " args got (";
        for (size_t j = 0; j < g_calls[k].args.size(); j++) d += (j ? "," : "") + hex64(g_calls[k].args[j]);
        d += ") reference ("; for (size_t j = 0; j < ref.calls[k].args.size(); j++) d += (j ? "," : "") + hex64(ref.calls[k].args[j]);
        d += ")"; break;
      }
      violation(ci, "wrong-calls", d + at); bad = true;
    }
    else if ((p.w32 ? (nr.ret & 0xFFFFFFFFull) : nr.ret) != ref.ret) { violation(ci, "wrong-return", "returned " + hex64(nr.ret) + ", reference " + hex64(ref.ret) + at); bad = true; }
    else if (memcmp(mem, ref.mem.data(), kBufBytes) != 0) {
      size_t off = 0; while (off < kBufBytes && ((uint8_t*)mem)[off] == ref.mem[off]) off++;
      uint64_t got = 0, want = 0; size_t q = off & ~size_t(7); memcpy(&got, (uint8_t*)mem + q, 8); memcpy(&want, &ref.mem[q], 8);
      violation(ci, "wrong-memory", "memory buffer differs at byte offset " + std::to_string(off) + " (qword " + hex64(got) + ", reference " + hex64(want) + ")" + at); bad = true;
    }
    if (!bad) for (size_t i = 0; i < kGuardQ; i++) if (buf[i] != 0xA5A5A5A5A5A5A5A5ull || buf[kGuardQ + kBufQ + i] != 0xA5A5A5A5A5A5A5A5ull) { violation(ci, "wrong-memory", "store outside the memory buffer (guard qword " + std::to_string(i) + ")" + at); bad = true; break; }
  }
  g_rt->release(fnp);
  return judged;
}

// =========================================================================================================
// AArch64 EMITTER (reduced alphabet; the node list is simulated by engine/msim.h, never executed)
// =========================================================================================================
struct EmitA64 {
  a64::Compiler& cc; const Prog& p;
  std::vector<a64::Gp> g; std::vector<Label> labels;
  Error err = Error::kOk; int err_at = -1; int cur = -1;
  FuncNode* fn = nullptr;
  std::vector<std::pair<uint64_t, int>> call_targets;
  EmitA64(a64::Compiler& c, const Prog& pr) : cc(c), p(pr) {}
  void E(Error e) { if (e != Error::kOk && err == Error::kOk) { err = e; err_at = cur; } }
  a64::Gp G(int i) { return g[size_t(i)]; }
  a64::Mem M(int64_t off) { return a64::ptr(g[0], int32_t(off)); }
  void build() {
    FuncSignature sig; sig.set_ret(p.w32 ? TypeId::kUInt32 : TypeId::kUInt64); sig.set_call_conv_id(CallConvId::kCDecl);
    for (int i = 0; i < p.nargs; i++) { int v = p.arg_val[size_t(i)]; sig.add_arg(v >= 0 && p.kinds[size_t(v)] == KG && i == 0 ? TypeId::kUIntPtr : p.w32 ? TypeId::kUInt32 : TypeId::kUInt64); }
    fn = cc.add_func(sig);
    if (!fn) { E(Error::kOutOfMemory); return; }
    if (p.K) fn->frame().add_unavailable_regs(RegGroup::kGp, 0xFFFFFFFFu & ~((1u << p.K) - 1u));
    g.resize(p.kinds.size());
    for (size_t i = 0; i < p.kinds.size(); i++) {
      if (p.kinds[i] == KG) g[i] = cc.new_gp64("%s", p.names[i].c_str());
      else if (p.kinds[i] == KW) g[i] = cc.new_gp32("%s", p.names[i].c_str());
      else { E(Error::kInvalidState); return; }
    }
    for (int i = 0; i < p.nargs; i++) if (p.arg_val[size_t(i)] >= 0) fn->set_arg(size_t(i), g[size_t(p.arg_val[size_t(i)])]);
    for (int i = 0; i < p.nlabels; i++) labels.push_back(cc.new_label());
    for (size_t k = 0; k < p.code.size(); k++) { cur = int(k); ins(p.code[k]); }
    E(cc.end_func());
  }
  void ins(const Ins& I) {
    int a = I.a, b = I.b, c = I.c; int64_t imm = I.imm;
    switch (I.op) {
      case O_MOV: E(cc.mov(G(a), G(b))); break;
      case O_MOV32: E(cc.mov(G(a).w(), G(b).w())); break;
      case O_MOVI: E(cc.mov(G(a), imm)); break;
      case O_ADD: E(cc.add(G(a), G(a), G(b))); break;
      case O_SUB: E(cc.sub(G(a), G(a), G(b))); break;
      case O_XOR: E(cc.eor(G(a), G(a), G(b))); break;
      case O_AND: E(cc.and_(G(a), G(a), G(b))); break;
      case O_OR: E(cc.orr(G(a), G(a), G(b))); break;
      case O_ADD32: E(cc.add(G(a).w(), G(a).w(), G(b).w())); break;
      case O_ADDI: E(cc.add(G(a), G(a), imm)); break;
      case O_SUBI: E(cc.sub(G(a), G(a), imm)); break;
      case O_ANDI: E(cc.and_(G(a), G(a), imm)); break;
      case O_ORI: E(cc.orr(G(a), G(a), imm)); break;
      case O_XORI: E(cc.eor(G(a), G(a), imm)); break;
      case O_LEA: if (c >= 0) E(cc.add(G(a), G(b), G(c), a64::lsl(uint32_t(I.sz)))); else E(cc.mov(G(a), G(b))); if (imm) E(cc.add(G(a), G(a), imm)); break;
      case O_SHL: E(cc.lsl(G(a), G(a), G(b))); break;
      case O_SHR: E(cc.lsr(G(a), G(a), G(b))); break;
      case O_SAR: E(cc.asr(G(a), G(a), G(b))); break;
      case O_SHLI: E(cc.lsl(G(a), G(a), imm)); break;
      case O_SHRI: E(cc.lsr(G(a), G(a), imm)); break;
      case O_SARI: E(cc.asr(G(a), G(a), imm)); break;
      case O_IMUL2: E(cc.mul(G(a), G(a), G(b))); break;
      case O_MADD: E(cc.madd(G(a), G(b), G(c), G(a))); break;
      case O_NEG: E(cc.neg(G(a), G(a))); break;
      case O_NOT: E(cc.mvn(G(a), G(a))); break;
      case O_LOAD: if (I.sz == 8) E(cc.ldr(G(a).x(), M(imm))); else if (I.sz == 4) E(cc.ldr(G(a).w(), M(imm))); else if (I.sz == 2) E(cc.ldrh(G(a).w(), M(imm))); else E(cc.ldrb(G(a).w(), M(imm))); break;
      case O_STORE: if (I.sz == 8) E(cc.str(G(a).x(), M(imm))); else if (I.sz == 4) E(cc.str(G(a).w(), M(imm))); else if (I.sz == 2) E(cc.strh(G(a).w(), M(imm))); else E(cc.strb(G(a).w(), M(imm))); break;
      case O_LABEL: E(cc.bind(labels[size_t(I.lbl)])); break;
      case O_JMP: E(cc.b(labels[size_t(I.lbl)])); break;
      case O_JZ: E(cc.cbz(G(a), labels[size_t(I.lbl)])); break;
      case O_JNZ: E(cc.cbnz(G(a), labels[size_t(I.lbl)])); break;
      case O_DECJNZ: E(cc.sub(G(a), G(a), 1)); E(cc.cbnz(G(a), labels[size_t(I.lbl)])); break;
      case O_DECJG: E(cc.subs(G(a), G(a), 1)); E(cc.b_gt(labels[size_t(I.lbl)])); break;
      case O_CALL: {
        FuncSignature sig; sig.set_ret(p.w32 ? TypeId::kUInt32 : TypeId::kUInt64); sig.set_call_conv_id(CallConvId::kCDecl);
        for (size_t k = 0; k < I.args.size(); k++) sig.add_arg(p.w32 ? TypeId::kUInt32 : TypeId::kUInt64);
        uint64_t target = 0x00F00000ull + 0x100 * call_targets.size();
        call_targets.push_back(std::make_pair(target, I.fn));
        a64::Gp t = cc.new_gp64("fn%u", unsigned(call_targets.size()));
        E(cc.mov(t, target));
        InvokeNode* inv = nullptr;
        E(cc.invoke(Out(inv), t, sig));
        if (!inv) break;
        for (size_t k = 0; k < I.args.size(); k++) { if (I.args[k] == -999) inv->set_arg(k, Imm(I.imm)); else if (I.args[k] <= -1000) inv->set_arg(k, Imm(int64_t(-1000 - I.args[k]))); else inv->set_arg(k, G(I.args[k])); }
        if (a >= 0) inv->set_ret(0, G(a));
        break;
      }
      case O_RET: E(cc.ret(G(a))); break;
      default: E(Error::kInvalidState); break;
    }
  }
};

// =========================================================================================================
// SIMULATED LEGS (x86-32 and AArch64): run_passes() + msim over the allocated node list
// =========================================================================================================
static const size_t kSimBuf = 512;             // bytes of the buffer that exist in the simulated machine
static const uint64_t kSimMem = 0x20000000ull, kSimStack = 0x7FFF0000ull, kSimRet = 0xDEADBEE0ull;

static void ra_stats(BaseCompiler& cc, Stats& st) {
  for (BaseNode* n = cc.first_node(); n; n = n->next()) {
    if (!n->is_inst()) continue;
    InstNode* in = n->as<InstNode>();
    uint64_t tag = n->user_data_as_uint64();
    if (tag >= 0x100) { uint64_t mem_now = 0; for (size_t k = 0; k < in->op_count(); k++) if (in->op(k).is_mem()) mem_now++; if (!n->is_invoke() && mem_now > tag - 0x100) st.rm++; continue; }
    const char* cm = n->inline_comment();
    if (!cm) continue;
    if (!strncmp(cm, "<SAVE>", 6) || !strncmp(cm, "<SPILL>", 7)) st.spills++;
    else if (!strncmp(cm, "<LOAD>", 6)) st.loads++;
    else if (!strncmp(cm, "<MOVE>", 6)) st.moves++;
    else if (!strncmp(cm, "<SWAP>", 6)) st.swaps++;
  }
}
static void tag_nodes(BaseCompiler& cc) {
  for (BaseNode* n = cc.first_node(); n; n = n->next()) {
    uint64_t tag = 0x100;
    if (n->is_inst()) { InstNode* in = n->as<InstNode>(); for (size_t k = 0; k < in->op_count(); k++) if (in->op(k).is_mem()) tag++; }
    n->set_user_data_as_uint64(tag);
  }
}

static void run_case_sim(const Prog& p, const CaseInfo& ci, const std::vector<Input>& inputs, int arch /* 1 x86-32, 2 a64 */) {
  vh::Ctx& c = vh::ctx();
  vh::set_case(ci.replay);
  g_reported = false;
  c.n("evaluations")++;
  const bool a64m = arch == 2;
  Environment env(a64m ? Arch::kAArch64 : Arch::kX86);
  CodeHolder code; code.init(env);
  x86::Compiler xc; a64::Compiler ac;
  BaseCompiler* cc = a64m ? (BaseCompiler*)&ac : (BaseCompiler*)&xc;
  code.attach(cc);
  cc->add_diagnostic_options(DiagnosticOptions::kRAAnnotate);
  std::vector<std::pair<uint64_t, int>> call_targets;
  Error berr = Error::kOk; int berr_at = -1;
  if (a64m) { EmitA64 em(ac, p); em.build(); berr = em.err; berr_at = em.err_at; call_targets = em.call_targets; }
  else { EmitX86 em(xc, p); em.native = false; em.build(); berr = em.err; berr_at = em.err_at; call_targets = em.call_targets; }
  if (berr != Error::kOk) {
    violation(ci, "compile-error", std::string("building the program with the Compiler failed at '") + (berr_at >= 0 ? ins_str(p, p.code[size_t(berr_at)]) : std::string("?")) + "': " + DebugUtils::error_as_string(berr));
    return;
  }
  tag_nodes(*cc);
  Error e = cc->run_passes();
  if (e != Error::kOk) { violation(ci, "compile-error", std::string("run_passes() failed on a well-formed program: ") + DebugUtils::error_as_string(e)); return; }
  Stats st; ra_stats(*cc, st);
  if (st.spills || st.loads || st.moves || st.swaps || st.rm) c.n("distinct_nontrivial")++;
  c.n("ra_saves") += st.spills; c.n("ra_loads") += st.loads; c.n("ra_moves") += st.moves; c.n("ra_swaps") += st.swaps; c.n("ra_reg_to_mem") += st.rm;
  if (g_verbose) {
    String sb; FormatOptions fo;
    Formatter::format_node_list(sb, fo, cc);
    fprintf(stderr, "---- program ----\n%s\n---- allocated node list ----\n%s\n", prog_str(p).c_str(), sb.data());
  }
  BaseNode* first = cc->first_node();
  const uint64_t wmask = (p.w32 || !a64m) ? 0xFFFFFFFFull : ~0ull;
  for (const Input& in : inputs) {
    Outcome ref;
    interp(p, in, kSimMem, ref);
    if (!ref.ok) { fprintf(stderr, "c05: generator produced an ill-defined program (%s): %s\ncase: %s\n", ref.why.c_str(), prog_str(p).c_str(), ci.replay.c_str()); exit(2); }
    for (size_t i = kSimBuf; i < kBufBytes; i++) if (ref.mem[i]) { fprintf(stderr, "c05: simulated leg: reference wrote beyond the simulated buffer\ncase: %s\n", ci.replay.c_str()); exit(2); }
    msim::Machine m; m.a64 = a64m; m.is64 = a64m;
    for (uint32_t i = 0; i < 32; i++) m.gp[i] = (0xBAD0000000000000ull | (uint64_t(i) << 8)) & m.addr_mask();
    uint64_t argv[10] = {kSimMem, in.sel, in.cnt, in.a[0], in.a[1], in.a[2], in.a[3], in.a[4], in.a[5], in.a[6]};
    for (int i = 1; i < 10; i++) argv[i] &= wmask;
    // caller frame: arguments on the stack (x86-32: all; a64: beyond the eighth), 256 bytes of caller stack mapped
    uint64_t S0;
    if (!a64m) { S0 = kSimStack - 4; for (uint64_t a = S0; a < S0 + 256; a++) m.wr8(a, 0x5C); m.wr(S0, kSimRet, 4); for (int i = 0; i < 10; i++) m.wr(S0 + 4 + 4 * uint64_t(i), argv[i], 4); m.gp[4] = S0; }
    else { S0 = kSimStack; for (uint64_t a = S0; a < S0 + 256; a++) m.wr8(a, 0x5C); for (int i = 0; i < 8; i++) m.gp[i] = argv[i]; for (int i = 8; i < 10; i++) m.wr(S0 + 8 * uint64_t(i - 8), argv[i], 8); m.gp[31] = S0; m.gp[30] = kSimRet; }
    uint64_t entry_gp[32]; memcpy(entry_gp, m.gp, sizeof entry_gp);
    for (size_t i = 0; i < kSimBuf; i++) m.wr8(kSimMem + i, ref.mem.empty() ? 0 : 0);
    for (int i = 0; i < 8; i++) m.wr(kSimMem + 8 * uint64_t(i), in.m[i], 8);
    std::vector<CallRec> calls;
    m.on_call = [&](msim::Machine& mm, uint64_t target) {
      int fnid = -1; for (auto& t : call_targets) if (t.first == (target & mm.addr_mask())) fnid = t.second;
      if (fnid < 0) { mm.fault = "call to an unknown target"; return; }
      CallRec r; r.fn = fnid;
      for (int i = 0; i < fnid; i++) r.args.push_back(a64m ? (mm.gp[i] & wmask) : mm.rd(mm.gp[4] + 4 + 4 * uint64_t(i), 4));
      uint64_t rv = callee_value(fnid, r.args.data(), fnid) & wmask;
      if (calls.size() < 4096) calls.push_back(r);
      if (a64m) { for (int i = 0; i <= 17; i++) mm.gp[i] = 0xDEAD0001DEAD0001ull; mm.gp[0] = rv | (p.w32 ? 0xDEAD000100000000ull : 0); }
      else { mm.gp[0] = rv; mm.gp[1] = 0xDEAD0001; mm.gp[2] = 0xDEAD0001; }
    };
    c.n("traces")++;
    bool finished = msim::run(m, first, first, nullptr, nullptr, 400000);
    std::string at = " on input " + input_str(in, p.nargs);
    if (!m.unsupported.empty()) { c.n("undecided")++; c.note("undecided (outside the simulator's vocabulary): " + m.unsupported); c.n("traces")--; break; }
    if (!finished) { violation(ci, "crash", "allocated code does not terminate (simulated)" + at); break; }
    if (!m.fault.empty()) { violation(ci, "crash", "simulated fault: " + m.fault + at); continue; }
    if (!m.returned || m.ret_target != kSimRet) { violation(ci, "crash", "return to " + hex64(m.ret_target) + " instead of the caller" + at); continue; }
    bool bad = false;
    if (!a64m) { if (m.gp[4] != S0 + 4) { violation(ci, "crash", "stack pointer not restored on return" + at); bad = true; } for (int r : {3, 5, 6, 7}) if (!bad && m.gp[r] != entry_gp[r]) { violation(ci, "crash", "callee-saved register id " + std::to_string(r) + " not preserved" + at); bad = true; } }
    else { if (m.gp[31] != S0) { violation(ci, "crash", "stack pointer not restored on return" + at); bad = true; } for (int r = 19; r <= 29 && !bad; r++) if (m.gp[r] != entry_gp[r]) { violation(ci, "crash", "callee-saved register x" + std::to_string(r) + " not preserved" + at); bad = true; } }
    if (bad) continue;
    uint64_t ret = m.gp[0] & wmask;
    if (!(calls == ref.calls)) {
      std::string d = "external calls differ: " + std::to_string(calls.size()) + " calls, reference " + std::to_string(ref.calls.size());
      for (size_t k = 0; k < calls.size() && k < ref.calls.size(); k++) if (!(calls[k] == ref.calls[k])) {
        d += "; call #" + std::to_string(k) + " f" + std::to_string(calls[k].fn) + " args got (";
        for (size_t j = 0; j < calls[k].args.size(); j++) d += (j ? "," : "") + hex64(calls[k].args[j]);
        d += ") reference ("; for (size_t j = 0; j < ref.calls[k].args.size(); j++) d += (j ? "," : "") + hex64(ref.calls[k].args[j]);
        d += ")"; break;
      }
      violation(ci, "wrong-calls", d + at);
    }
    else if (ret != ref.ret) violation(ci, "wrong-return", "returned " + hex64(ret) + ", reference " + hex64(ref.ret) + at);
    else {
      for (size_t i = 0; i < kSimBuf; i++) if (m.rd8(kSimMem + i) != ref.mem[i]) { violation(ci, "wrong-memory", "memory buffer differs at byte offset " + std::to_string(i) + at); bad = true; break; }
      if (!bad) for (auto& kv : m.mem) {
        uint64_t a = kv.first;
        bool in_buf = a >= kSimMem && a < kSimMem + kSimBuf, in_stack = a < S0 + 256 && a + 0x100000 >= S0;
        if (!in_buf && !in_stack) { violation(ci, "wrong-memory", "store outside the memory buffer and the stack (address " + hex64(a) + ")" + at); break; }
      }
    }
  }
}

// =========================================================================================================
// GENERATOR: shape x K x n x argument mode x value mode x slot fillings
// =========================================================================================================
struct Fill { int slot; int alpha; int pat; };
struct Desc { int arch = 0 /* 0 x64 native, 1 x86-32 simulated, 2 AArch64 simulated */; int shape = 0, K = 0, n = 1, am = 6, vm = 0; std::vector<Fill> fills; int x = 0 /* shape specific extra parameter */; };
static const char* const kArchName[] = {"x64", "x86", "a64"};

enum { SH_STRAIGHT, SH_DIAMOND, SH_LOOP, SH_NESTED, SH_LOOPCOND, SH_IRREDUCIBLE, SH_JT3, SH_JT2, SH_CALLMID, SH_CALLLOOP, SH_TWOCALLS, SH_LOOPLOCAL_E, SH_LOOPLOCAL_L, SH_MARSHAL, SH_MANYARGS, SH_SWAPLOOP, SH_TWOJT, SH_SWAPLOOP2, SH_SELFLOOP, SH__COUNT };
static const char* const kShapeName[] = {"straight", "diamond", "loop", "nested-loop", "loop-cond", "irreducible", "jumptable3", "jumptable2", "call-mid", "call-loop", "two-calls", "loop-local-early", "loop-local-late", "call-args", "many-args", "swap-loop", "two-jumptables", "swap-loop-reload", "self-loop-call"};
static const int kShapeSlots[] = {2, 4, 4, 4, 4, 4, 4, 3, 2, 2, 3, 4, 4, 2, 2, 2, 4, 2, 3};

enum { NEED_RDX = 1, NEED_AB_DISTINCT = 2, NEED_XMM_ONLY = 4, NEED_VEX = 8, NEED_NOT_Z = 16, NEED_BC_DISTINCT = 32, NEED_64 = 64, NEED_NATIVE = 128, NEED_3REGS = 256 };

struct PB;
struct Alpha { const char* name; int vm; /* 0 x86 gp, 1 x86 vector, 2 x86 mask, 3 AArch64 gp */ int arity; const char* kinds; int need; void (*gen)(PB&, int, int, int); };

struct PB {
  Prog p; const Desc& d;
  int mem = -1, sel = -1, cnt = -1;
  std::vector<int> dv, vv, kv, extra;
  Kind vkind = KX;
  size_t body_from = 0, body_to = 0;
  bool ok = true;
  explicit PB(const Desc& dd) : d(dd) {}
  Ins& I(Op op, int a = -1, int b = -1, int c = -1, int64_t imm = 0, int sz = 0) { Ins i; i.op = op; i.a = a; i.b = b; i.c = c; i.imm = imm; i.sz = sz; p.code.push_back(i); return p.code.back(); }
  Kind dk = KG;   // kind of the data values (KW in the 32-bit value mode)
  bool mixed = false;   // data values alternate between 64-bit and 32-bit virtual registers
  std::vector<int> dv64;   // the 64-bit data values (call arguments in the mixed mode)
  int tmp(const char* base) { return p.newval(dk, std::string(base) + std::to_string(p.kinds.size())); }
  int label() { return p.nlabels++; }
  void bind(int l) { I(O_LABEL).lbl = l; }
  void jmp(int l) { I(O_JMP).lbl = l; }
  void br(Op op, int a, int l) { I(op, a).lbl = l; }
  int F() const { return dv.front(); }
  int S() const { return dv[dv.size() > 1 ? 1 : 0]; }
  int L() const { return dv.back(); }
  void slot(int s);
};

// ---- alphabet -------------------------------------------------------------------------------------------
static const int64_t OUT_SLOT = 128;   // byte offsets inside the memory buffer used by slot operations
#define GEN [](PB& b, int x, int y, int z)
#define UNUSED (void)b; (void)x; (void)y; (void)z
static const Alpha kAlpha[] = {
  // ---- GP, two operands ----
  {"mov", 0, 2, "gg", 0, GEN { UNUSED; b.I(O_MOV, x, y); }},
  {"mov32", 0, 2, "gg", NEED_64, GEN { UNUSED; b.I(O_MOV32, x, y); }},
  {"add", 0, 2, "gg", 0, GEN { UNUSED; b.I(O_ADD, x, y); }},
  {"sub", 0, 2, "gg", 0, GEN { UNUSED; b.I(O_SUB, x, y); }},
  {"xor", 0, 2, "gg", 0, GEN { UNUSED; b.I(O_XOR, x, y); }},
  {"and", 0, 2, "gg", 0, GEN { UNUSED; b.I(O_AND, x, y); }},
  {"or", 0, 2, "gg", 0, GEN { UNUSED; b.I(O_OR, x, y); }},
  {"add32", 0, 2, "gg", NEED_64, GEN { UNUSED; b.I(O_ADD32, x, y); }},
  // mixed mode only: a 64-bit destination reads the 64-bit view of a 32-bit virtual register (its upper half is zero: every write to it is a
  // 32-bit write and 32-bit arguments are normalised at function entry, see build()); a spilled source must not be read 8 bytes wide from its 4-byte slot
  {"addw", 0, 2, "gg", NEED_64 | NEED_NATIVE, GEN { UNUSED; if (gp_bits(b.p.kinds[size_t(x)]) != 64 || gp_bits(b.p.kinds[size_t(y)]) != 32) { b.ok = false; return; } b.I(O_ADDW, x, y); }},
  {"sub32", 0, 2, "gg", NEED_64, GEN { UNUSED; b.I(O_SUB32, x, y); }},
  {"xor32", 0, 2, "gg", NEED_64, GEN { UNUSED; b.I(O_XOR32, x, y); }},
  {"and32", 0, 2, "gg", NEED_64, GEN { UNUSED; b.I(O_AND32, x, y); }},
  {"or32", 0, 2, "gg", NEED_64, GEN { UNUSED; b.I(O_OR32, x, y); }},
  {"imul2", 0, 2, "gg", 0, GEN { UNUSED; b.I(O_IMUL2, x, y); }},
  {"imul3", 0, 2, "gg", 0, GEN { UNUSED; b.I(O_IMUL3, x, y, -1, 13); }},
  {"xchg", 0, 2, "gg", 0, GEN { UNUSED; b.I(O_XCHG, x, y); }},
  {"movzx8", 0, 2, "gg", 0, GEN { UNUSED; b.I(O_MOVZX8, x, y); }},
  {"movzx16", 0, 2, "gg", 0, GEN { UNUSED; b.I(O_MOVZX16, x, y); }},
  {"movsx8", 0, 2, "gg", 0, GEN { UNUSED; b.I(O_MOVSX8, x, y); }},
  {"movsx16", 0, 2, "gg", 0, GEN { UNUSED; b.I(O_MOVSX16, x, y); }},
  {"movsxd", 0, 2, "gg", NEED_64, GEN { UNUSED; b.I(O_MOVSXD, x, y); }},
  {"mov8", 0, 2, "gg", 0, GEN { UNUSED; b.I(O_MOV8, x, y); }},
  {"mov16", 0, 2, "gg", 0, GEN { UNUSED; b.I(O_MOV16, x, y); }},
  {"movhi8", 0, 2, "gg", 0, GEN { UNUSED; b.I(O_MOVHI8, x, y); }},
  {"movzxhi", 0, 2, "gg", 0, GEN { UNUSED; b.I(O_MOVZXHI, x, y); }},
  {"add8", 0, 2, "gg", 0, GEN { UNUSED; b.I(O_ADD8, x, y); }},
  {"shl-cl", 0, 2, "gg", 0, GEN { UNUSED; b.I(O_SHL, x, y); }},
  {"shr-cl", 0, 2, "gg", 0, GEN { UNUSED; b.I(O_SHR, x, y); }},
  {"sar-cl", 0, 2, "gg", 0, GEN { UNUSED; b.I(O_SAR, x, y); }},
  {"shl32-cl", 0, 2, "gg", NEED_64, GEN { UNUSED; b.I(O_SHL32, x, y); }},
  {"lea-b", 0, 2, "gg", 0, GEN { UNUSED; b.I(O_LEA, x, y, -1, 0x21); }},
  {"stk-move", 0, 2, "gg", 0, GEN { UNUSED; b.p.nstk = 2; b.I(O_STKST, y, -1, -1, 1); b.I(O_STKLD, x, -1, -1, 1); }},
  {"stk-add", 0, 2, "gg", 0, GEN { UNUSED; b.p.nstk = 2; b.I(O_STKST, y, -1, -1, 0); b.I(O_STKADD, x, -1, -1, 0); }},
  // ---- GP, one operand ----
  {"movi64", 0, 1, "g", NEED_64, GEN { UNUSED; b.I(O_MOVI, x, -1, -1, 0x1122334455667788ll); }},
  {"movi0", 0, 1, "g", 0, GEN { UNUSED; b.I(O_MOVI, x, -1, -1, 0); }},
  {"addi", 0, 1, "g", 0, GEN { UNUSED; b.I(O_ADDI, x, -1, -1, 0x1234); }},
  {"add-0", 0, 1, "g", 0, GEN { UNUSED; b.I(O_ADDI, x, -1, -1, 0); }},
  {"sub-0", 0, 1, "g", 0, GEN { UNUSED; b.I(O_SUBI, x, -1, -1, 0); }},
  {"xor-0", 0, 1, "g", 0, GEN { UNUSED; b.I(O_XORI, x, -1, -1, 0); }},
  {"xor-m1", 0, 1, "g", 0, GEN { UNUSED; b.I(O_XORI, x, -1, -1, -1); }},
  {"and-0", 0, 1, "g", 0, GEN { UNUSED; b.I(O_ANDI, x, -1, -1, 0); }},
  {"and-m1", 0, 1, "g", 0, GEN { UNUSED; b.I(O_ANDI, x, -1, -1, -1); }},
  {"and-ff", 0, 1, "g", 0, GEN { UNUSED; b.I(O_ANDI, x, -1, -1, 0xFF); }},
  {"or-0", 0, 1, "g", 0, GEN { UNUSED; b.I(O_ORI, x, -1, -1, 0); }},
  {"or-m1", 0, 1, "g", 0, GEN { UNUSED; b.I(O_ORI, x, -1, -1, -1); }},
  {"add32-0", 0, 1, "g", NEED_64, GEN { UNUSED; b.I(O_ADDI32, x, -1, -1, 0); }},
  {"xor32-0", 0, 1, "g", NEED_64, GEN { UNUSED; b.I(O_XORI32, x, -1, -1, 0); }},
  {"and32-0", 0, 1, "g", NEED_64, GEN { UNUSED; b.I(O_ANDI32, x, -1, -1, 0); }},
  {"and32-m1", 0, 1, "g", NEED_64, GEN { UNUSED; b.I(O_ANDI32, x, -1, -1, -1); }},
  {"or32-0", 0, 1, "g", NEED_64, GEN { UNUSED; b.I(O_ORI32, x, -1, -1, 0); }},
  {"or32-m1", 0, 1, "g", NEED_64, GEN { UNUSED; b.I(O_ORI32, x, -1, -1, -1); }},
  {"shl-1", 0, 1, "g", 0, GEN { UNUSED; b.I(O_SHLI, x, -1, -1, 1); }},
  {"shl-0", 0, 1, "g", 0, GEN { UNUSED; b.I(O_SHLI, x, -1, -1, 0); }},
  {"shl32-0", 0, 1, "g", NEED_64, GEN { UNUSED; b.I(O_SHLI32, x, -1, -1, 0); }},
  {"shr-13", 0, 1, "g", 0, GEN { UNUSED; b.I(O_SHRI, x, -1, -1, 13); }},
  {"sar-63", 0, 1, "g", 0, GEN { UNUSED; b.I(O_SARI, x, -1, -1, 63); }},
  {"rol-7", 0, 1, "g", 0, GEN { UNUSED; b.I(O_ROLI, x, -1, -1, 7); }},
  {"ror-0", 0, 1, "g", 0, GEN { UNUSED; b.I(O_RORI, x, -1, -1, 0); }},
  {"inc", 0, 1, "g", 0, GEN { UNUSED; b.I(O_INC, x); }},
  {"dec", 0, 1, "g", 0, GEN { UNUSED; b.I(O_DEC, x); }},
  {"neg", 0, 1, "g", 0, GEN { UNUSED; b.I(O_NEG, x); }},
  {"not", 0, 1, "g", 0, GEN { UNUSED; b.I(O_NOT, x); }},
  {"inc32", 0, 1, "g", NEED_64, GEN { UNUSED; b.I(O_INC32, x); }},
  {"movi8", 0, 1, "g", 0, GEN { UNUSED; b.I(O_MOVI8, x, -1, -1, 0x5A); }},
  {"add-mem", 0, 1, "g", 0, GEN { UNUSED; b.I(O_ADDM, x, -1, -1, 8); }},
  {"add-to-mem", 0, 1, "g", 0, GEN { UNUSED; b.I(O_ADDST, x, -1, -1, OUT_SLOT); }},
  {"load8", 0, 1, "g", NEED_64, GEN { UNUSED; b.I(O_LOAD, x, -1, -1, 16, 8); }},
  {"load4", 0, 1, "g", 0, GEN { UNUSED; b.I(O_LOAD, x, -1, -1, 20, 4); }},
  {"load1", 0, 1, "g", 0, GEN { UNUSED; b.I(O_LOAD, x, -1, -1, 27, 1); }},
  {"store8", 0, 1, "g", NEED_64, GEN { UNUSED; b.I(O_STORE, x, -1, -1, OUT_SLOT + 8, 8); }},
  {"store4", 0, 1, "g", 0, GEN { UNUSED; b.I(O_STORE, x, -1, -1, OUT_SLOT + 16, 4); }},
  {"store2", 0, 1, "g", 0, GEN { UNUSED; b.I(O_STORE, x, -1, -1, OUT_SLOT + 24, 2); }},
  {"store1", 0, 1, "g", 0, GEN { UNUSED; b.I(O_STORE, x, -1, -1, OUT_SLOT + 32, 1); }},
  {"add-const", 0, 1, "g", NEED_NATIVE, GEN { UNUSED; b.I(O_ADDC, x, -1, -1, 0x0123456789ABCDEEll); }},
  {"add-gconst", 0, 1, "g", NEED_NATIVE, GEN { UNUSED; b.I(O_ADDC, x, -1, -1, 0x0FEDCBA987654321ll); }},
  // ---- GP, three operands ----
  {"lea-bis", 0, 3, "ggg", 0, GEN { UNUSED; b.I(O_LEA, x, y, z, 0x10, 2); }},
  {"lea-bi", 0, 3, "ggg", 0, GEN { UNUSED; b.I(O_LEA, x, y, z, 0, 0); }},
  {"mul", 0, 3, "ggg", NEED_RDX | NEED_AB_DISTINCT, GEN { UNUSED; b.I(O_MUL, x, y, z); }},
  {"imul1", 0, 3, "ggg", NEED_RDX | NEED_AB_DISTINCT, GEN { UNUSED; b.I(O_IMUL1, x, y, z); }},
  {"cqo-idiv", 0, 3, "ggg", NEED_RDX | NEED_AB_DISTINCT | NEED_64, GEN { UNUSED; int t = b.tmp("dv"); b.I(O_MOV, t, z); b.I(O_ANDI, t, -1, -1, 0xFF); b.I(O_ADDI, t, -1, -1, 1); b.I(O_CQO, x, y); b.I(O_IDIV, x, y, t); }},
  {"cdq-idiv32", 0, 3, "ggg", NEED_RDX | NEED_AB_DISTINCT, GEN { UNUSED; int t = b.tmp("dv"); b.I(O_MOV, t, z); b.I(O_ANDI, t, -1, -1, 0xFF); b.I(O_ADDI, t, -1, -1, 1); b.I(O_CDQ, x, y); b.I(O_IDIV32, x, y, t); }},
  {"cmpxchg", 0, 3, "ggg", NEED_3REGS, GEN { UNUSED; b.I(O_CMPXCHG, x, y, z); }},
  {"cmpxchg-mem", 0, 2, "gg", NEED_3REGS, GEN { UNUSED; b.I(O_CMPXCHGM, -1, x, y, OUT_SLOT + 40); }},
  {"bt-setc", 0, 3, "ggg", 0, GEN { UNUSED; b.I(O_BTSET, x, y, z); }},
  {"cmp-setl", 0, 3, "ggg", 0, GEN { UNUSED; b.I(O_SETLT, x, y, z); }},
  {"cmp-cmovl", 0, 3, "ggg", 0, GEN { UNUSED; b.I(O_CMOVLT, x, y, z); }},
  {"add-adc0", 0, 3, "ggg", NEED_NATIVE, GEN { UNUSED; b.I(O_ADDADC, x, y, z, 0); }},
  {"add-adc5", 0, 3, "ggg", NEED_NATIVE, GEN { UNUSED; b.I(O_ADDADC, x, y, z, 5); }},
  {"sub-sbb0", 0, 3, "ggg", NEED_NATIVE, GEN { UNUSED; b.I(O_SUBSBB, x, y, z, 0); }},
  {"sub-sbb5", 0, 3, "ggg", NEED_NATIVE, GEN { UNUSED; b.I(O_SUBSBB, x, y, z, 5); }},
  // ---- vectors (value mode 1/3/4) ----
  {"vmovq-vg", 1, 2, "vg", 0, GEN { UNUSED; b.I(O_VMOV_VG, x, y); }},
  {"vmovq-gv", 1, 2, "gv", 0, GEN { UNUSED; b.I(O_VMOV_GV, x, y); }},
  {"vmovd-vg", 1, 2, "vg", 0, GEN { UNUSED; b.I(O_VMOVD_VG, x, y); }},
  {"vmovd-gv", 1, 2, "gv", 0, GEN { UNUSED; b.I(O_VMOVD_GV, x, y); }},
  {"vmov", 1, 2, "vv", NEED_NOT_Z, GEN { UNUSED; b.I(O_VMOV, x, y); }},
  {"paddd", 1, 2, "vv", 0, GEN { UNUSED; b.I(O_PADDD, x, y); }},
  {"paddq", 1, 2, "vv", 0, GEN { UNUSED; b.I(O_PADDQ, x, y); }},
  {"psubd", 1, 2, "vv", 0, GEN { UNUSED; b.I(O_PSUBD, x, y); }},
  {"pxor", 1, 2, "vv", NEED_NOT_Z, GEN { UNUSED; b.I(O_PXOR, x, y); }},
  {"pcmpeqd", 1, 2, "vv", NEED_NOT_Z, GEN { UNUSED; b.I(O_PCMPEQD, x, y); }},
  {"vpaddd", 1, 3, "vvv", NEED_VEX, GEN { UNUSED; b.I(O_VPADDD, x, y, z); }},
  {"vpaddq", 1, 3, "vvv", NEED_VEX, GEN { UNUSED; b.I(O_VPADDQ, x, y, z); }},
  {"vpxor", 1, 3, "vvv", NEED_VEX, GEN { UNUSED; b.I(O_VPXOR, x, y, z); }},
  {"vpsubq", 1, 3, "vvv", NEED_VEX, GEN { UNUSED; b.I(O_VPSUBQ, x, y, z); }},
  {"pextrq", 1, 2, "gv", NEED_XMM_ONLY, GEN { UNUSED; b.I(O_PEXTRQ, x, y); }},
  {"pinsrq", 1, 2, "vg", NEED_XMM_ONLY, GEN { UNUSED; b.I(O_PINSRQ, x, y); }},
  {"pshufd", 1, 2, "vv", NEED_XMM_ONLY, GEN { UNUSED; b.I(O_PSHUFD, x, y); }},
  {"punpcklqdq", 1, 2, "vv", NEED_XMM_ONLY, GEN { UNUSED; b.I(O_PUNPCKLQDQ, x, y); }},
  {"vload", 1, 1, "v", 0, GEN { UNUSED; b.I(O_VLOAD, x, -1, -1, 0); }},
  {"vstore", 1, 1, "v", 0, GEN { UNUSED; b.I(O_VSTORE, x, -1, -1, OUT_SLOT + 64); }},
  {"vpaddq-mem", 1, 1, "v", NEED_VEX, GEN { UNUSED; b.I(O_VPADDQM, x, -1, -1, 0); }},
  // ---- masks (value mode 2) ----
  {"kmov-kg", 2, 2, "kg", 0, GEN { UNUSED; b.I(O_KMOV_KG, x, y); }},
  {"kmov-gk", 2, 2, "gk", 0, GEN { UNUSED; b.I(O_KMOV_GK, x, y); }},
  {"kmov", 2, 2, "kk", 0, GEN { UNUSED; b.I(O_KMOV, x, y); }},
  {"knot", 2, 2, "kk", 0, GEN { UNUSED; b.I(O_KNOT, x, y); }},
  {"kshiftl", 2, 2, "kk", 0, GEN { UNUSED; b.I(O_KSHL, x, y, -1, 3); }},
  {"kmovw-gk", 2, 2, "gk", 0, GEN { UNUSED; b.I(O_KMOVW_GK, x, y); }},
  {"kmovd-gk", 2, 2, "gk", 0, GEN { UNUSED; b.I(O_KMOVD_GK, x, y); }},
  {"kmovb-gk", 2, 2, "gk", 0, GEN { UNUSED; b.I(O_KMOVB_GK, x, y); }},
  {"kmovw-kg", 2, 2, "kg", 0, GEN { UNUSED; b.I(O_KMOVW_KG, x, y); }},
  {"kmovd-kg", 2, 2, "kg", 0, GEN { UNUSED; b.I(O_KMOVD_KG, x, y); }},
  {"kgather", 2, 2, "gk", 0, GEN { UNUSED; b.I(O_KGATHER, x, y, -1, 4); }},
  {"kscatter", 2, 2, "gk", 0, GEN { UNUSED; b.I(O_KSCATTER, x, y, -1, OUT_SLOT + 64); }},
  {"kand", 2, 3, "kkk", 0, GEN { UNUSED; b.I(O_KAND, x, y, z); }},
  {"kor", 2, 3, "kkk", 0, GEN { UNUSED; b.I(O_KOR, x, y, z); }},
  {"kxor", 2, 3, "kkk", 0, GEN { UNUSED; b.I(O_KXOR, x, y, z); }},
  {"kxnor", 2, 3, "kkk", 0, GEN { UNUSED; b.I(O_KXNOR, x, y, z); }},
  {"kandn", 2, 3, "kkk", 0, GEN { UNUSED; b.I(O_KANDN, x, y, z); }},
  {"kadd", 2, 3, "kkk", 0, GEN { UNUSED; b.I(O_KADD, x, y, z); }},
  // ---- AArch64 (simulated leg; three-operand forms with the destination repeated) ----
  {"a64-mov", 3, 2, "gg", 0, GEN { UNUSED; b.I(O_MOV, x, y); }},
  {"a64-mov-w", 3, 2, "gg", 0, GEN { UNUSED; b.I(O_MOV32, x, y); }},
  {"a64-add", 3, 2, "gg", 0, GEN { UNUSED; b.I(O_ADD, x, y); }},
  {"a64-sub", 3, 2, "gg", 0, GEN { UNUSED; b.I(O_SUB, x, y); }},
  {"a64-eor", 3, 2, "gg", 0, GEN { UNUSED; b.I(O_XOR, x, y); }},
  {"a64-and", 3, 2, "gg", 0, GEN { UNUSED; b.I(O_AND, x, y); }},
  {"a64-orr", 3, 2, "gg", 0, GEN { UNUSED; b.I(O_OR, x, y); }},
  {"a64-add-w", 3, 2, "gg", 0, GEN { UNUSED; b.I(O_ADD32, x, y); }},
  {"a64-mul", 3, 2, "gg", 0, GEN { UNUSED; b.I(O_IMUL2, x, y); }},
  {"a64-lsl", 3, 2, "gg", 0, GEN { UNUSED; b.I(O_SHL, x, y); }},
  {"a64-lsr", 3, 2, "gg", 0, GEN { UNUSED; b.I(O_SHR, x, y); }},
  {"a64-asr", 3, 2, "gg", 0, GEN { UNUSED; b.I(O_SAR, x, y); }},
  {"a64-madd", 3, 3, "ggg", 0, GEN { UNUSED; b.I(O_MADD, x, y, z); }},
  {"a64-add-lsl", 3, 3, "ggg", 0, GEN { UNUSED; b.I(O_LEA, x, y, z, 0, 2); }},
  {"a64-movi", 3, 1, "g", 0, GEN { UNUSED; b.I(O_MOVI, x, -1, -1, 0x1234); }},
  {"a64-movi0", 3, 1, "g", 0, GEN { UNUSED; b.I(O_MOVI, x, -1, -1, 0); }},
  {"a64-add-imm", 3, 1, "g", 0, GEN { UNUSED; b.I(O_ADDI, x, -1, -1, 0x123); }},
  {"a64-sub-imm", 3, 1, "g", 0, GEN { UNUSED; b.I(O_SUBI, x, -1, -1, 1); }},
  {"a64-and-ff", 3, 1, "g", 0, GEN { UNUSED; b.I(O_ANDI, x, -1, -1, 0xFF); }},
  {"a64-orr-f0", 3, 1, "g", 0, GEN { UNUSED; b.I(O_ORI, x, -1, -1, 0xF0); }},
  {"a64-eor-ff", 3, 1, "g", 0, GEN { UNUSED; b.I(O_XORI, x, -1, -1, 0xFF); }},
  {"a64-lsl-1", 3, 1, "g", 0, GEN { UNUSED; b.I(O_SHLI, x, -1, -1, 1); }},
  {"a64-lsr-13", 3, 1, "g", 0, GEN { UNUSED; b.I(O_SHRI, x, -1, -1, 13); }},
  {"a64-asr-63", 3, 1, "g", 0, GEN { UNUSED; b.I(O_SARI, x, -1, -1, 63); }},
  {"a64-neg", 3, 1, "g", 0, GEN { UNUSED; b.I(O_NEG, x); }},
  {"a64-mvn", 3, 1, "g", 0, GEN { UNUSED; b.I(O_NOT, x); }},
  {"a64-ldr", 3, 1, "g", 0, GEN { UNUSED; b.I(O_LOAD, x, -1, -1, 16, 8); }},
  {"a64-ldr-w", 3, 1, "g", 0, GEN { UNUSED; b.I(O_LOAD, x, -1, -1, 20, 4); }},
  {"a64-ldrb", 3, 1, "g", 0, GEN { UNUSED; b.I(O_LOAD, x, -1, -1, 27, 1); }},
  {"a64-str", 3, 1, "g", 0, GEN { UNUSED; b.I(O_STORE, x, -1, -1, OUT_SLOT + 8, 8); }},
  {"a64-str-w", 3, 1, "g", 0, GEN { UNUSED; b.I(O_STORE, x, -1, -1, OUT_SLOT + 16, 4); }},
  {"a64-strh", 3, 1, "g", 0, GEN { UNUSED; b.I(O_STORE, x, -1, -1, OUT_SLOT + 24, 2); }},
  {"a64-strb", 3, 1, "g", 0, GEN { UNUSED; b.I(O_STORE, x, -1, -1, OUT_SLOT + 32, 1); }},
};
static const int kAlphaCount = int(sizeof(kAlpha) / sizeof(kAlpha[0]));
static int alpha_by_name(const std::string& n) { for (int i = 0; i < kAlphaCount; i++) if (n == kAlpha[i].name) return i; return -1; }

// operand patterns: which of {first, second, last} value of the operand's kind each operand takes
static const int kPat[5][3] = {{0, 1, 2}, {1, 2, 0}, {2, 0, 1}, {0, 0, 0}, {2, 2, 0}};
static const int kPatCount = 5;

static int alpha_class(int vm) { return (vm == 0 || vm == 5 || vm == 6) ? 0 : vm == 2 ? 2 : 1; }

// is (alpha, pattern) part of the enumeration for this configuration? (static part; operand-dependent constraints are checked in slot())
static bool alpha_applicable(const Alpha& al, int pat, const Desc& d) {
  if (al.vm != (d.arch == 2 ? 3 : alpha_class(d.vm))) return false;
  if (al.arity == 1 && pat > 2) return false;                       // patterns 3,4 repeat 0,2 for one operand
  if ((al.need & NEED_3REGS) && d.K == 2) return false;             // needs three registers at once: not allocatable in a 2-register file
  if ((al.need & NEED_RDX) && d.K == 2) return false;               // rdx is not in the 2-register file {rax, rcx}
  if ((al.need & NEED_XMM_ONLY) && d.vm != 1) return false;
  if ((al.need & NEED_NATIVE) && d.arch != 0) return false;          // constant-pool operands are label-relative: outside the simulator
  if ((al.need & NEED_64) && d.vm == 5) return false;                // 64-bit-only forms in the 32-bit value mode
  if (!strcmp(al.name, "addw") && d.vm != 6) return false;
  if (d.vm == 6) {                                                   // mixed 64/32-bit values: operations whose operands are taken at one width (or whose width is that of the destination alone)
    static const char* const ok[] = {"mov", "add", "sub", "xor", "and", "or", "imul2", "imul3", "xchg", "lea-b", "lea-bis", "lea-bi", "mul", "imul1", "shl-cl", "shr-cl", "sar-cl", "movzx8", "movzx16", "mov8", "mov16",
                                     "addw", "movi0", "addi", "add-0", "xor-m1", "and-ff", "shl-1", "shr-13", "rol-7", "inc", "dec", "neg", "not", "movi8"};
    bool found = false; for (const char* n : ok) if (!strcmp(n, al.name)) found = true;
    if (!found) return false;
  }
  if ((al.need & NEED_NOT_Z) && d.vm == 4) return false;            // legacy/VEX-only forms have no zmm encoding
  return true;
}

void PB::slot(int s) {
  for (const Fill& f : d.fills) {
    if (f.slot != s) continue;
    const Alpha& al = kAlpha[f.alpha];
    int ops[3] = {-1, -1, -1};
    for (int j = 0; j < al.arity; j++) {
      const std::vector<int>& lst = al.kinds[j] == 'g' ? dv : al.kinds[j] == 'v' ? vv : kv;
      if (lst.empty()) { ok = false; return; }
      int w = kPat[f.pat][j];
      ops[j] = w == 0 ? lst.front() : w == 1 ? lst[lst.size() > 1 ? 1 : 0] : lst.back();
    }
    if ((al.need & NEED_AB_DISTINCT) && ops[0] == ops[1]) { ok = false; return; }
    al.gen(*this, ops[0], ops[1], ops[2]);
  }
}

// ---- program construction -------------------------------------------------------------------------------
static bool shape_uses_sel(int sh) { return sh == SH_TWOJT || sh == SH_DIAMOND || sh == SH_IRREDUCIBLE || sh == SH_JT3 || sh == SH_JT2; }
static bool shape_uses_cnt(int sh) { return sh == SH_TWOJT || sh == SH_SWAPLOOP || sh == SH_LOOPLOCAL_E || sh == SH_LOOPLOCAL_L || sh == SH_LOOP || sh == SH_NESTED || sh == SH_LOOPCOND || sh == SH_IRREDUCIBLE || sh == SH_CALLLOOP; }

static const int64_t kMarshalImm[9] = {1, -1, 0x7FFFFFFFll, 0x80000000ll, 0xFFFFFFFFll, 0x100000000ll, 0x1122334455667788ll, int64_t(0xFFFFFFFF00000001ull), INT64_MIN};

static void call(PB& b, int fn, int ret) {
  // AArch64 calls go through a register: 8 register arguments + the target need 9 allocatable registers
  if (b.d.arch == 2 && b.d.K && b.d.K < 9 && fn == 8) fn = 2;
  Ins& i = b.I(O_CALL, ret); i.fn = fn;
  const std::vector<int>& av = b.mixed ? b.dv64 : b.dv;
  size_t n = av.size();
  if (fn == 2) { i.args = {av.front(), av.back()}; }
  else if (fn == 8) { for (size_t k = 0; k < 8; k++) i.args.push_back(k == 5 ? -1000 - 77 : av[k % n]); }
}

static bool build_prog(const Desc& d, PB& b) {
  Prog& p = b.p;
  p.K = d.K; p.nargs = d.am;
  int nv = 0, nk = 0;
  if (d.vm == 1 || d.vm == 3 || d.vm == 4) { b.vkind = d.vm == 1 ? KX : d.vm == 3 ? KY : KZ; p.Kx = d.K ? 3 : 0; nv = d.K ? 4 : (d.vm == 4 ? 34 : 18); p.avx = d.vm != 1; p.avx512 = d.vm == 4; }
  if (d.vm == 2) { p.Kk = d.K ? 2 : 0; nk = d.K ? 3 : 9; p.avx512 = true; p.avx = true; }
  if (d.vm == 5) { p.w32 = true; b.dk = (d.shape == SH_MANYARGS && (d.x & 2)) ? K32S : KW; }
  if (d.vm == 6) b.mixed = true;
  const int WB = p.w32 ? 4 : 8;
  auto vbytes = [&](int v) { return gp_bits(p.kinds[size_t(v)]) / 8; };
  b.mem = p.newval(KG, "mem");
  p.arg_val.assign(size_t(d.am), -1);
  p.arg_val[0] = b.mem;
  if (shape_uses_sel(d.shape)) { b.sel = p.newval(b.dk, "sel"); p.arg_val[1] = b.sel; }
  if (shape_uses_cnt(d.shape)) { b.cnt = p.newval(b.dk, "cnt"); p.arg_val[2] = b.cnt; }
  for (int i = 0; i < d.n; i++) { Kind k = b.mixed && (i & 1) ? KW : b.dk; b.dv.push_back(p.newval(k, "d" + std::to_string(i))); if (k == KG) b.dv64.push_back(b.dv.back()); }
  if (d.shape == SH_MANYARGS && d.vm == 5 && (d.x & 1)) { p.arg_tid.assign(size_t(d.am), 0); for (int i = 3; i < d.am; i++) p.arg_tid[size_t(i)] = 16; }   // int16_t arguments bound to 32-bit registers
  for (int i = 0; i < nv; i++) b.vv.push_back(p.newval(b.vkind, "v" + std::to_string(i)));
  for (int i = 0; i < nk; i++) b.kv.push_back(p.newval(KK, "k" + std::to_string(i)));
  // loop-local shapes: a value that is live only around the back edge (defined before the loop, read inside, dead after it);
  // "early" = the first virtual register of the function (lowest liveness bit), "late" = created after all data values
  int lw = -1;
  if (d.shape == SH_LOOPLOCAL_E) { lw = p.newval(b.dk, "lw"); b.I(O_MOVI, lw, -1, -1, 0x33); }
  // init: data values come from the arguments while there are some, then from the input area of the buffer
  for (int i = 0; i < d.n; i++) {
    if (3 + i < d.am) { p.arg_val[size_t(3 + i)] = b.dv[size_t(i)]; continue; }
    b.I(O_LOAD, b.dv[size_t(i)], -1, -1, 8 * (i % 8), vbytes(b.dv[size_t(i)]));
    b.I(O_ADDI, b.dv[size_t(i)], -1, -1, 29 * i + 1);
  }
  for (int j = 0; j < nv; j++) {
    int v = b.vv[size_t(j)];
    b.I(O_VMOV_VG, v, b.dv[size_t(j % d.n)]);
    if (b.vkind == KX) b.I(O_PINSRQ, v, b.dv[size_t((j + 1) % d.n)]);
    else { b.I(O_VBCAST, v, v); b.I(O_VPADDQM, v, -1, -1, 0); }
    if (j) b.I(O_PADDQ, v, b.vv[size_t(j - 1)]);
  }
  for (int j = 0; j < nk; j++) {
    int k = b.kv[size_t(j)];
    b.I(O_KMOV_KG, k, b.dv[size_t(j % d.n)]);
    if (j) b.I(O_KADD, k, k, b.kv[size_t(j - 1)]);
  }
  b.body_from = p.code.size();
  int F = b.F(), S = b.S(), L = b.L();
  switch (d.shape) {
    case SH_STRAIGHT: {
      b.slot(0);
      int t = b.tmp("t"); b.I(O_LEA, t, F, L, 1, 0); b.extra.push_back(t);     // reads two values through registers
      b.slot(1);
      break;
    }
    case SH_DIAMOND: {
      int le = b.label(), lj = b.label();
      b.slot(0);
      b.br(O_JZ, b.sel, le);
      b.slot(1); b.I(O_ADD, L, F); b.jmp(lj);
      b.bind(le); b.I(O_XOR, F, S); b.slot(2);
      b.bind(lj); b.slot(3);
      break;
    }
    case SH_LOOP: {
      int lh = b.label(), lx = b.label();
      b.slot(0);
      b.br(O_JZ, b.cnt, lx);
      b.bind(lh); b.slot(1); b.I(O_ADD, F, L); b.slot(2); b.br(O_DECJNZ, b.cnt, lh);
      b.bind(lx); b.slot(3);
      break;
    }
    case SH_NESTED: {
      int lo = b.label(), li = b.label(), lx = b.label(); int c2 = b.tmp("c");
      b.slot(0);
      b.br(O_JZ, b.cnt, lx);
      b.bind(lo); b.slot(1); b.I(O_MOVI, c2, -1, -1, 2);
      b.bind(li); b.slot(2); b.I(O_ADD, S, F); b.br(O_DECJNZ, c2, li);
      b.slot(3); b.br(O_DECJNZ, b.cnt, lo);
      b.bind(lx);
      break;
    }
    case SH_LOOPCOND: {
      int lh = b.label(), ls = b.label(), lx = b.label(); int t = b.tmp("t");
      b.slot(0);
      b.br(O_JZ, b.cnt, lx);
      b.bind(lh); b.slot(1); b.I(O_MOV, t, b.cnt); b.I(O_ANDI, t, -1, -1, 1); b.br(O_JZ, t, ls);
      b.slot(2); b.I(O_ADD, F, L);
      b.bind(ls); b.slot(3); b.br(O_DECJNZ, b.cnt, lh);
      b.bind(lx);
      break;
    }
    case SH_IRREDUCIBLE: {
      int la = b.label(), lb = b.label();
      b.slot(0);
      b.br(O_JNZ, b.sel, lb);
      b.bind(la); b.slot(1); b.I(O_ADD, F, L);
      b.bind(lb); b.slot(2); b.I(O_XOR, L, S); b.br(O_DECJG, b.cnt, la);
      b.slot(3);
      break;
    }
    case SH_JT3: case SH_JT2: {
      int l0 = b.label(), l1 = b.label(), l2 = b.label(), le = b.label();
      b.slot(0);
      Ins& jt = b.I(O_JT, b.sel); jt.lbls = {l0, l1}; if (d.shape == SH_JT3) jt.lbls.push_back(l2);
      b.bind(l0); b.slot(1); b.jmp(le);
      b.bind(l1); b.I(O_ADD, F, L); b.slot(2); if (d.shape == SH_JT3) b.jmp(le);
      if (d.shape == SH_JT3) { b.bind(l2); b.I(O_XOR, L, S); b.slot(3); }
      b.bind(le);
      break;
    }
    case SH_TWOJT: {
      // two annotated indirect jumps into the SAME set of targets (the second one meets an existing shared entry assignment), a call
      // between them, targets with DIFFERENT live-in sets: the partial targets consume one value each and return, the last target
      // consumes everything.  x bit 0: labels of the annotation in reversed order; x bit 1: two targets instead of three.
      // Inputs: cnt selects the path (0: first jump, else: call + second jump), sel selects the target.
      const bool rev = d.x & 1, two = d.x & 2;
      int t0 = b.label(), t1 = b.label(), tl = b.label(), lb2 = b.label();
      int idx = b.tmp("i"), r = b.tmp("r");
      std::vector<int> tab = two ? std::vector<int>{t0, tl} : std::vector<int>{t0, t1, tl};
      std::vector<int> ann(tab.rbegin(), tab.rend());
      b.I(O_MOVI, r, -1, -1, 9);
      b.I(O_MOV, idx, b.sel); if (two) b.I(O_ANDI, idx, -1, -1, 1);
      b.slot(0);
      b.br(O_JNZ, b.cnt, lb2);
      { Ins& jt = b.I(O_JT, idx); jt.lbls = tab; if (rev) jt.ann = ann; }
      b.bind(lb2); b.slot(1); call(b, 2, r); b.slot(2);
      { Ins& jt = b.I(O_JT, idx); jt.lbls = tab; if (rev) jt.ann = ann; }
      auto partial = [&](int lbl, int v, int64_t seed) {
        int a2 = b.tmp("pa");
        b.bind(lbl); b.I(O_MOVI, a2, -1, -1, seed); b.I(O_LEA, a2, a2, a2, 0, 1); b.I(O_ADD, a2, v); b.I(O_LEA, a2, a2, a2, 0, 1); b.I(O_ADD, a2, r);
        b.I(O_STORE, a2, -1, -1, 64, p.w32 ? 4 : 8); b.I(O_RET, a2);
      };
      partial(t0, F, 7);
      if (!two) partial(t1, L, 11);
      b.bind(tl); b.slot(3);
      b.extra.push_back(r);
      break;
    }
    case SH_LOOPLOCAL_E: case SH_LOOPLOCAL_L: {
      int lh = b.label(), ls = b.label(), lx = b.label(); int t = b.tmp("t"), lacc = b.tmp("la");
      if (lw < 0) { lw = p.newval(b.dk, "lw"); b.I(O_MOVI, lw, -1, -1, 0x55); }
      b.I(O_MOVI, lacc, -1, -1, 0);
      b.slot(0);
      b.br(O_JZ, b.cnt, lx);
      b.bind(lh); b.slot(1); b.I(O_ADD, lacc, lw); b.I(O_MOV, t, b.cnt); b.I(O_ANDI, t, -1, -1, 1); b.br(O_JZ, t, ls);
      b.slot(2); b.I(O_ADD, F, L);
      b.bind(ls); b.slot(3); b.br(O_DECJNZ, b.cnt, lh);
      b.bind(lx);
      b.extra.push_back(lacc);
      break;
    }
    case SH_MARSHAL: {
      // argument marshalling: x = source type * 100 + parameter type * 10 + position; one typed register is passed at a register / stack position
      static const Kind kT[] = {K8S, K8U, K16S, K16U, K32S, KW, K64S};
      static const int kP[] = {-32, 32, -64, 64};
      static const int64_t kOff[] = {48, 48, 40, 40, 56, 56, 24};          // input qwords whose low bytes are negative / positive over the data tuples
      int ti = d.x / 100, pi = (d.x / 10) % 10, pos = d.x % 10;
      if (ti < 0 || ti > 15 || pi < 0 || pi > 3 || (pos != 1 && pos != 4 && pos != 7 && pos != 9)) return false;
      if (ti >= 7) {
        // an IMMEDIATE argument (source "types" 7..15): the callee must see the value converted to the parameter's type
        int r = b.tmp("r");
        b.slot(0);
        Ins& ci = b.I(O_CALL, r); ci.fn = 10; ci.imm = kMarshalImm[ti - 7];
        p.call10_ptype.assign(10, 64); p.call10_mask.assign(10, ~0ull);
        int pbits = kP[pi] < 0 ? -kP[pi] : kP[pi];
        for (int k = 0; k < 10; k++) { if (k == pos) { ci.args.push_back(-999); p.call10_ptype[size_t(k)] = kP[pi]; p.call10_mask[size_t(k)] = bits_mask(pbits); } else if (k == 5) ci.args.push_back(-1000 - 77); else ci.args.push_back(b.dv[size_t(k) % b.dv.size()]); }
        b.slot(1);
        b.extra.push_back(r);
        break;
      }
      Kind tk = kT[ti]; if (gp_bits(tk) > (kP[pi] < 0 ? -kP[pi] : kP[pi])) return false;
      int tv = p.newval(tk, "m" + std::to_string(p.kinds.size())), r = b.tmp("r");
      b.I(O_LOAD, tv, -1, -1, kOff[ti], gp_bits(tk) / 8);
      b.slot(0);
      Ins& ci = b.I(O_CALL, r); ci.fn = 10;
      p.call10_ptype.assign(10, 64); p.call10_mask.assign(10, ~0ull);
      // A parameter passed on the stack is converted by the Compiler (move_reg_to_stack_arg): all bits of the parameter's type are
      // compared.  A parameter passed in a register only constrains the physical register (no conversion; the repository test
      // FuncCallRefArgs relies on that): the bits above the width of the source register are not defined and not compared.
      int pbits = kP[pi] < 0 ? -kP[pi] : kP[pi];
      for (int k = 0; k < 10; k++) { if (k == pos) { ci.args.push_back(tv); p.call10_ptype[size_t(k)] = kP[pi]; p.call10_mask[size_t(k)] = bits_mask(pos < 6 ? std::min(pbits, gp_bits(tk)) : pbits); } else if (k == 5) ci.args.push_back(-1000 - 77); else ci.args.push_back(b.dv[size_t(k) % b.dv.size()]); }
      b.slot(1);
      b.extra.push_back(r);
      break;
    }
    case SH_SWAPLOOP2: {
      // shifts by two different variable counts + a value that is re-defined in every iteration: inside the loop the last value is
      // saved and reloaded (clean) while the first one is written (dirty), and the back edge exchanges their registers.
      // x = trip count of the loop (a constant; do-while form, the header is entered by falling through)
      int lh = b.label(); int ctr = b.tmp("n");
      b.I(O_SHR, L, F);
      b.I(O_MOVI, ctr, -1, -1, d.x > 0 ? d.x : 4);
      b.bind(lh);
      b.I(O_SHR, L, L);
      b.slot(0);
      b.I(O_LOAD, F, -1, -1, 8, gp_bits(p.kinds[size_t(F)]) / 8);
      b.I(O_SHL, S, S);
      b.I(O_SHL, F, L);
      b.slot(1);
      b.br(O_DECJNZ, ctr, lh);
      b.I(O_SHL, S, L);
      break;
    }
    case SH_SWAPLOOP: {
      // fixed-register instructions put the first two values into rax / rcx before the loop and into rcx / rax inside it, so the
      // back edge has to exchange them (in the mixed mode: a 64-bit and a 32-bit virtual register)
      int lh = b.label(), lx = b.label();
      int t = b.tmp("t"), k3 = p.newval(p.kinds[size_t(S)], "k" + std::to_string(p.kinds.size())), k5 = b.tmp("k"), h1 = p.newval(p.kinds[size_t(S)], "h" + std::to_string(p.kinds.size())), h2 = b.tmp("h");
      b.I(O_MOVI, t, -1, -1, 1); b.I(O_MOVI, k3, -1, -1, 3); b.I(O_MOVI, k5, -1, -1, 5);
      b.br(O_JZ, b.cnt, lx);
      b.I(O_MUL, h1, S, k3);              // second value -> (e|r)ax
      b.I(O_SHL, t, F);                   // first value  -> cl
      b.bind(lh);
      b.slot(0);
      b.I(O_MUL, h2, F, k5);              // first value  -> rax
      b.I(O_SHL, t, S);                   // second value -> cl
      b.slot(1);
      b.br(O_DECJNZ, b.cnt, lh);
      b.bind(lx);
      b.extra.push_back(t);
      break;
    }
    case SH_MANYARGS: {
      // 16 arguments (13 data values arrive as arguments 3..15, seven of them on the stack), a 32-byte aligned stack variable that
      // is written and read, a call with stack-passed arguments in the middle: argument home slots, local area and call area coexist
      int r = b.tmp("r");
      p.nstk = 1; p.stk_align = 32;
      b.slot(0);
      call(b, 8, r);
      b.I(O_STKST, r, -1, -1, 0); b.I(O_MOVI, r, -1, -1, 0); b.I(O_STKLD, r, -1, -1, 0);
      b.slot(1);
      b.extra.push_back(r);
      break;
    }
    case SH_CALLMID: {
      b.slot(0);
      call(b, 2, S);
      b.slot(1);
      break;
    }
    case SH_CALLLOOP: {
      int lh = b.label(), lx = b.label();
      b.br(O_JZ, b.cnt, lx);
      b.bind(lh); b.slot(0); call(b, 2, L); b.slot(1); b.br(O_DECJNZ, b.cnt, lh);
      b.bind(lx);
      break;
    }
    case SH_SELFLOOP: {
      // a block that branches to itself and contains a call: the middle value is spilled by a call before the loop and reloaded by a
      // read-only use (clean when the loop is entered), spilled again by the call in the body (nothing to store), then reloaded and
      // modified (dirty at the back edge). 3 iterations. x bit0: the back edge is a jmp and the exit is in the middle (two blocks).
      int lh = b.label(), lx = b.label(); int ctr = b.tmp("n"), t = b.tmp("t");
      b.slot(0);
      call(b, 2, L);
      b.I(O_LEA, t, S, F, 0, 1);
      b.I(O_MOVI, ctr, -1, -1, 3);
      b.bind(lh);
      call(b, 2, L);
      b.slot(1);
      b.I(O_LEA, S, S, F, 1, 0);                                               // needs the value in a register (an add would be done in memory)
      b.slot(2);
      if (d.x & 1) { b.I(O_ADDI, ctr, -1, -1, -1); b.br(O_JZ, ctr, lx); b.I(O_ADDI, t, -1, -1, 5); b.jmp(lh); b.bind(lx); }
      else b.br(O_DECJNZ, ctr, lh);
      b.extra.push_back(t);
      break;
    }
    case SH_TWOCALLS: {
      int r0 = b.tmp("r"), r1 = b.tmp("r"), t = b.tmp("t");
      b.slot(0);
      call(b, 2, r0);
      b.I(O_LEA, t, F, L, 3, 1);                                               // brings two spilled values back into registers, clean
      b.slot(1);
      call(b, 8, r1);
      b.slot(2);
      b.extra.push_back(r0); b.extra.push_back(r1); b.extra.push_back(t);
      break;
    }
    default: return false;
  }
  b.body_to = p.code.size();
  if (!b.ok) return false;
  // the final expression consumes every live value: position-sensitive fold into the return value + stores
  int acc = b.tmp("acc"), t = -1;
  b.I(O_MOVI, acc, -1, -1, 1);
  int zt = -1;
  auto fold = [&](int v) {
    b.I(O_LEA, acc, acc, acc, 0, 1);
    if (b.mixed && gp_bits(p.kinds[size_t(v)]) == 32) { if (zt < 0) zt = p.newval(KG, "z" + std::to_string(p.kinds.size())); b.I(O_MOV, zt, v); b.I(O_ADD, acc, zt); }   // zero extending move from the 32-bit register
    else b.I(O_ADD, acc, v);
  };
  for (int v : b.dv) fold(v);
  for (int v : b.extra) fold(v);
  for (size_t j = 0; j < b.vv.size(); j++) {
    b.I(O_VSTORE, b.vv[j], -1, -1, 1024 + 64 * int64_t(j));
    if (b.vkind == KX) { if (t < 0) t = b.tmp("t"); b.I(O_VMOV_GV, t, b.vv[j]); fold(t); }
  }
  for (size_t j = 0; j < b.kv.size(); j++) { if (t < 0) t = b.tmp("t"); b.I(O_KMOV_GK, t, b.kv[j]); fold(t); }
  for (size_t i = 0; i < b.dv.size() && i < 3; i++) b.I(O_STORE, b.dv[i], -1, -1, 72 + 8 * int64_t(i), vbytes(b.dv[i]));
  b.I(O_STORE, acc, -1, -1, 64, WB);
  b.I(O_RET, acc);
  return true;
}

// ---- inputs ---------------------------------------------------------------------------------------------
static std::vector<Input> inputs_for(int shape) {
  static const uint64_t data[4][8] = {
    {0, 0, 0, 0, 0, 0, 0, 0},
    {1, ~0ull, 1, ~0ull, 2, ~1ull, 1, ~0ull},
    {0x8000000000000000ull, 0xFFFFFFFF00000000ull, 0x0123456789ABCDEFull, 0xFEDCBA9876543210ull, 0x7FFFFFFFFFFFFFFFull, 0x00000001FFFFFFFFull, 0xAAAAAAAA55555555ull, 0x8000000080000000ull},
    {0x80000000ull, 0x7FFFFFFFull, 0xFFull, 0x100ull, 0xFFFFull, 0x8000ull, 0x80ull, 0x12345678ull}};
  std::vector<std::pair<uint64_t, uint64_t>> ctl;   // (sel, cnt)
  std::vector<uint64_t> sels = {0}, cnts = {0};
  if (shape == SH_DIAMOND || shape == SH_IRREDUCIBLE || shape == SH_JT2) sels = {0, 1};
  if (shape == SH_JT3 || shape == SH_TWOJT) sels = {0, 1, 2};
  if (shape_uses_cnt(shape)) cnts = {0, 1, 3};
  if (shape == SH_TWOJT) cnts = {0, 1};
  std::vector<Input> out;
  for (uint64_t s : sels) for (uint64_t cn : cnts) for (int t = 0; t < 4; t++) {
    Input in; in.sel = s; in.cnt = cn;
    for (int i = 0; i < 13; i++) in.a[i] = data[t][(i + 3) % 8] + uint64_t(i >= 7 && t ? 0x100 * i : 0);
    for (int i = 0; i < 8; i++) in.m[i] = data[t][i] + uint64_t(t ? i : 0);
    out.push_back(in);
  }
  return out;
}

// ---- descriptor <-> text --------------------------------------------------------------------------------
static std::string desc_str(const Desc& d) {
  std::string s = std::string("arch=") + kArchName[d.arch] + " shape=" + kShapeName[d.shape] + " K=" + std::to_string(d.K) + " n=" + std::to_string(d.n) + " args=" + std::to_string(d.am) + " vm=" + std::to_string(d.vm) + " fills=";
  for (size_t i = 0; i < d.fills.size(); i++) s += (i ? "," : "") + std::string("S") + std::to_string(d.fills[i].slot) + ":" + kAlpha[d.fills[i].alpha].name + ":p" + std::to_string(d.fills[i].pat);
  if (d.fills.empty()) s += "-";
  if (d.x) s += " x=" + std::to_string(d.x);
  return s;
}
static bool parse_desc(const std::string& text, Desc& d) {
  for (auto& line : vh::split(text, '\n')) {
    if (line.rfind("arch=", 0) != 0) continue;
    char ar[16], sh[64], fl[1024]; fl[0] = 0;
    if (sscanf(line.c_str(), "arch=%15s shape=%63s K=%d n=%d args=%d vm=%d fills=%1023s", ar, sh, &d.K, &d.n, &d.am, &d.vm, fl) < 6) return false;
    { size_t xp = line.find(" x="); d.x = xp == std::string::npos ? 0 : atoi(line.c_str() + xp + 3); }
    d.arch = -1; for (int i = 0; i < 3; i++) if (!strcmp(ar, kArchName[i])) d.arch = i;
    if (d.arch < 0) return false;
    d.shape = -1; for (int i = 0; i < SH__COUNT; i++) if (!strcmp(sh, kShapeName[i])) d.shape = i;
    if (d.shape < 0) return false;
    if (strcmp(fl, "-")) for (auto& f : vh::split(fl, ',')) {
      auto parts = vh::split(f, ':'); if (parts.size() != 3) return false;
      Fill x; x.slot = atoi(parts[0].c_str() + 1); x.alpha = alpha_by_name(parts[1]); x.pat = atoi(parts[2].c_str() + 1);
      if (x.alpha < 0) return false;
      d.fills.push_back(x);
    }
    return true;
  }
  return false;
}

// =========================================================================================================
// main: enumeration
// =========================================================================================================
static long long g_idx = 0;
static bool g_dry = false;
static std::map<std::string, long long> g_dry_counts;   // --dry 1: count the programs of the tier without running them
static bool g_stop = false;
static std::map<std::string, long long> g_shape_count;

static void run_one(const Desc& d, bool sample) {
  vh::Ctx& c = vh::ctx();
  PB b(d);
  if (!build_prog(d, b)) { c.n("skipped_not_wellformed")++; return; }
  CaseInfo ci; ci.shape = kShapeName[d.shape]; ci.arch = kArchName[d.arch];
  for (const Fill& f : d.fills) ci.ops += (ci.ops.empty() ? "" : "+") + std::string(kAlpha[f.alpha].name);
  if (ci.ops.empty()) ci.ops = "-";
  if (d.shape == SH_MARSHAL) {
    static const char* const tn[] = {"int8", "uint8", "int16", "uint16", "int32", "uint32", "int64"}; static const char* const pn[] = {"int32", "uint32", "int64", "uint64"};
    int ti = d.x / 100, pi = (d.x / 10) % 10, pos = d.x % 10;
    if (ti >= 7 && ti < 16 && pi >= 0 && pi < 4) { char hb[32]; snprintf(hb, sizeof hb, "imm%llx", (unsigned long long)kMarshalImm[ti - 7]); ci.ops = std::string(hb) + ">" + pn[pi] + (pos < 6 ? "@reg" : "@stack") + (ci.ops == "-" ? "" : "+" + ci.ops); }
    if (ti >= 0 && ti < 7 && pi >= 0 && pi < 4) ci.ops = std::string(tn[ti]) + ">" + pn[pi] + (pos < 6 ? "@reg" : "@stack") + (ci.ops == "-" ? "" : "+" + ci.ops);
  }
  ci.replay = "harness=c05_ra\n" + desc_str(d) + "\n";
  ci.body = desc_str(d) + " :: " + prog_str(b.p, b.body_from, b.body_to);
  static std::map<int, std::vector<Input>> cache;
  auto it = cache.find(d.shape);
  if (it == cache.end()) it = cache.emplace(d.shape, inputs_for(d.shape)).first;
  if (d.arch == 0) run_case(b.p, ci, it->second); else run_case_sim(b.p, ci, it->second, d.arch);
  if (!sample) return;
  g_shape_count[ci.shape]++;
  c.n(d.arch == 0 ? "programs_x64_native" : d.arch == 1 ? "programs_x86_32_simulated" : "programs_a64_simulated")++;
  if (!d.fills.empty()) c.sample(ci.body, 10);
}

static std::array<int, 3> op_tuple(const Alpha& al, int pat, const Desc& d);
static bool alpha_applicable(const Alpha& al, int pat, const Desc& d);

// does this alphabet entry, filled alone into any slot of any shape with any operand pattern, already fail in this configuration?
static bool fails_alone(const Desc& d, int alpha) {
  static std::map<std::string, bool> cache;
  Desc base = d; base.fills.clear(); base.shape = 0;
  std::string key = desc_str(base) + "|" + kAlpha[alpha].name;
  auto it = cache.find(key);
  if (it != cache.end()) return it->second;
  bool fails = false;
  for (int sh = 0; sh < SH__COUNT && !fails; sh++) {
    base.shape = sh;
    if (d.arch != 0 && (sh == SH_JT3 || sh == SH_JT2)) continue;
  for (int s = 0; s < kShapeSlots[sh] && !fails; s++) {
    std::vector<std::array<int, 3>> seen;
    for (int pt = 0; pt < kPatCount && !fails; pt++) {
      if (!alpha_applicable(kAlpha[alpha], pt, base)) continue;
      auto t = op_tuple(kAlpha[alpha], pt, base);
      bool dup = false; for (auto& x : seen) if (x == t) dup = true;
      if (dup) continue;
      seen.push_back(t);
      Desc s1 = base; s1.fills = {Fill{s, alpha, pt}};
      g_pending.have = false; run_one(s1, false);
      if (g_pending.have) fails = true;
    }
  }
  }
  cache[key] = fails;
  return fails;
}

static bool how_two_ops(const std::string& key) { size_t cut = key.rfind(':'); return key.find('+', cut) != std::string::npos; }

static void run_desc(const Desc& d) {
  vh::Ctx& c = vh::ctx();
  g_pending.have = false;
  run_one(d, true);
  if (!g_pending.have) return;
  Pending rep = g_pending;
  if (d.fills.size() == 2) {
    bool verbose_saved = g_verbose; g_verbose = false;
    // Attribute the failure.  (1) one of the two fillings alone, in the same slot with the same operands, already fails: that
    // single-fill program is reported (minimal key and replay).  (2) otherwise, an operation that fails alone somewhere in this
    // shape/configuration gives the key its name (the pair program stays the replay).  (3) only a genuine interaction of two
    // operations that never fail alone keeps the two-operation key.
    std::map<std::string, long long> saved = c.counters;
    int how = 3;
    for (int i = 0; i < 2 && how == 3; i++) { Desc s1 = d; s1.fills = {d.fills[size_t(i)]}; g_pending.have = false; run_one(s1, false); if (g_pending.have) { rep = g_pending; how = 1; } }
    if (how == 3) {
      bool fa = fails_alone(d, d.fills[0].alpha), fb = fails_alone(d, d.fills[1].alpha);
      if (fa || fb) {
        size_t cut = rep.key.rfind(':');
        rep.key = rep.key.substr(0, cut + 1) + kAlpha[d.fills[fa ? 0 : 1].alpha].name;
        how = 2;
      }
    }
    c.counters = saved; g_verbose = verbose_saved;
    c.n(how == 1 ? "failures_attributed_to_one_fill" : how == 2 ? "failures_attributed_to_an_operation_failing_alone" : "failures_needing_both_fills")++;
  }
  if (how_two_ops(rep.key)) {
    // bound the number of distinct two-operation keys per shard: the first few are listed, the rest is aggregated per shape/clause
    static std::set<std::string> listed;
    if (!listed.count(rep.key)) {
      if (listed.size() < 6) listed.insert(rep.key);
      else { size_t cut = rep.key.rfind(':'); rep.key = rep.key.substr(0, cut + 1) + "two-ops-further"; rep.desc = "(further failing two-operation programs, aggregated; first one:) " + rep.desc; }
    }
  }
  c.violation(rep.key, rep.desc, rep.replay);
}

struct Config { int K, n, am, vm; int arch = 0; int x = 0; bool no_fills = false; unsigned pats = 0x1F; };

// operand index tuple of (alpha, pat) for dedup of patterns that select the same operands
static std::array<int, 3> op_tuple(const Alpha& al, int pat, const Desc& d) {
  std::array<int, 3> t = {-1, -1, -1};
  int nv = (d.vm == 1 || d.vm == 3 || d.vm == 4) ? (d.K ? 4 : (d.vm == 4 ? 34 : 18)) : 0, nk = d.vm == 2 ? (d.K ? 3 : 9) : 0;
  for (int j = 0; j < al.arity; j++) {
    int sz = al.kinds[j] == 'g' ? d.n : al.kinds[j] == 'v' ? nv : nk;
    int w = kPat[pat][j];
    t[size_t(j)] = w == 0 ? 0 : w == 1 ? (sz > 1 ? 1 : 0) : sz - 1;
  }
  return t;
}

static std::vector<Fill> fills_for(const Desc& d, unsigned pat_mask = 0x1F) {
  std::vector<Fill> out;
  for (int s = 0; s < kShapeSlots[d.shape]; s++)
    for (int a = 0; a < kAlphaCount; a++) {
      std::vector<std::array<int, 3>> seen;
      for (int pt = 0; pt < kPatCount; pt++) {
        if (!(pat_mask & (1u << pt)) || !alpha_applicable(kAlpha[a], pt, d)) continue;
        auto t = op_tuple(kAlpha[a], pt, d);
        bool dup = false; for (auto& x : seen) if (x == t) dup = true;
        if (dup) continue;
        seen.push_back(t);
        out.push_back(Fill{s, a, pt});
      }
    }
  return out;
}

static void enumerate(const std::vector<Config>& cfgs, int k, const std::vector<int>& shapes, unsigned pat_mask = 0x1F) {
  vh::Ctx& c = vh::ctx();
  for (const Config& cf : cfgs) for (int sh : shapes) {
    Desc d; d.arch = cf.arch; d.shape = sh; d.K = cf.K; d.n = cf.n; d.am = cf.am; d.vm = cf.vm; d.x = cf.x;
    if (cf.arch != 0 && (sh == SH_JT3 || sh == SH_JT2)) continue;   // indirect jumps are outside the simulator
    std::vector<Fill> fl; if (!cf.no_fills) fl = fills_for(d, pat_mask & cf.pats);
    auto one = [&](const Desc& dd) {
      if (g_stop) return;
      if (g_dry) { g_idx++; g_dry_counts[std::string(kArchName[dd.arch]) + " vm=" + std::to_string(dd.vm) + " K=" + std::to_string(dd.K) + " n=" + std::to_string(dd.n) + " args=" + std::to_string(dd.am) + (dd.shape >= SH_MARSHAL ? std::string(" ") + kShapeName[dd.shape] : std::string(""))]++; return; }
      if (!c.mine(g_idx++)) return;
      if ((c.n("evaluations") & 63) == 0 && c.out_of_time()) { g_stop = true; return; }
      if (c.n("hangs") >= 10) { c.exhaustive = false; c.note("exploration of this shard stopped after 10 non-terminating programs (each costs seconds)"); g_stop = true; return; }
      run_desc(dd);
    };
    if (k == 1) {
      one(d);
      for (const Fill& f : fl) { Desc dd = d; dd.fills = {f}; one(dd); }
    } else {
      // exactly two fills: two different slots (in slot order) or the same slot in both orders
      for (size_t i = 0; i < fl.size() && !g_stop; i++) for (size_t j = 0; j < fl.size() && !g_stop; j++) {
        if (fl[j].slot < fl[i].slot) continue;
        if (i == j) continue;
        Desc dd = d; dd.fills = {fl[i], fl[j]}; one(dd);
      }
    }
    if (g_stop) return;
  }
}

int main(int argc, char** argv) {
  vh::parse_args(argc, argv);
  vh::Ctx& c = vh::ctx();
  install_native_hooks();
  JitRuntime rt; g_rt = &rt;
  g_has_avx512 = rt.cpu_features().x86().has_avx512_f() && rt.cpu_features().x86().has_avx512_bw() && rt.cpu_features().x86().has_avx512_dq();
  bool has_avx2 = rt.cpu_features().x86().has_avx2();

  if (c.replaying()) {
    Desc d;
    if (!parse_desc(c.replay_text, d)) { fprintf(stderr, "c05: cannot parse replay file\n"); return 2; }
    g_verbose = c.opt("quiet") != "1";
    run_desc(d);
    return vh::finish();
  }

  g_dry = c.opt("dry") == "1";
  std::vector<int> all_shapes; for (int i = 0; i < SH__COUNT; i++) if (i != SH_MARSHAL && i != SH_MANYARGS && i != SH_SWAPLOOP && i != SH_TWOJT && i != SH_SWAPLOOP2 && i != SH_SELFLOOP) all_shapes.push_back(i);
  std::vector<Config> cfg1, cfg2;
  std::string bound;
  auto add_k = [&](std::vector<Config>& v, int K, std::initializer_list<int> ams) {
    int last = -1;
    for (int nt : {K - 1, K, K + 1, K + 3}) { int n = nt - 1 < 1 ? 1 : nt - 1; if (n == last) continue; last = n; for (int am : ams) v.push_back(Config{K, n, am, 0}); }
  };
  auto add_vec = [&](std::vector<Config>& v, int K, int n) {
    v.push_back(Config{K, n, 6, 1});
    if (has_avx2) v.push_back(Config{K, n, 6, 3});
    if (g_has_avx512) { v.push_back(Config{K, n, 6, 2}); v.push_back(Config{K, n, 6, 4}); }
  };
  if (!c.thorough()) {
    add_k(cfg1, 3, {6, 10});
    for (size_t i = 0; i < cfg1.size(); i++) if (cfg1[i].am == 10 && cfg1[i].n <= 3) { cfg1.erase(cfg1.begin() + long(i)); i--; }   // the smallest pressures only with 6 arguments
    for (Config& cf : cfg1) if (cf.am == 10) cf.pats = 0x0B;   // 10-argument variants: three of the five operand patterns
    cfg1.push_back(Config{0, 20, 6, 0});
    { Config c70{0, 70, 10, 0}; c70.pats = 0x01; cfg1.push_back(c70); Config c130{0, 130, 6, 0}; c130.pats = 0x01; cfg1.push_back(c130); }   // large programs: operand patterns first-second-last (+ same-twice)
    add_vec(cfg1, 3, 3); add_vec(cfg1, 0, 20);
    cfg1.push_back(Config{3, 2, 6, 5}); { Config a{3, 4, 10, 5}; a.pats = 0x0B; cfg1.push_back(a); } { Config w{0, 20, 6, 5}; w.pats = 0x09; cfg1.push_back(w); }
    cfg1.push_back(Config{3, 2, 6, 6}); cfg1.push_back(Config{3, 3, 6, 6}); cfg1.push_back(Config{3, 5, 10, 6}); cfg1.push_back(Config{0, 20, 6, 6});   // mixed 64/32-bit values
    cfg1.push_back(Config{3, 2, 6, 5, 1}); { Config a{3, 4, 10, 5, 1}; a.pats = 0x0B; cfg1.push_back(a); Config b2{0, 10, 6, 5, 1}; b2.pats = 0x09; cfg1.push_back(b2); }
    cfg1.push_back(Config{3, 2, 6, 0, 2}); cfg1.push_back(Config{3, 4, 10, 0, 2}); cfg1.push_back(Config{0, 20, 6, 0, 2}); cfg1.push_back(Config{0, 36, 10, 0, 2});
    bound = "k<=1 slot; x64 native: K=3 with total GP pressure {2,3,4,6} (= data values + buffer pointer; loop counters/selectors/call targets on top) x args {6, 10 (4 on the stack)}; full file with 20 (6 args), 70 (10 args) and 130 (6 args) data values; "
            "xmm/ymm/zmm/k-mask value modes at K=3 (vector file 3, mask file 2; 4 vector / 3 mask values) and full file (18/18/34 vector, 9 mask values); 32-bit virtual registers at K=3 (pressure 3, 5) and full file (20); "
            "x86-32 simulated: K=3 (pressure 3, 5), full file (10 values); AArch64 simulated: K=3 (pressure 3, 5), full file (20, 36 values); mixed 64/32-bit values at K=3 (2, 3, 5 values) and full file (20); "
            "swap-loop at K in {0,3,4}; call-args: 7 source types x wider-or-equal parameter types x {2nd register, 8th = stack} at K=3 and full file; many-args: K=3 (15 values) and full file (20), uint64 / uint32 / int16_t-in-uint32 / int16_t-in-int32 arguments; "
            "large or 10-argument configurations use a subset of the operand patterns";
  } else {
    for (int K : {2, 3, 4}) add_k(cfg1, K, {6, 10});
    for (int n : {20, 70, 130}) for (int am : {6, 10}) cfg1.push_back(Config{0, n, am, 0});
    add_vec(cfg1, 3, 1); add_vec(cfg1, 3, 3); add_vec(cfg1, 2, 2); add_vec(cfg1, 4, 5); add_vec(cfg1, 0, 20);
    for (int K : {2, 3, 4}) { size_t from = cfg1.size(); add_k(cfg1, K, {6}); for (size_t i = from; i < cfg1.size(); i++) cfg1[i].vm = 5; }
    cfg1.push_back(Config{0, 20, 6, 5}); cfg1.push_back(Config{0, 70, 10, 5});
    for (int K : {2, 3, 4}) { size_t from = cfg1.size(); add_k(cfg1, K, {6, 10}); for (size_t i = from; i < cfg1.size(); i++) cfg1[i].vm = 6; }
    cfg1.push_back(Config{0, 20, 6, 6}); cfg1.push_back(Config{0, 70, 10, 6});
    for (int K : {2, 3, 4}) { size_t from = cfg1.size(); add_k(cfg1, K, {6, 10}); for (size_t i = from; i < cfg1.size(); i++) { cfg1[i].vm = 5; cfg1[i].arch = 1; } }
    cfg1.push_back(Config{0, 8, 6, 5, 1}); cfg1.push_back(Config{0, 12, 10, 5, 1});
    for (int K : {3, 4}) { size_t from = cfg1.size(); add_k(cfg1, K, {6, 10}); for (size_t i = from; i < cfg1.size(); i++) cfg1[i].arch = 2; }
    cfg1.push_back(Config{0, 20, 6, 0, 2}); cfg1.push_back(Config{0, 28, 10, 0, 2}); cfg1.push_back(Config{0, 36, 10, 0, 2});
    cfg2.push_back(Config{3, 3, 6, 0});
    bound = "k<=1 slot: x64 K in {2,3,4} x total GP pressure {K-1,K,K+1,K+3} x args {6,10}; full file with 20/70/130 data values x args {6,10}; vector/mask value modes at K=2,3,4 and full file; 32-bit value mode at K in {2,3,4} and full file (20, 70 values); "
            "x86-32 (simulated) K in {2,3,4} and full file (8, 12 values); AArch64 (simulated) K in {3,4} and full file (20, 28, 36 values); "
            "k=2 slots (two different slots, or one slot filled twice in both orders): x64, K=3, total pressure 4, 6 args, GP alphabet, operand patterns {first-second-last, second-last-first, same-twice}";
  }
  // the small dedicated shapes run first, so that a run capped by the deadline (loaded machine) still covers them
  {
    // argument marshalling at call sites: every (source register type) x (parameter type at least as wide) x (register / stack position)
    std::vector<Config> mc;
    for (int ti = 0; ti < 16; ti++) for (int pi = 0; pi < 4; pi++) for (int pos : {1, 7, 4, 9}) {
      if (!c.thorough() && (pos == 4 || pos == 9)) continue;
      static const int tb[] = {8, 8, 16, 16, 32, 32, 64, 0, 0, 0, 0, 0, 0, 0, 0, 0}; static const int pb[] = {32, 32, 64, 64};
      if (tb[ti] > pb[pi]) continue;
      for (auto kn : {std::make_pair(3, 3), std::make_pair(0, 20)}) { Config cf{kn.first, kn.second, 6, 0}; cf.x = ti * 100 + pi * 10 + pos; cf.no_fills = !c.thorough(); mc.push_back(cf); }
    }
    if (!g_stop) enumerate(mc, 1, {SH_MARSHAL});
    // many arguments + aligned stack variable + call with stack arguments
    std::vector<Config> ma;
    for (int K : {0, 3}) for (int n : {15, 20}) {
      if (K == 3 && n == 20) continue;
      if (!c.thorough() && K == 0 && n == 15) continue;
      Config a0{K, n, 16, 0}, a5{K, n, 16, 5}, a1{K, n, 16, 5}, a3{K, n, 16, 5}; a1.x = 1; a3.x = 3;
      for (Config* cf : {&a0, &a5, &a1, &a3}) { if (!c.thorough()) cf->pats = 0x01; ma.push_back(*cf); }
    }
    if (!g_stop) enumerate(ma, 1, {SH_MANYARGS});
    // register exchange at a loop back edge
    std::vector<Config> sw;
    for (int vm : {6, 0, 5}) for (int K : {0, 4, 3}) for (int n : {2, 3, 5}) { if (!c.thorough() && vm != 6 && !(K == 0 && n == 3)) continue; sw.push_back(Config{K, n, 6, vm}); }
    if (!g_stop) enumerate(sw, 1, {SH_SWAPLOOP});
    // register exchange between a clean (reloaded) and a dirty register at a loop back edge
    std::vector<Config> sw2;
    for (int vm : {0, 5, 6}) for (int K : {0, 4, 3}) for (int n : {3, 4, 5}) { if (!c.thorough() && (vm != 0 || n == 4)) continue; sw2.push_back(Config{K, n, 6, vm}); }
    if (!g_stop) enumerate(sw2, 1, {SH_SWAPLOOP2});
    // single-block loop (a block that branches to itself) with a call before the loop and a call in the body
    std::vector<Config> sl;
    for (int x : {0, 1}) for (int vm : {0, 6, 5}) for (int K : {0, 4, 3}) for (int n : {3, 4, 6}) {
      if (!c.thorough() && (x || n != 3 || K == 3 || (K == 4 && vm != 0))) continue;
      Config cf{K, n, 6, vm}; cf.x = x; sl.push_back(cf);
    }
    if (!g_stop) enumerate(sl, 1, {SH_SELFLOOP});
    // a value that is live only around a back edge and whose liveness bit is in the upper half of a bit word (33..64 multi-block registers)
    std::vector<Config> ll;
    for (int n : {40, 56}) { Config cf{0, n, 6, 0}; if (!c.thorough()) cf.pats = 0x01; ll.push_back(cf); }
    if (!g_stop) enumerate(ll, 1, {SH_LOOPLOCAL_E, SH_LOOPLOCAL_L});
    // two annotated indirect jumps into one set of targets
    std::vector<Config> tj;
    for (int x = 0; x < 4; x++) for (auto kn : {std::make_pair(3, 2), std::make_pair(3, 3), std::make_pair(3, 5), std::make_pair(0, 20)}) {
      if (!c.thorough() && kn.second == 2 && x >= 2) continue;
      Config cf{kn.first, kn.second, 6, 0}; cf.x = x; if (!c.thorough()) cf.pats = 0x09; tj.push_back(cf);
      if (c.thorough()) { Config m = cf; m.vm = 6; tj.push_back(m); Config w = cf; w.vm = 5; tj.push_back(w); }
    }
    if (!g_stop) enumerate(tj, 1, {SH_TWOJT});
  }
  if (!g_stop) enumerate(cfg1, 1, all_shapes);
  long long n1 = c.n("evaluations");
  if (!cfg2.empty() && !g_stop) enumerate(cfg2, 2, all_shapes, 0x0B);
  if (g_dry) { for (auto& kv : g_dry_counts) printf("%8lld  %s\n", kv.second, kv.first.c_str()); printf("programs in this tier: %lld\n", g_idx); return 0; }
  c.n("programs_k1") = n1; c.n("programs_k2") = c.n("evaluations") - n1;
  c.n("states") = c.n("evaluations");
  c.n("transitions") = c.n("traces");
  for (auto& kv : g_shape_count) c.n(("shape_" + kv.first).c_str()) = kv.second;
  c.strs["bound"] = bound + (g_stop ? " (capped by the deadline)" : "");
  c.strs["rule"] = "programs = arch{x64 native, x86-32 simulated, AArch64 simulated} x shape{straight,diamond,loop,nested-loop,loop-cond,irreducible,jumptable3,jumptable2,call-mid,call-loop,two-calls,loop-local-early,loop-local-late (a value live only around the back edge),swap-loop (fixed-register instructions force a register exchange at the back edge),swap-loop-reload (shifts by two variable counts and a value re-defined in the loop: exchange of a clean and a dirty register at the back edge),self-loop-call (a block that branches to itself with a call before the loop and a call in the body; a loop-carried value that is clean on entry, spilled by the call, then modified; 3 iterations; also the jmp / exit-in-the-middle form),two-jumptables (two annotated indirect jumps into one set of 2-3 targets with different live-in sets, a call before the second jump, both annotation orders),call-args (argument marshalling: typed 8/16/32/64-bit register x wider parameter x register/stack position),many-args (16 arguments, 32-byte aligned stack variable, call with stack arguments; also int16_t arguments in 32-bit registers)} x register file K x pressure x "
                   "argument mode x value mode{gp64, xmm, ymm, zmm, k-mask, gp32, mixed gp64/gp32} x slot fillings (alphabet of " + std::to_string(kAlphaCount) + " instruction forms x operand pattern{first/second/last/same-twice}); every program is built with the Compiler and allocated; "
                   "x64: assembled and executed natively on 4 data tuples x every control input (branch both ways, loops 0/1/3 trips, every jump-table target); x86-32/AArch64: the allocated node list is interpreted by engine/msim.h on the same inputs; "
                   "compared with the direct interpretation of the IR: return value, memory buffer (+ guards / any store outside buffer and stack), external-call log; callee-saved registers and stack pointer preserved; "
                   "distinct_nontrivial = programs whose allocated code contains a save/load/move/swap or a register operand replaced by its spill slot; states = programs, transitions = traces = programs x inputs executed";
  c.assumptions.push_back("x86-32 and AArch64 code is simulated at node level (GP alphabet only, no jump tables, no vector/list instructions); their encodings are not exercised here");
  c.assumptions.push_back("pressure 1..200 is covered through K-relative pressures and 20/36/70/130 values, not every absolute count; 8/16-bit virtual registers are exercised only as sub-registers of 32/64-bit values");
  c.assumptions.push_back("register-list instructions that need consecutive physical registers are checked by the second harness of this check (harness/c05_lists.cpp, term simulation); the x86 4-register-block forms (v4fmaddps, vp4dpwssd) do not exist in this asmjit version");
  return vh::finish();
}
