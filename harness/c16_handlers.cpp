// C16 (leg) - which ErrorHandler receives an error after attach / detach / finalize / re-attach histories.
//
// Residue checked: the emitter's notion of "my own error handler" vs. "the handler of the CodeHolder I am attached to".
// Reference model (documented behaviour of BaseEmitter::set_error_handler / reset_error_handler / CodeHolder::
// set_error_handler): an emitter that was given a handler with set_error_handler(h != null) uses it until
// reset_error_handler(); otherwise it uses the handler its CodeHolder has at the moment of the error; a detached
// emitter is not probed.  After every op the harness provokes one error (bind of an invalid label) and checks which
// of the counting handlers was invoked - exactly one invocation of the expected one.
// BFS over all histories up to the depth; emitters: x86 Assembler, Builder, Compiler.
#include "xplor.h"
#include <asmjit/core.h>
#include <asmjit/x86.h>
#include <memory>

using namespace asmjit;

struct Counter : ErrorHandler { int n = 0; void handle_error(Error, const char*, BaseEmitter*) override { n++; } };

struct Cfg { int kind = 0; };   // 0 assembler, 1 builder, 2 compiler
static const char* kKind[] = {"assembler", "builder", "compiler"};

enum { OP_ATT_A, OP_ATT_B, OP_DETACH, OP_A_SET1, OP_A_NONE, OP_B_SET2, OP_E_SET3, OP_E_RESET, OP_FINALIZE, OP_A_REINIT, OP_GEN, kNumOps };
static const char* kOpName[] = {"attach(A)", "attach(B)", "detach", "A.set_error_handler(H1)", "A.set_error_handler(null)", "B.set_error_handler(H2)",
                                "emitter.set_error_handler(H3)", "emitter.reset_error_handler()", "finalize", "A.reinit()", "generate"};

struct Sys {
  Cfg cfg;
  CodeHolder A, B;
  x86::Assembler as; x86::Builder bl; x86::Compiler cc;
  BaseEmitter* e;
  Counter h[4];                 // 1: holder A, 2: holder B, 3: emitter's own
  // model
  int attached = 0;             // 0 none, 1 A, 2 B
  int ha = 0, hb = 0;           // handler index installed on A / B (0 none)
  bool own = false;             // emitter owns H3
  bool finalized = false;
  std::string last_probe;

  Sys(const Cfg& c) : cfg(c) {
    A.init(Environment(Arch::kX64)); B.init(Environment(Arch::kX64));
    e = c.kind == 0 ? (BaseEmitter*)&as : c.kind == 1 ? (BaseEmitter*)&bl : (BaseEmitter*)&cc;
  }
  ~Sys() { if (attached) (attached == 1 ? A : B).detach(e); }
  int num_ops() const { return kNumOps; }
  std::string op_name(int op) const { return kOpName[op]; }

  int expected() const { if (!attached) return -1; if (own) return 3; return attached == 1 ? ha : hb; }

  bool probe(std::string& why) {
    if (!attached) return true;
    int before[4]; for (int i = 0; i < 4; i++) before[i] = h[i].n;
    Error err = e->bind(Label(12345));
    if (err == Error::kOk) { why = "harness: the probe call (bind of an invalid label) succeeded"; return false; }
    int want = expected();
    for (int i = 1; i < 4; i++) {
      int got = h[i].n - before[i];
      int exp = (i == want) ? 1 : 0;
      if (got != exp) {
        char b[300];
        snprintf(b, sizeof b, "an error of the %s was delivered %d time(s) to H%d (%s), expected %d: the handler in charge is %s", kKind[cfg.kind], got, i,
                 i == 1 ? "holder A's" : i == 2 ? "holder B's" : "the emitter's own", exp,
                 want == 0 ? "none (no handler installed)" : want == 1 ? "H1 of holder A" : want == 2 ? "H2 of holder B" : "H3, the emitter's own");
        why = b; return false;
      }
    }
    return true;
  }

  bool apply(int op, std::string& why) {
    CodeHolder& cur = attached == 2 ? B : A;
    switch (op) {
      case OP_ATT_A: case OP_ATT_B: {
        if (attached) return true;
        CodeHolder& t = op == OP_ATT_A ? A : B;
        if (t.attach(e) != Error::kOk) { why = "harness: attach failed"; return false; }
        attached = op == OP_ATT_A ? 1 : 2; finalized = false;
        break;
      }
      case OP_DETACH: if (!attached) return true; cur.detach(e); attached = 0; break;
      case OP_A_SET1: A.set_error_handler(&h[1]); ha = 1; break;
      case OP_A_NONE: A.reset_error_handler(); ha = 0; break;
      case OP_B_SET2: B.set_error_handler(&h[2]); hb = 2; break;
      case OP_E_SET3: e->set_error_handler(&h[3]); own = true; break;
      case OP_E_RESET: e->reset_error_handler(); own = false; break;
      case OP_GEN:
        if (!attached || finalized) return true;
        if (cfg.kind == 2) { FuncNode* f = cc.add_func(FuncSignature::build<int, int>()); x86::Gp x = cc.new_gp32(); f->set_arg(0, x); cc.add(x, 1); cc.ret(x); cc.end_func(); }
        else if (cfg.kind == 1) { bl.mov(x86::eax, 1); bl.ret(); }
        else { as.mov(x86::eax, 1); as.ret(); }
        break;
      case OP_FINALIZE:
        if (!attached || finalized || cfg.kind == 0) return true;
        if (e->finalize() != Error::kOk) { why = "harness: finalize of a valid program failed"; return false; }
        finalized = true;
        break;
      case OP_A_REINIT:
        if (A.reinit() != Error::kOk) { why = "harness: reinit failed"; return false; }
        if (attached == 1) finalized = false;
        break;
    }
    return probe(why);
  }

  std::string canon() {
    // everything the future can depend on: the model + what the emitter itself believes
    char b[128];
    snprintf(b, sizeof b, "att=%d ha=%d hb=%d own=%d fin=%d|flag=%d ptr=%d", attached, ha, hb, int(own), int(finalized), int(e->has_own_error_handler()),
             e->error_handler() == &h[1] ? 1 : e->error_handler() == &h[2] ? 2 : e->error_handler() == &h[3] ? 3 : e->error_handler() ? 9 : 0);
    return b;
  }
};

int main(int argc, char** argv) {
  vh::parse_args(argc, argv);
  vh::Ctx& c = vh::ctx();
  auto parse = [&](Cfg& cfg, std::vector<int>& h) {
    for (auto& line : vh::split(c.replay_text, '\n')) {
      if (line.rfind("kind=", 0) == 0) cfg.kind = atoi(line.c_str() + 5);
      if (line.rfind("ops=", 0) == 0) for (auto& x : vh::split(line.substr(4), ',')) if (!x.empty()) h.push_back(atoi(x.c_str()));
    }
  };
  if (c.replaying()) {
    Cfg cfg; std::vector<int> h; parse(cfg, h);
    Sys s(cfg); std::string why, names;
    for (int op : h) { names += s.op_name(op) + ";"; if (!s.apply(op, why)) { c.violation("replay", why + " after " + names, c.replay_text); break; } }
    return vh::finish();
  }
  int depth = c.thorough() ? 8 : 6;
  if (!c.opt("depth").empty()) depth = atoi(c.opt("depth").c_str());
  for (int kind = 0; kind < 3; kind++) {
    if (!c.mine(kind)) continue;
    Cfg cfg; cfg.kind = kind;
    auto onv = [&](const std::vector<int>& h, const std::string& names, const std::string& why) {
      std::string ops; for (size_t i = 0; i < h.size(); i++) { if (i) ops += ","; ops += std::to_string(h[i]); }
      std::string last = kOpName[h.back()];
      c.violation(std::string("reuse:handlers:") + kKind[kind] + ":wrong-error-handler:" + last, why + " :: history " + names,
                  "harness=c16_handlers\nkind=" + std::to_string(kind) + "\nops=" + ops + "\n# " + names + "\n");
    };
    xplor::BfsStats st = xplor::bfs_histories<Sys, Cfg>(cfg, depth, kKind[kind], onv, -1, 0, 1);
    c.n("states") += st.states; c.n("transitions") += st.transitions; c.n("traces") += st.transitions; c.n("evaluations") += st.transitions;
    c.n("distinct_nontrivial") += st.states; c.n("replays") += st.replays;
    c.outcomes.insert(std::string(kKind[kind]) + ":" + std::to_string(st.states));
  }
  c.strs["bound_handlers_leg"] = "error-handler ownership: all histories of {attach A|B, detach, holder/emitter handler set/reset, generate, finalize, reinit} to depth " + std::to_string(depth) +
                                 " for x86 Assembler, Builder, Compiler; after every op one provoked error must reach exactly the handler in charge";
  return vh::finish();
}
