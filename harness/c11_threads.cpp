// C11 - thread safety: stateless exploration of thread interleavings with iterative preemption bounding.
// Real pthreads are serialised by engine/sched.c (uninstrumented, raw futex); scheduling points are every
// interposed pthread_mutex_lock/unlock and every harness operation boundary.  The asmjit objects and this TU
// are ThreadSanitizer-instrumented and TSan only sees the *real* mutex edges (annotated in sched.c), so an
// access pair that is ordered by the scheduler only - not by the library's lock - is still reported.
// With -DC11_FREE the same thread bodies run free (no scheduler, no interposition) on many threads.
#include "vh.h"
#include <asmjit/core.h>
#include <asmjit/x86.h>
#include <pthread.h>
#include <atomic>
#include <algorithm>

using namespace asmjit;

#ifndef C11_FREE
extern "C" {
void sched_point(void);
void sched_reset(int n, const int* pfx, int len);
void sched_set_deadlock_cb(void (*cb)(void));
void sched_thread_enter(int id);
void sched_thread_leave(void);
void sched_run(void);
int sched_npoints(void);
const int* sched_taken(void);
const int* sched_arity(void);
const int* sched_chosen(void);
const unsigned char* sched_cur_enabled(void);
int sched_lock_acquisitions(void);
}
#else
static void sched_point() {}
#endif

static std::atomic<int> g_tsan_reports{0};
extern "C" void __tsan_on_report(void*) { g_tsan_reports++; }

// ---------------------------------------------------------------------------------------------------------
struct ThreadObs { std::string log; bool bad = false; std::string why; std::vector<uintptr_t> addrs; };
static void tfail(ThreadObs& o, const std::string& w) { if (!o.bad) { o.bad = true; o.why = w; } }

struct World {
  JitAllocator* alloc = nullptr;
  JitRuntime* rt = nullptr;
  JitAllocator::Span pre[2];     // spans allocated by the controller before the threads start
  uint32_t G = 64; size_t B = 65536; bool pad = true;
};
static World W;

static bool span_ok(ThreadObs& o, const JitAllocator::Span& s, size_t req, const char* what) {
  if (!s.rx() || !s.rw()) { tfail(o, std::string(what) + ": null span"); return false; }
  if ((uintptr_t)s.rx() % W.G) { tfail(o, std::string(what) + ": misaligned span"); return false; }
  if (s.size() < req) { tfail(o, std::string(what) + ": span smaller than requested"); return false; }
  return true;
}
static void fill(JitAllocator::Span& s, uint8_t tag) {
  std::vector<uint8_t> buf(s.size(), tag);
  (void)W.alloc->write(s, 0, buf.data(), buf.size());
}
static bool intact(ThreadObs& o, const JitAllocator::Span& s, uint8_t tag, const char* when) {
  const uint8_t* p = (const uint8_t*)s.rx();
  for (size_t i = 0; i < s.size(); i++) if (p[i] != tag) { tfail(o, std::string("span content lost ") + when + " at byte " + std::to_string(i)); return false; }
  return true;
}
static void do_query(ThreadObs& o, const JitAllocator::Span& s) {
  JitAllocator::Span q;
  Error e = W.alloc->query(Out(q), s.rx());
  if (e != Error::kOk) tfail(o, "query of own live span failed");
  else if (q.rx() != s.rx() || q.size() != s.size()) tfail(o, "query of own live span returned different span (size " + std::to_string(q.size()) + " vs " + std::to_string(s.size()) + ")");
  o.log += "q" + std::to_string((int)e) + ";";
}
static void do_stats(ThreadObs& o) {
  JitAllocator::Statistics st = W.alloc->statistics();
  if (st.used_size() > st.reserved_size()) tfail(o, "statistics: used > reserved");
  if (st.reserved_size() % W.B) tfail(o, "statistics: reserved not a multiple of the block size");
  o.log += "s;";
}

// thread scripts: a sequence of op codes interpreted over one "current span" of the thread
//  a<k> alloc size class k (+fill), W write through a truncating callback, v verify, q query, h shrink to one granule, s statistics, r release, R release pre-allocated span 0, Q query pre-allocated span 1
static size_t size_class(int k) { switch (k) { case 0: return 1; case 1: return W.B / 4; case 2: return W.B / 2; case 3: return W.B - (W.pad ? W.G : 0); default: return 2 * W.G; } }

static void run_script(int tid, const std::string& script, ThreadObs& o) {
  JitAllocator::Span cur; bool have = false; uint8_t tag = uint8_t(0x21 + tid * 0x11);
  for (size_t i = 0; i < script.size(); i++) {
    sched_point();
    char c = script[i];
    if (c == 'a') {
      int k = script[++i] - '0';
      Error e = W.alloc->alloc(Out(cur), size_class(k));
      o.log += "a" + std::to_string((int)e) + ":" + std::to_string(cur.size()) + ";";
      if (e != Error::kOk) { tfail(o, "alloc failed"); return; }
      if (!span_ok(o, cur, size_class(k), "alloc")) return;
      have = true; fill(cur, tag); o.addrs.push_back((uintptr_t)cur.rx());
    } else if (c == 'v') { if (have) intact(o, cur, tag, "before verify op"); }
    else if (c == 'q') { if (have) do_query(o, cur); }
    else if (c == 'h') { if (have) { Error e = W.alloc->shrink(cur, 1); o.log += "h" + std::to_string((int)e) + ":" + std::to_string(cur.size()) + ";"; if (e != Error::kOk) tfail(o, "shrink failed"); } }
    else if (c == 'W') {   // write through a callback that truncates the span: the allocator shrinks it on return
      if (have) {
        size_t before = cur.size();
        Error e = W.alloc->write(cur, [&](JitAllocator::Span& sp) noexcept -> Error {
          memset(sp.rw(), tag, sp.size());
          sp.shrink(sp.size() > 2 * W.G ? sp.size() / 2 : W.G);
          return Error::kOk;
        });
        o.log += "W" + std::to_string((int)e) + ":" + std::to_string(cur.size()) + ";";
        if (e != Error::kOk) tfail(o, "write with truncation failed");
        else if (cur.size() > before || cur.size() % W.G) tfail(o, "write with truncation returned a bad span size");
      }
    }
    else if (c == 's') do_stats(o);
    else if (c == 'r') { if (have) { intact(o, cur, tag, "before release"); Error e = W.alloc->release(cur.rx()); o.log += "r" + std::to_string((int)e) + ";"; if (e != Error::kOk) tfail(o, "release failed"); have = false; } }
    else if (c == 'R') { Error e = W.alloc->release(W.pre[0].rx()); o.log += "R" + std::to_string((int)e) + ";"; if (e != Error::kOk) tfail(o, "release of pre-allocated span failed"); }
    else if (c == 'Q') { do_query(o, W.pre[1]); }
    else if (c == 'J') {   // JitRuntime: build, add, call, release
      CodeHolder code; code.init(W.rt->environment(), W.rt->cpu_features());
      x86::Assembler a(&code);
      int val = 1000 + tid * 7 + (int)i;
      a.mov(x86::eax, val); a.ret();
      sched_point();
      int (*fn)() = nullptr;
      Error e = W.rt->add(&fn, &code);
      o.log += "J" + std::to_string((int)e) + ";";
      if (e != Error::kOk || !fn) { tfail(o, "JitRuntime::add failed"); return; }
      sched_point();
      if (fn() != val) tfail(o, "function installed by JitRuntime::add returned the wrong value");
      sched_point();
      if (W.rt->release(fn) != Error::kOk) tfail(o, "JitRuntime::release failed");
    } else if (c == 'V') {   // independent Compilers creating vector virtual registers of a different width per thread
      CodeHolder code; code.init(Environment(Arch::kX64));
      x86::Compiler cc(&code);
      FuncNode* f = cc.add_func(FuncSignature::build<void, void*>());
      x86::Gp p = cc.new_gp_ptr("p"); f->set_arg(0, p); sched_point();
      int w = tid % 3;
      x86::Vec v[4];
      for (int j = 0; j < 4; j++) { v[j] = w == 0 ? cc.new_xmm("v%d", j) : w == 1 ? cc.new_ymm("v%d", j) : cc.new_zmm("v%d", j); sched_point(); }
      for (int j = 0; j < 4; j++) { if (w == 0) cc.movups(v[j], x86::ptr(p, j * 64)); else cc.vmovups(v[j], x86::ptr(p, j * 64)); }
      sched_point();
      for (int j = 1; j < 4; j++) { if (w == 0) cc.paddd(v[0], v[j]); else cc.vpaddd(v[0], v[0], v[j]); }
      if (w == 0) cc.movups(x86::ptr(p), v[0]); else cc.vmovups(x86::ptr(p), v[0]);
      cc.ret(); cc.end_func(); sched_point();
      if (cc.finalize() != Error::kOk) { tfail(o, "Compiler::finalize failed"); return; }
      sched_point();
      o.log += "V" + vh::hex(code.text_section()->data(), code.text_section()->buffer_size()) + ";";
    } else if (c == 'C' || c == 'A') {   // independent code generation, bytes compared with the solo run
      CodeHolder code; code.init(Environment(Arch::kX64));
      std::string bytes;
      if (c == 'A') {
        x86::Assembler a(&code);
        Label L = a.new_label();
        a.mov(x86::rax, 0x1122334455667788ull + (uint64_t)tid); sched_point();
        a.bind(L); a.add(x86::rax, x86::rcx); sched_point();
        a.k(x86::k1).z().vaddps(x86::zmm1, x86::zmm2, x86::ptr(x86::rax, x86::rbx, 2, 64 + tid)); sched_point();
        a.jnz(L); a.ret();
      } else {
        x86::Compiler cc(&code);
        FuncNode* f = cc.add_func(FuncSignature::build<int, int, int>());
        x86::Gp x = cc.new_gp32("x"), y = cc.new_gp32("y"), z = cc.new_gp32("z");
        f->set_arg(0, x); f->set_arg(1, y); sched_point();
        cc.mov(z, tid + 3); cc.imul(z, x); sched_point();
        cc.add(z, y); cc.shl(z, 2); sched_point();
        cc.ret(z); cc.end_func(); sched_point();
        if (cc.finalize() != Error::kOk) { tfail(o, "Compiler::finalize failed"); return; }
      }
      sched_point();
      bytes = vh::hex(code.text_section()->data(), code.text_section()->buffer_size());
      o.log += std::string(1, c) + bytes + ";";
    }
  }
  if (have) { intact(o, cur, tag, "at end"); (void)W.alloc->release(cur.rx()); }
}

struct Scenario { const char* name; std::vector<std::string> scripts; int pre; uint32_t options; int bound_delta = 0; };
static std::vector<Scenario> scenarios() {
  return {
    {"alloc-2t", {"a2vqr", "a2hsr"}, 0, 0},
    {"alloc-3t", {"a0r", "a3q", "sa4r"}, 0, 0},
    {"reuse-2t", {"Ra1v", "Qa2s"}, 2, 0},
    {"fill-multi-2t", {"a1hr", "a4sqr"}, 1, 4 | 2},
    {"immediate-2t", {"a0r", "a0r"}, 0, 8},
    {"runtime-2t", {"J", "J"}, 0, 0},
    {"wshrink-2t", {"a2Wvqr", "a2Wsr"}, 0, 0},
    {"wshrink-fill-3t", {"a1Wr", "a3Wq", "a0sr"}, 0, 4},
    {"dual-2t", {"a2Wvr", "a1hqr"}, 0, 1},
    {"runtime-3t", {"J", "J", "a0sr"}, 0, 0},
    {"alloc-4t", {"a0r", "a1r", "a4q", "s"}, 0, 0, -1},   // four threads: one preemption less than the tier's bound
    {"codegen-2t", {"A", "C"}, 0, 0},
    {"codegen-3t", {"C", "C", "A"}, 0, 0},
    {"codegen-vec-3t", {"V", "V", "V"}, 0, 0},
  };
}

struct ThreadArg { int tid; const std::string* script; ThreadObs* obs; };
static void* thread_main(void* p) {
  ThreadArg* a = (ThreadArg*)p;
#ifndef C11_FREE
  sched_thread_enter(a->tid);
#endif
  run_script(a->tid, *a->script, *a->obs);
#ifndef C11_FREE
  sched_thread_leave();
#endif
  return nullptr;
}

struct Run { std::vector<int> taken, arity; std::vector<uint8_t> cur_en; std::string obs, layout; bool bad = false; std::string why; int locks = 0; };

static void world_setup(const Scenario& sc) {
  JitAllocator::CreateParams p; p.options = JitAllocatorOptions(sc.options); p.block_size = 65536; p.granularity = 64;
  W.G = 64; W.B = 65536; W.pad = true;
  W.rt = new JitRuntime(&p);
  W.alloc = &W.rt->_allocator;  // (-fno-access-control)
  for (int i = 0; i < sc.pre; i++) { (void)W.alloc->alloc(Out(W.pre[i]), W.B / 4); fill(W.pre[i], uint8_t(0x71 + i)); }
}
static void world_check(const Scenario& sc, Run& r, const std::vector<std::string>& solo) {
  // final state: only the pre-allocated spans that nobody released are accounted
  JitAllocator::Statistics st = W.alloc->statistics();
  size_t live = 0, bytes = 0;
  bool released0 = false;
  for (auto& s : sc.scripts) if (s.find('R') != std::string::npos) released0 = true;
  for (int i = 0; i < sc.pre; i++) { if (i == 0 && released0) continue; live++; bytes += W.pre[i].size(); const uint8_t* p = (const uint8_t*)W.pre[i].rx(); for (size_t k = 0; k < W.pre[i].size(); k++) if (p[k] != uint8_t(0x71 + i)) { r.bad = true; r.why = "pre-allocated span corrupted"; break; } }
  if (st.allocation_count() != live) { r.bad = true; r.why = "final allocation_count " + std::to_string(st.allocation_count()) + " != live spans " + std::to_string(live); }
  size_t padb = st.block_count() * W.G;
  if (!(sc.options & 2) && st.used_size() != bytes + padb) { r.bad = true; r.why = "final used_size " + std::to_string(st.used_size()) + " != live bytes " + std::to_string(bytes) + " + padding " + std::to_string(padb); }
  r.obs += "|F" + std::to_string(st.allocation_count()) + "," + std::to_string(st.block_count());
  (void)solo;
  delete W.rt; W.rt = nullptr; W.alloc = nullptr;
}

#ifndef C11_FREE
static Run execute(const Scenario& sc, const std::vector<int>& prefix, const std::vector<std::string>& solo) {
  Run r;
  int n = (int)sc.scripts.size();
  world_setup(sc);
  std::vector<ThreadObs> obs(n); std::vector<ThreadArg> args(n); std::vector<pthread_t> th(n);
  sched_reset(n, prefix.data(), (int)prefix.size());
  int rep0 = g_tsan_reports.load();
  for (int t = 0; t < n; t++) { args[t] = ThreadArg{t, &sc.scripts[t], &obs[t]}; pthread_create(&th[t], nullptr, thread_main, &args[t]); }
  sched_run();
  for (int t = 0; t < n; t++) pthread_join(th[t], nullptr);
  int np = sched_npoints();
  r.taken.assign(sched_taken(), sched_taken() + np); r.arity.assign(sched_arity(), sched_arity() + np);
  r.cur_en.assign(sched_cur_enabled(), sched_cur_enabled() + np);
  r.locks = sched_lock_acquisitions();
  for (int t = 0; t < n; t++) {
    r.obs += "T" + std::to_string(t) + ":" + obs[t].log + " ";
    if (obs[t].bad && !r.bad) { r.bad = true; r.why = "thread " + std::to_string(t) + ": " + obs[t].why; }
    // independence: generated code equals the solo run
    if (!solo.empty() && !solo[t].empty()) {
      size_t p = obs[t].log.find_first_of("AC");
      if (p != std::string::npos && obs[t].log != solo[t] && !r.bad) { r.bad = true; r.why = "thread " + std::to_string(t) + " generated different code than when run alone"; }
    }
  }
  { // relative placement of the spans the threads obtained (rank of each address), part of the outcome only
    std::vector<uintptr_t> all; for (auto& o : obs) for (auto a : o.addrs) all.push_back(a);
    std::sort(all.begin(), all.end());
    for (int t = 0; t < n; t++) { r.layout += "T" + std::to_string(t) + "@"; for (auto a : obs[t].addrs) r.layout += std::to_string(std::lower_bound(all.begin(), all.end(), a) - all.begin()) + ","; }
  }
  world_check(sc, r, solo);
  if (g_tsan_reports.load() != rep0 && !r.bad) { r.bad = true; r.why = "ThreadSanitizer reported a data race in this schedule"; }
  return r;
}

struct Explorer {
  const Scenario& sc; int bound; std::vector<std::string> solo;
  long long schedules = 0; std::set<std::string> outcomes; bool stop = false; long long max_points = 0;
  std::string fmt(const std::vector<int>& ch) const { std::string s; for (size_t i = 0; i < ch.size(); i++) { if (i) s += ","; s += std::to_string(ch[i]); } return s; }
  void explore(const std::vector<int>& prefix) {
    vh::Ctx& c = vh::ctx();
    if (stop) return;
    if (c.out_of_time()) { stop = true; return; }
    vh::set_case(std::string("harness=c11_threads\nscenario=") + sc.name + "\nschedule=" + fmt(prefix) + "\n");
    Run r = execute(sc, prefix, solo);
    schedules++;
    max_points = std::max<long long>(max_points, (long long)r.taken.size());
    outcomes.insert(r.obs + r.layout);
    if (schedules <= 3) c.sample(std::string(sc.name) + " schedule[" + fmt(r.taken) + "] -> " + r.obs.substr(0, 160), 16);
    if (r.bad) {
      std::string clause = r.why.substr(0, r.why.find_first_of("0123456789"));
      c.violation(std::string("threads:") + sc.name + ":" + clause, r.why + " :: scenario " + sc.name + " schedule " + fmt(r.taken),
                  std::string("harness=c11_threads\nscenario=") + sc.name + "\nschedule=" + fmt(r.taken) + "\n");
      return;   // do not explore below a violating schedule
    }
    int pre = 0;
    for (size_t i = 0; i < prefix.size(); i++) if (r.taken[i] != 0 && r.cur_en[i]) pre++;
    for (size_t i = prefix.size(); i < r.taken.size() && !stop; i++) {
      int cost = pre + (r.cur_en[i] ? 1 : 0);
      if (cost <= bound) {
        for (int alt = 1; alt < r.arity[i]; alt++) {
          std::vector<int> p(r.taken.begin(), r.taken.begin() + i); p.push_back(alt);
          explore(p);
        }
      }
      // taken[i] is 0 beyond the prefix, so `pre` does not change while scanning
    }
  }
};
#endif

// solo run: each script alone in a fresh world, no other thread (reference for independence)
static std::vector<std::string> solo_logs(const Scenario& sc) {
  std::vector<std::string> v;
  for (size_t t = 0; t < sc.scripts.size(); t++) {
    if (sc.scripts[t].find_first_of("AC") == std::string::npos) { v.push_back(""); continue; }
    world_setup(sc);
    ThreadObs o; run_script((int)t, sc.scripts[t], o);
    v.push_back(o.log);
    delete W.rt; W.rt = nullptr;
  }
  return v;
}

#ifdef C11_FREE
struct FreeArg { int tid; const Scenario* sc; int iters; ThreadObs obs; };
static void* free_main(void* p) {
  FreeArg* a = (FreeArg*)p;
  for (int it = 0; it < a->iters && !a->obs.bad; it++) {
    const std::string& s = a->sc->scripts[(a->tid + it) % a->sc->scripts.size()];
    if (s.find_first_of("RQ") != std::string::npos) continue;
    a->obs.log.clear();
    run_script(a->tid % 4, s, a->obs);
  }
  return nullptr;
}
#endif

int main(int argc, char** argv) {
  vh::parse_args(argc, argv);
  vh::Ctx& c = vh::ctx();
  // host information is initialised once before threads start, as the property allows
  (void)CpuInfo::host(); (void)VirtMem::info(); (void)VirtMem::hardened_runtime_info(); (void)Environment::host();
  { JitRuntime warm; CodeHolder code; code.init(warm.environment()); x86::Assembler a(&code); a.ret(); void (*f)() = nullptr; (void)warm.add(&f, &code); }
  std::vector<Scenario> scs = scenarios();
#ifdef C11_FREE
  int nthreads = c.thorough() ? 16 : 8, iters = c.thorough() ? 400 : 60;
  for (auto& sc : scs) {
    world_setup(sc);
    std::vector<FreeArg> args(nthreads); std::vector<pthread_t> th(nthreads);
    for (int t = 0; t < nthreads; t++) { args[t].tid = t; args[t].sc = &sc; args[t].iters = iters; pthread_create(&th[t], nullptr, free_main, &args[t]); }
    for (int t = 0; t < nthreads; t++) pthread_join(th[t], nullptr);
    for (int t = 0; t < nthreads; t++) if (args[t].obs.bad) c.violation(std::string("threads-free:") + sc.name, args[t].obs.why + " (free-running pass)", std::string("harness=c11_threads_free\nscenario=") + sc.name + "\n");
    c.n("free_running_thread_runs") += (long long)nthreads * iters;
    delete W.rt; W.rt = nullptr;
  }
  if (g_tsan_reports.load()) c.violation("threads-free:tsan", "ThreadSanitizer reported " + std::to_string(g_tsan_reports.load()) + " race(s) in the free-running pass", "harness=c11_threads_free\n");
  c.n("evaluations") += c.n("free_running_thread_runs");
  return vh::finish();
#else
  if (c.replaying()) {
    std::string name; std::vector<int> sched;
    for (auto& line : vh::split(c.replay_text, '\n')) {
      if (line.rfind("scenario=", 0) == 0) name = line.substr(9);
      if (line.rfind("schedule=", 0) == 0) for (auto& x : vh::split(line.substr(9), ',')) if (!x.empty()) sched.push_back(atoi(x.c_str()));
    }
    for (auto& sc : scs) if (name == sc.name) {
      std::vector<std::string> solo = solo_logs(sc);
      Run r1 = execute(sc, sched, solo);
      Run r2 = execute(sc, sched, solo);
      if (r1.obs != r2.obs) { fprintf(stderr, "replay not deterministic:\n%s\n%s\n", r1.obs.c_str(), r2.obs.c_str()); return 2; }
      if (r1.bad) c.violation("replay", r1.why, c.replay_text);
    }
    return vh::finish();
  }
  int bound = c.thorough() ? 3 : 2;
  if (!c.opt("bound").empty()) bound = atoi(c.opt("bound").c_str());
  for (size_t si = 0; si < scs.size(); si++) {
    if (!c.mine((long long)si)) continue;
    const Scenario& sc = scs[si];
    Explorer ex{sc, bound + sc.bound_delta, solo_logs(sc)};
    // determinism self-check: the default schedule twice
    { Run a = execute(sc, {}, ex.solo), b = execute(sc, {}, ex.solo); if (a.obs != b.obs || a.taken != b.taken) { fprintf(stderr, "c11: default schedule of %s is not deterministic\n%s\n%s\n", sc.name, a.obs.c_str(), b.obs.c_str()); return 2; } }
    ex.explore({});
    c.n("transitions") += ex.schedules; c.n("traces") += ex.schedules; c.n("evaluations") += ex.schedules;
    c.n("states") += (long long)ex.outcomes.size(); c.n("distinct_nontrivial") += (long long)ex.outcomes.size();
    c.n("max_scheduling_points") = std::max(c.n("max_scheduling_points"), ex.max_points);
    for (auto& o : ex.outcomes) c.outcomes.insert(std::string(sc.name) + o);
    c.strs[std::string("schedules:") + sc.name] = std::to_string(ex.schedules) + " schedules, " + std::to_string(ex.outcomes.size()) + " distinct outcomes, <=" +
                                                   std::to_string(ex.max_points) + " scheduling points, <=" + std::to_string(bound + sc.bound_delta) + " preemptions" + (ex.stop ? " (capped by deadline)" : "");
  }
  c.strs["bound"] = "preemptions<=" + std::to_string(bound) + " per scenario (per-scenario counts under schedules:<name>)";
  c.strs["rule"] = "all interleavings with at most the stated number of preemptions of 2-3 real threads per scenario; scheduling points = every pthread_mutex_lock/unlock "
                   "of the library (link-time interposed) + every harness operation boundary; an execution is distinct when its observation string (per-thread results, "
                   "sizes, final statistics, generated bytes) differs; TSan sees only the library's own lock as synchronisation";
  c.assumptions.push_back("sequentially consistent interleavings only; host/VM information initialised before threads start; weak-memory effects out of scope");
  return vh::finish();
#endif
}
