// C06 (a) - arguments and return values follow the target calling convention.
//
// Leg 1 (reference classifier, all targets):  enumerates function signatures x calling conventions x targets x
// varargs index x return types, calls the real FuncDetail::init() and compares every argument / return location,
// the size of the stack argument area, callee-pops, red/spill zone and the preserved register sets with a
// reference classifier written from the ABI documents (System V AMD64 psABI, Microsoft x64 + __vectorcall,
// i386 System V / GCC + MSVC cdecl/stdcall/fastcall/thiscall/regparm, AAPCS64, Apple arm64).  Where no ABI text
// exists or vendors disagree the case is counted as 'undecided' (only internal consistency is asserted).
//
// Leg 2 (interop, x86-64 host, --part interop): for a fixed list of signatures an asmjit-generated caller places
// tagged values exactly where FuncDetail says and calls a clang-compiled C callee (and a clang-compiled C caller
// calls an asmjit-generated callee that reads its arguments from where FuncDetail says).  The C text is printed by
// this harness (--emit-c) and compiled by checks/c06.py: natively for System V, for --target=x86_64-pc-windows-msvc
// (assembly, re-assembled as ELF) for Win64 and __vectorcall.
#include "xplor.h"
#include <asmjit/core.h>
#include <asmjit/x86.h>
#include <asmjit/a64.h>
#include <dlfcn.h>
#include <array>
#include <algorithm>

using namespace asmjit;

#if defined(__has_feature)
#if __has_feature(address_sanitizer)
#define C06_SANITIZED 1
#endif
#endif
#ifndef C06_SANITIZED
#define C06_SANITIZED 0
#endif

// ------------------------------------------------------------------------------------------------------------
// type alphabet
// ------------------------------------------------------------------------------------------------------------
enum TK : uint8_t { T_I64, T_U64, T_IPTR, T_I8, T_U8, T_I16, T_U16, T_I32, T_U32, T_F32, T_F64, T_F80, T_MMX, T_V64, T_V128I, T_V128F,
                    T_V256, T_V512, T_K8, T_K16, T_K32, T_K64, T_COUNT, T_VOID = 0xFF };
enum Cls : uint8_t { C_INT, C_F32, C_F64, C_F80, C_MMX, C_VEC, C_MASK, C_VOID };
struct TInfo { const char* name; TypeId id; Cls cls; uint8_t size; };
static const TInfo kT[T_COUNT] = {
  {"i64", TypeId::kInt64, C_INT, 8},      {"u64", TypeId::kUInt64, C_INT, 8},     {"iptr", TypeId::kIntPtr, C_INT, 0},
  {"i8", TypeId::kInt8, C_INT, 1},        {"u8", TypeId::kUInt8, C_INT, 1},       {"i16", TypeId::kInt16, C_INT, 2},
  {"u16", TypeId::kUInt16, C_INT, 2},     {"i32", TypeId::kInt32, C_INT, 4},      {"u32", TypeId::kUInt32, C_INT, 4},
  {"f32", TypeId::kFloat32, C_F32, 4},    {"f64", TypeId::kFloat64, C_F64, 8},    {"f80", TypeId::kFloat80, C_F80, 10},
  {"mmx64", TypeId::kMmx64, C_MMX, 8},    {"v64", TypeId::kInt32x2, C_VEC, 8},    {"v128i", TypeId::kInt32x4, C_VEC, 16},
  {"v128f", TypeId::kFloat32x4, C_VEC, 16}, {"v256", TypeId::kFloat32x8, C_VEC, 32}, {"v512", TypeId::kInt32x16, C_VEC, 64},
  {"mask8", TypeId::kMask8, C_MASK, 1},   {"mask16", TypeId::kMask16, C_MASK, 2}, {"mask32", TypeId::kMask32, C_MASK, 4},
  {"mask64", TypeId::kMask64, C_MASK, 8},
};
static const char* tname(uint8_t t) { return t == T_VOID ? "void" : kT[t].name; }
static int tk_by_name(const std::string& s) { if (s == "void") return T_VOID; for (int i = 0; i < T_COUNT; i++) if (s == kT[i].name) return i; return -1; }

// class name used in violation keys
static std::string cls_key(uint8_t t, int bits) {
  if (t == T_VOID) return "void";
  const TInfo& ti = kT[t];
  switch (ti.cls) {
    case C_INT: return (bits == 32 && ti.size == 8) ? "i64" : "int";
    case C_F32: return "f32"; case C_F64: return "f64"; case C_F80: return "f80"; case C_MMX: return "mmx"; case C_MASK: return "mask";
    case C_VEC: return "vec" + std::to_string(ti.size * 8);
    default: return "?";
  }
}

// ------------------------------------------------------------------------------------------------------------
// targets, conventions, rule sets
// ------------------------------------------------------------------------------------------------------------
enum Rule : uint8_t { R_X86_CDECL, R_X86_STDCALL, R_X86_FASTCALL, R_X86_THISCALL, R_X86_REGPARM1, R_X86_REGPARM2, R_X86_REGPARM3, R_X86_VECTORCALL,
                      R_SYSV64, R_WIN64, R_VECTORCALL64, R_AAPCS64, R_APPLE64, R_LIGHTCALL, R_CONSIST };
static const char* rule_key(Rule r, int lc_n = 0) {
  switch (r) {
    case R_X86_CDECL: return "cdecl"; case R_X86_STDCALL: return "stdcall"; case R_X86_FASTCALL: return "fastcall"; case R_X86_THISCALL: return "thiscall";
    case R_X86_REGPARM1: return "regparm1"; case R_X86_REGPARM2: return "regparm2"; case R_X86_REGPARM3: return "regparm3"; case R_X86_VECTORCALL: return "vectorcall";
    case R_SYSV64: return "sysv"; case R_WIN64: return "win64"; case R_VECTORCALL64: return "vectorcall"; case R_AAPCS64: return "aapcs64"; case R_APPLE64: return "apple";
    case R_LIGHTCALL: return lc_n == 2 ? "lightcall2" : lc_n == 3 ? "lightcall3" : "lightcall4"; default: return "other";
  }
}

struct Conv { const char* name; CallConvId id; Rule rule; bool alias; int lc_n; const char* why_consist; };
struct Tgt {
  const char* name; const char* arch_key; Arch arch; Platform plat; PlatformABI abi; int bits; bool windows; bool apple;
  std::vector<Conv> convs; std::vector<uint8_t> alpha;   // alpha: type alphabet of the target
  Environment env() const { return Environment(arch, SubArch::kUnknown, Vendor::kUnknown, plat, abi, ObjectFormat::kUnknown); }
};

static std::vector<Tgt> g_targets;

static void build_targets() {
  std::vector<uint8_t> x86a = {T_I64, T_U64, T_IPTR, T_I8, T_U8, T_I16, T_U16, T_I32, T_U32, T_F32, T_F64, T_F80, T_MMX, T_V128I, T_V128F, T_V256, T_V512, T_K8, T_K16, T_K32, T_K64};
  std::vector<uint8_t> a64a = {T_I64, T_U64, T_IPTR, T_I8, T_U8, T_I16, T_U16, T_I32, T_U32, T_F32, T_F64, T_V64, T_V128I, T_V128F};
  const char* vc_linux = "__vectorcall is a Windows convention; func.h documents it is replaced by cdecl elsewhere but the code keeps the Windows strategy: not judged";
  auto x86_convs = [&](bool win) {
    std::vector<Conv> v = {
      {"cdecl", CallConvId::kCDecl, R_X86_CDECL, false, 0, nullptr}, {"stdcall", CallConvId::kStdCall, R_X86_STDCALL, false, 0, nullptr},
      {"fastcall", CallConvId::kFastCall, R_X86_FASTCALL, false, 0, nullptr},
      {"thiscall", CallConvId::kThisCall, win ? R_X86_THISCALL : R_X86_CDECL, false, 0, nullptr},   // func.h: replaced by cdecl outside Windows
      {"regparm1", CallConvId::kRegParm1, R_X86_REGPARM1, false, 0, nullptr}, {"regparm2", CallConvId::kRegParm2, R_X86_REGPARM2, false, 0, nullptr},
      {"regparm3", CallConvId::kRegParm3, R_X86_REGPARM3, false, 0, nullptr},
      {"vectorcall", CallConvId::kVectorCall, win ? R_X86_VECTORCALL : R_CONSIST, false, 0, win ? nullptr : vc_linux},
      {"lightcall2", CallConvId::kLightCall2, R_LIGHTCALL, false, 2, nullptr}, {"lightcall3", CallConvId::kLightCall3, R_LIGHTCALL, false, 3, nullptr},
      {"lightcall4", CallConvId::kLightCall4, R_LIGHTCALL, false, 4, nullptr}};
    return v;
  };
  auto x64_convs = [&](bool win) {
    Rule dflt = win ? R_WIN64 : R_SYSV64;
    std::vector<Conv> v = {
      {"cdecl", CallConvId::kCDecl, dflt, false, 0, nullptr}, {"sysv", CallConvId::kX64SystemV, R_SYSV64, false, 0, nullptr},
      {"win64", CallConvId::kX64Windows, R_WIN64, false, 0, nullptr},
      {"vectorcall", CallConvId::kVectorCall, win ? R_VECTORCALL64 : R_CONSIST, false, 0, win ? nullptr : vc_linux},
      {"lightcall2", CallConvId::kLightCall2, R_LIGHTCALL, false, 2, nullptr}, {"lightcall3", CallConvId::kLightCall3, R_LIGHTCALL, false, 3, nullptr},
      {"lightcall4", CallConvId::kLightCall4, R_LIGHTCALL, false, 4, nullptr},
      // 32-bit conventions are ignored by 64-bit compilers (treated as the platform default)
      {"stdcall", CallConvId::kStdCall, dflt, true, 0, nullptr}, {"fastcall", CallConvId::kFastCall, dflt, true, 0, nullptr},
      {"thiscall", CallConvId::kThisCall, dflt, true, 0, nullptr}, {"regparm1", CallConvId::kRegParm1, dflt, true, 0, nullptr},
      {"regparm2", CallConvId::kRegParm2, dflt, true, 0, nullptr}, {"regparm3", CallConvId::kRegParm3, dflt, true, 0, nullptr}};
    return v;
  };
  auto a64_convs = [&](bool apple) {
    Rule dflt = apple ? R_APPLE64 : R_AAPCS64;
    std::vector<Conv> v = {
      {"cdecl", CallConvId::kCDecl, dflt, false, 0, nullptr},
      {"stdcall", CallConvId::kStdCall, dflt, true, 0, nullptr}, {"fastcall", CallConvId::kFastCall, dflt, true, 0, nullptr},
      {"vectorcall", CallConvId::kVectorCall, dflt, true, 0, nullptr}, {"thiscall", CallConvId::kThisCall, dflt, true, 0, nullptr},
      {"regparm1", CallConvId::kRegParm1, dflt, true, 0, nullptr}, {"regparm2", CallConvId::kRegParm2, dflt, true, 0, nullptr},
      {"regparm3", CallConvId::kRegParm3, dflt, true, 0, nullptr},
      {"lightcall2", CallConvId::kLightCall2, R_CONSIST, true, 2, "LightCall on AArch64 has no specification: not judged"}};
    return v;
  };
  g_targets = {
    {"x86-linux", "x86", Arch::kX86, Platform::kLinux, PlatformABI::kGNU, 32, false, false, x86_convs(false), x86a},
    {"x86-win", "x86", Arch::kX86, Platform::kWindows, PlatformABI::kMSVC, 32, true, false, x86_convs(true), x86a},
    {"x64-linux", "x64", Arch::kX64, Platform::kLinux, PlatformABI::kGNU, 64, false, false, x64_convs(false), x86a},
    {"x64-win", "x64", Arch::kX64, Platform::kWindows, PlatformABI::kMSVC, 64, true, false, x64_convs(true), x86a},
    {"a64-linux", "a64", Arch::kAArch64, Platform::kLinux, PlatformABI::kGNU, 64, false, false, a64_convs(false), a64a},
    {"a64-macos", "a64", Arch::kAArch64, Platform::kOSX, PlatformABI::kDarwin, 64, false, true, a64_convs(true), a64a},
    {"a64-ios", "a64", Arch::kAArch64, Platform::kIOS, PlatformABI::kDarwin, 64, false, true, a64_convs(true), a64a},
    {"a64-win", "a64", Arch::kAArch64, Platform::kWindows, PlatformABI::kMSVC, 64, true, false, a64_convs(false), a64a},
  };
}

// ------------------------------------------------------------------------------------------------------------
// a case
// ------------------------------------------------------------------------------------------------------------
static const int kNoVA = 255;
struct Case {
  int target = 0, conv = 0; int va = kNoVA; uint8_t ret = T_VOID; int n = 0; uint8_t args[32];
  std::string str() const {
    const Tgt& t = g_targets[target];
    std::string s = std::string("case target=") + t.name + " conv=" + t.convs[conv].name + " va=" + (va == kNoVA ? std::string("none") : std::to_string(va)) +
                    " ret=" + tname(ret) + " args=";
    for (int i = 0; i < n; i++) { if (i) s += ","; s += tname(args[i]); }
    if (!n) s += "-";
    return s;
  }
};
static std::string replay_of(const Case& cs) { return std::string("harness=c06_abi\nvariant=") + (C06_SANITIZED ? "asan" : "fast") + "\n" + cs.str() + "\n"; }

static bool parse_case(const std::string& text, Case& cs) {
  for (auto& line : vh::split(text, '\n')) {
    if (line.rfind("case ", 0) != 0) continue;
    std::map<std::string, std::string> kv;
    for (auto& tok : vh::split(line.substr(5), ' ')) { size_t p = tok.find('='); if (p != std::string::npos) kv[tok.substr(0, p)] = tok.substr(p + 1); }
    cs.target = -1;
    for (size_t i = 0; i < g_targets.size(); i++) if (kv["target"] == g_targets[i].name) cs.target = int(i);
    if (cs.target < 0) return false;
    cs.conv = -1;
    for (size_t i = 0; i < g_targets[cs.target].convs.size(); i++) if (kv["conv"] == g_targets[cs.target].convs[i].name) cs.conv = int(i);
    if (cs.conv < 0) return false;
    cs.va = kv["va"] == "none" ? kNoVA : atoi(kv["va"].c_str());
    int r = tk_by_name(kv["ret"]); if (r < 0) return false; cs.ret = uint8_t(r);
    cs.n = 0;
    if (kv["args"] != "-" && !kv["args"].empty())
      for (auto& a : vh::split(kv["args"], ',')) { int t = tk_by_name(a); if (t < 0 || t == T_VOID || cs.n >= 32) return false; cs.args[cs.n++] = uint8_t(t); }
    return true;
  }
  return false;
}

// ------------------------------------------------------------------------------------------------------------
// locations
// ------------------------------------------------------------------------------------------------------------
enum G : uint8_t { G_GP = 0, G_VEC = 1, G_MASK = 2, G_MM = 3, G_ST = 4, G_OTHER = 7 };
static const char* gname(uint8_t g) { static const char* n[] = {"gp", "vec", "mask", "mm", "st", "?", "?", "other"}; return n[g & 7]; }

enum LK : uint8_t { L_UNDEC = 0, L_REG = 1, L_STACK = 2, L_NONE = 3 /* actual only: value not assigned */ };
struct Loc {
  uint8_t kind = L_UNDEC; uint8_t grp = 0; uint8_t id = 0; uint8_t rsize = 0;   // rsize: expected = minimum register width; actual = width of the register type
  bool indirect = false; int32_t off = 0; uint16_t slot = 0;                       // slot: bytes occupied on the stack (expected) / size of the type (actual)
  std::string str() const {
    char b[64];
    if (kind == L_REG) snprintf(b, sizeof b, "%s%s#%u/%u", indirect ? "&" : "", gname(grp), id, rsize * 8);
    else if (kind == L_STACK) snprintf(b, sizeof b, "%s[%d]", indirect ? "&" : "", off);
    else snprintf(b, sizeof b, "%s", kind == L_UNDEC ? "?" : "unassigned");
    return b;
  }
};
static Loc mk_reg(uint8_t grp, uint8_t id, uint8_t minsize, bool ind = false) { Loc l; l.kind = L_REG; l.grp = grp; l.id = id; l.rsize = minsize; l.indirect = ind; return l; }
static Loc mk_stack(int32_t off, uint16_t slot, bool ind = false) { Loc l; l.kind = L_STACK; l.off = off; l.slot = slot; l.indirect = ind; return l; }

static bool decode_reg_type(RegType rt, uint8_t& grp, uint8_t& size) {
  switch (rt) {
    case RegType::kGp32: grp = G_GP; size = 4; return true;
    case RegType::kGp64: grp = G_GP; size = 8; return true;
    case RegType::kVec32: grp = G_VEC; size = 4; return true;
    case RegType::kVec64: grp = G_VEC; size = 8; return true;
    case RegType::kVec128: grp = G_VEC; size = 16; return true;
    case RegType::kVec256: grp = G_VEC; size = 32; return true;
    case RegType::kVec512: grp = G_VEC; size = 64; return true;
    case RegType::kMask: grp = G_MASK; size = 8; return true;
    case RegType::kX86_Mm: grp = G_MM; size = 8; return true;
    case RegType::kX86_St: grp = G_ST; size = 10; return true;
    default: grp = G_OTHER; size = 0; return false;
  }
}
static Loc actual_of(const FuncValue& fv) {
  Loc l;
  if (fv.is_reg()) { l.kind = L_REG; decode_reg_type(fv.reg_type(), l.grp, l.rsize); l.id = uint8_t(fv.reg_id()); }
  else if (fv.is_stack()) { l.kind = L_STACK; l.off = fv.stack_offset(); }
  else l.kind = L_NONE;
  l.indirect = fv.is_indirect();
  l.slot = uint16_t(TypeUtils::size_of(fv.type_id()));
  return l;
}

// ------------------------------------------------------------------------------------------------------------
// expectation of one case
// ------------------------------------------------------------------------------------------------------------
struct ArgExp { Loc v[2]; int nv = 1; bool variadic = false; };
struct Exp {
  bool consist_only = false;          // nothing but internal consistency is judged
  int decided_args = 0;               // arguments [0, decided_args) have decided locations
  ArgExp args[32];
  bool stack_decided = false; uint32_t stack_end = 0; bool stack_exact = false;
  bool ret_decided = false; Loc ret[2]; int nret = 0;
  const char* undecided_why = nullptr;
};

static inline uint32_t up(uint32_t v, uint32_t a) { return (v + a - 1) / a * a; }
static inline uint8_t tsize(uint8_t t, int bits) { return kT[t].size ? kT[t].size : uint8_t(bits / 8); }

// x86 register ids (architectural numbering): 0 ax, 1 cx, 2 dx, 3 bx, 4 sp, 5 bp, 6 si, 7 di
enum { AX = 0, CX = 1, DX = 2, BX = 3, SP = 4, BP = 5, SI = 6, DI = 7 };

// ---- i386 ------------------------------------------------------------------------------------------------
// Sources: System V i386 psABI (arguments on the stack in 4-byte units, long long 8 bytes / 4-aligned, long double 12 bytes,
// __m128/__m256/__m512: first three in xmm/ymm/zmm0-2, further ones on the stack aligned to their size - psABI 1.1, GCC, clang);
// MSVC "Argument Passing and Naming Conventions" (__stdcall, __fastcall: first two DWORD-or-smaller in ECX, EDX; __thiscall: this in ECX;
// __vectorcall: ECX/EDX + XMM0-5 for float/double/vector, 7th+ vector by reference); GCC regparm (EAX, EDX, ECX; a 64-bit value takes a
// register pair or goes to the stack as a whole and then exhausts the registers - i386.c function_arg_32/function_arg_advance_32, clang
// X86_32ABIInfo::updateFreeRegs).
static void classify_x86_32(const Tgt& t, Rule r, const Case& cs, Exp& ex) {
  static const uint8_t fast_regs[] = {CX, DX}, this_regs[] = {CX}, rp_regs[] = {AX, DX, CX};
  const uint8_t* gp = nullptr; int ngp = 0;
  bool vcall = r == R_X86_VECTORCALL;
  switch (r) {
    case R_X86_FASTCALL: case R_X86_VECTORCALL: gp = fast_regs; ngp = 2; break;
    case R_X86_THISCALL: gp = this_regs; ngp = 1; break;
    case R_X86_REGPARM1: gp = rp_regs; ngp = 1; break;
    case R_X86_REGPARM2: gp = rp_regs; ngp = 2; break;
    case R_X86_REGPARM3: gp = rp_regs; ngp = 3; break;
    default: break;
  }
  bool regparm = r == R_X86_REGPARM1 || r == R_X86_REGPARM2 || r == R_X86_REGPARM3;
  bool callee_pops = r == R_X86_STDCALL || r == R_X86_FASTCALL || r == R_X86_THISCALL || r == R_X86_VECTORCALL;
  int vec_limit = vcall ? 6 : 3;

  // return value
  if (cs.ret != T_VOID) {
    const TInfo& ti = kT[cs.ret]; uint8_t sz = tsize(cs.ret, 32);
    switch (ti.cls) {
      case C_INT:
        ex.ret_decided = true;
        if (sz <= 4) { ex.nret = 1; ex.ret[0] = mk_reg(G_GP, AX, 4); }
        else { ex.nret = 2; ex.ret[0] = mk_reg(G_GP, AX, 4); ex.ret[1] = mk_reg(G_GP, DX, 4); }
        break;
      case C_F32: case C_F64:
        ex.ret_decided = true; ex.nret = 1;
        ex.ret[0] = vcall ? mk_reg(G_VEC, 0, sz) : mk_reg(G_ST, 0, 10);
        break;
      case C_F80: if (!t.windows) { ex.ret_decided = true; ex.nret = 1; ex.ret[0] = mk_reg(G_ST, 0, 10); } break;   // MSVC has no 80-bit long double
      case C_VEC: ex.ret_decided = true; ex.nret = 1; ex.ret[0] = mk_reg(G_VEC, 0, sz); break;
      default: break;   // __m64 (GCC: mm0, clang: eax:edx) and mask types: vendors disagree / no C type
    }
  }

  if (cs.va != kNoVA && r != R_X86_CDECL) { ex.undecided_why = "variadic function with a non-cdecl i386 convention (compilers fall back to cdecl)"; return; }
  if (r == R_X86_THISCALL && (cs.n == 0 || kT[cs.args[0]].cls != C_INT || tsize(cs.args[0], 32) > 4)) {
    ex.undecided_why = "thiscall whose first argument is not a pointer-sized integer (no 'this')"; return;
  }

  int gpos = 0, vpos = 0; uint32_t off = 0;
  int i = 0;
  for (; i < cs.n; i++) {
    uint8_t ty = cs.args[i]; const TInfo& ti = kT[ty]; uint8_t sz = tsize(ty, 32);
    ArgExp& a = ex.args[i]; a.nv = 1;
    bool stop = false;
    switch (ti.cls) {
      case C_INT:
        if (sz <= 4) {
          if (gpos < ngp) a.v[0] = mk_reg(G_GP, gp[gpos++], 4);
          else { a.v[0] = mk_stack(int32_t(off), 4); off += 4; }
        }
        else {
          a.nv = 2;
          if (regparm && ngp - gpos >= 2) { a.v[0] = mk_reg(G_GP, gp[gpos], 4); a.v[1] = mk_reg(G_GP, gp[gpos + 1], 4); gpos += 2; }
          else {
            a.v[0] = mk_stack(int32_t(off), 4); a.v[1] = mk_stack(int32_t(off + 4), 4); off += 8;
            if (regparm) gpos = ngp;                      // GCC and clang: the registers are exhausted
            else if (gpos < ngp) { i++; stop = true; ex.undecided_why = "arguments after a 64-bit integer in fastcall/thiscall/vectorcall while ECX/EDX are free (MSVC keeps allocating them, GCC/clang do not)"; }
          }
        }
        break;
      case C_F32: case C_F64:
        if (vcall && vpos < vec_limit) a.v[0] = mk_reg(G_VEC, uint8_t(vpos++), sz);
        else if (vcall) { stop = true; ex.undecided_why = "7th+ float/vector argument of an i386 __vectorcall function (by reference; clang passes the reference in ECX/EDX when free, the MS text says 'on the stack')"; }
        else { a.v[0] = mk_stack(int32_t(off), sz); off += sz; }
        break;
      case C_F80:
        if (t.windows) { stop = true; ex.undecided_why = "80-bit long double does not exist in the MSVC i386 ABI"; break; }
        a.v[0] = mk_stack(int32_t(off), 12); off += 12;
        break;
      case C_VEC:
        if (cs.va != kNoVA) { stop = true; ex.undecided_why = "vector argument of a variadic i386 function (asmjit documents: always by stack)"; break; }
        if (vpos < vec_limit) a.v[0] = mk_reg(G_VEC, uint8_t(vpos++), sz);
        else if (vcall) { stop = true; ex.undecided_why = "7th+ float/vector argument of an i386 __vectorcall function (by reference; clang passes the reference in ECX/EDX when free, the MS text says 'on the stack')"; }
        else if (!t.windows) { off = up(off, sz); a.v[0] = mk_stack(int32_t(off), sz); off += sz; }
        else { stop = true; ex.undecided_why = "4th+ vector argument of a non-vectorcall MSVC i386 function (MSVC passes a reference / refuses; no ABI text)"; }
        break;
      default:
        stop = true; ex.undecided_why = ti.cls == C_MMX ? "__m64 argument on i386 (GCC/MSVC: mm0-2, clang: stack; documented in x86func.cpp)" : "mask (k register) type has no C ABI mapping";
        break;
    }
    if (stop) break;
  }
  ex.decided_args = std::min(i, cs.n);
  bool vec_on_stack = false;
  for (int k = 0; k < ex.decided_args; k++) if (kT[cs.args[k]].cls == C_VEC && ex.args[k].v[0].kind == L_STACK) vec_on_stack = true;
  if (ex.decided_args == cs.n && !ex.undecided_why) { ex.stack_decided = true; ex.stack_end = up(off, 4); ex.stack_exact = callee_pops && !vec_on_stack; }
}

// ---- System V AMD64 ----------------------------------------------------------------------------------------
// psABI 3.2.3: INTEGER class -> rdi, rsi, rdx, rcx, r8, r9; SSE class (float, double, __m128/256/512 = SSE+SSEUP) -> xmm/ymm/zmm0-7;
// long double = X87 class -> memory; stack arguments occupy round_up(size, 8) bytes and are aligned to max(8, alignof(type)).
// Returns: rax(/rdx), xmm0, st0.
static void classify_sysv64(const Case& cs, Exp& ex) {
  static const uint8_t gp[] = {DI, SI, DX, CX, 8, 9};
  if (cs.ret != T_VOID) {
    const TInfo& ti = kT[cs.ret]; uint8_t sz = tsize(cs.ret, 64);
    switch (ti.cls) {
      case C_INT: ex.ret_decided = true; ex.nret = 1; ex.ret[0] = mk_reg(G_GP, AX, sz <= 4 ? 4 : 8); break;
      case C_F32: case C_F64: case C_VEC: ex.ret_decided = true; ex.nret = 1; ex.ret[0] = mk_reg(G_VEC, 0, sz); break;
      case C_F80: ex.ret_decided = true; ex.nret = 1; ex.ret[0] = mk_reg(G_ST, 0, 10); break;
      default: break;   // __m64: SSE class in the psABI but INTEGER on Darwin/PS4 clang; masks: no C type
    }
  }
  int gpos = 0, vpos = 0; uint32_t off = 0; int i = 0;
  for (; i < cs.n; i++) {
    uint8_t ty = cs.args[i]; const TInfo& ti = kT[ty]; uint8_t sz = tsize(ty, 64);
    ArgExp& a = ex.args[i]; a.nv = 1;
    bool stop = false;
    switch (ti.cls) {
      case C_INT:
        if (gpos < 6) a.v[0] = mk_reg(G_GP, gp[gpos++], sz <= 4 ? 4 : 8);
        else { a.v[0] = mk_stack(int32_t(off), 8); off += 8; }
        break;
      case C_F32: case C_F64:
        if (vpos < 8) a.v[0] = mk_reg(G_VEC, uint8_t(vpos++), sz);
        else { a.v[0] = mk_stack(int32_t(off), 8); off += 8; }
        break;
      case C_VEC:
        if (vpos < 8) a.v[0] = mk_reg(G_VEC, uint8_t(vpos++), sz);
        else { off = up(off, sz); a.v[0] = mk_stack(int32_t(off), sz); off += sz; }
        break;
      case C_F80: off = up(off, 16); a.v[0] = mk_stack(int32_t(off), 16); off += 16; break;
      default:
        stop = true; ex.undecided_why = ti.cls == C_MMX ? "__m64 argument on x86-64 (psABI: SSE class; Darwin/PS4 clang: INTEGER)" : "mask (k register) type has no C ABI mapping";
        break;
    }
    if (stop) break;
  }
  ex.decided_args = std::min(i, cs.n);
  if (ex.decided_args == cs.n) { ex.stack_decided = true; ex.stack_end = up(off, 8); }
}

// ---- Microsoft x64 and x64 __vectorcall --------------------------------------------------------------------
// "x64 calling convention": four positional slots rcx/rdx/r8/r9 | xmm0-3, every argument owns the 8-byte stack slot 8*position (the
// first four are the shadow/home space), __m128 and larger are passed by reference.  "__vectorcall": float/double/vector in positions
// 0..5 are passed by value in xmm/ymm<position>, integers only in positions 0..3; vector types in later positions by reference.
static void classify_win64(const Case& cs, bool vcall, Exp& ex) {
  static const uint8_t gp[] = {CX, DX, 8, 9};
  if (cs.ret != T_VOID) {
    const TInfo& ti = kT[cs.ret]; uint8_t sz = tsize(cs.ret, 64);
    switch (ti.cls) {
      case C_INT: ex.ret_decided = true; ex.nret = 1; ex.ret[0] = mk_reg(G_GP, AX, sz <= 4 ? 4 : 8); break;
      case C_F32: case C_F64: ex.ret_decided = true; ex.nret = 1; ex.ret[0] = mk_reg(G_VEC, 0, sz); break;
      case C_VEC: if (sz == 16 || vcall) { ex.ret_decided = true; ex.nret = 1; ex.ret[0] = mk_reg(G_VEC, 0, sz); } break;  // __m256 return without vectorcall: not documented
      default: break;   // long double == double in MSVC; __m64 unsupported by MSVC x64; masks
    }
  }
  if (vcall && cs.va != kNoVA) { ex.undecided_why = "variadic __vectorcall does not exist (MSVC falls back to the default convention)"; return; }
  for (int i = 0; i < cs.n; i++) {
    uint8_t cl = kT[cs.args[i]].cls;
    if (cl == C_F80 || cl == C_MMX || cl == C_MASK) {
      ex.undecided_why = cl == C_F80 ? "80-bit long double does not exist in the Microsoft x64 ABI" : cl == C_MMX ? "__m64 is not supported by MSVC x64" : "mask (k register) type has no C ABI mapping";
      return;
    }
  }
  int nvec = vcall ? 6 : 4;
  for (int i = 0; i < cs.n; i++) {
    uint8_t ty = cs.args[i]; const TInfo& ti = kT[ty]; uint8_t sz = tsize(ty, 64);
    ArgExp& a = ex.args[i]; a.nv = 1;
    switch (ti.cls) {
      case C_INT:
        a.v[0] = i < 4 ? mk_reg(G_GP, gp[i], sz <= 4 ? 4 : 8) : mk_stack(8 * i, 8);
        break;
      case C_F32: case C_F64:
        a.v[0] = i < nvec ? mk_reg(G_VEC, uint8_t(i), sz) : mk_stack(8 * i, 8);
        break;
      default:  // C_VEC
        if (vcall && i < 6) a.v[0] = mk_reg(G_VEC, uint8_t(i), sz);
        else a.v[0] = i < 4 ? mk_reg(G_GP, gp[i], 8, true) : mk_stack(8 * i, 8, true);
        break;
    }
  }
  ex.decided_args = cs.n;
  ex.stack_decided = true; ex.stack_end = 8 * uint32_t(std::max(cs.n, 4));
}

// ---- AAPCS64 and Apple arm64 -------------------------------------------------------------------------------
// AAPCS64 6.8.2 (C.1-C.17): x0-x7 (NGRN), v0-v7 (NSRN); stack: NSAA rounded up to max(8, natural alignment), an argument smaller than 8
// bytes occupies 8 bytes.  Apple ("Writing ARM64 code for Apple platforms"): stack arguments consume only their natural size and are
// aligned to their natural alignment; variadic arguments (index >= first variadic) always go to 8-byte stack slots.
static void classify_a64(const Case& cs, bool apple, Exp& ex) {
  if (cs.ret != T_VOID) {
    const TInfo& ti = kT[cs.ret]; uint8_t sz = tsize(cs.ret, 64);
    ex.ret_decided = true; ex.nret = 1;
    if (ti.cls == C_INT) ex.ret[0] = mk_reg(G_GP, 0, sz <= 4 ? 4 : 8);
    else ex.ret[0] = mk_reg(G_VEC, 0, sz);
  }
  int ngrn = 0, nsrn = 0; uint32_t nsaa = 0; int i = 0;
  for (; i < cs.n; i++) {
    uint8_t ty = cs.args[i]; const TInfo& ti = kT[ty]; uint8_t sz = tsize(ty, 64);
    ArgExp& a = ex.args[i]; a.nv = 1;
    bool variadic = cs.va != kNoVA && i >= cs.va;
    if (apple && variadic) {
      if (ti.cls == C_VEC) { ex.undecided_why = "variadic short-vector argument on Apple arm64"; break; }
      nsaa = up(nsaa, 8); a.v[0] = mk_stack(int32_t(nsaa), 8); nsaa += 8; a.variadic = true;
      continue;
    }
    if (ti.cls == C_INT && ngrn < 8) { a.v[0] = mk_reg(G_GP, uint8_t(ngrn++), sz <= 4 ? 4 : 8); continue; }
    if (ti.cls != C_INT && nsrn < 8) { a.v[0] = mk_reg(G_VEC, uint8_t(nsrn++), sz); continue; }
    if (apple) { nsaa = up(nsaa, sz); a.v[0] = mk_stack(int32_t(nsaa), sz); nsaa += sz; }
    else { uint32_t al = std::max<uint32_t>(8, sz), s = std::max<uint32_t>(8, sz); nsaa = up(nsaa, al); a.v[0] = mk_stack(int32_t(nsaa), uint16_t(s)); nsaa += s; }
  }
  ex.decided_args = std::min(i, cs.n);
  if (ex.decided_args == cs.n) { ex.stack_decided = true; ex.stack_end = up(nsaa, 8); }
}

// ---- LightCall: asmjit-private, only the order written in x86func.cpp -----------------------------------------
static void classify_lightcall(const Case& cs, int bits, Exp& ex) {
  static const uint8_t gp[] = {AX, DX, CX, SI, DI};
  int gpos = 0, vpos = 0; int i = 0;
  for (; i < cs.n; i++) {
    uint8_t ty = cs.args[i]; const TInfo& ti = kT[ty]; uint8_t sz = tsize(ty, bits);
    ArgExp& a = ex.args[i]; a.nv = 1;
    if (ti.cls == C_INT && (sz <= 4 || bits == 64) && gpos < 5) { a.v[0] = mk_reg(G_GP, gp[gpos++], sz <= 4 ? 4 : 8); continue; }
    if ((ti.cls == C_F32 || ti.cls == C_F64 || ti.cls == C_VEC) && vpos < 8) { a.v[0] = mk_reg(G_VEC, uint8_t(vpos++), sz); continue; }
    break;   // stack layout, 64-bit integers on x86-32, f80, mmx, masks: not specified anywhere
  }
  ex.decided_args = i;
  if (i < cs.n) ex.undecided_why = "LightCall: stack layout / this type is not specified";
}

static void classify(const Tgt& t, const Conv& cv, const Case& cs, Exp& ex) {
  switch (cv.rule) {
    case R_SYSV64: classify_sysv64(cs, ex); break;
    case R_WIN64: classify_win64(cs, false, ex); break;
    case R_VECTORCALL64: classify_win64(cs, true, ex); break;
    case R_AAPCS64:
      if (t.windows && cs.va != kNoVA) { ex.undecided_why = "Windows arm64 variadic convention (floating point in x registers) is not modelled by asmjit: not judged"; ex.consist_only = true; break; }
      classify_a64(cs, false, ex); break;
    case R_APPLE64: classify_a64(cs, true, ex); break;
    case R_LIGHTCALL: classify_lightcall(cs, t.bits, ex); break;
    case R_CONSIST: ex.consist_only = true; ex.undecided_why = cv.why_consist; break;
    default: classify_x86_32(t, cv.rule, cs, ex); break;
  }
}

// ------------------------------------------------------------------------------------------------------------
// convention-level expectation (red zone, spill zone, callee pops, preserved sets, alignment)
// ------------------------------------------------------------------------------------------------------------
struct CcExp {
  bool judged = false;
  int red_zone_exact = -1, red_zone_max = -1;   // exact value, or only an upper bound (a smaller red zone is always safe)
  int spill_lo = 0, spill_hi = 0;
  int nat_align = -1;                            // -1: not judged
  int callee_pops = -1;
  uint32_t gp_must = 0, gp_mustnot = 0, vec_must = 0, vec_mustnot = 0;
  int vec_save_min = 0;                          // minimum save/restore size of a preserved vector register
};
static uint32_t bits_of(std::initializer_list<int> l) { uint32_t m = 0; for (int b : l) m |= 1u << b; return m; }

static CcExp conv_expectation(const Tgt& t, const Conv& cv) {
  CcExp e;
  switch (cv.rule) {
    case R_X86_CDECL: case R_X86_STDCALL: case R_X86_FASTCALL: case R_X86_THISCALL: case R_X86_REGPARM1: case R_X86_REGPARM2: case R_X86_REGPARM3: case R_X86_VECTORCALL:
      e.judged = true; e.red_zone_exact = 0; e.spill_lo = e.spill_hi = 0;
      e.nat_align = -1;   // 4 (i386 psABI 1.0, MSVC) vs 16 (Linux psABI 1.1): overridden by Environment::stack_alignment() in the Compiler
      e.callee_pops = (cv.rule == R_X86_STDCALL || cv.rule == R_X86_FASTCALL || cv.rule == R_X86_THISCALL || cv.rule == R_X86_VECTORCALL) ? 1 : 0;
      e.gp_must = bits_of({BX, BP, SI, DI}); e.gp_mustnot = bits_of({AX, CX, DX}); e.vec_mustnot = 0xFFFFFFFFu;
      break;
    case R_SYSV64:
      e.judged = true; e.red_zone_exact = 128; e.nat_align = 16; e.callee_pops = 0;
      e.gp_must = bits_of({BX, BP, 12, 13, 14, 15}); e.gp_mustnot = bits_of({AX, CX, DX, SI, DI, 8, 9, 10, 11}); e.vec_mustnot = 0xFFFFFFFFu;
      break;
    case R_WIN64: case R_VECTORCALL64:
      e.judged = true; e.red_zone_exact = 0; e.nat_align = 16; e.callee_pops = 0;
      e.spill_lo = 32; e.spill_hi = cv.rule == R_VECTORCALL64 ? 48 : 32;   // vectorcall: 32 + 8 per vector argument in position 4/5 (x86func.cpp documents a fixed 48)
      e.gp_must = bits_of({BX, BP, SI, DI, 12, 13, 14, 15}); e.gp_mustnot = bits_of({AX, CX, DX, 8, 9, 10, 11});
      e.vec_must = bits_of({6, 7, 8, 9, 10, 11, 12, 13, 14, 15}); e.vec_mustnot = ~e.vec_must; e.vec_save_min = 16;
      break;
    case R_AAPCS64: case R_APPLE64:
      e.judged = true; e.nat_align = 16; e.callee_pops = 0;
      if (t.apple) e.red_zone_max = 128; else if (t.windows) e.red_zone_max = 16; else e.red_zone_exact = 0;
      e.gp_must = bits_of({19, 20, 21, 22, 23, 24, 25, 26, 27, 28, 29}); e.gp_mustnot = 0x0003FFFFu;   // x0-x17 are never callee-saved; x18, x30, sp: not judged
      e.vec_must = bits_of({8, 9, 10, 11, 12, 13, 14, 15}); e.vec_mustnot = ~e.vec_must; e.vec_save_min = 8;
      break;
    default: break;
  }
  return e;
}

// ------------------------------------------------------------------------------------------------------------
// evaluation
// ------------------------------------------------------------------------------------------------------------
static std::string g_clause, g_why;
#define FAILC(cl, ...) do { char _b[600]; snprintf(_b, sizeof _b, __VA_ARGS__); g_why = _b; g_clause = cl; return false; } while (0)

static uint32_t mask_of(const CallConv& cc, RegGroup g) { return uint32_t(cc.preserved_regs(g)); }

static bool check_conv(const Tgt& t, const Conv& cv, const FuncDetail& fd) {
  const CallConv& cc = fd.call_conv();
  CcExp e = conv_expectation(t, cv);
  uint32_t sp_bit = t.arch == Arch::kAArch64 ? (1u << 31) : (1u << SP);
  uint32_t gpm = mask_of(cc, RegGroup::kGp), vm = mask_of(cc, RegGroup::kVec);
  if (!e.judged) {
    if (cv.rule == R_LIGHTCALL) {
      // the only contradiction that can be stated without a specification: a register that carries the result cannot be callee-saved
      // (noted, not reported: see the final note in main()).
      if (gpm & uint32_t(cc.passed_regs(RegGroup::kGp))) vh::ctx().n("lightcall_passed_and_preserved_gp")++;
    }
    return true;
  }
  if (e.red_zone_exact >= 0 && int(cc.red_zone_size()) != e.red_zone_exact) FAILC("red-zone", "red zone is %u bytes, the ABI prescribes %d", cc.red_zone_size(), e.red_zone_exact);
  if (e.red_zone_max >= 0 && int(cc.red_zone_size()) > e.red_zone_max) FAILC("red-zone", "red zone is %u bytes, the ABI grants at most %d", cc.red_zone_size(), e.red_zone_max);
  if (int(cc.spill_zone_size()) < e.spill_lo || int(cc.spill_zone_size()) > e.spill_hi) FAILC("spill-zone", "spill (shadow/home) zone is %u bytes, the ABI prescribes %d", cc.spill_zone_size(), e.spill_lo);
  if (e.nat_align >= 0 && int(cc.natural_stack_alignment()) != e.nat_align) FAILC("stack-align", "natural stack alignment is %u, the ABI prescribes %d", cc.natural_stack_alignment(), e.nat_align);
  if (e.callee_pops >= 0 && int(cc.has_flag(CallConvFlags::kCalleePopsStack)) != e.callee_pops) FAILC("callee-pops", "kCalleePopsStack is %d, the convention says the %s pops the arguments", int(cc.has_flag(CallConvFlags::kCalleePopsStack)), e.callee_pops ? "callee" : "caller");
  (void)sp_bit;
  if ((gpm & e.gp_must) != e.gp_must) FAILC("preserved", "general purpose registers preserved mask 0x%08x lacks callee-saved registers (required 0x%08x)", gpm, e.gp_must);
  if (gpm & e.gp_mustnot) FAILC("preserved", "general purpose registers preserved mask 0x%08x contains caller-saved registers 0x%08x", gpm, gpm & e.gp_mustnot);
  if ((vm & e.vec_must) != e.vec_must) FAILC("preserved", "vector registers preserved mask 0x%08x lacks callee-saved registers (required 0x%08x)", vm, e.vec_must);
  if (vm & e.vec_mustnot) FAILC("preserved", "vector registers preserved mask 0x%08x contains caller-saved registers 0x%08x", vm, vm & e.vec_mustnot);
  if (t.arch != Arch::kAArch64) {
    if (mask_of(cc, RegGroup::kMask)) FAILC("preserved", "mask registers preserved mask 0x%08x: k0-k7 are caller-saved in every x86 ABI", mask_of(cc, RegGroup::kMask));
    if (mask_of(cc, RegGroup::kX86_MM)) FAILC("preserved", "MMX registers preserved mask 0x%08x: mm0-mm7 are caller-saved in every x86 ABI", mask_of(cc, RegGroup::kX86_MM));
  }
  if (e.vec_save_min && int(cc.save_restore_reg_size(RegGroup::kVec)) < e.vec_save_min) FAILC("preserved-size", "callee-saved vector registers are saved with %u bytes, the ABI requires %d to be preserved", cc.save_restore_reg_size(RegGroup::kVec), e.vec_save_min);
  return true;
}

struct Actual { Loc v[32][4]; int nv[32]; Loc ret[4]; int nret; uint32_t stack_size; };

static void extract(const FuncDetail& fd, int n, Actual& a) {
  for (int i = 0; i < n; i++) {
    const FuncValuePack& p = fd.arg_pack(size_t(i));
    int k = 0;
    for (; k < int(Globals::kMaxValuePack); k++) { if (!p[size_t(k)]) break; a.v[i][k] = actual_of(p[size_t(k)]); }
    a.nv[i] = k;
  }
  a.nret = 0;
  for (int k = 0; k < int(Globals::kMaxValuePack); k++) { if (!fd.ret(size_t(k))) break; a.ret[k] = actual_of(fd.ret(size_t(k))); a.nret = k + 1; }
  a.stack_size = fd.arg_stack_size();
}

// g_fail_arg: argument index the failure refers to (-1 = none)
static int g_fail_arg = -1;

static bool cmp_loc(const Loc& e, const Loc& a, const char* what, int idx, int vi) {
  if (e.kind == L_UNDEC) return true;
  if (a.kind == L_NONE) FAILC("unassigned", "%s %d (value %d) has no location; the ABI says %s", what, idx, vi, e.str().c_str());
  if (e.kind != a.kind) FAILC("loc-kind", "%s %d (value %d) is passed in %s; the ABI says %s", what, idx, vi, a.str().c_str(), e.str().c_str());
  if (e.indirect != a.indirect) FAILC("by-ref", "%s %d (value %d) is passed %s (%s); the ABI says %s (%s)", what, idx, vi, a.indirect ? "by reference" : "by value", a.str().c_str(), e.indirect ? "by reference" : "by value", e.str().c_str());
  if (e.kind == L_REG) {
    if (e.grp != a.grp || e.id != a.id) FAILC("reg-order", "%s %d (value %d) is passed in %s; the ABI says %s", what, idx, vi, a.str().c_str(), e.str().c_str());
    if (a.rsize < e.rsize) FAILC("reg-size", "%s %d (value %d) is passed in a %u-bit register %s; the value has %u bits", what, idx, vi, a.rsize * 8, a.str().c_str(), e.rsize * 8);
  }
  else if (e.off != a.off) FAILC("stack-offset", "%s %d (value %d) is passed at stack offset %d; the ABI says %d", what, idx, vi, a.off, e.off);
  return true;
}

// types for which the convention has no ABI definition at all: their values are excluded from the consistency check (counted)
static bool abi_less(const Tgt& t, const Conv& cv, uint8_t ty) {
  Cls c = kT[ty].cls;
  if (c == C_MMX || c == C_MASK) return true;
  if (c == C_F80) return t.windows || cv.rule == R_WIN64 || cv.rule == R_VECTORCALL64 || (cv.rule == R_CONSIST && t.bits == 64) || cv.rule == R_LIGHTCALL;
  return false;
}

static bool check_consistency(const Case& cs, const Actual& a, const Tgt& t, const Conv& cv) {
  int bits = t.bits;
  // no two values in one location; stack values inside the argument area
  struct R { uint8_t grp, id; int arg; }; R regs[128]; int nr = 0;
  struct S { int32_t lo, hi; int arg; }; S st[128]; int ns = 0;
  for (int i = 0; i < cs.n; i++) for (int k = 0; k < a.nv[i]; k++) {
    const Loc& l = a.v[i][k];
    if (abi_less(t, cv, cs.args[i])) { vh::ctx().n("values_without_abi_skipped")++; continue; }
    if (l.kind == L_REG) {
      for (int j = 0; j < nr; j++) if (regs[j].grp == l.grp && regs[j].id == l.id) { g_fail_arg = i; FAILC("overlap", "arguments %d and %d are both passed in register %s", regs[j].arg, i, l.str().c_str()); }
      regs[nr++] = R{l.grp, l.id, i};
    }
    else if (l.kind == L_STACK) {
      int32_t size = l.indirect ? bits / 8 : int32_t(l.slot);
      int32_t lo = l.off, hi = l.off + size;
      if (lo < 0 || uint32_t(hi) > a.stack_size) { g_fail_arg = i; FAILC("arg-stack-size", "argument %d occupies stack bytes [%d,%d) but arg_stack_size() is %u", i, lo, hi, a.stack_size); }
      for (int j = 0; j < ns; j++) if (lo < st[j].hi && st[j].lo < hi) { g_fail_arg = i; FAILC("overlap", "arguments %d and %d overlap on the stack ([%d,%d) and [%d,%d))", st[j].arg, i, st[j].lo, st[j].hi, lo, hi); }
      st[ns++] = S{lo, hi, i};
    }
  }
  return true;
}

enum Verdict { V_OK, V_VIOLATION };

static TypeId deabstract(TypeId id, int bits) {
  if (id == TypeId::kIntPtr) return bits == 32 ? TypeId::kInt32 : TypeId::kInt64;
  if (id == TypeId::kUIntPtr) return bits == 32 ? TypeId::kUInt32 : TypeId::kUInt64;
  return id;
}

static bool g_dump = false;

// arg_stack_size() is wrong although every location matched: if the last stack value ends beyond it, that value's slot is too small
static void attribute_size(const Case& cs, const Exp& ex, const Actual& a) {
  g_clause = "arg-stack-size"; g_fail_arg = -1;
  int pj = -1, pk = 0;
  for (int j = 0; j < cs.n; j++) for (int kk = 0; kk < ex.args[j].nv; kk++) {
    const Loc& pe = ex.args[j].v[kk];
    if (pe.kind == L_STACK && (pj < 0 || pe.off > ex.args[pj].v[pk].off)) { pj = j; pk = kk; }
  }
  if (pj >= 0 && a.stack_size < uint32_t(ex.args[pj].v[pk].off) + ex.args[pj].v[pk].slot) { g_clause = "stack-slot"; g_fail_arg = pj; }
}

// evaluates one case; on violation g_clause/g_why/g_fail_arg are set
static bool eval_case(const Case& cs, bool count = true) {
  vh::Ctx& c = vh::ctx();
  const Tgt& t = g_targets[cs.target]; const Conv& cv = t.convs[cs.conv];
  g_fail_arg = -1;
  FuncSignature sig(cv.id, cs.va == kNoVA ? uint32_t(FuncSignature::kNoVarArgs) : uint32_t(cs.va));
  if (cs.ret != T_VOID) sig.set_ret(kT[cs.ret].id);
  for (int i = 0; i < cs.n; i++) sig.add_arg(kT[cs.args[i]].id);
  FuncDetail fd;
  Error err = fd.init(sig, t.env());

  Exp ex;
  classify(t, cv, cs, ex);
  bool args_fully = !ex.consist_only && ex.decided_args == cs.n;
  if (count) {
    c.n("evaluations")++;
    if (args_fully && (ex.ret_decided || cs.ret == T_VOID)) c.n("decided_completely")++;
    else if (ex.consist_only) c.n("consistency_only")++;
    else c.n("decided_partially")++;
    if (!ex.consist_only && (ex.decided_args > 0 || ex.ret_decided || cs.n == 0)) c.n("distinct_nontrivial")++;
    if (ex.undecided_why) { static std::set<std::string> seen; if (seen.insert(ex.undecided_why).second) c.note(std::string("undecided: ") + ex.undecided_why); }
  }
  if (err != Error::kOk) {
    if (count) c.n("init_errors")++;
    // a refusal is a violation only where everything about the signature is decided by the ABI
    if (args_fully && (ex.ret_decided || cs.ret == T_VOID)) FAILC("init-error", "FuncDetail::init() fails with error %u for a signature the ABI defines completely", unsigned(err));
    return true;
  }
  Actual a;
  extract(fd, cs.n, a);
  if (g_dump) {
    printf("%s\n  arg_stack_size=%u (expected end %u%s) red=%u spill=%u align=%u pops=%d\n", cs.str().c_str(), a.stack_size, ex.stack_end, ex.stack_decided ? "" : " undecided",
           fd.red_zone_size(), fd.spill_zone_size(), fd.natural_stack_alignment(), int(fd.has_flag(CallConvFlags::kCalleePopsStack)));
    for (int i = 0; i < cs.n; i++) for (int k = 0; k < std::max(a.nv[i], 1); k++)
      printf("  arg %d.%d %-6s actual %-14s expected %s\n", i, k, tname(cs.args[i]), k < a.nv[i] ? a.v[i][k].str().c_str() : "-", (i < ex.decided_args && k < ex.args[i].nv) ? ex.args[i].v[k].str().c_str() : "?");
    for (int k = 0; k < a.nret; k++) printf("  ret .%d %-6s actual %-14s expected %s\n", k, tname(cs.ret), a.ret[k].str().c_str(), ex.ret_decided && k < ex.nret ? ex.ret[k].str().c_str() : "?");
    if (ex.undecided_why) printf("  undecided: %s\n", ex.undecided_why);
  }
  if (fd.arg_count() != uint32_t(cs.n)) FAILC("arg-count", "arg_count() is %u for %d arguments", fd.arg_count(), cs.n);
  if (!check_conv(t, cv, fd)) return false;

  // unassigned values (noted; judged below only where the ABI decides the location)
  if (count) for (int i = 0; i < cs.n; i++) { if (a.nv[i] == 0) { fprintf(stderr, "harness error: empty pack\n"); exit(2); } for (int k = 0; k < a.nv[i]; k++) if (a.v[i][k].kind == L_NONE) c.n("unassigned_values")++; }

  if (!ex.consist_only) {
    for (int i = 0; i < ex.decided_args; i++) {
      g_fail_arg = i;
      const ArgExp& e = ex.args[i];
      if (e.v[0].kind == L_UNDEC) continue;
      if (a.nv[i] != e.nv) FAILC("pack", "argument %d is split into %d values; the ABI passes it as %d", i, a.nv[i], e.nv);
      for (int k = 0; k < e.nv; k++) if (!cmp_loc(e.v[k], a.v[i][k], "argument", i, k)) {
        if (g_clause == "loc-kind" && e.variadic) g_clause = "variadic";
        if (g_clause == "stack-offset") {
          // attribute the shift: the closest preceding stack value (all preceding values matched) either consumed a wrong number of
          // bytes (stack-slot:<its class>) or this value was not aligned (stack-align:<this class>)
          int pj = -1, pk = 0;
          for (int j = 0; j <= i; j++) for (int kk = 0; kk < ex.args[j].nv; kk++) {
            if (j == i && kk >= k) break;
            const Loc& pe = ex.args[j].v[kk];
            if (pe.kind == L_STACK && pe.off < e.v[k].off && (pj < 0 || pe.off > ex.args[pj].v[pk].off)) { pj = j; pk = kk; }
          }
          if (pj >= 0) {
            const Loc& pe = ex.args[pj].v[pk];
            int32_t end_j = pe.off + int32_t(pe.slot), ao = a.v[i][k].off, eo = e.v[k].off;
            bool slot = false;
            if (ao < end_j) slot = true;                       // the preceding value got too few bytes
            else if (ao < eo) g_clause = "stack-align";       // this value is not aligned as the ABI requires
            else slot = true;                                  // the preceding value got too many bytes (or this one is over-aligned)
            if (slot) { g_clause = "stack-slot"; g_fail_arg = pj;
                        g_why += " (the preceding stack argument " + std::to_string(pj) + " of type " + tname(cs.args[pj]) + " occupies " + std::to_string(pe.slot) + " bytes in the ABI)"; }
          }
        }
        return false;
      }
      // type recorded for the value
      const FuncValue& fv = fd.arg(size_t(i), 0);
      if (e.nv == 1 && fv.type_id() != deabstract(kT[cs.args[i]].id, t.bits)) FAILC("type", "argument %d is recorded with TypeId %u, the signature says %u", i, unsigned(fv.type_id()), unsigned(deabstract(kT[cs.args[i]].id, t.bits)));
    }
    g_fail_arg = -1;
    if (ex.stack_decided) {
      if (ex.stack_exact) {
        if (a.stack_size != ex.stack_end) { attribute_size(cs, ex, a); FAILC(g_clause.c_str(), "arg_stack_size() is %u; the callee must pop exactly %u bytes", a.stack_size, ex.stack_end); }
      }
      else {
        uint32_t al = 16;   // the area may be padded to the stack alignment, which a 32/64-byte stack argument raises
        for (int i = 0; i < cs.n; i++) if (ex.args[i].v[0].kind == L_STACK && !ex.args[i].v[0].indirect && kT[cs.args[i]].cls == C_VEC) al = std::max<uint32_t>(al, kT[cs.args[i]].size);
        uint32_t hi = up(std::max(ex.stack_end, fd.spill_zone_size()), al);
        if (a.stack_size < ex.stack_end || a.stack_size > hi) { attribute_size(cs, ex, a); FAILC(g_clause.c_str(), "arg_stack_size() is %u; the stack arguments of this signature end at %u", a.stack_size, ex.stack_end); }
      }
    }
    if (cs.ret == T_VOID) { if (a.nret != 0) FAILC("ret", "a void function has %d return values", a.nret); }
    else if (ex.ret_decided) {
      g_fail_arg = -2;
      if (a.nret != ex.nret) FAILC("ret", "the return value is split into %d values; the ABI returns it in %d register(s)", a.nret, ex.nret);
      for (int k = 0; k < ex.nret; k++) {
        if (!cmp_loc(ex.ret[k], a.ret[k], "return value", 0, k)) { g_clause = "ret"; return false; }
      }
      g_fail_arg = -1;
    }
  }
  // universally valid: a register that carries the result cannot be callee-saved (the epilog would restore the old value)
  for (int k = 0; k < a.nret; k++) {
    const Loc& l = a.ret[k];
    if (l.kind != L_REG || l.id >= 32) continue;
    RegGroup g = l.grp == G_GP ? RegGroup::kGp : l.grp == G_VEC ? RegGroup::kVec : l.grp == G_MASK ? RegGroup::kMask : l.grp == G_MM ? RegGroup::kX86_MM : RegGroup::kMaxValue;
    if (g == RegGroup::kMaxValue) continue;
    if (fd.call_conv().preserved_regs(g) & (1u << l.id)) { g_fail_arg = -2; FAILC("ret-preserved", "the return value is passed in %s, which the convention also declares callee-saved (preserved mask 0x%08x): the epilog restores it and destroys the result", l.str().c_str(), unsigned(fd.call_conv().preserved_regs(g))); }
  }
  if (!check_consistency(cs, a, t, cv)) return false;
  return true;
}

static void report(const Case& cs) {
  const Tgt& t = g_targets[cs.target]; const Conv& cv = t.convs[cs.conv];
  std::string key = std::string("abi:") + t.arch_key + ":" + (cv.rule == R_CONSIST ? cv.name : rule_key(cv.rule, cv.lc_n)) + ":" + g_clause;
  if (g_fail_arg >= 0 && g_fail_arg < cs.n) key += ":" + cls_key(cs.args[g_fail_arg], t.bits);
  else if (g_fail_arg == -2) key += ":" + cls_key(cs.ret, t.bits);
  vh::ctx().violation(key, g_why + " :: " + cs.str(), replay_of(cs));
}

// ------------------------------------------------------------------------------------------------------------
// enumeration
// ------------------------------------------------------------------------------------------------------------
static long long g_idx = 0;
static bool g_stop = false;

static void va_choices(int n, std::vector<int>& out) {
  out.clear(); out.push_back(kNoVA);
  std::set<int> s;
  if (n <= 3) { for (int i = 0; i <= n; i++) s.insert(i); }
  else { s.insert(0); s.insert((n + 1) / 2); s.insert(n); }
  for (int v : s) out.push_back(v);
}

// In sanitizer builds every batch is first executed in a forked child that only calls FuncDetail::init() (pre-flight): a sanitizer
// abort inside the library then costs one batch instead of the rest of the shard, and is reported with the exact case.
enum Mode { M_EVAL, M_PREFLIGHT, M_SKIP };
static Mode g_mode = M_EVAL;
static bool g_unit_sharding = false;
static Case* g_shared_case = nullptr;   // MAP_SHARED: the case the pre-flight child is executing

static void init_only(const Case& cs) {
  const Tgt& t = g_targets[cs.target]; const Conv& cv = t.convs[cs.conv];
  FuncSignature sig(cv.id, cs.va == kNoVA ? uint32_t(FuncSignature::kNoVarArgs) : uint32_t(cs.va));
  if (cs.ret != T_VOID) sig.set_ret(kT[cs.ret].id);
  for (int i = 0; i < cs.n; i++) sig.add_arg(kT[cs.args[i]].id);
  FuncDetail fd;
  (void)fd.init(sig, t.env());
}

// runs one signature (all va choices, one or all return types)
static void run_signature(Case& cs, bool all_rets, bool few_va) {
  vh::Ctx& c = vh::ctx();
  const Tgt& t = g_targets[cs.target];
  long long idx = g_idx++;
  if (g_mode == M_SKIP) return;
  if (!g_unit_sharding && !c.mine(idx)) return;
  if (g_mode == M_EVAL && (idx & 0xFFF) == 0 && c.out_of_time()) { g_stop = true; return; }
  static std::vector<int> vas;
  va_choices(cs.n, vas);
  int nrets = int(t.alpha.size()) + 1;
  for (size_t vi = 0; vi < vas.size(); vi++) {
    if (few_va && vi >= 2 && vi + 1 < vas.size()) continue;   // none, first, last
    cs.va = vas[vi];
    int r0 = all_rets ? 0 : int((idx / 3 + (long long)vi) % nrets), r1 = all_rets ? nrets : r0 + 1;
    for (int r = r0; r < r1; r++) {
      cs.ret = r == nrets - 1 ? uint8_t(T_VOID) : t.alpha[size_t(r)];
      if (g_mode == M_PREFLIGHT) { *g_shared_case = cs; init_only(cs); continue; }
      if (!eval_case(cs)) report(cs);
    }
  }
  if (g_mode == M_EVAL && (idx % 50021) == 0) c.sample(cs.str(), 16);
}

#include <sys/mman.h>
#include <sys/wait.h>

template<class Body>
static void run_batch(const Tgt& t, const Conv& cv, Body body) {
  vh::Ctx& c = vh::ctx();
  if (C06_SANITIZED && !c.opts.count("no-fork")) {
    if (!g_shared_case) {
      g_shared_case = (Case*)mmap(nullptr, 4096, PROT_READ | PROT_WRITE, MAP_SHARED | MAP_ANONYMOUS, -1, 0);
      if (g_shared_case == MAP_FAILED) { fprintf(stderr, "mmap failed\n"); exit(2); }
    }
    g_shared_case->n = -1;
    fflush(nullptr);
    pid_t pid = fork();
    if (pid < 0) { fprintf(stderr, "fork failed\n"); exit(2); }
    if (pid == 0) { g_mode = M_PREFLIGHT; body(); _exit(0); }
    int status = 0;
    if (waitpid(pid, &status, 0) != pid) { fprintf(stderr, "waitpid failed\n"); exit(2); }
    if (!(WIFEXITED(status) && WEXITSTATUS(status) == 0)) {
      Case bad = *g_shared_case;
      char b[200];
      if (WIFSIGNALED(status)) snprintf(b, sizeof b, "signal %d", WTERMSIG(status)); else snprintf(b, sizeof b, "exit code %d (99 = AddressSanitizer, 98 = UndefinedBehaviorSanitizer)", WEXITSTATUS(status));
      if (bad.n >= 0) {
        std::string key = std::string("abi:") + t.arch_key + ":" + (cv.rule == R_CONSIST ? cv.name : rule_key(cv.rule, cv.lc_n)) + ":sanitizer";
        c.violation(key, std::string("FuncDetail::init() aborts in the sanitizer build (") + b + "; the report is on stderr) :: " + bad.str(), replay_of(bad));
      }
      else { fprintf(stderr, "pre-flight child died before the first case (%s)\n", b); exit(2); }
      c.n("batches_skipped_after_sanitizer_abort")++;
      c.note("sanitizer leg: a batch of " + std::string(t.name) + "/" + cv.name + " was not evaluated in-process after a sanitizer abort in its pre-flight (it is evaluated by the unsanitized leg)");
      g_mode = M_SKIP; body(); g_mode = M_EVAL;   // keep the case numbering
      return;
    }
  }
  body();
}

static void sweep() {
  vh::Ctx& c = vh::ctx();
  bool small = c.opt("scale", "full") == "small";
  int full_len = c.thorough() ? 5 : 4;
  int alias_len = 2;
  int dev_full_to = c.thorough() ? 24 : 12;     // lengths 6..dev_full_to get <=2 deviations, the rest <=1
  if (small) { full_len = c.thorough() ? 4 : 3; dev_full_to = c.thorough() ? 12 : 0; }
  if (c.opts.count("full-len")) full_len = atoi(c.opt("full-len").c_str());
  if (c.opts.count("dev2-to")) dev_full_to = atoi(c.opt("dev2-to").c_str());
  std::string only_target = c.opt("target", ""), only_conv = c.opt("conv", "");

  long long unit = 0;
  for (size_t ti = 0; ti < g_targets.size() && !g_stop; ti++) {
    const Tgt& t = g_targets[ti];
    if (!only_target.empty() && only_target != t.name) continue;
    for (size_t ci = 0; ci < t.convs.size() && !g_stop; ci++) {
      const Conv& cv = t.convs[ci];
      if (!only_conv.empty() && only_conv != cv.name) continue;
      // the sanitizer leg is sharded by (target, convention) unit so that each unit is pre-flighted by one process only
      g_unit_sharding = C06_SANITIZED != 0;
      if (g_unit_sharding && !c.mine(unit++)) continue;
      int na = int(t.alpha.size());
      int L = cv.alias ? alias_len : full_len;
      auto part = [&](bool phase_a, int lo, int hi) {
        // phase A: all signatures up to length L
        for (int len = 0; phase_a && len <= L && !g_stop; len++) {
          Case cs; cs.target = int(ti); cs.conv = int(ci); cs.n = len;
          std::vector<int> od(size_t(len), 0);
          while (!g_stop) {
            for (int i = 0; i < len; i++) cs.args[i] = t.alpha[size_t(od[size_t(i)])];
            run_signature(cs, len <= 1, false);
            int p = len - 1;
            while (p >= 0 && ++od[size_t(p)] == na) { od[size_t(p)] = 0; p--; }
            if (p < 0) break;
          }
        }
        // phase B: lengths 6..32, all-i64, all-f64 and all-v128f defaults with at most k deviating positions x every type
        for (int base = 0; base < 3 && !g_stop; base++) {
          std::vector<uint8_t> al = t.alpha;   // al[0] = default type
          uint8_t bt = base == 0 ? T_I64 : base == 1 ? T_F64 : T_V128F;
          al.erase(std::find(al.begin(), al.end(), bt)); al.insert(al.begin(), bt);
          for (int len = lo; len <= hi && !g_stop; len++) {
            int bound = cv.alias ? 1 : (len <= dev_full_to ? 2 : 1);
            Case cs; cs.target = int(ti); cs.conv = int(ci); cs.n = len;
            xplor::explore_deviations(bound, [&](xplor::Chooser& ch) -> bool {
              for (int i = 0; i < len; i++) cs.args[i] = al[size_t(ch.choose(na))];
              run_signature(cs, false, true);
              return !g_stop;
            });
          }
        }
      };
      run_batch(t, cv, [&]() { part(true, 6, 16); });
      run_batch(t, cv, [&]() { part(false, 17, 32); });
    }
  }
  c.n("traces") = c.n("evaluations");
  c.n("states") = c.n("evaluations");
  c.n("transitions") = c.n("evaluations");
  char b[400];
  if (dev_full_to >= 6)
    snprintf(b, sizeof b, "all signatures of length <= %d (alias convention ids: <= %d); lengths 6..%d: all-i64 / all-f64 / all-v128f default with <= 2 deviating positions x every type, lengths %d..32: <= 1 deviation",
             full_len, alias_len, dev_full_to, dev_full_to + 1);
  else
    snprintf(b, sizeof b, "all signatures of length <= %d (alias convention ids: <= %d); lengths 6..32: all-i64 / all-f64 / all-v128f default with <= 1 deviating position x every type", full_len, alias_len);
  c.strs[small ? "bound_sanitizer_leg" : "bound"] = b;
  if (small) {
    // the sanitizer leg re-evaluates a sub-bound of the same inputs: keep it out of the coverage totals
    std::map<std::string, long long> renamed;
    for (auto& kv : c.counters) renamed["sanitizer_leg_" + kv.first] = kv.second;
    c.counters = renamed;
  }
}

// ------------------------------------------------------------------------------------------------------------
// interop leg (x86-64 host): asmjit-generated caller <-> clang-compiled C callee and vice versa
// ------------------------------------------------------------------------------------------------------------
struct ISig { const char* spec; };   // "ret:arg,arg,..."  xN repeats the preceding token group, e.g. "i64:i64*9"
static const char* kInteropSigs[] = {
  "i32:i32", "i64:i64,i64", "u8:i8,u8,i16,u16,i32,u32,i64,u64", "i64:i64*7", "i64:i64*9", "f32:f32", "f64:f64,f64", "f64:f64*9", "f32:f32*10",
  "i32:i32,f64,i32,f64", "f64:f64,i32,f64,i32,f64,i32", "i64:i64,f32,i64,f32,i64,f32,i64,f32,i64,f32,i64,f32", "v128f:v128f", "v128i:v128i,v128i",
  "v128f:i32,v128f,i32,v128f", "i32:i32,v128f,i32,v128f,i32,i32", "v256:v256", "v256:v256,f64,v256", "f64:f64*8,f32,f32,v128f", "i32:f64*8,v128f,i32*7",
  "i32:f64*8,f32,v256", "v128f:v128f*9", "v256:v256*9,i32", "f80:f80", "f80:i32,f80,i32,f80", "i64:i64*6,f80,i64,i64", "f64:f64*8,f80,f64", "i64:i64*17", "i64:i64*16,v128f,v128f",
  "f64:f64*16,v128i,i32", "i32:i32*4,v128f,v256", "i32:i32*5", "f64:f64*7", "i32:f64*4,i32*3", "i32:i32*4,f64,f64,i32", "i64:i8,i16,i32,i64,f32,f64,i8,i16,i32,i64,f32,f64,i8,i16,i32,i64,f32,f64",
  "u16:u16*10", "i32:i64*6,i8,i8,i16,i16,i32", "v128i:i64*6,v128i*9,i32", "i64:i64*32", "f64:f64,i64,f64,i64,f64,i64,f64,i64,f64,i64,f64,i64,f64,i64,f64,i64,f64,i64,f64,i64,f64,i64,f64,i64,f64,i64,f64,i64,f64,i64,f64,i64",
  "f32:i32,f32,v128f,f64,v256,i64,f32,v128i,i8,f64", "v128f:f32*8,v128f,f32,v128f",
  // AVX-512 host only
  "v512:v512", "i32:f64*8,i32,v512,i32", "v512:i32,v512,v512*8,i32",
};
static const int kNumInteropSigs = sizeof(kInteropSigs) / sizeof(kInteropSigs[0]);

struct IS { uint8_t ret; int n; uint8_t args[32]; bool has_f80 = false, has_512 = false; };
static bool parse_isig(const char* spec, IS& o) {
  std::string s = spec; size_t c = s.find(':'); if (c == std::string::npos) return false;
  int r = tk_by_name(s.substr(0, c)); if (r < 0) return false; o.ret = uint8_t(r); o.n = 0;
  for (auto& tok : vh::split(s.substr(c + 1), ',')) {
    int rep = 1; std::string tn = tok; size_t st = tok.find('*');
    if (st != std::string::npos) { tn = tok.substr(0, st); rep = atoi(tok.c_str() + st + 1); }
    int t = tk_by_name(tn); if (t < 0 || t == T_VOID) return false;
    for (int i = 0; i < rep; i++) { if (o.n >= 32) return false; o.args[o.n++] = uint8_t(t); }
  }
  for (int i = 0; i <= o.n; i++) { uint8_t t = i < o.n ? o.args[i] : o.ret; if (t == T_F80) o.has_f80 = true; if (t == T_V512) o.has_512 = true; }
  return true;
}

// tag bytes: slot i (0..31 arguments of the asmjit->C direction, 32 return value of the C callee, 33..64 arguments passed by the C caller,
// 65 return value of the asmjit callee).  Every 4/8/10-byte prefix is a normal floating point number (x87 loads must not alter it).
static const int kTagSlots = 66;
alignas(64) static uint8_t g_tags[kTagSlots][64];   // 64-byte aligned: by-reference arguments may point straight at a tag
static void build_tags() {
  for (int i = 0; i < kTagSlots; i++) {
    for (int j = 0; j < 64; j++) g_tags[i][j] = uint8_t(17 * i + 31 * j + 5 + (j >> 3) * 3);
    g_tags[i][3] = uint8_t(0x3F ^ ((i & 1) << 7)); g_tags[i][7] = 0xBF; g_tags[i][9] = 0x40;
  }
}
static const char* c_type(uint8_t t) {
  switch (t) {
    case T_I8: return "signed char"; case T_U8: return "unsigned char"; case T_I16: return "short"; case T_U16: return "unsigned short";
    case T_I32: return "int"; case T_U32: return "unsigned int"; case T_I64: return "long long"; case T_U64: return "unsigned long long";
    case T_F32: return "float"; case T_F64: return "double"; case T_F80: return "long double";
    case T_V128I: return "v4i"; case T_V128F: return "v4f"; case T_V256: return "v8f"; case T_V512: return "v16i"; case T_VOID: return "void";
    default: return nullptr;
  }
}
static int cmp_size(uint8_t t) { return kT[t].size; }   // f80: 10 significant bytes

enum IConv { IC_SYSV, IC_WIN64, IC_VECTORCALL, IC_COUNT };
static const char* ic_name(int c) { return c == IC_SYSV ? "sysv" : c == IC_WIN64 ? "win64" : "vectorcall"; }
static bool ic_applicable(int ic, const IS& s, bool avx512) { if (s.has_512 && !avx512) return false; if (s.has_f80 && ic != IC_SYSV) return false; return true; }

// prints the C file for one library: lib 0 = native (System V), lib 1 = --target=x86_64-pc-windows-msvc (Win64 + vectorcall)
static int emit_c(int lib, bool avx512, const std::string& path) {
  FILE* f = fopen(path.c_str(), "w"); if (!f) { fprintf(stderr, "cannot write %s\n", path.c_str()); return 2; }
  fprintf(f, "/* generated by c06_abi --emit-c: do not edit */\n");
  fprintf(f, "typedef int v4i __attribute__((vector_size(16)));\ntypedef float v4f __attribute__((vector_size(16)));\ntypedef float v8f __attribute__((vector_size(32)));\n");
  if (avx512) fprintf(f, "typedef int v16i __attribute__((vector_size(64)));\n");
  fprintf(f, "struct c06_par_t { void* fn; unsigned char* ret; };\n");
  fprintf(f, "static unsigned char c06_cap[%d] __attribute__((aligned(64))) = {1};\nunsigned char* c06_cap_ptr = c06_cap;\n", 33 * 64);
  fprintf(f, "static struct c06_par_t c06_par = {(void*)1, 0};\nstruct c06_par_t* c06_par_ptr = &c06_par;\n");
  fprintf(f, "static const unsigned char c06_tag[%d][64] __attribute__((aligned(64))) = {\n", kTagSlots);
  for (int i = 0; i < kTagSlots; i++) { fprintf(f, " {"); for (int j = 0; j < 64; j++) fprintf(f, "%u%s", g_tags[i][j], j < 63 ? "," : ""); fprintf(f, "},\n"); }
  fprintf(f, "};\n");
  for (int k = 0; k < kNumInteropSigs; k++) {
    IS s; if (!parse_isig(kInteropSigs[k], s)) { fprintf(stderr, "bad interop signature %s\n", kInteropSigs[k]); return 2; }
    for (int ic = 0; ic < IC_COUNT; ic++) {
      if ((lib == 0) != (ic == IC_SYSV)) continue;
      if (!ic_applicable(ic, s, avx512)) continue;
      const char* cc = ic == IC_VECTORCALL ? "__attribute__((vectorcall)) " : "";
      std::string params, fparams, stores, cargs;
      for (int i = 0; i < s.n; i++) {
        char b[200];
        snprintf(b, sizeof b, "%s%s a%d", i ? ", " : "", c_type(s.args[i]), i); params += b;
        snprintf(b, sizeof b, "%s%s", i ? ", " : "", c_type(s.args[i])); fparams += b;
        snprintf(b, sizeof b, " *(volatile %s*)(c06_cap + %d) = a%d;", c_type(s.args[i]), 64 * i, i); stores += b;
        snprintf(b, sizeof b, "%s*(const %s*)c06_tag[%d]", i ? ", " : "", c_type(s.args[i]), 33 + i); cargs += b;
      }
      // C callee: stores what it received, returns the tagged value of slot 32
      fprintf(f, "%s%s cs_%s_%d(%s) __asm__(\"\\001cs_%s_%d\");\n", cc, c_type(s.ret), ic_name(ic), k, params.c_str(), ic_name(ic), k);
      fprintf(f, "%s%s cs_%s_%d(%s) {%s return *(const %s*)c06_tag[32]; }\n", cc, c_type(s.ret), ic_name(ic), k, params.c_str(), stores.c_str(), c_type(s.ret));
      // C caller: calls c06_par.fn with the tagged values of slots 33.., stores the result
      fprintf(f, "void cl_%s_%d(void) __asm__(\"\\001cl_%s_%d\");\n", ic_name(ic), k, ic_name(ic), k);
      fprintf(f, "void cl_%s_%d(void) { typedef %s (%s*fn_t)(%s); %s r = ((fn_t)c06_par.fn)(%s); *(volatile %s*)c06_par.ret = r; }\n",
              ic_name(ic), k, c_type(s.ret), ic == IC_VECTORCALL ? "__attribute__((vectorcall)) " : "", fparams.c_str(), c_type(s.ret), cargs.c_str(), c_type(s.ret));
    }
  }
  fclose(f);
  return 0;
}

struct ILib { void* h = nullptr; uint8_t* cap = nullptr; struct Par { void* fn; uint8_t* ret; }* par = nullptr; };
static bool open_lib(const std::string& path, ILib& l) {
  l.h = dlopen(path.c_str(), RTLD_NOW | RTLD_LOCAL);
  if (!l.h) { fprintf(stderr, "dlopen %s: %s\n", path.c_str(), dlerror()); return false; }
  void** pc = (void**)dlsym(l.h, "c06_cap_ptr"); void** pp = (void**)dlsym(l.h, "c06_par_ptr");
  if (!pc || !pp) { fprintf(stderr, "missing symbols in %s\n", path.c_str()); return false; }
  l.cap = (uint8_t*)*pc; l.par = (ILib::Par*)*pp;
  return true;
}

static JitRuntime* g_rt = nullptr;
alignas(64) static uint8_t g_poison[64];
alignas(64) static uint8_t g_retbuf[64];
alignas(64) static uint8_t g_capbuf[33 * 64];

static void copy_bytes(x86::Assembler& a, const x86::Mem& dst, const x86::Mem& src, int size) {
  // via rax; sizes 1,2,4,8,10,16,32,64
  int o = 0;
  auto at = [](const x86::Mem& m, int off, uint32_t sz) { x86::Mem r = m; r.add_offset(off); r.set_size(sz); return r; };
  while (size - o >= 8) { a.mov(x86::rax, at(src, o, 8)); a.mov(at(dst, o, 8), x86::rax); o += 8; }
  if (size - o >= 4) { a.mov(x86::eax, at(src, o, 4)); a.mov(at(dst, o, 4), x86::eax); o += 4; }
  if (size - o >= 2) { a.mov(x86::ax, at(src, o, 2)); a.mov(at(dst, o, 2), x86::ax); o += 2; }
  if (size - o >= 1) { a.mov(x86::al, at(src, o, 1)); a.mov(at(dst, o, 1), x86::al); o += 1; }
}
static void vec_load(x86::Assembler& a, uint32_t id, int rsize, int vsize, const x86::Mem& m) {
  // loads exactly the value (vsize bytes) into the register the FuncDetail names (rsize = width of the named register)
  int sz = std::min(rsize, vsize);
  if (sz <= 4) a.vmovss(x86::xmm(id), m);
  else if (sz <= 8) a.vmovsd(x86::xmm(id), m);
  else if (sz <= 16) a.vmovups(x86::xmm(id), m);
  else if (sz <= 32) a.vmovups(x86::ymm(id), m);
  else a.vmovups(x86::zmm(id), m);
}
static void vec_store(x86::Assembler& a, const x86::Mem& m, uint32_t id, int rsize) {
  if (rsize <= 16) a.vmovups(m, x86::xmm(id)); else if (rsize <= 32) a.vmovups(m, x86::ymm(id)); else a.vmovups(m, x86::zmm(id));
}

static const int kOutArea = 64 * 48;   // outgoing area the caller thunk reserves (pre-filled with pointers to the poison block)

// asmjit caller: places the tagged values of slots 0..n-1 where `fd` says, calls `callee`, stores the result registers to g_retbuf
static bool gen_caller(const FuncDetail& fd, const IS& s, void* callee, void (**out)(void), std::string& why) {
  CodeHolder code; code.init(Environment::host());
  x86::Assembler a(&code);
  using namespace x86;
  a.push(rbp); a.mov(rbp, rsp); a.push(rbx); a.push(r12); a.push(r13); a.push(r14); a.push(r15); a.sub(rsp, 8);
  a.mov(r12, uint64_t(uintptr_t(&g_tags[0][0]))); a.mov(r13, uint64_t(uintptr_t(callee))); a.mov(rbx, uint64_t(uintptr_t(g_retbuf)));
  int nind = 0;
  for (int i = 0; i < s.n; i++) if (fd.arg(size_t(i)).is_indirect()) nind++;
  int area = kOutArea + 64 * nind;
  a.sub(rsp, area + 64); a.and_(rsp, -64);
  // poison: every 8-byte slot of the outgoing area and every argument register holds a valid pointer to the poison block
  a.mov(rax, uint64_t(uintptr_t(g_poison)));
  for (int o = 0; o < kOutArea; o += 8) a.mov(qword_ptr(rsp, o), rax);
  for (uint32_t r : {1u, 2u, 6u, 7u, 8u, 9u, 10u, 11u}) a.mov(gpq(r), rax);
  int ind = 0, nvec = 0;
  // pass 1: stack values and the memory of by-reference values
  for (int i = 0; i < s.n; i++) {
    const FuncValue& v = fd.arg(size_t(i));
    int vs = cmp_size(s.args[i]);
    Mem src = ptr(r12, 64 * i);
    if (v.is_indirect()) {
      int slot = kOutArea + 64 * ind++;
      copy_bytes(a, ptr(rsp, slot), src, vs);
      if (v.is_stack()) { if (v.stack_offset() < 0 || v.stack_offset() + 8 > kOutArea) { why = "stack offset outside the modelled area"; return false; } a.lea(rax, ptr(rsp, slot)); a.mov(qword_ptr(rsp, v.stack_offset()), rax); }
    }
    else if (v.is_stack()) {
      if (v.stack_offset() < 0 || v.stack_offset() + vs > kOutArea) { why = "stack offset outside the modelled area"; return false; }
      copy_bytes(a, ptr(rsp, v.stack_offset()), src, vs);
    }
  }
  // pass 2: registers
  ind = 0;
  for (int i = 0; i < s.n; i++) {
    const FuncValue& v = fd.arg(size_t(i));
    int vs = cmp_size(s.args[i]);
    Mem src = ptr(r12, 64 * i);
    int slot = 0;
    if (v.is_indirect()) slot = kOutArea + 64 * ind++;
    if (!v.is_reg()) continue;
    uint8_t grp, rsz; decode_reg_type(v.reg_type(), grp, rsz);
    if (v.is_indirect()) { if (grp != G_GP || v.reg_id() == 4 || v.reg_id() == 5 || v.reg_id() == 12 || v.reg_id() == 13 || v.reg_id() == 3) { why = "by-reference value in a register the thunk cannot load"; return false; } a.lea(gpq(v.reg_id()), ptr(rsp, slot)); continue; }
    if (grp == G_GP) {
      uint32_t id = v.reg_id();
      if (id == 4 || id == 5 || id == 3 || id == 12 || id == 13) { why = "argument in a register the thunk reserves"; return false; }
      Mem m = src; m.set_size(8); a.mov(gpq(id), m);
    }
    else if (grp == G_VEC) { vec_load(a, v.reg_id(), rsz, vs, src); nvec++; }
    else { why = std::string("argument in a ") + gname(grp) + " register"; return false; }
  }
  a.mov(eax, nvec);
  a.call(r13);
  for (int k = 0; k < 2; k++) {
    const FuncValue& r = fd.ret(size_t(k));
    if (!r) break;
    if (!r.is_reg()) { why = "return value not in a register"; return false; }
    uint8_t grp, rsz; decode_reg_type(r.reg_type(), grp, rsz);
    if (grp == G_GP) a.mov(qword_ptr(rbx, 8 * k), gpq(r.reg_id()));
    else if (grp == G_VEC) vec_store(a, ptr(rbx, 0), r.reg_id(), rsz);
    else if (grp == G_ST) a.fstp(tword_ptr(rbx, 0));
    else { why = "return value in an unsupported register group"; return false; }
  }
  a.lea(rsp, ptr(rbp, -40)); a.pop(r15); a.pop(r14); a.pop(r13); a.pop(r12); a.pop(rbx); a.pop(rbp); a.ret();
  if (g_rt->add(out, &code) != Error::kOk) { why = "JitRuntime::add failed"; return false; }
  return true;
}

// asmjit callee: reads its arguments from where `fd` says into g_capbuf, returns the tagged value of slot 65
static bool gen_callee(const FuncDetail& fd, const IS& s, void** out, std::string& why) {
  CodeHolder code; code.init(Environment::host());
  x86::Assembler a(&code);
  using namespace x86;
  a.mov(r11, uint64_t(uintptr_t(g_capbuf)));
  for (int i = 0; i < s.n; i++) {
    const FuncValue& v = fd.arg(size_t(i));
    int vs = cmp_size(s.args[i]);
    Mem dst = ptr(r11, 64 * i);
    if (v.is_indirect()) {
      if (v.is_reg()) { uint8_t grp, rsz; decode_reg_type(v.reg_type(), grp, rsz); if (grp != G_GP) { why = "by-reference pointer outside the general purpose registers"; return false; } a.mov(r10, gpq(v.reg_id())); }
      else if (v.is_stack()) a.mov(r10, qword_ptr(rsp, 8 + v.stack_offset()));
      else { why = "argument without location"; return false; }
      // only dereference a pointer into the caller's stack (anything else is left as the 0xDD fill and reported as a mismatch)
      Label skip = a.new_label();
      a.mov(rax, r10); a.sub(rax, rsp); a.cmp(rax, 0x40000); a.jae(skip);
      copy_bytes(a, dst, ptr(r10, 0), vs);
      a.bind(skip);
    }
    else if (v.is_reg()) {
      uint8_t grp, rsz; decode_reg_type(v.reg_type(), grp, rsz);
      if (grp == G_GP) { Mem m = dst; m.set_size(8); a.mov(m, gpq(v.reg_id())); }
      else if (grp == G_VEC) vec_store(a, dst, v.reg_id(), rsz);
      else { why = std::string("argument in a ") + gname(grp) + " register"; return false; }
    }
    else if (v.is_stack()) copy_bytes(a, dst, ptr(rsp, 8 + v.stack_offset()), vs);
    else { why = "argument without location"; return false; }
  }
  a.mov(r10, uint64_t(uintptr_t(&g_tags[65][0])));
  for (int k = 0; k < 2; k++) {
    const FuncValue& r = fd.ret(size_t(k));
    if (!r) break;
    if (!r.is_reg()) { why = "return value not in a register"; return false; }
    uint8_t grp, rsz; decode_reg_type(r.reg_type(), grp, rsz);
    if (grp == G_GP) a.mov(gpq(r.reg_id()), qword_ptr(r10, 8 * k));
    else if (grp == G_VEC) vec_load(a, r.reg_id(), rsz, cmp_size(s.ret), ptr(r10, 0));
    else if (grp == G_ST) a.fld(tword_ptr(r10, 0));
    else { why = "return value in an unsupported register group"; return false; }
  }
  a.ret();
  if (g_rt->add(out, &code) != Error::kOk) { why = "JitRuntime::add failed"; return false; }
  return true;
}

// calls a no-argument function compiled for Windows x64 (needs the 32-byte home space above its return address)
static void (*g_win_trampoline)(void*) = nullptr;
static bool gen_trampoline() {
  CodeHolder code; code.init(Environment::host());
  x86::Assembler a(&code);
  using namespace x86;
  a.push(rbp); a.mov(rbp, rsp); a.sub(rsp, 64); a.and_(rsp, -16); a.call(rdi); a.mov(rsp, rbp); a.pop(rbp); a.ret();
  return g_rt->add(&g_win_trampoline, &code) == Error::kOk;
}

static std::string hexn(const uint8_t* p, int n) { return vh::hex(p, size_t(n)); }
// deterministic description of received bytes (no addresses / stack garbage in reports)
static std::string describe_bytes(const uint8_t* p, int n, int tag0) {
  bool all_dd = true, all_ee = true;
  for (int i = 0; i < n; i++) { if (p[i] != 0xDD) all_dd = false; if (p[i] != 0xEE) all_ee = false; }
  if (all_dd) return "nothing (the capture fill 0xDD)";
  if (all_ee) return "the poison block 0xEE (a pointer slot / register the caller never wrote)";
  for (int j = 0; j < 32; j++) if (memcmp(p, g_tags[tag0 + j], size_t(std::min(n, 8))) == 0) return "the leading bytes of the value tagged for argument " + std::to_string(j);
  return "other data";
}

// a wrong layout can make the compiled side dereference an argument value as a by-reference pointer: the fault is caught and reported
#include <setjmp.h>
static sigjmp_buf g_jb;
static volatile int g_in_call = 0;
static void on_fault(int sig) { if (g_in_call) { g_in_call = 0; siglongjmp(g_jb, sig); } vh::on_fatal_signal(sig); }


// ---- the same two directions through x86::Compiler: invoke() marshals the arguments (RACFGBuilder::on_before_invoke) and
// ---- add_func()/set_arg() assigns the incoming ones; the harness never looks at FuncDetail here
static bool cc_vreg(x86::Compiler& cc, uint8_t t, Reg& r) {
  switch (t) {
    case T_I8: case T_U8: case T_I16: case T_U16: case T_I32: case T_U32: r = cc.new_gp32(); return true;
    case T_I64: case T_U64: r = cc.new_gp64(); return true;
    case T_F32: r = cc.new_xmm_ss(); return true;
    case T_F64: r = cc.new_xmm_sd(); return true;
    case T_V128I: case T_V128F: r = cc.new_xmm(); return true;
    case T_V256: r = cc.new_ymm(); return true;
    case T_V512: r = cc.new_zmm(); return true;
    default: return false;
  }
}
static Error cc_load(x86::Compiler& cc, uint8_t t, const Reg& r, x86::Mem m) {
  switch (t) {
    case T_I8: case T_U8: case T_I16: case T_U16: case T_I32: case T_U32: m.set_size(4); return cc.mov(r.as<x86::Gp>(), m);
    case T_I64: case T_U64: m.set_size(8); return cc.mov(r.as<x86::Gp>(), m);
    case T_F32: return cc.movss(r.as<x86::Vec>(), m);
    case T_F64: return cc.movsd(r.as<x86::Vec>(), m);
    case T_V128I: case T_V128F: return cc.movups(r.as<x86::Vec>(), m);
    default: return cc.vmovups(r.as<x86::Vec>(), m);
  }
}
static Error cc_store(x86::Compiler& cc, uint8_t t, x86::Mem m, const Reg& r) {
  switch (t) {
    case T_I8: case T_U8: case T_I16: case T_U16: case T_I32: case T_U32: m.set_size(4); return cc.mov(m, r.as<x86::Gp>());
    case T_I64: case T_U64: m.set_size(8); return cc.mov(m, r.as<x86::Gp>());
    case T_F32: return cc.movss(m, r.as<x86::Vec>());
    case T_F64: return cc.movsd(m, r.as<x86::Vec>());
    case T_V128I: case T_V128F: return cc.movups(m, r.as<x86::Vec>());
    default: return cc.vmovups(m, r.as<x86::Vec>());
  }
}
static CallConvId ic_conv_id(int ic) { return ic == IC_SYSV ? CallConvId::kX64SystemV : ic == IC_WIN64 ? CallConvId::kX64Windows : CallConvId::kVectorCall; }
#define CCE(x) do { Error _e = (x); if (_e != Error::kOk) { why = std::string(#x) + " failed: " + DebugUtils::error_as_string(_e); return false; } } while (0)

// x86::Compiler caller: loads the tagged values into virtual registers and invoke()s the C callee with the convention's signature
// byref_gp: arguments FuncDetail passes by reference are given as a pointer held in a general purpose register (the other form invoke() accepts)
static bool gen_cc_invoker(int ic, const IS& s, void* callee, void (**out)(void), std::string& why, bool& skip, const FuncDetail* byref_gp = nullptr) {
  CodeHolder code; code.init(Environment::host());
  x86::Compiler cc(&code);
  FuncNode* fn = cc.add_func(FuncSignature::build<void>());
  fn->frame().set_avx_enabled(); if (s.has_512) fn->frame().set_avx512_enabled();
  FuncSignature sig(ic_conv_id(ic)); sig.set_ret(kT[s.ret].id);
  for (int i = 0; i < s.n; i++) sig.add_arg(kT[s.args[i]].id);
  x86::Gp tags = cc.new_gp64(), retp = cc.new_gp64();
  CCE(cc.mov(tags, uint64_t(uintptr_t(&g_tags[0][0])))); CCE(cc.mov(retp, uint64_t(uintptr_t(g_retbuf))));
  std::vector<Reg> regs(size_t(s.n));
  for (int i = 0; i < s.n; i++) {
    if (byref_gp && byref_gp->arg(size_t(i)).is_indirect()) { x86::Gp p = cc.new_gp64(); CCE(cc.lea(p, x86::ptr(tags, 64 * i))); regs[size_t(i)] = p; continue; }
    if (!cc_vreg(cc, s.args[i], regs[size_t(i)])) { skip = true; return false; }
    CCE(cc_load(cc, s.args[i], regs[size_t(i)], x86::ptr(tags, 64 * i)));
  }
  Reg rr; if (!cc_vreg(cc, s.ret, rr)) { skip = true; return false; }
  InvokeNode* inv = nullptr;
  CCE(cc.invoke(Out(inv), Imm(uint64_t(uintptr_t(callee))), sig));
  for (int i = 0; i < s.n; i++) inv->set_arg(size_t(i), regs[size_t(i)]);
  inv->set_ret(0, rr);
  CCE(cc_store(cc, s.ret, x86::ptr(retp), rr));
  CCE(cc.ret()); CCE(cc.end_func()); CCE(cc.finalize());
  if (g_rt->add(out, &code) != Error::kOk) { why = "JitRuntime::add failed"; return false; }
  return true;
}

// x86::Compiler callee: a function of the convention's signature whose arguments are bound to virtual registers and captured
static bool gen_cc_callee(int ic, const IS& s, void** out, std::string& why, bool& skip) {
  CodeHolder code; code.init(Environment::host());
  x86::Compiler cc(&code);
  FuncSignature sig(ic_conv_id(ic)); sig.set_ret(kT[s.ret].id);
  for (int i = 0; i < s.n; i++) sig.add_arg(kT[s.args[i]].id);
  for (int i = 0; i <= s.n; i++) { uint8_t t = i < s.n ? s.args[i] : s.ret; if (t == T_F80 || t == T_MMX || t == T_V64 || t == T_IPTR || t >= T_COUNT) { skip = true; return false; } }
  FuncNode* fn = cc.add_func(sig);
  if (!fn) { why = "add_func failed"; return false; }
  fn->frame().set_avx_enabled(); if (s.has_512) fn->frame().set_avx512_enabled();
  std::vector<Reg> regs(size_t(s.n));
  for (int i = 0; i < s.n; i++) { cc_vreg(cc, s.args[i], regs[size_t(i)]); fn->set_arg(size_t(i), regs[size_t(i)]); }
  x86::Gp cap = cc.new_gp64();
  CCE(cc.mov(cap, uint64_t(uintptr_t(g_capbuf))));
  for (int i = 0; i < s.n; i++) CCE(cc_store(cc, s.args[i], x86::ptr(cap, 64 * i), regs[size_t(i)]));
  Reg rr; cc_vreg(cc, s.ret, rr);
  CCE(cc.mov(cap, uint64_t(uintptr_t(&g_tags[65][0]))));
  CCE(cc_load(cc, s.ret, rr, x86::ptr(cap)));
  CCE(cc.ret(rr)); CCE(cc.end_func()); CCE(cc.finalize());
  if (g_rt->add(out, &code) != Error::kOk) { why = "JitRuntime::add failed"; return false; }
  return true;
}


// calls fn() with the stack pointer at the call == -mod (mod 64), mod in {0,16,32,48}: every alignment an ABI-conforming caller can
// produce; also provides the Win64 home space.  Makes the outcome independent of how the harness process' stack happens to be aligned.
static void (*g_align_trampoline)(void*, uint64_t) = nullptr;
static bool gen_align_trampoline() {
  CodeHolder code; code.init(Environment::host());
  x86::Assembler a(&code);
  using namespace x86;
  a.push(rbp); a.mov(rbp, rsp); a.sub(rsp, 192); a.and_(rsp, -64); a.sub(rsp, rsi); a.call(rdi); a.mov(rsp, rbp); a.pop(rbp); a.ret();
  return g_rt->add(&g_align_trampoline, &code) == Error::kOk;
}

static void interop_cc_case(int ic, int dir, const IS& s, const FuncDetail& fd, void* fn, ILib& lib, const std::string& keyb, const std::string& what, const std::string& rp) {
  vh::Ctx& c = vh::ctx();
  std::string why; bool skip = false;
  void (*thunk)(void) = nullptr; void* callee = nullptr;
  if (dir == 4) { bool any = false; for (int i = 0; i < s.n; i++) if (fd.arg(size_t(i)).is_indirect()) any = true; if (!any) { c.n("interop_cc_skipped")++; return; } }
  bool ok = dir == 3 ? gen_cc_callee(ic, s, &callee, why, skip) : gen_cc_invoker(ic, s, fn, &thunk, why, skip, dir == 4 ? &fd : nullptr);
  if (!ok) {
    if (skip) { c.n("interop_cc_skipped")++; return; }
    // by-reference arguments: FuncArgsContext documents incoming ones as not supported, and reports kInvalidAssignment - a refusal, not a wrong value
    bool indirect = false; for (int i = 0; i < s.n; i++) if (fd.arg(size_t(i)).is_indirect()) indirect = true;
    if (dir == 3 && indirect && why.find("InvalidAssignment") != std::string::npos) { c.n("interop_cc_refused_byref_incoming")++; return; }
    c.violation(keyb + ":compiler-error", std::string("the Compiler refuses the ") + (dir != 3 ? "call" : "function") + " (" + why + ") :: " + what, rp); return;
  }
  void* code_ptr = dir != 3 ? (void*)thunk : callee;
  for (uint64_t mod = 0; mod < 64; mod += 16) {
    const uint8_t* got_args; int tag0, rtag;
    std::string at = " [stack pointer at the call = -" + std::to_string(mod) + " mod 64]";
    memset(lib.cap, 0xDD, 33 * 64); memset(g_capbuf, 0xDD, sizeof g_capbuf); memset(g_retbuf, 0xDD, sizeof g_retbuf);
    if (dir == 3) { lib.par->fn = callee; lib.par->ret = g_retbuf; }
    int sig = sigsetjmp(g_jb, 1);
    if (sig == 0) { g_in_call = 1; g_align_trampoline(dir != 3 ? (void*)thunk : fn, mod); g_in_call = 0; }
    if (sig != 0) { g_rt->release(code_ptr); c.violation(keyb + ":crash", std::string(dir != 3 ? "the call made by the Compiler-generated function" : "the Compiler-generated function") + " faults (signal " + std::to_string(sig) + ")" + at + " :: " + what, rp); return; }
    if (dir != 3) { got_args = lib.cap; tag0 = 0; rtag = 32; } else { got_args = g_capbuf; tag0 = 33; rtag = 65; }
    for (int i = 0; i < s.n; i++) {
      int n = cmp_size(s.args[i]);
      if (memcmp(got_args + 64 * i, g_tags[tag0 + i], size_t(n)) != 0) {
        Loc l = actual_of(fd.arg(size_t(i)));
        g_rt->release(code_ptr);
        c.violation(keyb + ":" + cls_key(s.args[i], 64), std::string("argument ") + std::to_string(i) + " (" + tname(s.args[i]) + ", FuncDetail: " + l.str() + ") arrives as " +
                    describe_bytes(got_args + 64 * i, n, tag0) + " instead of its tagged value " + hexn(g_tags[tag0 + i], std::min(n, 16)) + at + " :: " + what, rp);
        return;
      }
    }
    int n = cmp_size(s.ret);
    if (memcmp(g_retbuf, g_tags[rtag], size_t(n)) != 0) {
      g_rt->release(code_ptr);
      c.violation(keyb + "-ret:" + cls_key(s.ret, 64), std::string("return value (") + tname(s.ret) + ") does not arrive: expected the tagged value " + hexn(g_tags[rtag], std::min(n, 16)) + at + " :: " + what, rp);
      return;
    }
  }
  g_rt->release(code_ptr);
  c.n("interop_cc_cases")++;
  c.sample(std::string("interop ") + what, 8);
}

// one interop case: dir 0 = asmjit caller -> C callee, dir 1 = C caller -> asmjit callee (both hand-placed from FuncDetail);
// dir 2 = x86::Compiler invoke() -> C callee, dir 3 = C caller -> x86::Compiler function
static void interop_case(int k, int ic, int dir, ILib& lib, bool avx512) {
  vh::Ctx& c = vh::ctx();
  IS s; parse_isig(kInteropSigs[k], s);
  if (!ic_applicable(ic, s, avx512)) return;
  const char* dname = dir == 0 ? "call" : dir == 1 ? "callee" : dir == 2 ? "cc-invoke" : dir == 3 ? "cc-func" : "cc-invoke-byref-gp";
  std::string rp = std::string("harness=c06_abi\ninterop sig=") + std::to_string(k) + " conv=" + ic_name(ic) + " dir=" + dname + " spec=" + kInteropSigs[k] + "\n";
  vh::set_case(rp);
  Environment env = ic == IC_SYSV ? Environment(Arch::kX64, SubArch::kUnknown, Vendor::kUnknown, Platform::kLinux, PlatformABI::kGNU)
                                  : Environment(Arch::kX64, SubArch::kUnknown, Vendor::kUnknown, Platform::kWindows, PlatformABI::kMSVC);
  FuncSignature sig(ic == IC_VECTORCALL ? CallConvId::kVectorCall : CallConvId::kCDecl);
  sig.set_ret(kT[s.ret].id);
  for (int i = 0; i < s.n; i++) sig.add_arg(kT[s.args[i]].id);
  FuncDetail fd;
  c.n("evaluations")++; c.n("distinct_nontrivial")++; c.n("interop_cases")++;
  std::string keyb = std::string("abi:x64:") + ic_name(ic) + ":interop-" + dname;
  std::string what = std::string("signature ") + kInteropSigs[k] + ", " + ic_name(ic) + ", " + (dir == 0 ? "asmjit-generated caller -> clang-compiled callee" : dir == 1 ? "clang-compiled caller -> asmjit-generated callee" : dir == 2 ? "x86::Compiler invoke() -> clang-compiled callee" : dir == 3 ? "clang-compiled caller -> x86::Compiler function" : "x86::Compiler invoke() with by-reference arguments given as pointers -> clang-compiled callee");
  if (fd.init(sig, env) != Error::kOk) { c.violation(keyb + ":init-error", "FuncDetail::init() fails :: " + what, rp); return; }
  char sym[64]; snprintf(sym, sizeof sym, "%s_%s_%d", (dir & 1) == 0 ? "cs" : "cl", ic_name(ic), k);
  void* fn = dlsym(lib.h, sym);
  if (!fn) { fprintf(stderr, "missing symbol %s\n", sym); exit(2); }
  std::string why;
  if (dir >= 2) { interop_cc_case(ic, dir, s, fd, fn, lib, keyb, what, rp); return; }
  const uint8_t* got_args; int tag0; const uint8_t* got_ret; int rtag;
  if ((dir & 1) == 0) {
    void (*thunk)(void) = nullptr;
    if (!gen_caller(fd, s, fn, &thunk, why)) { c.violation(keyb + ":unplaceable", "cannot place the arguments as FuncDetail says (" + why + ") :: " + what, rp); return; }
    memset(lib.cap, 0xDD, 33 * 64); memset(g_retbuf, 0xDD, sizeof g_retbuf);
    int sig = sigsetjmp(g_jb, 1);
    if (sig == 0) { g_in_call = 1; thunk(); g_in_call = 0; }
    g_rt->release(thunk);
    if (sig != 0) { c.violation(keyb + ":crash", "the clang-compiled callee faults (signal " + std::to_string(sig) + ") on the arguments placed as FuncDetail says (it dereferences as a by-reference pointer a slot that holds something else) :: " + what, rp); return; }
    got_args = lib.cap; tag0 = 0; got_ret = g_retbuf; rtag = 32;
  }
  else {
    void* callee = nullptr;
    if (!gen_callee(fd, s, &callee, why)) { c.violation(keyb + ":unplaceable", "cannot read the arguments from where FuncDetail says (" + why + ") :: " + what, rp); return; }
    memset(g_capbuf, 0xDD, sizeof g_capbuf); memset(g_retbuf, 0xDD, sizeof g_retbuf);
    lib.par->fn = callee; lib.par->ret = g_retbuf;
    int sig = sigsetjmp(g_jb, 1);
    if (sig == 0) { g_in_call = 1; if (ic == IC_SYSV) ((void (*)(void))fn)(); else g_win_trampoline(fn); g_in_call = 0; }
    g_rt->release(callee);
    if (sig != 0) { c.violation(keyb + ":crash", "the asmjit-generated callee faults (signal " + std::to_string(sig) + ") reading its arguments from where FuncDetail says :: " + what, rp); return; }
    got_args = g_capbuf; tag0 = 33; got_ret = g_retbuf; rtag = 65;
  }
  for (int i = 0; i < s.n; i++) {
    int n = cmp_size(s.args[i]);
    if (memcmp(got_args + 64 * i, g_tags[tag0 + i], size_t(n)) != 0) {
      Loc l = actual_of(fd.arg(size_t(i)));
      c.violation(keyb + ":" + cls_key(s.args[i], 64), std::string("argument ") + std::to_string(i) + " (" + tname(s.args[i]) + ", FuncDetail: " + l.str() + ") arrives as " +
                  describe_bytes(got_args + 64 * i, n, tag0) + " instead of its tagged value " + hexn(g_tags[tag0 + i], std::min(n, 16)) + " :: " + what, rp);
      return;
    }
  }
  int n = cmp_size(s.ret);
  if (memcmp(got_ret, g_tags[rtag], size_t(n)) != 0) {
    Loc l = actual_of(fd.ret(0));
    c.violation(keyb + "-ret:" + cls_key(s.ret, 64), std::string("return value (") + tname(s.ret) + ", FuncDetail: " + l.str() + ") does not arrive: expected the tagged value " + hexn(g_tags[rtag], std::min(n, 16)) + " :: " + what, rp);
    return;
  }
  c.sample(std::string("interop ") + what, 8);
}

static int interop_main(bool avx512) {
  vh::Ctx& c = vh::ctx();
  static JitRuntime rt; g_rt = &rt;
  memset(g_poison, 0xEE, sizeof g_poison);
  if (!CpuInfo::host().has_feature(CpuFeatures::X86::kAVX) || (avx512 && !CpuInfo::host().has_feature(CpuFeatures::X86::kAVX512_F))) { fprintf(stderr, "host lacks the ISA the interop libraries were built for\n"); return 2; }
  ILib libs[2];
  if (!open_lib(c.opt("lib-sysv"), libs[0]) || !open_lib(c.opt("lib-win"), libs[1])) return 2;
  if (!gen_trampoline() || !gen_align_trampoline()) return 2;
  for (int sg : {SIGSEGV, SIGBUS, SIGILL, SIGFPE}) signal(sg, on_fault);
  if (c.replaying()) {
    int k = -1; char conv[32] = "", dir[32] = "";
    size_t p = c.replay_text.find("interop sig=");
    if (p == std::string::npos || sscanf(c.replay_text.c_str() + p, "interop sig=%d conv=%31s dir=%31s", &k, conv, dir) != 3 || k < 0 || k >= kNumInteropSigs) { fprintf(stderr, "bad interop replay\n"); return 2; }
    int ic = !strcmp(conv, "sysv") ? IC_SYSV : !strcmp(conv, "win64") ? IC_WIN64 : IC_VECTORCALL;
    interop_case(k, ic, !strcmp(dir, "call") ? 0 : !strcmp(dir, "callee") ? 1 : !strcmp(dir, "cc-invoke") ? 2 : !strcmp(dir, "cc-func") ? 3 : 4, libs[ic == IC_SYSV ? 0 : 1], avx512);
    return vh::finish();
  }
  long long idx = 0;
  for (int k = 0; k < kNumInteropSigs; k++) for (int ic = 0; ic < IC_COUNT; ic++) for (int dir = 0; dir < 5; dir++) {
    if (!c.mine(idx++)) continue;
    interop_case(k, ic, dir, libs[ic == IC_SYSV ? 0 : 1], avx512);
  }
  c.n("traces") = c.n("evaluations"); c.n("states") = c.n("evaluations"); c.n("transitions") = c.n("evaluations");
  c.strs["bound_interop"] = std::to_string(kNumInteropSigs) + " fixed signatures x {System V (native clang), Win64, __vectorcall (clang --target=x86_64-pc-windows-msvc)} x {asmjit caller -> C callee, C caller -> asmjit callee (hand-placed from FuncDetail), x86::Compiler invoke() -> C callee (by-reference arguments as values and as pointers), C caller -> x86::Compiler function; each at the four 16-byte stack alignments mod 64}, executed on the host";
  return vh::finish();
}

int main(int argc, char** argv) {
  vh::parse_args(argc, argv);
  vh::Ctx& c = vh::ctx();
  build_targets();
  g_dump = c.opts.count("dump") != 0;
  std::string part = c.opt("part", "sweep");
  build_tags();
  bool avx512 = c.opt("isa", "avx") == "avx512";
  if (c.opts.count("emit-c")) return emit_c(c.opt("emit-c") == "win" ? 1 : 0, avx512, c.opt("c-out"));
  if (part == "interop" || (c.replaying() && c.replay_text.find("interop sig=") != std::string::npos)) return interop_main(avx512);
  if (c.replaying()) {
    Case cs;
    if (c.replay_text.find("\ncase ") != std::string::npos || c.replay_text.rfind("case ", 0) == 0) {
      if (!parse_case(c.replay_text, cs)) { fprintf(stderr, "cannot parse replay case\n"); return 2; }
      vh::set_case(replay_of(cs));
      if (!eval_case(cs)) report(cs);
      return vh::finish();
    }
    fprintf(stderr, "unknown replay text\n"); return 2;
  }
  if (part == "sweep") sweep();
  c.strs["rule"] = "every (target, calling convention id, signature, first-variadic index, return type): FuncDetail::init() on the real library vs. a reference ABI classifier "
                   "(argument/return locations, by-reference, stack offsets, arg_stack_size, callee-pops, red/spill zone, preserved sets, alignment; return types: all for signatures of length <= 1, rotating otherwise); "
                   "a sub-bound repeated under ASan+UBSan; 46 fixed signatures executed against clang-compiled C on the x86-64 host (System V, Win64, __vectorcall; both call directions); "
                   "type alphabet x86 {i64,u64,iptr,i8,u8,i16,u16,i32,u32,f32,f64,f80,mmx64,v128i,v128f,v256,v512,mask8,mask16,mask32,mask64}, AArch64 {9 ints,f32,f64,v64,v128i,v128f}; "
                   "targets x86-linux, x86-win, x64-linux, x64-win, a64-linux, a64-macos, a64-ios, a64-win; every case is a distinct input";
  return vh::finish();
}
