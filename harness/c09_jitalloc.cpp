// C09 - JitAllocator bookkeeping: BFS over operation histories on the real allocator (tiny blocks),
// reference model = list of live spans, invariants evaluated after every operation.
// jitallocator.cpp is compiled *into* this TU (the file in the repo, unchanged) so that the file-local
// block/pool classes are visible for the canonical state and for the bit-vector cross-check.
#include "xplor.h"
#include <asmjit/core.h>
#include <asmjit/core/jitallocator.cpp>
#include <algorithm>

using namespace asmjit;

struct Cfg {
  uint32_t options = 0;
  uint32_t granularity = 64;
  uint32_t block_size = 65536;
  uint32_t fill_pattern = 0;
  int max_live = 4;
  std::vector<int> ops;   // alphabet as raw op ids; empty = the standard alphabet (raw ops 0..33)
  std::vector<int> prefix; // raw ops applied to every fresh allocator before the history starts (search from a non-initial state)
  int raw(int i) const { return ops.empty() ? i : ops[i]; }
  std::string name() const {
    char b[96];
    if (block_size != 65536) snprintf(b, sizeof b, "opt=%#x,g=%u,b=%u", options, granularity, block_size);
    else snprintf(b, sizeof b, "opt=%#x,g=%u", options, granularity);
    std::string n = b;
    if (!prefix.empty()) { n += ",p="; for (size_t i = 0; i < prefix.size(); i++) n += (i ? "." : "") + std::to_string(prefix[i]); }
    return n;
  }
};

struct Live { JitAllocator::Span span; size_t requested; uint8_t tag; };

static const uint32_t kDual = 1, kMulti = 2, kFill = 4, kImm = 8, kNoPad = 0x10, kLarge = 0x20, kCustom = 0x10000000u;

struct BlockInfo { uint8_t* rx; uint8_t* rw; size_t size; int pool; uint32_t gran; JitAllocatorBlock* b; };

struct Sys {
  Cfg cfg;
  JitAllocator* alloc;
  std::vector<Live> live;          // kept sorted by (pool, block order, offset)
  std::vector<void*> stale;        // recently released rx pointers
  uint32_t G;                      // base granularity
  size_t B;                        // base block size
  bool env_skip = false;

  Sys(const Cfg& c) : cfg(c) {
    JitAllocator::CreateParams p;
    p.options = JitAllocatorOptions(c.options);
    p.granularity = c.granularity;
    p.block_size = c.block_size;
    p.fill_pattern = c.fill_pattern;
    alloc = new JitAllocator(&p);
    G = c.granularity; B = c.block_size;
    std::string why;
    for (int op : c.prefix) if (!apply_raw(op, why)) { fprintf(stderr, "c09: prefix op %d fails: %s\n", op, why.c_str()); prefix_failed = true; break; }
  }
  bool prefix_failed = false;
  ~Sys() { delete alloc; }
  Sys(const Sys&) = delete;

  JitAllocatorPrivateImpl* impl() const { return static_cast<JitAllocatorPrivateImpl*>(alloc->_impl); }
  uint32_t pattern() const { return (cfg.options & kCustom) ? cfg.fill_pattern : 0xCCCCCCCCu; }

  std::vector<BlockInfo> blocks() const {
    std::vector<BlockInfo> v;
    JitAllocatorPrivateImpl* im = impl();
    for (size_t p = 0; p < im->pool_count; p++)
      for (JitAllocatorBlock* b = im->pools[p].blocks.first(); b; b = b->next())
        v.push_back(BlockInfo{b->rx_ptr(), b->rw_ptr(), b->block_size(), (int)p, im->pools[p].granularity, b});
    return v;
  }
  int block_of(const std::vector<BlockInfo>& bs, const void* rx) const {
    for (size_t i = 0; i < bs.size(); i++) if ((uint8_t*)rx >= bs[i].rx && (uint8_t*)rx < bs[i].rx + bs[i].size) return (int)i;
    return -1;
  }
  void sort_live() {
    std::vector<BlockInfo> bs = blocks();
    std::stable_sort(live.begin(), live.end(), [&](const Live& a, const Live& b) {
      int ba = block_of(bs, a.span.rx()), bb = block_of(bs, b.span.rx());
      if (ba != bb) return ba < bb;
      return (uintptr_t)a.span.rx() < (uintptr_t)b.span.rx();
    });
  }

  // ---- op alphabet (fixed size; an op whose slot does not exist is a no-op and is merged away) ----
  // 0..7 alloc sizes, 8..11 release(i), 12..27 shrink(i, mode), 28..31 write+shrink(i), 32 reset soft, 33 reset hard,
  // 34..36 alloc sizes at the block-growth steps (the first block of a pool is 2*B, every further block doubles)
  static constexpr int kNumOps = 38;   // 37: alloc(3B/8) - larger than a B/4 hole, fits a hole merged with a shrunk tail
  static bool is_alloc(int op) { return op < 8 || op >= 34; }
  static int alloc_index(int op) { return op < 8 ? op : 8 + (op - 34); }
  int num_ops() const { return cfg.ops.empty() ? 34 : (int)cfg.ops.size(); }
  size_t alloc_size(int k) const {
    size_t pad = (cfg.options & kNoPad) ? 0 : G;
    switch (k) {
      case 0: return 1;
      case 1: return 2 * G;
      case 2: return B / 4;
      case 3: return B / 2;
      case 4: return B - pad;            // exactly fills a fresh base block
      case 5: return B;                  // needs a bigger block when padding is on
      case 6: return 0;                  // invalid
      case 8: return 2 * B - pad;        // exactly fills the first (doubled) block
      case 9: return 2 * B;              // equals the regular size of the first block: padding no longer fits
      case 10: return 4 * B;             // equals the regular size of the second block
      case 11: return 3 * B / 8;         // fits B/4 + B/8 (a hole merged with the tail a shrink gives back), not B/4
      default: return (size_t(1) << 32) + 100;   // too large; its low 32 bits alone would be a valid request
    }
  }
  std::string op_name(int i) const { return raw_name(cfg.raw(i)); }
  bool apply(int i, std::string& why) { return apply_raw(cfg.raw(i), why); }
  std::string raw_name(int op) const {
    char b[64];
    if (is_alloc(op)) snprintf(b, sizeof b, "alloc(%zu)", alloc_size(alloc_index(op)));
    else if (op < 12) snprintf(b, sizeof b, "release(#%d)", op - 8);
    else if (op < 28) { static const char* m[] = {"0", "1", "half", "same+1"}; snprintf(b, sizeof b, "shrink(#%d,%s)", (op - 12) / 4, m[(op - 12) % 4]); }
    else if (op < 32) snprintf(b, sizeof b, "write+shrink(#%d)", op - 28);
    else snprintf(b, sizeof b, op == 32 ? "reset(soft)" : "reset(hard)");
    return b;
  }

  static uint8_t tag_for(size_t seq) { return uint8_t(0x11 + (seq * 29) % 0x70); }
  size_t seq = 0;

  bool fail(std::string& why, const char* clause, const std::string& detail) { why = std::string(clause) + ": " + detail; return false; }

  // free-run (in bytes) available in any block of `pool` according to the *model*
  size_t model_largest_free(const std::vector<BlockInfo>& bs, int pool) const {
    size_t best = 0;
    for (auto& b : bs) {
      if (b.pool != pool) continue;
      size_t n = b.size / b.gran;
      std::vector<uint8_t> occ(n, 0);
      if (!(cfg.options & kNoPad)) occ[0] = 1;
      for (auto& l : live) {
        if ((uint8_t*)l.span.rx() < b.rx || (uint8_t*)l.span.rx() >= b.rx + b.size) continue;
        size_t s = ((uint8_t*)l.span.rx() - b.rx) / b.gran, e = ((uint8_t*)l.span.rx() - b.rx + l.span.size() + b.gran - 1) / b.gran;
        for (size_t i = s; i < e && i < n; i++) occ[i] = 1;
      }
      size_t run = 0;
      for (size_t i = 0; i < n; i++) { run = occ[i] ? 0 : run + 1; best = std::max(best, run * b.gran); }
    }
    return best;
  }

  bool apply_raw(int op, std::string& why) {
    if (env_skip) return true;
    JitAllocator& A = *alloc;
    if (is_alloc(op)) {
      if ((int)live.size() >= cfg.max_live) return true;
      size_t req = alloc_size(alloc_index(op));
      std::vector<BlockInfo> before = blocks();
      size_t reserved_before = A.statistics().reserved_size();
      size_t free_before[3] = {model_largest_free(before, 0), model_largest_free(before, 1), model_largest_free(before, 2)};
      JitAllocator::Span sp;
      Error err = A.alloc(Out(sp), req);
      if (req == 0 || req > 0x7FFFFFFFu) {
        if (err == Error::kOk) return fail(why, "alloc-invalid-accepted", "alloc(" + std::to_string(req) + ") succeeded");
        if (sp.rx() || sp.size()) return fail(why, "alloc-invalid-span", "failed alloc returned a non-empty span");
        return check_all(why);
      }
      if (err != Error::kOk) {
        if (before.empty() && (cfg.options & (kDual | kLarge))) { env_skip = true; return true; }   // kernel refuses this mapping kind
        return fail(why, "alloc-failed", "alloc(" + std::to_string(req) + ") failed with error " + std::to_string((int)err));
      }
      if (!sp.rx() || !sp.rw()) return fail(why, "alloc-null", "alloc returned null pointer");
      if ((uintptr_t)sp.rx() % G || (uintptr_t)sp.rw() % G) return fail(why, "alloc-misaligned", "span not aligned to granularity");
      if (sp.size() < req) return fail(why, "alloc-too-small", "span smaller than requested");
      std::vector<BlockInfo> after = blocks();
      int bi = block_of(after, sp.rx());
      if (bi < 0) return fail(why, "alloc-outside-block", "span does not start inside a block of the allocator");
      if ((uint8_t*)sp.rx() + sp.size() > after[bi].rx + after[bi].size) return fail(why, "alloc-outside-block", "span reaches beyond the end of its block");
      if ((uint8_t*)sp.rw() - after[bi].rw != (uint8_t*)sp.rx() - after[bi].rx) return fail(why, "alloc-rw-mismatch", "rw offset differs from rx offset");
      for (auto& l : live) {
        if (overlap(l.span.rx(), l.span.size(), sp.rx(), sp.size())) return fail(why, "alloc-overlap-rx", "new span overlaps a live span (rx view)");
        if (overlap(l.span.rw(), l.span.size(), sp.rw(), sp.size())) return fail(why, "alloc-overlap-rw", "new span overlaps a live span (rw view)");
      }
      // reuse: if the model had a free run of sufficient size in a block of the pool that served the request, no new memory may be reserved
      int pool = after[bi].pool;
      size_t need = (sp.size() + after[bi].gran - 1) / after[bi].gran * after[bi].gran;
      if (free_before[pool] >= need && A.statistics().reserved_size() > reserved_before)
        return fail(why, "no-reuse", "alloc(" + std::to_string(req) + ") reserved a new block although an existing block of the pool had " + std::to_string(free_before[pool]) + " free contiguous bytes");
      Live l; l.span = sp; l.requested = req; l.tag = tag_for(seq++);
      // fill through the public write API (rw view)
      std::vector<uint8_t> buf(sp.size(), l.tag);
      if (A.write(l.span, 0, buf.data(), buf.size()) != Error::kOk) return fail(why, "write-failed", "write of whole span failed");
      live.push_back(l);
      sort_live();
      return check_all(why);
    }
    if (op < 12) {
      size_t i = op - 8;
      if (i >= live.size()) return true;
      void* rx = live[i].span.rx();
      Error err = A.release(rx);
      if (err != Error::kOk) return fail(why, "release-failed", "release of a live span failed");
      freed.push_back({live[i].span.rx(), live[i].span.rw(), live[i].span.size()});
      stale.push_back(rx);
      live.erase(live.begin() + i);
      return check_all(why);
    }
    if (op < 28) {
      size_t i = (op - 12) / 4; int mode = (op - 12) % 4;
      if (i >= live.size()) return true;
      Live& l = live[i];
      size_t old = l.span.size();
      size_t ns = mode == 0 ? 0 : mode == 1 ? 1 : mode == 2 ? old / 2 : old + 1;
      JitAllocator::Span sp = l.span;
      Error err = A.shrink(sp, ns);
      if (mode == 3) {
        if (err == Error::kOk) return fail(why, "shrink-grow-accepted", "shrink to a larger size succeeded");
        // a refused call must leave the caller's span as it was (write() trusts span.size())
        if (sp.size() != old || sp.rx() != l.span.rx() || sp.rw() != l.span.rw()) return fail(why, "shrink-refused-span-changed", "a refused shrink(" + std::to_string(ns) + ") changed the caller's span: size " + std::to_string(sp.size()) + " (was " + std::to_string(old) + ")");
        return check_all(why);
      }
      if (err != Error::kOk) return fail(why, "shrink-failed", "shrink(" + std::to_string(ns) + ") of a live span failed");
      if (mode == 0) {
        freed.push_back({l.span.rx(), l.span.rw(), old});
        stale.push_back(l.span.rx());
        live.erase(live.begin() + i);
        return check_all(why);
      }
      if (sp.rx() != l.span.rx() || sp.rw() != l.span.rw()) return fail(why, "shrink-moved", "shrink moved the span");
      if (sp.size() < ns || sp.size() > old || sp.size() % G) return fail(why, "shrink-size", "span size after shrink(" + std::to_string(ns) + ") is " + std::to_string(sp.size()) + " (was " + std::to_string(old) + ")");
      if (sp.size() < old) freed.push_back({(uint8_t*)sp.rx() + sp.size(), (uint8_t*)sp.rw() + sp.size(), old - sp.size()});
      l.span = sp;
      return check_all(why);
    }
    if (op < 32) {
      size_t i = op - 28;
      if (i >= live.size()) return true;
      Live& l = live[i];
      size_t old = l.span.size();
      size_t ns = std::max<size_t>(G, old / 2 / G * G);
      uint8_t ntag = tag_for(seq++);
      JitAllocator::Span sp = l.span;
      Error err = A.write(sp, [&](JitAllocator::Span& s) noexcept -> Error {
        memset(s.rw(), ntag, s.size());
        s.shrink(ns);
        return Error::kOk;
      });
      if (err != Error::kOk) return fail(why, "write-shrink-failed", "write with shrink inside failed");
      if (sp.rx() != l.span.rx() || sp.size() < ns || sp.size() > old || sp.size() % G) return fail(why, "write-shrink-size", "span after write+shrink(" + std::to_string(ns) + ") has size " + std::to_string(sp.size()));
      if (sp.size() < old) freed.push_back({(uint8_t*)sp.rx() + sp.size(), (uint8_t*)sp.rw() + sp.size(), old - sp.size()});
      l.span = sp; l.tag = ntag;
      return check_all(why);
    }
    {
      for (auto& l : live) stale.push_back(l.span.rx());
      live.clear();
      freed.clear();
      A.reset(op == 32 ? ResetPolicy::kSoft : ResetPolicy::kHard);
      after_reset = op == 32 ? 1 : 2;
      bool ok = check_all(why);
      after_reset = 0;
      return ok;
    }
  }

  struct Freed { void* rx; void* rw; size_t size; };
  std::vector<Freed> freed;   // ranges released/shrunk away by the last op (fill pattern check)
  int after_reset = 0;

  static bool overlap(const void* a, size_t an, const void* b, size_t bn) {
    uintptr_t a0 = (uintptr_t)a, b0 = (uintptr_t)b;
    return a0 < b0 + bn && b0 < a0 + an;
  }

  bool check_all(std::string& why) {
    JitAllocator& A = *alloc;
    std::vector<BlockInfo> bs = blocks();
    if (!A.is_initialized()) return fail(why, "not-initialized", "is_initialized() returns false for a working allocator");
    // blocks pairwise disjoint
    for (size_t i = 0; i < bs.size(); i++) for (size_t j = i + 1; j < bs.size(); j++)
      if (overlap(bs[i].rx, bs[i].size, bs[j].rx, bs[j].size) || overlap(bs[i].rw, bs[i].size, bs[j].rw, bs[j].size)) return fail(why, "blocks-overlap", "two blocks overlap");
    // live spans
    size_t live_bytes = 0;
    for (size_t i = 0; i < live.size(); i++) {
      const Live& l = live[i];
      live_bytes += l.span.size();
      int bi = block_of(bs, l.span.rx());
      if (bi < 0) return fail(why, "live-lost-block", "a live span is no longer inside any block");
      for (size_t j = i + 1; j < live.size(); j++) {
        if (overlap(l.span.rx(), l.span.size(), live[j].span.rx(), live[j].span.size())) return fail(why, "live-overlap-rx", "two live spans overlap (rx)");
        if (overlap(l.span.rw(), l.span.size(), live[j].span.rw(), live[j].span.size())) return fail(why, "live-overlap-rw", "two live spans overlap (rw)");
      }
      const uint8_t* prx = (const uint8_t*)l.span.rx(); const uint8_t* prw = (const uint8_t*)l.span.rw();
      for (size_t k = 0; k < l.span.size(); k++) {
        if (prx[k] != l.tag) return fail(why, "content-lost", "live span #" + std::to_string(i) + " lost its contents at byte " + std::to_string(k) + " (rx view)");
        if (prw[k] != l.tag) return fail(why, "content-lost-rw", "live span #" + std::to_string(i) + " differs at byte " + std::to_string(k) + " through the rw view (views do not alias)");
      }
      // queries: start and a middle granule
      void* qs[2] = {l.span.rx(), (uint8_t*)l.span.rx() + (l.span.size() / 2 / G * G)};
      for (int q = 0; q < 2; q++) {
        JitAllocator::Span out;
        Error e = A.query(Out(out), qs[q]);
        // the statement asks for the live span containing the pointer; the implementation documents start pointers only,
        // so only the start pointer is asserted, a middle pointer may fail but must not name a different span
        if (q == 0 && e != Error::kOk) return fail(why, "query-live-failed", "query(start of live span) failed");
        if (e == Error::kOk && q == 0 && (out.rx() != l.span.rx() || out.rw() != l.span.rw() || out.size() != l.span.size()))
          return fail(why, "query-wrong-span", "query(start) returned rx/rw/size different from the live span (size " + std::to_string(out.size()) + " vs " + std::to_string(l.span.size()) + ")");
        if (e == Error::kOk && q == 1 && qs[1] != qs[0]) {
          // must designate memory inside this live span only
          if (!((uint8_t*)out.rx() >= (uint8_t*)l.span.rx() && (uint8_t*)out.rx() + out.size() <= (uint8_t*)l.span.rx() + l.span.size()))
            return fail(why, "query-mid-wrong", "query(middle of live span) returned a span reaching outside the live span");
        }
      }
    }
    // negative queries / releases
    {
      int local = 0;
      std::vector<std::pair<void*, const char*>> neg = {{nullptr, "null"}, {&local, "foreign"}};
      for (void* s : stale) { bool covered = false; for (auto& l : live) if (overlap(l.span.rx(), l.span.size(), s, 1)) covered = true; if (!covered) neg.push_back({s, "released"}); }
      if (!(cfg.options & kNoPad)) for (auto& b : bs) neg.push_back({b.rx, "padding"});   // initial padding granule
      for (auto& b : bs) {                                                   // first byte after the last live span of the block, if free
        uint8_t* p = b.rx + ((cfg.options & kNoPad) ? 0 : b.gran);
        for (auto& l : live) if ((uint8_t*)l.span.rx() >= b.rx && (uint8_t*)l.span.rx() < b.rx + b.size) p = std::max(p, (uint8_t*)l.span.rx() + l.span.size());
        if (p < b.rx + b.size) neg.push_back({p, "free"});
      }
      for (auto& pr : neg) {
        JitAllocator::Span out;
        if (A.query(Out(out), pr.first) == Error::kOk) return fail(why, (std::string("query-") + pr.second + "-accepted").c_str(), std::string("query succeeded for a pointer that is not in a live span (") + pr.second + " pointer)");
      }
      JitAllocator::Statistics s0 = A.statistics();
      if (A.release(nullptr) == Error::kOk) return fail(why, "release-null-accepted", "release(nullptr) succeeded");
      if (A.release(&local) == Error::kOk) return fail(why, "release-foreign-accepted", "release(foreign pointer) succeeded");
      JitAllocator::Statistics s1 = A.statistics();
      if (s0.used_size() != s1.used_size() || s0.allocation_count() != s1.allocation_count() || s0.reserved_size() != s1.reserved_size()) return fail(why, "release-foreign-changed", "rejected release changed the statistics");
    }
    // statistics
    {
      JitAllocator::Statistics st = A.statistics();
      size_t reserved = 0, pad = 0;
      for (auto& b : bs) { reserved += b.size; if (!(cfg.options & kNoPad)) pad += b.gran; }
      if (st.allocation_count() != live.size()) return fail(why, "stats-allocation-count", "allocation_count()=" + std::to_string(st.allocation_count()) + " but " + std::to_string(live.size()) + " spans are live" + (after_reset ? " (after reset)" : ""));
      if (st.reserved_size() != reserved) return fail(why, "stats-reserved", "reserved_size()=" + std::to_string(st.reserved_size()) + " but blocks sum to " + std::to_string(reserved));
      if (st.block_count() != bs.size()) return fail(why, "stats-block-count", "block_count mismatch");
      size_t live_pool_bytes = 0;   // spans are accounted in units of their pool's granularity
      for (auto& l : live) { int bi = block_of(bs, l.span.rx()); live_pool_bytes += (l.span.size() + bs[bi].gran - 1) / bs[bi].gran * bs[bi].gran; }
      if (st.used_size() != live_pool_bytes + pad) return fail(why, "stats-used", "used_size()=" + std::to_string(st.used_size()) + " but live spans sum to " + std::to_string(live_pool_bytes) + " + initial padding " + std::to_string(pad));
    }
    // retained empty blocks <= policy (one per pool, none with immediate release)
    {
      JitAllocatorPrivateImpl* im = impl();
      for (size_t p = 0; p < im->pool_count; p++) {
        int empty = 0;
        for (auto& b : bs) { if (b.pool != (int)p) continue; bool has = false; for (auto& l : live) if (block_of(bs, l.span.rx()) >= 0 && bs[block_of(bs, l.span.rx())].b == b.b) has = true; if (!has) empty++; }
        int allowed = (cfg.options & kImm) ? 0 : 1;
        if (after_reset == 2) allowed = 0;
        if (empty > allowed) return fail(why, "empty-blocks-retained", std::to_string(empty) + " empty blocks retained in a pool, policy allows " + std::to_string(allowed) + (after_reset ? " (after reset)" : ""));
      }
    }
    // fill pattern on memory released / shrunk away by the last operation, and on all of a wiped block after soft reset
    if (cfg.options & kFill) {
      uint32_t pat = pattern();
      auto is_pat = [&](const uint8_t* p, size_t n, size_t& bad) { for (size_t k = 0; k < n; k++) { uint8_t e = uint8_t(pat >> (8 * ((uintptr_t)(p + k) & 3))); if (p[k] != e) { bad = k; return false; } } return true; };
      for (auto& f : freed) {
        if (block_of(bs, f.rx) < 0) continue;   // block was unmapped
        bool reused = false; for (auto& l : live) if (overlap(l.span.rx(), l.span.size(), f.rx, f.size)) reused = true;
        if (reused) continue;
        size_t bad;
        if (!is_pat((const uint8_t*)f.rx, f.size, bad)) return fail(why, "fill-missing", "released/shrunk-away memory does not carry the fill pattern at byte " + std::to_string(bad) + " of the freed range");
      }
      if (after_reset == 1) for (auto& b : bs) { size_t bad; if (!is_pat(b.rx, b.size, bad)) return fail(why, "fill-missing-after-reset", "block kept by reset(soft) does not carry the fill pattern at byte " + std::to_string(bad)); }
    }
    freed.clear();
    // internal cross-check: used/stop bit vectors and counters agree with the model
    for (auto& b : bs) {
      size_t n = b.b->area_size();
      std::vector<uint8_t> occ(n, 0), stop(n, 0);
      if (!(cfg.options & kNoPad)) { occ[0] = 1; stop[0] = 1; }
      for (auto& l : live) {
        if ((uint8_t*)l.span.rx() < b.rx || (uint8_t*)l.span.rx() >= b.rx + b.size) continue;
        size_t s = ((uint8_t*)l.span.rx() - b.rx) / b.gran, e = ((uint8_t*)l.span.rx() - b.rx + l.span.size() + b.gran - 1) / b.gran;
        for (size_t i = s; i < e && i < n; i++) occ[i] = 1;
        if (e - 1 < n) stop[e - 1] = 1;
      }
      size_t pop = 0;
      for (size_t i = 0; i < n; i++) {
        bool u = Support::bit_vector_get_bit(b.b->_used_bit_vector, i);
        pop += u;
        if (u != (bool)occ[i]) return fail(why, "internal-used-bits", "used bit " + std::to_string(i) + " disagrees with the live spans");
        if (occ[i] && stop[i] && !Support::bit_vector_get_bit(b.b->_stop_bit_vector, i)) return fail(why, "internal-stop-bits", "stop bit missing at end of a live span");
      }
      if (b.b->area_used() != pop) return fail(why, "internal-area-used", "area_used differs from popcount of used bits");
    }
    return true;
  }

  std::string canon() {
    if (env_skip) return "ENVSKIP";
    JitAllocatorPrivateImpl* im = impl();
    std::string s = "n" + std::to_string(im->allocation_count) + "|";
    for (size_t p = 0; p < im->pool_count; p++) {
      JitAllocatorPool& pool = im->pools[p];
      s += "P" + std::to_string(p) + "e" + std::to_string(pool.empty_block_count) + "c";
      int idx = 0, cur = -1;
      for (JitAllocatorBlock* b = pool.blocks.first(); b; b = b->next(), idx++) if (b == pool.cursor) cur = idx;
      s += std::to_string(cur) + ":";
      for (JitAllocatorBlock* b = pool.blocks.first(); b; b = b->next()) {
        size_t words = pool.bit_word_count_from_area_size(b->area_size());
        s += "[" + std::to_string(b->block_size()) + "f" + std::to_string(b->_flags) + "s" + std::to_string(b->_search_start) + "e" + std::to_string(b->_search_end) +
             "l" + std::to_string(b->_largest_unused_area) + "u";
        // run-length encode the used and stop vectors
        auto rle = [&](Support::BitWord* v) { std::string o; size_t n = b->area_size(); size_t i = 0; while (i < n) { bool bit = Support::bit_vector_get_bit(v, i); size_t j = i; while (j < n && Support::bit_vector_get_bit(v, j) == bit) j++; o += (bit ? "1x" : "0x") + std::to_string(j - i) + ","; i = j; } return o; };
        (void)words;
        s += rle(b->_used_bit_vector) + "t" + rle(b->_stop_bit_vector) + "]";
      }
    }
    // live spans (sorted) with their tags do not add information beyond the bit vectors except the span <-> slot mapping, which is positional
    s += "|L" + std::to_string(live.size());
    return s;
  }
};

static std::vector<Cfg> configs(bool thorough) {
  std::vector<Cfg> v;
  auto mk = [&](uint32_t opt, uint32_t g) { Cfg c; c.options = opt; c.granularity = g; c.fill_pattern = 0xA1B2C3D4u; v.push_back(c); };
  if (!thorough) {
    mk(0, 64); mk(kFill | kMulti, 64); mk(kImm | kNoPad, 256); mk(kDual | kFill | kCustom, 128);
  } else {
    const uint32_t bits[6] = {kDual, kMulti, kFill, kImm, kNoPad, kCustom};
    for (uint32_t g : {64u, 128u, 256u})
      for (int m = 0; m < 64; m++) { uint32_t o = 0; for (int i = 0; i < 6; i++) if (m & (1 << i)) o |= bits[i]; mk(o, g); }
    mk(kLarge, 64); mk(kLarge | kFill, 256);
  }
  return v;
}

int main(int argc, char** argv) {
  vh::parse_args(argc, argv);
  vh::Ctx& c = vh::ctx();
  (void)VirtMem::info();
  if (c.replaying()) {
    Cfg cfg; std::vector<int> h;
    for (auto& line : vh::split(c.replay_text, '\n')) {
      if (line.rfind("cfg=", 0) == 0) sscanf(line.c_str(), "cfg=%x,%u,%d,%u", &cfg.options, &cfg.granularity, &cfg.max_live, &cfg.block_size);
      if (line.rfind("ops=", 0) == 0) for (auto& x : vh::split(line.substr(4), ',')) if (!x.empty()) h.push_back(atoi(x.c_str()));
    }
    cfg.fill_pattern = 0xA1B2C3D4u;
    Sys s(cfg); std::string why, names;
    for (int op : h) {
      names += s.raw_name(op) + ";";
      bool ok = s.apply_raw(op, why);
      if (getenv("C09_TRACE")) {
        std::vector<BlockInfo> bs = s.blocks();
        fprintf(stderr, "%-22s blocks=%zu reserved=%zu |", s.raw_name(op).c_str(), bs.size(), (size_t)s.alloc->statistics().reserved_size());
        for (auto& l : s.live) { int bi = s.block_of(bs, l.span.rx()); fprintf(stderr, " b%d+%zu:%zu", bi, bi >= 0 ? size_t((uint8_t*)l.span.rx() - bs[bi].rx) : 0, l.span.size()); }
        fprintf(stderr, "\n");
      }
      if (!ok) { c.violation("replay", why + " after " + names, c.replay_text); break; }
    }
    return vh::finish();
  }
  // work plan: list of (configuration, depth, root split R); every unit (cfg, root shard) is one BFS
  struct Phase { std::vector<Cfg> cfgs; int depth; int R; };
  std::vector<Phase> phases;
  if (!c.opt("depth").empty()) phases.push_back(Phase{configs(false), atoi(c.opt("depth").c_str()), 4});
  std::vector<Cfg> q = configs(false);
  { Cfg x; x.fill_pattern = 0xA1B2C3D4u; x.options = kMulti | kImm; x.granularity = 128; q.push_back(x); x.options = kFill | kNoPad | kDual; x.granularity = 64; q.push_back(x);
      x.options = kMulti | kFill | kCustom | kNoPad; x.granularity = 256; q.push_back(x); x.options = kImm; x.granularity = 64; q.push_back(x); }
  if (!c.opt("depth").empty()) {}
  else if (!c.thorough()) {
    phases.push_back(Phase{q, 4, 1});                                   // 8 configurations to depth 4
    std::vector<Cfg> d5; d5.push_back(q[0]); d5.push_back(q[1]);
    phases.push_back(Phase{d5, 5, 16});                                 // 2 configurations to depth 5
  }
  else {
    phases.push_back(Phase{configs(true), 4, 1});
    phases.push_back(Phase{q, 5, 4});
    std::vector<Cfg> d6; d6.push_back(configs(false)[0]); d6.push_back(configs(false)[1]);
    phases.push_back(Phase{d6, 6, 16});
  }
  {
    // growth phase: requests at the block-size steps (2B-pad, 2B, 4B) with small companions, releases and resets:
    // "the block that is created for a request can hold it, with and without the initial padding"
    std::vector<Cfg> g;
    for (uint32_t opt : {0u, (uint32_t)kNoPad, (uint32_t)(kMulti | kFill), (uint32_t)kImm}) {
      Cfg x; x.fill_pattern = 0xA1B2C3D4u; x.options = opt; x.granularity = 64; x.ops = {0, 3, 4, 5, 34, 35, 36, 8, 9, 12 + 2, 32, 33}; g.push_back(x);
      if (opt == 0u || opt == (uint32_t)(kMulti | kFill)) { Cfg y = x; y.block_size = 131072; g.push_back(y); }   // another base block size
      if (!c.thorough()) continue;
      x.granularity = 256; g.push_back(x);
    }
    if (c.opt("depth").empty()) phases.push_back(Phase{g, c.thorough() ? 5 : 4, 1});
  }
  {
    // search from non-initial states: a block that was filled exactly (B/2 + B/2 + (B-pad) in the doubled first block), and a
    // pool that has already grown to two blocks; standard alphabet
    std::vector<Cfg> g;
    for (uint32_t opt : {0u, (uint32_t)(kFill | kMulti)}) {
      Cfg x; x.fill_pattern = 0xA1B2C3D4u; x.options = opt; x.granularity = 64;
      x.prefix = {3, 3, 4}; g.push_back(x);          // alloc(B/2), alloc(B/2), alloc(B-pad): the first block is exactly full
      x.prefix = {3, 4, 3}; g.push_back(x);
      if (c.thorough()) { x.prefix = {4, 4, 5}; g.push_back(x); x.prefix = {2, 2, 3, 4}; x.max_live = 5; g.push_back(x); }
    }
    if (c.opt("depth").empty()) phases.push_back(Phase{g, c.thorough() ? 4 : 3, 1});
  }
  {
    // search from a state whose cached search window is stale-prone: block #1 full, two B/4 holes around a live span, a failed
    // scan for B/2 (caches "largest free = B/4", block clean) that opened block #2, block #2 filled exactly.  From here:
    // shrinks of the span between the holes, releases, and requests that only fit a hole merged with a shrunk tail.
    std::vector<Cfg> g;
    for (uint32_t opt : {0u, (uint32_t)kFill}) {
      Cfg x; x.fill_pattern = 0xA1B2C3D4u; x.options = opt; x.granularity = 64; x.max_live = 10;
      x.prefix = {4, 2, 2, 2, 2, 9, 10, 3, 4, 5, 5, 3};   // block #2 (4B) ends up exactly full: pad + B/2 + (B-pad) + B + B + B/2
      x.ops = {37, 2, 0, 8, 9, 10, 12 + 4 * 1 + 2, 12 + 4 * 1 + 1, 12 + 4 * 0 + 2, 12 + 4 * 2 + 2, 3};
      g.push_back(x);
    }
    if (c.opt("depth").empty()) phases.push_back(Phase{g, c.thorough() ? 4 : 3, 1});
  }
  const Cfg* cur_cfg = nullptr;
  xplor::case_formatter() = [&](const std::string& cfg_name, const std::vector<int>& h) {
    std::string ops;
    if (cur_cfg) for (int op : cur_cfg->prefix) ops += std::to_string(op) + ",";
    for (size_t i = 0; i < h.size(); i++) { if (i) ops += ","; ops += std::to_string(cur_cfg ? cur_cfg->raw(h[i]) : h[i]); }
    unsigned o = 0, g = 0, bs = 65536; sscanf(cfg_name.c_str(), "opt=%x,g=%u,b=%u", &o, &g, &bs);   // (a ",p=" suffix is not parsed: the prefix ops are part of ops=)
    char cf[64]; snprintf(cf, sizeof cf, "cfg=%x,%u,%d,%u", o, g, cur_cfg ? cur_cfg->max_live : 4, bs);
    return std::string("harness=c09_jitalloc\n") + cf + "\nops=" + ops + "\n";
  };
  int done_cfgs = 0;
  long long unit = 0;
  std::string bound;
  for (auto& ph : phases) {
    bound += std::to_string(ph.cfgs.size()) + " configurations to depth " + std::to_string(ph.depth) + (ph.cfgs[0].ops.empty() ? "" : " over the block-growth alphabet") + (ph.cfgs[0].prefix.empty() ? "" : " from non-initial states (exactly filled block)") + "; ";
    for (size_t ui = 0; ui < ph.cfgs.size() * ph.R; ui++) {
      if (!c.mine(unit++)) continue;
      if (c.out_of_time()) break;
      Cfg cfg = ph.cfgs[ui / ph.R]; int ri = int(ui % ph.R);
      cur_cfg = &cfg;
      auto onv = [&](const std::vector<int>& h, const std::string& names, const std::string& why) {
        std::string clause = why.substr(0, why.find(':'));
        c.violation("jitalloc:" + clause, why + " :: " + cfg.name() + " history " + names, xplor::case_formatter()(cfg.name(), h) + "# " + names + "\n");
      };
      xplor::BfsStats st = xplor::bfs_histories<Sys, Cfg>(cfg, ph.depth, cfg.name(), onv, -1, ri, ph.R);
      c.n("states") += st.states; c.n("transitions") += st.transitions; c.n("traces") += st.transitions;
      c.n("evaluations") += st.transitions; c.n("distinct_nontrivial") += st.states; c.n("replays") += st.replays;
      c.n("bfs_units") += 1;
      if (st.depth_completed >= ph.depth) done_cfgs++;
      c.outcomes.insert(cfg.name() + ":" + std::to_string(st.states));
    }
  }
  c.n("bfs_units_completed_to_depth") += done_cfgs;
  c.strs["bound"] = bound + "<=4 live spans";
  c.strs["rule"] = "BFS over histories of {alloc(1,2g,B/4,B/2,B-pad,B,0,2^32+100; growth phase: 1,B/2,B-pad,B,2B-pad,2B,4B), release(#i), shrink(#i,{0,1,half,larger}), write+shrink(#i), reset(soft|hard)} on a real "
                   "JitAllocator with 64 KiB blocks; a state is distinct when its canonical form (per pool: block list with flags, search window, largest-unused cache, "
                   "used/stop bit vectors; cursor; empty count; allocation count) was not seen before; the oracle (span model, queries, statistics, fill pattern, "
                   "reuse, empty-block policy, bit-vector cross-check) runs after every transition";
  c.assumptions.push_back("block size 64 KiB (smallest legal; 128 KiB in two configurations of the block-growth phase), at most 4 live spans; large pages only as far as the kernel grants them");
  return vh::finish();
}
