// C10 - section layout and flattened image.  Enumerates section configurations (deviation bounded / full
// product) on a real CodeHolder and checks flatten / code_size / copy_flattened_data against the
// statement-level oracle (alignment, order, no overlap, exact image, guard bands, refusal of small dst).
#include "xplor.h"
#include <asmjit/core.h>
#include <asmjit/x86.h>
#include <algorithm>
#include <climits>

using namespace asmjit;

static const uint32_t kAlign[] = {16, 0, 1, 2, 64, 4096, 65536};
static const int32_t kOrder[] = {0, -1, 1, INT_MIN, INT_MAX, 7};
static const size_t kBuf[] = {7, 0, 1, 64};
static const int kVs[] = {0, 1, 2};  // 0: none, 1: buffer+5, 2: 70000 (virtual-size-only when buffer==0)
static const size_t kTextBuf[] = {3, 0, 64, 1};

struct SecCfg { uint32_t align; int32_t order; size_t buf; uint64_t vsize; };
struct Case {
  size_t text_buf;
  std::vector<SecCfg> secs;
  int addrtab;      // 0 none, 1 jmp abs reachable by rel32, 2 jmp abs that needs the table, 3: both
  bool dirty_arena;
  std::string str() const {
    std::string s = "text_buf=" + std::to_string(text_buf) + " addrtab=" + std::to_string(addrtab) + (dirty_arena ? " dirty" : "");
    for (auto& c : secs) s += " [a=" + std::to_string(c.align) + " o=" + std::to_string(c.order) + " b=" + std::to_string(c.buf) + " v=" + std::to_string(c.vsize) + "]";
    return s;
  }
};

static std::string g_why;
static std::string g_clause;
#define FAIL(clause, ...) do { char _b[400]; snprintf(_b, sizeof _b, __VA_ARGS__); g_why = _b; g_clause = clause; return false; } while (0)

struct SecView { uint64_t off, vsize, real; size_t buf; uint32_t align; int32_t order; uint32_t id; const uint8_t* data; };

static std::vector<SecView> view(CodeHolder& code) {
  std::vector<SecView> v;
  for (Section* s : code.sections()) v.push_back(SecView{s->offset(), s->virtual_size(), s->real_size(), s->buffer_size(), s->alignment(), s->order(), s->section_id(), s->data()});
  std::stable_sort(v.begin(), v.end(), [](const SecView& a, const SecView& b) { return a.order != b.order ? a.order < b.order : a.id < b.id; });
  return v;
}

static bool check_layout(CodeHolder& code, const std::vector<uint64_t>& real_before /* by id */) {
  std::vector<SecView> v = view(code);
  uint64_t end = 0;
  for (size_t i = 0; i < v.size(); i++) {
    uint64_t real = real_before[v[i].id];
    if (real && v[i].align > 1 && (v[i].off % v[i].align)) FAIL("align", "section %u offset %llu not aligned to %u", v[i].id, (unsigned long long)v[i].off, v[i].align);
    if (i && v[i].off < v[i - 1].off) FAIL("order", "section %u placed at %llu before its predecessor in order", v[i].id, (unsigned long long)v[i].off);
    if (!real) { end = std::max<uint64_t>(end, v[i].off); continue; }   // an empty section owns no bytes: it cannot overlap anything
    if (v[i].off < end) FAIL("overlap", "section %u at %llu overlaps/precedes end %llu of its predecessor in order", v[i].id, (unsigned long long)v[i].off, (unsigned long long)end);
    if (v[i].real < real) FAIL("shrunk", "section %u real size shrank from %llu to %llu in flatten", v[i].id, (unsigned long long)real, (unsigned long long)v[i].real);
    end = v[i].off + real;
  }
  uint64_t cs = code.code_size();
  if (cs != end) FAIL("codesize", "code_size()=%llu but last section ends at %llu", (unsigned long long)cs, (unsigned long long)end);
  return true;
}

// copy oracle for one (dst size, flags)
static bool check_copy(CodeHolder& code, size_t D, uint32_t flags, std::vector<uint8_t>& buf) {
  const size_t G = 64;
  std::vector<SecView> v = view(code);
  uint64_t cs = code.code_size();
  uint64_t need = 0;
  for (auto& s : v) if (s.buf) need = std::max<uint64_t>(need, s.off + s.buf);
  buf.assign(D + 2 * G, 0xA5);
  Error err = code.copy_flattened_data(buf.data() + G, D, CopySectionFlags(flags));
  for (size_t i = 0; i < G; i++) if (buf[i] != 0xA5 || buf[G + D + i] != 0xA5) FAIL("oob", "copy_flattened_data(dst_size=%zu, flags=%u) wrote outside the destination (guard byte %zu)", D, flags, i);
  if (D < need) {
    if (err == Error::kOk) FAIL("accept-small", "destination of %zu bytes accepted although section data needs %llu", D, (unsigned long long)need);
    return true;
  }
  if (D >= cs && err != Error::kOk) FAIL("refuse-big", "destination of %zu bytes refused although code_size() is %llu", D, (unsigned long long)cs);
  if (err != Error::kOk) return true;  // need <= D < code_size: either verdict allowed
  std::vector<uint8_t> kind(D, 0);     // 0 other, 1 data, 2 section padding
  for (auto& s : v) {
    for (size_t i = 0; i < s.buf; i++) {
      size_t p = size_t(s.off) + i;
      if (buf[G + p] != s.data[i]) FAIL("bytes", "byte %zu of section %u not copied to offset %zu (dst_size=%zu flags=%u)", i, s.id, p, D, flags);
      kind[p] = 1;
    }
  }
  for (auto& s : v) for (uint64_t p = s.off + s.buf; p < s.off + s.vsize && p < D; p++) if (!kind[p]) kind[p] = 2;
  for (size_t p = 0; p < D; p++) {
    if (kind[p] == 2 && (flags & 1) && buf[G + p] != 0) FAIL("pad-section", "section padding byte at %zu not zeroed with kPadSectionBuffer (dst_size=%zu)", p, D);
    if (p >= cs && (flags & 2) && buf[G + p] != 0) FAIL("pad-target", "target padding byte at %zu (>= code_size %llu) not zeroed with kPadTargetBuffer (dst_size=%zu)", p, (unsigned long long)cs, D);
    if (kind[p] != 1 && buf[G + p] != 0 && buf[G + p] != 0xA5) FAIL("garbage", "byte at %zu outside all section data is neither untouched nor zero (dst_size=%zu flags=%u)", p, D, flags);
  }
  return true;
}

static uint8_t g_static_arena[1 << 16];

static bool run_case(const Case& cs) {
  vh::Ctx& c = vh::ctx();
  Span<uint8_t> sp{};
  if (cs.dirty_arena) { memset(g_static_arena, 0xA5, sizeof g_static_arena); sp = Span<uint8_t>(g_static_arena, sizeof g_static_arena); }
  CodeHolder code(sp);
  Environment env(Arch::kX64);
  if (code.init(env) != Error::kOk) FAIL("init", "init failed");
  x86::Assembler a(&code);
  uint8_t pat[64];
  auto fill = [&](uint32_t id, size_t n) { for (size_t i = 0; i < n; i++) pat[i] = uint8_t(0x10 * (id + 1) + (i & 15)); if (n) a.embed(pat, n); };
  if (cs.addrtab & 1) a.jmp(Imm(0x20000));
  if (cs.addrtab & 2) a.call(Imm(0x7fff00000000ull));
  fill(0, cs.text_buf);
  std::vector<Section*> secs;
  for (size_t i = 0; i < cs.secs.size(); i++) {
    Section* s = nullptr;
    char name[8]; snprintf(name, sizeof name, "s%zu", i);
    Error e = code.new_section(Out(s), name, SIZE_MAX, SectionFlags::kNone, cs.secs[i].align, cs.secs[i].order);
    if (e != Error::kOk || !s) FAIL("new_section", "new_section failed for valid arguments (align=%u)", cs.secs[i].align);
    if (strcmp(s->name(), name) != 0) FAIL("name", "section name reads back as '%.40s' instead of '%s'", s->name(), name);
    if (code.section_by_name(name) != s) FAIL("name-lookup", "section_by_name('%s') does not return the section", name);
    a.section(s);
    fill(s->section_id(), cs.secs[i].buf);
    if (cs.secs[i].vsize) s->set_virtual_size(cs.secs[i].vsize);
    secs.push_back(s);
  }
  std::vector<uint64_t> real;
  for (Section* s : code.sections()) real.push_back(s->real_size());
  uint64_t est0 = code.code_size();
  // reference layout in 128-bit arithmetic: a layout whose running offset does not fit 64 bits cannot be represented
  bool ref_overflow = false;
  { unsigned __int128 off = 0; for (Section* s : code.sections_by_order()) { uint64_t al = s->alignment() ? s->alignment() : 1; off = (off + al - 1) / al * al; off += real[s->section_id()]; if (off > (unsigned __int128)UINT64_MAX) ref_overflow = true; } }
  Error fe = code.flatten();
  if (ref_overflow) {
    if (fe == Error::kOk) FAIL("flatten-overflow-accepted", "flatten() accepted a layout whose end does not fit 64 bits (code_size() before %llu, after %llu)", (unsigned long long)est0, (unsigned long long)code.code_size());
    c.outcomes.insert("flatten-too-large");
    return true;
  }
  if (fe != Error::kOk) FAIL("flatten", "flatten failed");
  if (!check_layout(code, real)) return false;
  if (code.code_size() != est0) FAIL("estimate", "code_size() before flatten %llu != after %llu", (unsigned long long)est0, (unsigned long long)code.code_size());
  std::vector<uint8_t> buf;
  // layouts beyond 16 MiB (sections with a huge virtual size): the layout is judged, the image is not materialised
  bool huge = code.code_size() > (uint64_t(1) << 24);
  auto copies = [&]() -> bool {
    if (huge) return true;
    uint64_t csz = code.code_size();
    uint64_t need = 0;
    for (Section* s : code.sections()) if (s->buffer_size()) need = std::max<uint64_t>(need, s->offset() + s->buffer_size());
    std::set<size_t> ds = {0, size_t(csz), size_t(csz + 1), size_t(csz + 64), size_t(need)};
    if (need) ds.insert(size_t(need - 1));
    if (csz) ds.insert(size_t(csz - 1));
    for (Section* s : code.sections()) { ds.insert(size_t(s->offset())); if (s->offset()) ds.insert(size_t(s->offset() - 1)); if (s->buffer_size() > 1) ds.insert(size_t(s->offset() + s->buffer_size() - 1)); }
    for (size_t D : ds) for (uint32_t fl = 0; fl < 4; fl++) { c.n("copies")++; if (!check_copy(code, D, fl, buf)) return false; }
    return true;
  };
  if (!copies()) return false;
  if (code.resolve_cross_section_fixups() != Error::kOk) FAIL("resolve", "resolve_cross_section_fixups failed");
  // relocation: the size estimated before is never smaller than the size after, and the image is still exact
  uint64_t before = code.code_size();
  CodeHolder::RelocationSummary sum{};
  Error re = code.relocate_to_base(0x10000, &sum);
  if (re == Error::kOk) {
    uint64_t after = code.code_size();
    if (after > before) FAIL("reloc-grow", "code_size() grew from %llu to %llu in relocate_to_base", (unsigned long long)before, (unsigned long long)after);
    if (before - after != sum.code_size_reduction) FAIL("reloc-summary", "code_size_reduction=%zu but code_size went %llu -> %llu", sum.code_size_reduction, (unsigned long long)before, (unsigned long long)after);
    std::vector<uint64_t> real2;
    for (Section* s : code.sections()) real2.push_back(std::min<uint64_t>(real[s->section_id()], s->real_size()));   // the address table may legitimately shrink
    if (!check_layout(code, real2)) return false;
    if (!copies()) return false;
    c.outcomes.insert("reloc-ok-red" + std::to_string(sum.code_size_reduction));
  } else {
    c.outcomes.insert("reloc-err");
    if (!cs.addrtab) FAIL("reloc", "relocate_to_base failed without relocations");
  }
  return true;
}

static Case draw(xplor::Chooser& ch, int n_extra, bool with_addrtab) {
  Case cs;
  cs.text_buf = kTextBuf[ch.choose(4)];
  cs.addrtab = with_addrtab ? 1 + ch.choose(3) : 0;
  cs.dirty_arena = false;
  for (int i = 0; i < n_extra; i++) {
    SecCfg s;
    s.align = kAlign[ch.choose(7)];
    s.order = kOrder[ch.choose(6)];
    s.buf = kBuf[ch.choose(4)];
    int v = kVs[ch.choose(3)];
    s.vsize = v == 0 ? 0 : v == 1 ? s.buf + 5 : 70000;
    cs.secs.push_back(s);
  }
  return cs;
}

// sections whose virtual size pushes the running offset to and beyond 4 GiB, followed by an ordinary section
static std::vector<Case> huge_family() {
  std::vector<Case> v;
  // ... and layouts that end within an alignment step of 2^64 or beyond it (flatten must refuse exactly the unrepresentable ones)
  const uint64_t kHuge[] = {(uint64_t(1) << 32) - 8, uint64_t(1) << 32, uint64_t(5) << 30, ~uint64_t(0) - 9, ~uint64_t(0) - 80, ~uint64_t(0) - 5000, uint64_t(1) << 63};
  const uint32_t kA1[] = {1, 16, 4096, 65536};
  for (size_t tb : {size_t(3), size_t(64)}) for (uint32_t a1 : kA1) for (int32_t o1 : {0, 1}) for (size_t b1 : {size_t(0), size_t(7)}) for (uint64_t vs : kHuge)
    for (uint32_t a2 : kAlign) for (int32_t o2 : {0, 1, 7}) for (size_t b2 : {size_t(7), size_t(64)}) for (int v2 = 0; v2 < 2; v2++) {
      Case cs; cs.text_buf = tb; cs.addrtab = 0; cs.dirty_arena = false;
      cs.secs.push_back(SecCfg{a1, o1, b1, vs});
      cs.secs.push_back(SecCfg{a2, o2, b2, v2 ? uint64_t(b2 + 5) : 0});
      v.push_back(cs);
    }
  return v;
}

static void report(const Case& cs, const std::string& tag) {
  vh::ctx().violation("sections:" + g_clause, g_why + " :: case " + cs.str(), "harness=c10_sections\nkind=" + tag + "\n" + cs.str() + "\n");
}

static Case parse_case(const std::string& t) {
  Case cs; cs.text_buf = 0; cs.addrtab = 0; cs.dirty_arena = false;
  for (auto& line : vh::split(t, '\n')) {
    if (line.rfind("text_buf=", 0) != 0) continue;
    unsigned long tb; int at;
    sscanf(line.c_str(), "text_buf=%lu addrtab=%d", &tb, &at);
    cs.text_buf = tb; cs.addrtab = at; cs.dirty_arena = line.find(" dirty") != std::string::npos;
    size_t p = 0;
    while ((p = line.find("[a=", p)) != std::string::npos) {
      SecCfg s; unsigned a; int o; unsigned long b; unsigned long long v;
      sscanf(line.c_str() + p, "[a=%u o=%d b=%lu v=%llu]", &a, &o, &b, &v);
      s.align = a; s.order = o; s.buf = b; s.vsize = v; cs.secs.push_back(s); p++;
    }
  }
  return cs;
}

// names / invalid arguments (small separate enumeration)
static void names_and_args() {
  vh::Ctx& c = vh::ctx();
  for (int dirty = 0; dirty < 2; dirty++) {
    Span<uint8_t> sp{};
    if (dirty) { memset(g_static_arena, 0xA5, sizeof g_static_arena); sp = Span<uint8_t>(g_static_arena, sizeof g_static_arena); }
    CodeHolder code(sp); code.init(Environment(Arch::kX64));
    const size_t lens[] = {0, 1, 2, 7, 8, 9, 34, 35, 36, 37, 100};
    for (size_t L : lens) {
      std::string nm(L, 'x'); for (size_t i = 0; i < L; i++) nm[i] = char('a' + (i * 7 + L) % 26);
      Section* s = nullptr;
      Error e = code.new_section(Out(s), nm.c_str(), SIZE_MAX, SectionFlags::kNone, 8, 0);
      c.n("evaluations")++;
      std::string rp = "harness=c10_sections\nkind=name\nlen=" + std::to_string(L) + " dirty=" + std::to_string(dirty) + "\n";
      if (L > 35) { if (e == Error::kOk) c.violation("sections:name-too-long-accepted", "section name of " + std::to_string(L) + " chars accepted", rp); continue; }
      if (e != Error::kOk || !s) { c.violation("sections:name-refused", "valid section name of " + std::to_string(L) + " chars refused", rp); continue; }
      if (nm != s->name()) c.violation("sections:name-readback", "section name of " + std::to_string(L) + " chars reads back as '" + std::string(s->name(), strnlen(s->name(), 40)) + "'" + (dirty ? " (arena memory pre-filled with 0xA5)" : ""), rp);
      else if (code.section_by_name(nm.c_str()) == nullptr) c.violation("sections:name-lookup", "section_by_name fails for a " + std::to_string(L) + "-char name", rp);
      c.outcomes.insert("name" + std::to_string(L));
    }
    const uint32_t bad_align[] = {3, 5, 6, 12, 65537, 0xFFFFFFFFu};
    for (uint32_t al : bad_align) {
      Section* s = nullptr; c.n("evaluations")++;
      if (code.new_section(Out(s), "bad", SIZE_MAX, SectionFlags::kNone, al, 0) == Error::kOk)
        c.violation("sections:bad-align-accepted", "non power-of-two alignment " + std::to_string(al) + " accepted", "harness=c10_sections\nkind=align\nalign=" + std::to_string(al) + "\n");
    }
  }
}

int main(int argc, char** argv) {
  vh::parse_args(argc, argv);
  vh::Ctx& c = vh::ctx();
  if (c.replaying()) {
    if (c.replay_text.find("kind=name") != std::string::npos || c.replay_text.find("kind=align") != std::string::npos) { names_and_args(); for (auto& v : c.violations) v.replay = c.replay_text; return vh::finish(); }
    Case cs = parse_case(c.replay_text);
    if (!run_case(cs)) report(cs, "case");
    return vh::finish();
  }
  if (c.shard_i == 0) names_and_args();
  long long idx = 0;
  std::set<std::string> layouts;
  // (n_extra, bound, addrtab): bound >= number of choice points == full product
  struct Plan { int n_extra; int bound; bool at; };
  std::vector<Plan> plans;
  if (!c.thorough()) plans = {{0, 99, false}, {0, 99, true}, {1, 99, false}, {1, 99, true}, {2, 4, false}, {2, 3, true}, {3, 3, false}, {4, 1, true}, {6, 1, false}, {8, 1, true}};
  else plans = {{0, 99, false}, {0, 99, true}, {1, 99, false}, {1, 99, true}, {2, 5, false}, {2, 5, true}, {3, 4, false}, {3, 4, true}, {4, 3, false}, {4, 2, true}, {6, 2, false}, {6, 2, true}, {8, 2, false}, {8, 2, true}, {12, 1, true}};
  std::string bounds;
  {
    std::vector<Case> hf = huge_family();
    for (auto& cs : hf) {
      if (!c.mine(idx++)) continue;
      c.n("evaluations")++; c.n("huge_layout_cases")++;
      if (!run_case(cs)) report(cs, "case");
    }
    bounds += "huge-virtual-size family (" + std::to_string(hf.size()) + " layouts reaching 4 GiB and beyond, layout only) ";
  }
  for (auto& pl : plans) {
    auto st = xplor::explore_deviations(pl.bound, [&](xplor::Chooser& ch) -> bool {
      Case cs = draw(ch, pl.n_extra, pl.at);
      if (!c.mine(idx++)) return true;
      if (c.tick(16)) return false;
      c.n("evaluations")++;
      bool ok = run_case(cs);
      if (!ok) report(cs, "case");
      else { c.sample(cs.str(), 5); }
      // dirty-arena twin of every 64th case (uninitialised-memory dependence)
      if ((idx & 63) == 1) { Case d = cs; d.dirty_arena = true; c.n("evaluations")++; if (!run_case(d)) report(d, "case"); }
      return true;
    });
    c.n("cases_enumerated") += st.executions;
    bounds += "n_extra=" + std::to_string(pl.n_extra) + (pl.at ? "+addrtab" : "") + ":dev<=" + (pl.bound >= 99 ? std::string("all") : std::to_string(pl.bound)) + (st.bound_completed < 0 ? "(capped)" : "") + " ";
  }
  c.n("distinct_nontrivial") = c.n("evaluations");
  c.n("states") = c.n("evaluations");
  c.n("transitions") = c.n("copies") + c.n("evaluations");
  c.n("traces") = c.n("transitions");
  c.strs["bound"] = bounds;
  c.strs["rule"] = "section configurations = text buffer size x per extra section (alignment{16,0,1,2,64,4096,65536} x order{0,-1,1,INT_MIN,INT_MAX,7} x "
                   "buffer{7,0,1,64} x virtual{none,buf+5,70000}) x address table{none,near,far,both}; default + <=k deviations (all = full product); each case: "
                   "flatten, code_size, copy_flattened_data for every boundary destination size x 4 flag sets, relocate_to_base, copy again; every case is a distinct configuration";
  c.assumptions.push_back("alignments/orders/sizes outside the alphabets are not explored; more than 4 extra sections are not explored");
  return vh::finish();
}
