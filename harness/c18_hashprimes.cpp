// C18 - ArenaHash growth table: every (prime, reciprocal, shift) entry must make _calc_mod(h) == h % prime.
// The table is a file-static of arenahash.cpp, so this TU includes that source file (the check links it without the
// library's own arenahash.o).  For the small primes the real _rehash() is used to load the entry, for all entries the
// fields are loaded exactly as _rehash() does and the real inline _calc_mod() is evaluated.
//
// Reciprocal division x = (h * rcp) >> shift with rcp*prime = 2^shift + e: the error term h*e/(prime*2^shift) is monotonic in
// h and the fractional part of h/prime is maximal at h = k*prime-1, so a rounded-up reciprocal is exact for all 32-bit h iff
// it is exact at the largest k*prime-1 <= 2^32-1; a rounded-down one already fails at h = prime.  Both points (and
// neighbours, powers of two, the extremes) are evaluated for every entry.
#include "vh.h"
#include <asmjit/support/arenahash.cpp>

using namespace asmjit;

static bool check_entry(ArenaHashBase& hb, uint32_t prime, std::string& why, uint32_t& bad) {
  std::vector<uint32_t> hs = {0u, 1u, 2u, 0xFFFFFFFFu, 0xFFFFFFFEu, 0x80000000u, 0x7FFFFFFFu, 0x80000001u};
  uint64_t kmax = 0x100000000ull / prime;
  for (uint64_t k : {uint64_t(1), uint64_t(2), uint64_t(3), kmax / 2, kmax - 2, kmax - 1, kmax, kmax + 1}) {
    for (int d = -2; d <= 2; d++) {
      int64_t h = int64_t(k * prime) + d;
      if (h >= 0 && h <= 0xFFFFFFFFll) hs.push_back(uint32_t(h));
    }
  }
  for (int b = 1; b < 32; b++) { hs.push_back((1u << b) - 1); hs.push_back(1u << b); hs.push_back((1u << b) + 1); }
  for (uint32_t h : hs) {
    vh::ctx().n("transitions")++;
    uint32_t got = hb._calc_mod(h);
    if (got != h % prime) { char b[200]; snprintf(b, sizeof b, "_calc_mod(0x%08x) = %u with %u buckets, hash %% count = %u", h, got, prime, h % prime); why = b; bad = h; return false; }
  }
  return true;
}

int main(int argc, char** argv) {
  vh::parse_args(argc, argv);
  vh::Ctx& c = vh::ctx();
  const size_t n = ASMJIT_ARRAY_SIZE(ArenaHash_prime_array);
  size_t real_limit = c.thorough() ? 20000000u : 1200000u;      // largest bucket count loaded through the real _rehash()
  size_t only = SIZE_MAX;
  if (c.replaying()) { for (auto& line : vh::split(c.replay_text, '\n')) if (line.rfind("index=", 0) == 0) only = size_t(atol(line.c_str() + 6)); }
  uint32_t prev = 0;
  for (size_t i = 0; i < n; i++) {
    if (only != SIZE_MAX && i != only) { prev = ArenaHash_prime_array[i].prime; continue; }
    uint32_t prime = ArenaHash_prime_array[i].prime;
    std::string rp = "harness=c18_hashprimes\nindex=" + std::to_string(i) + "\n";
    c.n("evaluations")++; c.n("distinct_nontrivial")++; c.n("states")++; c.n("traces")++;
    if (prime <= prev) c.violation("hashprimes:table-order", "growth table entry " + std::to_string(i) + " (" + std::to_string(prime) + ") is not larger than its predecessor", rp);
    prev = prime;
    std::string why; uint32_t bad = 0;
    {
      ArenaHashBase hb;
      hb._buckets_count = prime;
      hb._rcp_value = ArenaHash_prime_array[i].rcp;
      hb._rcp_shift = ArenaHash_prime_shift[i];
      if (!check_entry(hb, prime, why, bad)) c.violation("hashprimes:calc_mod", why + " (growth table entry " + std::to_string(i) + ")", rp);
    }
    if (prime <= real_limit) {
      Arena arena(1024);
      ArenaHashBase hb;
      hb._rehash(arena, uint32_t(i));
      c.n("real_rehash")++;
      if (hb._buckets_count != prime || hb._data == hb._embedded) c.violation("hashprimes:rehash-fields", "_rehash(" + std::to_string(i) + ") did not install " + std::to_string(prime) + " buckets", rp);
      else {
        for (uint32_t b = 0; b < prime; b += (prime > 4096 ? prime / 4096 : 1)) if (hb._data[b]) { c.violation("hashprimes:rehash-zero", "_rehash left a non-null bucket in a fresh table", rp); break; }
        if (hb._data[prime - 1]) c.violation("hashprimes:rehash-zero", "_rehash left a non-null last bucket in a fresh table", rp);
        if (!check_entry(hb, prime, why, bad)) c.violation("hashprimes:rehash-calc_mod", why + " after the real _rehash(" + std::to_string(i) + ")", rp);
      }
      hb.release(arena);
    }
    if (i % 16 == 0) c.sample("hashprimes: entry " + std::to_string(i) + " prime " + std::to_string(prime), 12);
  }
  c.strs["bound_hashprimes"] = "hashprimes:all " + std::to_string(n) + " entries of the growth table x {0,1,2,2^32-1,2^31 and neighbours, k*p+d for k in {1,2,3,kmax/2,kmax-2..kmax+1}, d in -2..2, 2^b-1,2^b,2^b+1}; real _rehash() for bucket counts <= " + std::to_string(real_limit) + " ";
  c.strs["rule"] = "ArenaHash growth table: _calc_mod(h) == h % bucket_count at the decisive hash values for every table entry";
  return vh::finish();
}
