// C19 - constant pool: BFS over add(data,size) histories on the real ConstPool, reference = list of
// (data,size,offset) of successful adds + invariants evaluated after every operation.
#include "xplor.h"
#include <asmjit/core.h>
#include <asmjit/x86.h>
#include <algorithm>

using namespace asmjit;

static uint8_t PAT[3][64];

static void init_patterns() {
  for (int i = 0; i < 64; i++) {
    PAT[0][i] = 0x11;                       // every half/quarter equals every narrower constant of pattern 0
    PAT[1][i] = uint8_t(1 + i / 4);         // 4-byte groups distinct: halves differ, leading halves are prefixes
  }
  for (int i = 0; i < 64; i++) PAT[2][i] = PAT[1][(i + 32) % 64];  // narrow P2 == a non-leading chunk of wide P1
}

static const int kValid[7] = {1, 2, 4, 8, 16, 32, 64};
static const int kInvalid[4] = {0, 3, 5, 128};

struct Entry { int pat; int size; size_t offset; };

// an alphabet is a list of raw op ids (0..24); the full alphabet is the identity map
struct Cfg { std::vector<int> ops; };

struct Sys {
  Arena arena;
  ConstPool pool;
  std::vector<Entry> model;     // successful adds (first occurrence of each (pat,size))
  const Cfg& cfg;
  Sys(const Cfg& c) : arena(4096), pool(arena), cfg(c) {}

  int num_ops() const { return (int)cfg.ops.size(); }
  std::string op_name(int i) const { return raw_name(cfg.ops[i]); }
  bool apply(int i, std::string& why) { return apply_raw(cfg.ops[i], why); }
  static std::string raw_name(int op) {
    char b[64];
    if (op < 21) snprintf(b, sizeof b, "add(P%d,%d)", op / 7, kValid[op % 7]);
    else snprintf(b, sizeof b, "add(P0,%d)", kInvalid[op - 21]);
    return b;
  }

  // expected image from the model; false on conflicting overlap
  bool image(std::vector<int>& img, std::string& why) const {
    img.assign(pool.size(), -1);
    for (auto& e : model) {
      if (e.offset + e.size > pool.size()) { why = "constant beyond size()"; return false; }
      for (int i = 0; i < e.size; i++) {
        int& b = img[e.offset + i];
        int v = PAT[e.pat][i];
        if (b != -1 && b != v) { why = "two constants with different bytes overlap at pool offset " + std::to_string(e.offset + i); return false; }
        b = v;
      }
    }
    return true;
  }

  bool check_all(std::string& why) {
    // structural overlap rule: partial overlap never; containment only at a multiple of the smaller size
    for (size_t i = 0; i < model.size(); i++) for (size_t j = i + 1; j < model.size(); j++) {
      const Entry& a = model[i]; const Entry& b = model[j];
      size_t a0 = a.offset, a1 = a.offset + a.size, b0 = b.offset, b1 = b.offset + b.size;
      if (a1 <= b0 || b1 <= a0) continue;
      const Entry& big = a.size >= b.size ? a : b; const Entry& sm = a.size >= b.size ? b : a;
      bool contained = sm.offset >= big.offset && sm.offset + sm.size <= big.offset + big.size;
      if (!contained) { why = "partial overlap of two constants"; return false; }
      if (a.size == b.size && (a.pat != b.pat) && memcmp(PAT[a.pat], PAT[b.pat], a.size) != 0) { why = "two distinct constants of equal size share storage"; return false; }
    }
    std::vector<int> img;
    if (!image(img, why)) return false;
    size_t maxsz = 0;
    for (auto& e : model) {
      if (e.offset % e.size) { why = "offset not aligned to constant size"; return false; }
      maxsz = std::max<size_t>(maxsz, e.size);
    }
    if (pool.alignment() < maxsz) { why = "alignment() smaller than widest constant"; return false; }
    if (pool.alignment() & (pool.alignment() - 1)) { why = "alignment() not a power of two"; return false; }
    if (model.empty() && (pool.size() != 0)) { why = "size() nonzero for empty pool"; return false; }
    // fill() with guard bands
    size_t sz = pool.size();
    std::vector<uint8_t> dst(sz + 64, 0xA5);
    pool.fill(dst.data() + 32);
    for (size_t i = 0; i < 32; i++) if (dst[i] != 0xA5 || dst[32 + sz + i] != 0xA5) { why = "fill() wrote outside size()"; return false; }
    for (size_t i = 0; i < sz; i++) {
      int exp = img[i] == -1 ? 0 : img[i];
      if (dst[32 + i] != exp) { char b[128]; snprintf(b, sizeof b, "fill(): byte at offset %zu is %02x, expected %02x (%s)", i, dst[32 + i], exp, img[i] == -1 ? "gap" : "constant"); why = b; return false; }
    }
    // embed_const_pool through an assembler must reproduce fill() at an offset aligned to alignment()
    {
      CodeHolder code; Environment env(Arch::kX64); code.init(env);
      x86::Assembler a(&code);
      a.db(0x90);
      Label L = a.new_label();
      Error err = a.embed_const_pool(L, pool);
      if (err != Error::kOk) { why = "embed_const_pool failed"; return false; }
      size_t al = pool.alignment() ? pool.alignment() : 1;
      size_t start = sz ? (1 + al - 1) / al * al : code.text_section()->buffer_size();
      if (code.label_offset(L) != start && sz) { why = "embed_const_pool label not at aligned start"; return false; }
      if (sz) {
        if (code.text_section()->buffer_size() != start + sz) { why = "embed_const_pool size mismatch"; return false; }
        if (memcmp(code.text_section()->data() + start, dst.data() + 32, sz) != 0) { why = "embed_const_pool bytes differ from fill()"; return false; }
      }
    }
    // BaseBuilder::embed_const_pool (the Builder counterpart): after serialisation the same bytes at the same aligned offset
    if (sz) {
      CodeHolder code; Environment env(Arch::kX64); code.init(env);
      x86::Builder b(&code);
      b.db(0x90);
      Label L = b.new_label();
      Error err = b.embed_const_pool(L, pool);
      if (err == Error::kOk) { b.db(0xC3); err = b.finalize(); }
      if (err != Error::kOk) { why = "Builder::embed_const_pool / finalize failed"; return false; }
      size_t al = pool.alignment() ? pool.alignment() : 1;
      size_t start = (1 + al - 1) / al * al;
      if (!code.is_label_bound(L) || code.label_offset(L) != start) { why = "Builder::embed_const_pool: label not at the aligned start"; return false; }
      if (code.text_section()->buffer_size() != start + sz + 1) { char m[160]; snprintf(m, sizeof m, "Builder::embed_const_pool emitted %zu bytes for a pool of %zu bytes", code.text_section()->buffer_size() - 1 - start, sz); why = m; return false; }
      if (memcmp(code.text_section()->data() + start, dst.data() + 32, sz) != 0 || code.text_section()->data()[start + sz] != 0xC3) { why = "Builder::embed_const_pool bytes differ from fill()"; return false; }
    }
    // the same with a code buffer that has to grow (and move) while the pool is embedded
    if (sz) {
      CodeHolder code; Environment env(Arch::kX64); code.init(env);
      x86::Assembler a(&code);
      a.db(0x90);
      size_t cap = code.text_section()->buffer().capacity();
      std::vector<uint8_t> fillb(cap - 1 - 3, 0x90);          // leaves 3 bytes: alignment padding + pool never fit
      if (a.embed(fillb.data(), fillb.size()) != Error::kOk) { why = "harness: filler embed failed"; return false; }
      Label L = a.new_label();
      Error err = a.embed_const_pool(L, pool);
      if (err != Error::kOk) { why = "embed_const_pool failed when the buffer had to grow"; return false; }
      size_t al = pool.alignment() ? pool.alignment() : 1;
      size_t start = (cap - 3 + al - 1) / al * al;
      if (code.label_offset(L) != start) { why = "embed_const_pool (growing buffer): label not at aligned start"; return false; }
      if (code.text_section()->buffer_size() != start + sz) { why = "embed_const_pool (growing buffer): size mismatch"; return false; }
      if (memcmp(code.text_section()->data() + start, dst.data() + 32, sz) != 0) { why = "embed_const_pool bytes differ from fill() when the code buffer grows during the call"; return false; }
    }
    // stability + dedup: re-adding every earlier constant returns the offset returned first
    for (auto& e : model) {
      size_t off = ~size_t(0);
      Error err = pool.add(PAT[e.pat], e.size, Out(off));
      if (err != Error::kOk || off != e.offset) { char b[128]; snprintf(b, sizeof b, "re-add of P%d/%d returned offset %zu, first returned %zu", e.pat, e.size, off, e.offset); why = b; return false; }
    }
    if (pool.size() != sz) { why = "re-adding known constants grew the pool"; return false; }
    return true;
  }

  bool apply_raw(int op, std::string& why) {
    size_t size_before = pool.size(), align_before = pool.alignment();
    if (op >= 21) {
      size_t off = 12345;
      Error err = pool.add(PAT[0], kInvalid[op - 21], Out(off));
      if (err == Error::kOk) { why = "invalid size accepted"; return false; }
      if (pool.size() != size_before || pool.alignment() != align_before) { why = "failed add changed the pool"; return false; }
      return check_all(why);
    }
    int pat = op / 7, size = kValid[op % 7];
    size_t off = ~size_t(0);
    Error err = pool.add(PAT[pat], size, Out(off));
    if (err != Error::kOk) { why = "valid add failed"; return false; }
    bool known = false;
    for (auto& e : model) if (e.size == size && memcmp(PAT[e.pat], PAT[pat], size) == 0) { known = true; if (e.offset != off) { why = "identical constant got a different offset"; return false; } }
    if (!known) model.push_back(Entry{pat, size, off});
    if (off % size) { why = "offset not aligned to size"; return false; }
    if (off + size > pool.size()) { why = "offset+size beyond size()"; return false; }
    if (pool.size() < size_before) { why = "size() shrank"; return false; }
    return check_all(why);
  }

  std::string canon() {
    std::string s = "S" + std::to_string(pool.size()) + "A" + std::to_string(pool.alignment()) + "|";
    std::vector<std::string> es;
    for (auto& e : model) es.push_back(std::to_string(e.pat) + "/" + std::to_string(e.size) + "@" + std::to_string(e.offset));
    std::sort(es.begin(), es.end());
    for (auto& e : es) s += e + ",";
    s += "|G";
    for (int i = 0; i < (int)ConstPool::kIndexCount; i++) {
      s += "[";
      for (ConstPool::Gap* g = pool._gaps[i]; g; g = g->_next) s += std::to_string(g->_offset) + "+" + std::to_string(g->_size) + ",";
      s += "]";
    }
    // registered (shared) sub-constants influence later dedup decisions
    struct V { std::vector<std::string>* out; size_t ds; void operator()(const ConstPool::Node* n) { out->push_back(std::to_string(ds) + ":" + vh::hex(n->data(), ds) + "@" + std::to_string(n->_offset) + (n->_shared ? "s" : "")); } };
    std::vector<std::string> nodes;
    size_t ds = 1;
    for (int i = 0; i < (int)ConstPool::kIndexCount; i++, ds <<= 1) { V v{&nodes, ds}; pool._tree[i].for_each(v); }
    std::sort(nodes.begin(), nodes.end());
    s += "|T";
    for (auto& n : nodes) s += n + ",";
    return s;
  }
};

static std::vector<int> parse_hist(const std::string& t) {
  std::vector<int> h;
  for (auto& line : vh::split(t, '\n')) {
    if (line.rfind("ops=", 0) == 0) for (auto& x : vh::split(line.substr(4), ',')) if (!x.empty()) h.push_back(atoi(x.c_str()));
  }
  return h;
}

int main(int argc, char** argv) {
  vh::parse_args(argc, argv);
  vh::Ctx& c = vh::ctx();
  init_patterns();
  Cfg cfg;
  for (int i = 0; i < 25; i++) cfg.ops.push_back(i);
  if (c.replaying()) {
    std::vector<int> h = parse_hist(c.replay_text);
    Sys s(cfg); std::string why, names;
    for (size_t i = 0; i < h.size(); i++) {
      names += Sys::raw_name(h[i]) + ";";
      if (!s.apply_raw(h[i], why)) { c.violation("replay", why + " after " + names, c.replay_text); break; }
    }
    return vh::finish();
  }
  int depth = c.thorough() ? 5 : 4;
  if (!c.opt("depth").empty()) depth = atoi(c.opt("depth").c_str());
  const Cfg* cur = &cfg;
  auto onv = [&](const std::vector<int>& h, const std::string& names, const std::string& why) {
    std::string ops;
    for (size_t i = 0; i < h.size(); i++) { if (i) ops += ","; ops += std::to_string(cur->ops[h[i]]); }
    // key: the oracle clause that failed + the last operation (stable across histories of one defect)
    std::string last = names.substr(names.rfind(';') == std::string::npos ? 0 : names.rfind(';') + 1);
    std::string clause = why.substr(0, why.find_first_of("0123456789"));
    c.violation("constpool:" + clause, why + " after history " + names, "harness=c19_constpool\nops=" + ops + "\n# " + names + "\n");
  };
  xplor::BfsStats st = xplor::bfs_histories<Sys, Cfg>(cfg, depth, "pool", onv, -1, c.shard_i, c.shard_n);
  c.n("states") += st.states;
  c.n("transitions") += st.transitions;
  c.n("traces") += st.transitions;
  c.n("evaluations") += st.transitions;
  c.n("distinct_nontrivial") += st.states;
  c.n("replays") += st.replays;
  c.n("merged_transitions") += st.pruned;
  c.strs["depth_completed"] = std::to_string(st.depth_completed);
  // phase 2: longer histories over a reduced alphabet: sizes {1,4,8,32} of the all-equal pattern, sizes {4,8,32} of the
  // distinct-groups pattern and {4,8} of its non-leading chunk (forced to collide with sub-constants of P1) + invalid size 3
  int depth2 = c.thorough() ? 11 : 10;
  if (!c.opt("depth2").empty()) depth2 = atoi(c.opt("depth2").c_str());
  Cfg red;
  red.ops = {0, 2, 3, 5, 7 + 2, 7 + 3, 7 + 5, 14 + 2, 14 + 3, 22};
  // thorough: 10 valid constants; depth 11 >= number of distinct constants + 1, so the search runs to its fixpoint:
  // every order in which any subset of the alphabet can be added (re-adding a known constant does not change the state)
  if (c.thorough()) red.ops = {0, 1, 2, 3, 5, 7 + 2, 7 + 3, 7 + 5, 14 + 2, 14 + 3, 22};
  cur = &red;
  if (depth2 > 0 && !c.out_of_time()) {
    xplor::BfsStats s2 = xplor::bfs_histories<Sys, Cfg>(red, depth2, "pool", onv, -1, c.shard_i, c.shard_n);
    c.n("states") += s2.states;
    c.n("transitions") += s2.transitions;
    c.n("traces") += s2.transitions;
    c.n("evaluations") += s2.transitions;
    c.n("distinct_nontrivial") += s2.states;
    c.n("replays") += s2.replays;
    c.n("merged_transitions") += s2.pruned;
    c.n("phase2_states") += s2.states;
    c.strs["depth2_completed"] = std::to_string(s2.depth_completed);
  }
  c.strs["rule"] = "BFS over histories of ConstPool::add(data,size); alphabet 3 byte patterns (all-equal; distinct 4-byte groups; "
                   "non-leading chunk of the second) x sizes {1,2,4,8,16,32,64} + invalid sizes {0,3,5,128}; a state is distinct when "
                   "its canonical form (size, alignment, constants, gap lists, registered sub-constants) was not seen before";
  c.strs["bound"] = "depth<=" + std::to_string(depth) + " over the full alphabet (25 ops); depth<=" + std::to_string(depth2) + " over the reduced alphabet (" + std::to_string(red.ops.size()) + " ops: fixpoint when depth exceeds the number of valid constants)";
  c.assumptions.push_back("three byte patterns stand for all data values; offsets and gaps depend on data only through equality of (sub-)constants");
  return vh::finish();
}
