// C14 (leg 2) - a call that fails because memory runs out is a failed call like any other: it appends nothing, clears the
// one-shot instruction state and leaves the emitter producing exactly what a fresh one would - also when the error
// handler throws.
//
// Shape F x I.  A case = (arch, emitter {Assembler, Builder}, handler {none, recording, throwing}, filler r, three
// instructions each carrying one decoration of the alphabet, fault class {heap, arena}, fault position k).
//   run   : fresh CodeHolder + emitter; prelude (one nop, then data up to r bytes before the end of the code buffer, so
//           that buffer growth is needed at instruction 1, 2, 3 or not at all); arm "the k-th request of the class fails";
//           issue the decorated instructions.  When instruction j fails (error code or exception): disarm, check the
//           one-shot state through the public getters, check that nothing was appended, emit an undecorated probe
//           instruction and continue with instructions j+1...
//   twin  : fresh objects, no fault: prelude, instructions 1..j-1, probe, instructions j+1.. - must yield the same image
//           (Builder: after finalize) as the run.
// k runs from 1 until a run completes without any injected failure (every position of the case's request sequence).
#include "vh.h"
#include <asmjit/core.h>
#include <asmjit/x86.h>
#include <asmjit/a64.h>
#include <stdexcept>
#include <errno.h>

using namespace asmjit;

extern "C" bool (*asmjit_verif_arena_fault)(void);

// ---------------------------------------------------------------------------------------------------------
// fault injection: heap through ld --wrap, arena through hook H1
static bool g_armed = false; static int g_class = 0; static long g_count = 0, g_k = 0; static bool g_fired = false;
static bool fault_point(int cls) {
  if (!g_armed || cls != g_class) return false;
  if (++g_count == g_k) { g_fired = true; return true; }
  return false;
}
extern "C" {
void* __real_malloc(size_t);
void* __real_realloc(void*, size_t);
void* __real_calloc(size_t, size_t);
void* __wrap_malloc(size_t n) { if (fault_point(0)) { errno = ENOMEM; return nullptr; } return __real_malloc(n); }
void* __wrap_realloc(void* p, size_t n) { if (fault_point(0)) { errno = ENOMEM; return nullptr; } return __real_realloc(p, n); }
void* __wrap_calloc(size_t a, size_t b) { if (fault_point(0)) { errno = ENOMEM; return nullptr; } return __real_calloc(a, b); }
}
static bool arena_hook() { return fault_point(1); }
static void arm_fault(int cls, long k) { g_class = cls; g_k = k; g_count = 0; g_fired = false; g_armed = true; }
static void disarm() { g_armed = false; }

// ---------------------------------------------------------------------------------------------------------
struct Thrower : ErrorHandler { int n = 0; void handle_error(Error e, const char*, BaseEmitter*) override { n++; throw std::runtime_error(DebugUtils::error_as_string(e)); } };
struct Recorder : ErrorHandler { int n = 0; void handle_error(Error, const char*, BaseEmitter*) override { n++; } };

enum { AX64 = 0, AA64 = 1 };
enum { E_ASM = 0, E_BUILDER = 1 };
static const char* kArch[] = {"x64", "a64"};
static const char* kEm[] = {"asm", "builder"};
static const char* kHd[] = {"none", "rec", "throw"};
// decorations: 0 none, 1 option bit (x86: LOCK), 2 inline comment, 3 extra register, 4 option + comment + extra register
// 5..8: calls that create fixups / relocations / an address table (label L is created in the prelude and bound at the end):
//   5 jump to the unbound label, 6 the same with an inline comment, 7 x64: call to an absolute address (relocation + address-table
//   slot) / a64: adr x1, L, 8 embed_label(L, 8) (relocation + fixup)
static const char* kDecor[] = {"plain", "option", "comment", "extra", "all", "jump-to-label", "jump-to-label+comment", "abs-call|adr", "embed_label"};
static const int kNumDecor = 9;

struct Case {
  int arch, em, hd, r, cls; long k; int d[3];
  std::string str() const {
    char b[200]; snprintf(b, sizeof b, "arch=%s emitter=%s handler=%s r=%d class=%s k=%ld decor=%d,%d,%d", kArch[arch], kEm[em], kHd[hd], r, cls ? "arena" : "heap", k, d[0], d[1], d[2]);
    return b;
  }
};

struct World {
  CodeHolder code; x86::Assembler xa; a64::Assembler aa; x86::Builder xb; a64::Builder ab;
  Thrower th; Recorder rc; BaseEmitter* e = nullptr; Label L;
  bool init(const Case& cs) {
    if (code.init(Environment(cs.arch == AX64 ? Arch::kX64 : Arch::kAArch64)) != Error::kOk) return false;
    e = cs.em == E_ASM ? (cs.arch == AX64 ? (BaseEmitter*)&xa : (BaseEmitter*)&aa) : (cs.arch == AX64 ? (BaseEmitter*)&xb : (BaseEmitter*)&ab);
    if (code.attach(e) != Error::kOk) return false;
    if (cs.hd == 1) e->set_error_handler(&rc); else if (cs.hd == 2) e->set_error_handler(&th);
    return true;
  }
};

static const uint32_t kLockOpt = uint32_t(InstOptions::kX86_Lock);

static void decorate(BaseEmitter* e, int arch, int d) {
  if (d == 1 || d == 4) e->add_inst_options(arch == AX64 ? InstOptions(kLockOpt) : InstOptions::kOverwrite);
  if (d == 2 || d == 4) e->set_inline_comment("one-shot comment");
  if (d == 3 || d == 4) e->set_extra_reg(arch == AX64 ? Reg(x86::k3) : Reg(a64::x7));
}
// instruction i of the program, decoration d (the instruction is chosen so that the decoration is legal and changes the bytes on x86)
static Error issue(BaseEmitter* e, int arch, int i, int d, const Label& L) {
  if (d >= 5) {
    if (d == 6) e->set_inline_comment("one-shot comment");
    if (d == 5 || d == 6) return arch == AX64 ? e->emit(x86::Inst::kIdJmp, L) : e->emit(a64::Inst::kIdB, L);
    if (d == 7) return arch == AX64 ? e->emit(x86::Inst::kIdCall, Imm(0x123456789000ull + uint64_t(i) * 16)) : e->emit(a64::Inst::kIdAdr, a64::x1, L);
    return e->embed_label(L, arch == AX64 ? 8 : 8);
  }
  decorate(e, arch, d);
  if (arch == AX64) {
    if (d == 3 || d == 4) {
      // {k3} needs an AVX-512 instruction; with LOCK as well nothing is encodable, so 'all' uses a lockable instruction
      // and an extra register that REP-like handling ignores: keep it encodable by choosing per decoration
      if (d == 3) return e->emit(x86::Inst::kIdVaddps, x86::zmm1, x86::zmm2, x86::zmm(3 + i));
      return e->emit(x86::Inst::kIdAdd, x86::dword_ptr(x86::rax, 4 * i), x86::ecx);
    }
    return e->emit(x86::Inst::kIdAdd, x86::dword_ptr(x86::rax, 4 * i), x86::ecx);
  }
  return e->emit(a64::Inst::kIdAdd, a64::x(i), a64::x1, a64::x2);
}
static Error probe(BaseEmitter* e, int arch) {
  if (arch == AX64) return e->emit(x86::Inst::kIdSub, x86::dword_ptr(x86::rbx), x86::edx);
  return e->emit(a64::Inst::kIdSub, a64::x9, a64::x10, a64::x11);
}
static bool is_decor_valid(int arch, int d) {
  // x86 'all' = LOCK + {k3} on add: the extra register of a non-AVX-512 instruction is only looked at for REP, so it is accepted;
  // keep it: it is exactly the state that must not leak.  AArch64: every decoration is accepted and ignored by the encoder.
  (void)arch; (void)d; return true;
}

// prelude: one nop to create the buffer, then data so that exactly r bytes remain
static bool prelude(World& w, const Case& cs) {
  BaseEmitter* e = w.e;
  w.L = e->new_label();
  if (!w.L.is_valid()) return false;
  if (cs.arch == AX64) { if (e->emit(x86::Inst::kIdNop) != Error::kOk) return false; } else { if (e->emit(a64::Inst::kIdNop) != Error::kOk) return false; }
  if (cs.em == E_ASM) {
    size_t cap = w.code.text_section()->buffer().capacity(), sz = w.code.text_section()->buffer_size();
    if (cap < sz + 64) return false;
    size_t fill = cap - sz - size_t(cs.r);
    if (cs.arch == AA64) fill &= ~size_t(3);
    std::vector<uint8_t> z(fill, 0x90);
    if (cs.arch == AA64) for (size_t i = 0; i + 4 <= fill; i += 4) { uint32_t nop = 0xD503201F; memcpy(&z[i], &nop, 4); }
    if (e->embed(z.data(), z.size()) != Error::kOk) return false;
  }
  return true;
}

static std::string image(World& w, const Case& cs, bool& ok) {
  ok = true;
  { Error be = Error::kOk; try { be = w.e->bind(w.L); } catch (std::exception&) { be = Error::kInvalidState; }
    if (be != Error::kOk) { ok = false; return std::string("bind error ") + DebugUtils::error_as_string(be); } }
  if (cs.em == E_BUILDER) {
    BaseBuilder* b = static_cast<BaseBuilder*>(w.e);
    Error err = Error::kOk;
    try { err = b->finalize(); } catch (std::exception&) { err = Error::kInvalidState; }
    if (err != Error::kOk) { ok = false; return std::string("finalize error ") + DebugUtils::error_as_string(err); }
  }
  Section* t = w.code.text_section();
  std::string s = vh::hex(t->data(), t->buffer_size());
  s += "|relocs=" + std::to_string(w.code.reloc_entries().size()) + "|unresolved=" + std::to_string(w.code.unresolved_fixup_count()) + "|labels=" + std::to_string(w.code.label_count());
  for (RelocEntry* re : w.code.reloc_entries()) s += "|r" + std::to_string(int(re->reloc_type())) + "@" + std::to_string(re->source_section_id()) + "+" + std::to_string(re->source_offset()) + "=" + std::to_string(re->payload());
  return s;
}

static std::string g_why, g_clause;
#define FAIL(cl, ...) do { char _b[600]; snprintf(_b, sizeof _b, __VA_ARGS__); g_why = _b; g_clause = cl; return 0; } while (0)

// returns 1 ok, 0 violation, 2 no failure was injected at this k (end of the request sequence), 3 skipped
static int run_case(const Case& cs) {
  vh::Ctx& c = vh::ctx();
  vh::set_case("harness=c14_faultstate\n" + cs.str() + "\n");
  for (int i = 0; i < 3; i++) if (!is_decor_valid(cs.arch, cs.d[i])) return 3;
  int failed_at = -1; std::string img_run; bool ok_run = true;
  {
    World w;
    if (!w.init(cs)) FAIL("harness", "init failed");
    if (!prelude(w, cs)) FAIL("harness", "prelude failed");
    arm_fault(cs.cls, cs.k);
    for (int i = 0; i < 3; i++) {
      size_t size_before = w.code.text_section()->buffer_size();
      size_t labels_before = w.code.label_count(), relocs_before = w.code.reloc_entries().size(), fixups_before = w.code.unresolved_fixup_count();
      BaseNode* last_before = cs.em == E_BUILDER ? static_cast<BaseBuilder*>(w.e)->last_node() : nullptr;
      Error err = Error::kOk; bool thrown = false;
      int h_before = w.rc.n + w.th.n;
      try { err = issue(w.e, cs.arch, i, cs.d[i], w.L); } catch (std::exception&) { thrown = true; }
      if (err == Error::kOk && !thrown) continue;
      disarm();
      c.n("failed_calls")++;
      if (!g_fired) FAIL("harness", "instruction %d failed (%s) although no fault was injected", i, DebugUtils::error_as_string(err));
      if (failed_at >= 0) FAIL("harness", "two failures from one injected fault");
      failed_at = i;
      int h_calls = w.rc.n + w.th.n - h_before;
      if (cs.hd == 2 && !thrown) FAIL("not-reported", "instruction %d failed with %s but the throwing error handler was not invoked", i, DebugUtils::error_as_string(err));
      if (cs.hd == 1 && h_calls == 0) FAIL("not-reported", "instruction %d failed with %s but the error handler was not invoked", i, DebugUtils::error_as_string(err));
      if (h_calls > 1) c.n("handler_invoked_more_than_once")++;
      if (w.code.text_section()->buffer_size() != size_before) FAIL("failed-call-appended", "the failed instruction %d changed the section size %zu -> %zu", i, size_before, w.code.text_section()->buffer_size());
      if (w.code.label_count() != labels_before) FAIL("failed-call-appended", "the failed instruction created a label");
      if (w.code.reloc_entries().size() != relocs_before) FAIL("failed-call-left-relocation", "the failed call %d ('%s', %s) left %zu relocation entr%s in the CodeHolder", i, kDecor[cs.d[i]], cs.cls ? "arena request failed" : "heap request failed", w.code.reloc_entries().size() - relocs_before, w.code.reloc_entries().size() - relocs_before == 1 ? "y" : "ies");
      if (w.code.unresolved_fixup_count() != fixups_before) FAIL("failed-call-left-fixup", "the failed call %d ('%s') changed unresolved_fixup_count() %zu -> %zu", i, kDecor[cs.d[i]], fixups_before, w.code.unresolved_fixup_count());
      if (cs.em == E_BUILDER && static_cast<BaseBuilder*>(w.e)->last_node() != last_before) FAIL("failed-call-appended", "the failed instruction %d left a node in the Builder", i);
      if (uint32_t(w.e->inst_options()) != 0 || w.e->has_extra_reg() || w.e->inline_comment() != nullptr)
        FAIL("one-shot-not-cleared", "after the failed instruction %d (%s, decoration '%s', %s) the emitter still holds one-shot state: options=%#x extra_reg=%d comment=%s",
             i, thrown ? "handler threw" : DebugUtils::error_as_string(err), kDecor[cs.d[i]], cs.cls ? "arena request failed" : "heap request failed", unsigned(w.e->inst_options()), int(w.e->has_extra_reg()), w.e->inline_comment() ? "set" : "null");
      Error pe = Error::kOk; bool pthrown = false;
      try { pe = probe(w.e, cs.arch); } catch (std::exception&) { pthrown = true; }
      if (pe != Error::kOk || pthrown) FAIL("emitter-unusable", "the probe instruction after the failed instruction %d fails (%s) although memory is available again", i, pthrown ? "exception" : DebugUtils::error_as_string(pe));
    }
    disarm();
    if (failed_at < 0) return 2;
    img_run = image(w, cs, ok_run);
  }
  std::string img_twin; bool ok_twin = true;
  {
    Case t = cs; t.hd = 0;
    World w;
    if (!w.init(t) || !prelude(w, t)) FAIL("harness", "twin init failed");
    for (int i = 0; i < 3; i++) {
      Error err = i == failed_at ? probe(w.e, cs.arch) : issue(w.e, cs.arch, i, cs.d[i], w.L);
      if (err != Error::kOk) FAIL("harness", "twin instruction %d fails: %s", i, DebugUtils::error_as_string(err));
    }
    img_twin = image(w, t, ok_twin);
  }
  c.n("evaluations")++;
  if (!ok_twin) FAIL("harness", "twin does not finalize: %s", img_twin.c_str());
  if (!ok_run) FAIL("emitter-unusable", "after the failed instruction %d the Builder does not finalize (%s)", failed_at, img_run.c_str());
  if (img_run != img_twin) {
    size_t p = 0; while (p < img_run.size() && p < img_twin.size() && img_run[p] == img_twin[p]) p++;
    FAIL("differs-from-fresh", "after the failed instruction %d the emitter produces other code than a fresh one given the accepted calls: ...%s vs ...%s (byte %zu)", failed_at,
         img_run.substr(p & ~size_t(1), 24).c_str(), img_twin.substr(p & ~size_t(1), 24).c_str(), p / 2);
  }
  c.outcomes.insert(std::string(kArch[cs.arch]) + kEm[cs.em] + std::to_string(failed_at) + (cs.cls ? "a" : "h"));
  return 1;
}

static void report(const Case& cs) {
  vh::ctx().violation(std::string("invalid:") + kArch[cs.arch] + ":" + kEm[cs.em] + ":inst:" + g_clause + ":alloc-failure:" + kHd[cs.hd], g_why + " :: " + cs.str(), "harness=c14_faultstate\n" + cs.str() + "\n");
}

static bool parse_case(const std::string& t, Case& cs) {
  for (auto& line : vh::split(t, '\n')) {
    if (line.rfind("arch=", 0) != 0) continue;
    char an[8], en[16], hn[8], cn[8];
    if (sscanf(line.c_str(), "arch=%7s emitter=%15s handler=%7s r=%d class=%7s k=%ld decor=%d,%d,%d", an, en, hn, &cs.r, cn, &cs.k, &cs.d[0], &cs.d[1], &cs.d[2]) != 9) return false;
    cs.arch = !strcmp(an, "x64") ? AX64 : AA64; cs.em = !strcmp(en, "asm") ? E_ASM : E_BUILDER;
    cs.hd = !strcmp(hn, "none") ? 0 : !strcmp(hn, "rec") ? 1 : 2; cs.cls = !strcmp(cn, "arena") ? 1 : 0;
    return true;
  }
  return false;
}

int main(int argc, char** argv) {
  vh::parse_args(argc, argv);
  vh::Ctx& c = vh::ctx();
  asmjit_verif_arena_fault = arena_hook;
  if (c.replaying()) {
    Case cs;
    if (!parse_case(c.replay_text, cs)) { fprintf(stderr, "bad replay\n"); return 2; }
    if (run_case(cs) == 0) report(cs);
    return vh::finish();
  }
  long long idx = 0;
  static const int kR[] = {0, 5, 12, 40};   // bytes left in the buffer before the first instruction: growth at instruction 1, 2, 3, or never (x86: <16 bytes left triggers growth)
  for (int arch = 0; arch < 2; arch++) for (int em = 0; em < 2; em++) for (int hd = 0; hd < 3; hd++) for (int ri = 0; ri < (em == E_ASM ? 4 : 1); ri++)
    for (int cls = 0; cls < 2; cls++) for (int d0 = 0; d0 < kNumDecor; d0++) for (int d1 = 0; d1 < kNumDecor; d1++) for (int d2 = 0; d2 < kNumDecor; d2++) {
      if (!c.thorough() && (d0 != 0 && d1 != 0 && d2 != 0) && !(d0 == d1 && d1 == d2)) continue;   // quick: at least one plain instruction, or all three alike
      if (!c.mine(idx++)) continue;
      if (c.tick(64)) goto done;
      Case cs{arch, em, hd, arch == AA64 ? kR[ri] & ~3 : kR[ri], cls, 0, {d0, d1, d2}};
      for (long k = 1; k <= 64; k++) {
        cs.k = k;
        int r = run_case(cs);
        if (r == 0) { report(cs); continue; }
        if (r == 2) { c.n("request_sequences_completed")++; break; }
        if (r == 3) break;
      }
    }
done:
  c.n("states") = c.n("evaluations"); c.n("transitions") = c.n("evaluations"); c.n("traces") = c.n("evaluations"); c.n("distinct_nontrivial") = c.n("failed_calls");
  c.strs["bound_alloc_failure_leg"] = "x64 + AArch64 x {Assembler, Builder} x {no, recording, throwing} handler x buffer filler {growth at instruction 1, 2, 3, never} x "
                                      "3 calls x 9 kinds each (5 one-shot decorations, jump to an unbound label +- comment, absolute call / adr, embed_label; quick: at least one plain or all alike) x {heap, arena} x every failure position k";
  return vh::finish();
}
