// C16 - reset / reinit / reuse of holders and emitters leave no residue.
//
// Shape H (histories).  Every history of depth <= d over the op alphabet
//   init(x64|a64)  attach/detach(Assembler|Builder|Compiler)  reinit  reset(soft|hard)  toggle-logger
//   new-section  new-named-label  flatten(+resolve+relocate)  generate(P) for 10 small programs
//   + macro ops recycle-soft|hard (= reset; init; attach what was attached) and reattach-K (= detach K; attach K)
// (+ one more final generate) is executed on ONE recycled CodeHolder + ONE set of recycled emitters, in all 16
// configurations {dynamic | static pre-dirtied arena memory} x {logger off | on} x {validation+RA diagnostics off | on}
// x {heap pattern 0x00/shift 32 | 0xA5/shift 64 (malloc/realloc/free wrapped at link time, free arena memory
// re-filled after every op)}.
//
// Oracle (differential, independent of the reset logic of the library): a pure model reduces the history to the
// list of content-producing calls made since the holder's last clean point (init / reinit); that list is replayed
// on completely fresh objects (fresh CodeHolder, a fresh emitter object for every attach, no logger, no
// validation, dynamic arena) and the observable output - return codes, sections (name, flags, alignment, order,
// offset, virtual size, bytes), labels (type, name, parent, binding, pending fixups, name lookup), relocations,
// cross-section fixups, address table, code size - must be identical in every configuration.  For the program that
// puts several functions through one Compiler::finalize() each function must additionally equal the bytes the
// same function gets when it is compiled alone by fresh objects.  ASan/UBSan are part of the oracle.
#include "vh.h"
#include <asmjit/core.h>
#include <asmjit/x86.h>
#include <asmjit/a64.h>
#include <memory>
#include <unordered_map>
#include <unordered_set>
#include <climits>
#include <fcntl.h>
#include <sys/wait.h>
#include <cerrno>
#if defined(__has_include)
#if __has_include(<sanitizer/common_interface_defs.h>)
#include <sanitizer/common_interface_defs.h>
#define C16_HAVE_DEATH_CB 1
#endif
#endif

using namespace asmjit;

// ---------------------------------------------------------------------------------------------------------------
// heap perturbation: malloc/realloc/free of every linked object (asmjit + this TU) go through these wrappers
// (-Wl,--wrap=...).  The header is self-describing so the pattern can be switched between histories.
extern "C" {
void* __real_malloc(size_t);
void* __real_realloc(void*, size_t);
void __real_free(void*);
}
static unsigned char g_fill = 0x00;
static size_t g_shift = 32;
static const uint64_t kHeapMagic = 0xC16C16A5A55A6C61ull;
static long long g_mallocs = 0;
static const size_t kFillCap = 64 * 1024;   // only the first 64 KiB of a block are patterned (all small objects live there)

#define NOASAN __attribute__((no_sanitize("address"))) __attribute__((no_sanitize("undefined")))
static NOASAN inline uint64_t* hdr_of(void* u) { return reinterpret_cast<uint64_t*>(static_cast<uint8_t*>(u) - 24); }

extern "C" NOASAN void* __wrap_malloc(size_t n) {
  size_t sh = g_shift;
  uint8_t* base = static_cast<uint8_t*>(__real_malloc(n + sh));
  if (!base) return nullptr;
  uint8_t* u = base + sh;
  uint64_t* h = hdr_of(u);
  h[0] = kHeapMagic; h[1] = n; h[2] = sh;
  memset(u, g_fill, n < kFillCap ? n : kFillCap);
  g_mallocs++;
  return u;
}
extern "C" NOASAN void __wrap_free(void* p) {
  if (!p) return;
  uint64_t* h = hdr_of(p);
  if (h[0] != kHeapMagic) { __real_free(p); return; }   // not ours (never expected)
  h[0] = 0;
  __real_free(static_cast<uint8_t*>(p) - h[2]);
}
extern "C" NOASAN void* __wrap_realloc(void* p, size_t n) {
  if (!p) return __wrap_malloc(n);
  uint64_t* h = hdr_of(p);
  if (h[0] != kHeapMagic) return __real_realloc(p, n);
  size_t old = h[1], sh = h[2];
  uint8_t* base = static_cast<uint8_t*>(__real_realloc(static_cast<uint8_t*>(p) - sh, n + sh));
  if (!base) return nullptr;
  uint8_t* u = base + sh;
  hdr_of(u)[1] = n;
  if (n > old && old < kFillCap) memset(u + old, g_fill, (n < kFillCap ? n : kFillCap) - old);
  return u;
}

// A history allocates well below 1 MiB; a 48 MiB quarantine still keeps every block freed during a history (and many
// histories before it) poisoned, while avoiding page-fault churn over the default 256 MiB.
extern "C" const char* __asan_default_options() { return "quarantine_size_mb=32:malloc_context_size=6:print_legend=0"; }

// ---------------------------------------------------------------------------------------------------------------
enum { K_A = 0, K_B = 1, K_C = 2 };
enum { AX64 = 0, AA64 = 1 };
static const char* kArchName[2] = {"x64", "a64"};
static const char* kKindName[3] = {"assembler", "builder", "compiler"};
static const char* kKindShort[3] = {"asm", "bld", "cmp"};

enum OpId {
  OP_INIT_X64, OP_INIT_A64, OP_ATT_A, OP_ATT_B, OP_ATT_C, OP_DET_A, OP_DET_B, OP_DET_C, OP_REINIT, OP_RESET_SOFT,
  OP_RESET_HARD, OP_LOGGER, OP_NEWSEC, OP_NEWLABEL, OP_FLATTEN, OP_GEN0
};
// macro ops (sequences of the primitive calls above, numbered after the generate ops):
//   recycle-soft|hard = reset(policy); init(same arch); attach(every emitter that was attached, same order)
//   reattach-K        = detach(K); attach(K)
enum GenId { G_A_P1, G_A_P2, G_A_P6, G_A_ERR, G_B_P1, G_B_P5, G_B_ERR, G_C_P3, G_C_P4, G_C_ERR, G_COUNT };
static const int kGenKind[G_COUNT] = {K_A, K_A, K_A, K_A, K_B, K_B, K_B, K_C, K_C, K_C};
static const char* kGenName[G_COUNT] = {"gen-asm-sections", "gen-asm-constpool", "gen-asm-tiny", "gen-asm-error", "gen-bld-sections",
                                        "gen-bld-edits", "gen-bld-error", "gen-cmp-spill-call", "gen-cmp-multifunc", "gen-cmp-error"};
static const int kNumPrimOps = OP_GEN0 + G_COUNT;
// (new ops are appended so that recorded replay files keep their meaning)
enum { OP_RECYCLE_SOFT = kNumPrimOps, OP_RECYCLE_HARD, OP_REATT_A, OP_REATT_B, OP_REATT_C, OP_RECYCLE_REV, OP_RECYCLE_LAST, kNumOps };

static std::string op_name(int op) {
  switch (op) {
    case OP_INIT_X64: return "init-x64";
    case OP_INIT_A64: return "init-a64";
    case OP_ATT_A: case OP_ATT_B: case OP_ATT_C: return std::string("attach-") + kKindShort[op - OP_ATT_A];
    case OP_DET_A: case OP_DET_B: case OP_DET_C: return std::string("detach-") + kKindShort[op - OP_DET_A];
    case OP_REINIT: return "reinit";
    case OP_RESET_SOFT: return "reset-soft";
    case OP_RESET_HARD: return "reset-hard";
    case OP_LOGGER: return "toggle-logger";
    case OP_NEWSEC: return "new-section";
    case OP_NEWLABEL: return "new-named-label";
    case OP_FLATTEN: return "flatten";
    case OP_RECYCLE_SOFT: return "recycle-soft";
    case OP_RECYCLE_HARD: return "recycle-hard";
    case OP_RECYCLE_REV: return "recycle-reversed";     // reset; init; attach the emitters in the REVERSE order
    case OP_RECYCLE_LAST: return "recycle-last-only";   // reset; init; attach only the emitter that was attached last
    case OP_REATT_A: case OP_REATT_B: case OP_REATT_C: return std::string("reattach-") + kKindShort[op - OP_REATT_A];
    default: return (op >= OP_GEN0 && op < kNumPrimOps) ? kGenName[op - OP_GEN0] : "?";
  }
}
static bool is_gen(int op) { return op >= OP_GEN0 && op < kNumPrimOps; }
// which emitter kind an op is about (-1: the holder)
static int op_kind(int op) {
  if (op >= OP_ATT_A && op <= OP_ATT_C) return op - OP_ATT_A;
  if (op >= OP_DET_A && op <= OP_DET_C) return op - OP_DET_A;
  if (is_gen(op)) return kGenKind[op - OP_GEN0];
  if (op >= OP_REATT_A && op <= OP_REATT_C) return op - OP_REATT_A;
  return -1;
}

// ---------------------------------------------------------------------------------------------------------------
// The model: pure bookkeeping of what the calls made so far mean.  It knows nothing about how the library resets.
enum Cls { CL_VALID, CL_INVALID, CL_NA };   // INVALID: executed, must be refused / be a no-op; NA: not executed at all

struct LogOp { char what; int arg; };   // 'A' attach kind, 'D' detach kind, 'G' gen id, 'S' new section, 'L' new label, 'F' flatten

struct Model {
  bool inited = false;
  int arch = AX64;
  bool att[3] = {false, false, false};
  bool fin[3] = {false, false, false};   // Builder/Compiler already finalized since its clean point
  bool relocated = false;                // relocate_to_base() already called since the clean point (may be called once only)
  std::vector<int> order;                // attached kinds in attach order
  std::vector<LogOp> log;                // content-relevant calls since the holder's last clean point

  Cls classify(int op) const {
    switch (op) {
      case OP_INIT_X64: case OP_INIT_A64: return inited ? CL_INVALID : CL_VALID;
      case OP_ATT_A: case OP_ATT_B: case OP_ATT_C: return (inited && !att[op - OP_ATT_A]) ? CL_VALID : CL_INVALID;
      case OP_DET_A: case OP_DET_B: case OP_DET_C: return att[op - OP_DET_A] ? CL_VALID : CL_INVALID;
      case OP_REINIT: return inited ? CL_VALID : CL_INVALID;
      case OP_RESET_SOFT: case OP_RESET_HARD: return inited ? CL_VALID : CL_INVALID;
      case OP_LOGGER: return CL_VALID;
      case OP_NEWSEC: case OP_NEWLABEL: return inited ? CL_VALID : CL_NA;
      case OP_FLATTEN: return (inited && !relocated) ? CL_VALID : CL_NA;
      case OP_RECYCLE_SOFT: case OP_RECYCLE_HARD: return inited ? CL_VALID : CL_NA;
      case OP_RECYCLE_REV: case OP_RECYCLE_LAST: return (inited && order.size() >= 2) ? CL_VALID : CL_NA;
      case OP_REATT_A: case OP_REATT_B: case OP_REATT_C: return att[op - OP_REATT_A] ? CL_VALID : CL_NA;
      default: {
        int k = kGenKind[op - OP_GEN0];
        if (!att[k]) return CL_INVALID;
        if (k != K_A && fin[k]) return CL_NA;   // a finalized Builder/Compiler must be reinitialised first (API contract)
        return CL_VALID;
      }
    }
  }
  // primitive calls an op stands for in this state
  std::vector<int> expand(int op) const {
    std::vector<int> v;
    if (op == OP_RECYCLE_SOFT || op == OP_RECYCLE_HARD) {
      v.push_back(op == OP_RECYCLE_SOFT ? OP_RESET_SOFT : OP_RESET_HARD);
      v.push_back(arch == AX64 ? OP_INIT_X64 : OP_INIT_A64);
      for (int k : order) v.push_back(OP_ATT_A + k);
    } else if (op == OP_RECYCLE_REV || op == OP_RECYCLE_LAST) {
      v.push_back(OP_RESET_HARD);
      v.push_back(arch == AX64 ? OP_INIT_X64 : OP_INIT_A64);
      if (op == OP_RECYCLE_REV) for (size_t i = order.size(); i-- > 0;) v.push_back(OP_ATT_A + order[i]);
      else v.push_back(OP_ATT_A + order.back());
    } else if (op >= OP_REATT_A && op <= OP_REATT_C) { v.push_back(OP_DET_A + (op - OP_REATT_A)); v.push_back(OP_ATT_A + (op - OP_REATT_A)); }
    else v.push_back(op);
    return v;
  }
  void apply(int op) {
    Cls c = classify(op);
    if (c != CL_VALID) return;
    if (op >= kNumPrimOps) { for (int p : expand(op)) apply(p); return; }
    switch (op) {
      case OP_INIT_X64: case OP_INIT_A64: inited = true; relocated = false; arch = op == OP_INIT_X64 ? AX64 : AA64; log.clear(); break;
      case OP_ATT_A: case OP_ATT_B: case OP_ATT_C: { int k = op - OP_ATT_A; att[k] = true; fin[k] = false; order.push_back(k); log.push_back(LogOp{'A', k}); break; }
      case OP_DET_A: case OP_DET_B: case OP_DET_C: {
        int k = op - OP_DET_A; att[k] = false; fin[k] = false;
        for (size_t i = 0; i < order.size(); i++) if (order[i] == k) { order.erase(order.begin() + i); break; }
        log.push_back(LogOp{'D', k});
        break;
      }
      case OP_REINIT: log.clear(); relocated = false; for (int k : order) { log.push_back(LogOp{'A', k}); fin[k] = false; } break;
      case OP_RESET_SOFT: case OP_RESET_HARD: inited = false; relocated = false; log.clear(); order.clear(); for (int k = 0; k < 3; k++) att[k] = fin[k] = false; break;
      case OP_LOGGER: break;
      case OP_NEWSEC: log.push_back(LogOp{'S', 0}); break;
      case OP_NEWLABEL: log.push_back(LogOp{'L', 0}); break;
      case OP_FLATTEN: relocated = true; log.push_back(LogOp{'F', 0}); break;
      default: { int g = op - OP_GEN0; if (kGenKind[g] != K_A) fin[kGenKind[g]] = true; if (g == G_A_P1 || g == G_B_P1) relocated = true; log.push_back(LogOp{'G', g}); break; }
    }
  }
  std::string log_key() const {
    std::string s = kArchName[arch]; s += '|';
    for (auto& l : log) { s += l.what; s += char('0' + l.arg); }
    return s;
  }
  std::string state_key() const {
    if (!inited) return "uninit";
    std::string s = log_key(); s += '|';
    for (int k = 0; k < 3; k++) s += char('0' + (att[k] ? 1 : 0) + (fin[k] ? 2 : 0));
    s += relocated ? 'r' : '-';
    return s;
  }
};

// ---------------------------------------------------------------------------------------------------------------
struct Errs {
  std::string s;
  void operator()(Error e) { s += std::to_string(uint32_t(e)); s += ','; }
  void flag(const char* what, bool b) { s += what; s += b ? "+," : "-,"; }
  void num(const char* what, unsigned long long v) { s += what; s += std::to_string(v); s += ','; }
};

struct Snap {
  enum { BASE, ERRS, LABELS, RELOCS, FIXUPS, ADDRTAB, LAYOUT, BYTES, NCL };
  std::string t[NCL];
};
static const char* kClauseName[Snap::NCL] = {"base-address-differ", "results-differ", "labels-differ", "relocs-differ", "fixups-differ", "addrtab-differ", "layout-differ", "bytes-differ"};

struct Dig {
  uint64_t h[Snap::NCL][2];
  bool operator==(const Dig& o) const { return memcmp(h, o.h, sizeof h) == 0; }
};
static Dig digest(const Snap& s) {
  Dig d;
  for (int i = 0; i < Snap::NCL; i++) { d.h[i][0] = vh::fnv(s.t[i].data(), s.t[i].size()); d.h[i][1] = vh::fnv(s.t[i].data(), s.t[i].size(), 0x84222325cbf29ce4ull); }
  return d;
}

static std::string fmt_format(const OffsetFormat& f) {
  char b[96];
  snprintf(b, sizeof b, "t%u.f%u.r%u.v%u.o%u.b%u.s%u.d%u", unsigned(f._type), unsigned(f._flags), unsigned(f._region_size), unsigned(f._value_size), unsigned(f._value_offset),
           unsigned(f._imm_bit_count), unsigned(f._imm_bit_shift), unsigned(f._imm_discard_lsb));
  return b;
}
static std::string fmt_expr(const Expression* e, int depth = 0) {
  if (!e) return "null";
  if (depth > 4) return "deep";
  std::string s = "(" + std::to_string(unsigned(e->op_type));
  for (int i = 0; i < 2; i++) {
    s += ' ';
    switch (e->value_type[i]) {
      case ExpressionValueType::kNone: s += "-"; break;
      case ExpressionValueType::kConstant: s += "c" + std::to_string((unsigned long long)e->value[i].constant); break;
      case ExpressionValueType::kLabel: s += "L" + std::to_string(e->value[i].label_id); break;
      case ExpressionValueType::kExpression: s += fmt_expr(e->value[i].expression, depth + 1); break;
      default: s += "?"; break;
    }
  }
  return s + ")";
}
static std::string fmt_fixups(const Fixup* f) {
  std::string s;
  int n = 0;
  for (; f && n < 64; f = f->next, n++) {
    s += "{s" + std::to_string(f->section_id) + " o" + std::to_string(f->offset) + " r" + std::to_string((long long)f->rel) + " id" + std::to_string(f->label_or_reloc_id) + " " + fmt_format(f->format) + "}";
  }
  if (f) s += "...";
  return s;
}
static void fmt_addrtab(const AddressTableEntry* n, std::string& s, int depth = 0) {
  if (!n || depth > 40) return;
  fmt_addrtab(n->left(), s, depth + 1);
  s += std::to_string((unsigned long long)n->address()) + ":" + std::to_string(n->slot()) + ",";
  fmt_addrtab(n->right(), s, depth + 1);
}

static void snapshot(CodeHolder& code, Snap& sn) {
  std::string& lay = sn.t[Snap::LAYOUT]; std::string& by = sn.t[Snap::BYTES];
  lay += "n" + std::to_string(code.section_count()) + ";";
  for (Section* s : code.sections()) {
    char b[256];
    std::string name(s->name(), strnlen(s->name(), 36));
    snprintf(b, sizeof b, "[id%u '%s' fl%u al%u or%d off%llu vs%llu sz%zu]", s->section_id(), name.c_str(), unsigned(s->flags()), s->alignment(), s->order(),
             (unsigned long long)s->offset(), (unsigned long long)s->virtual_size(), s->buffer_size());
    lay += b;
    by += "[" + std::to_string(s->section_id()) + ":" + vh::hex(s->data(), s->buffer_size()) + "]";
  }
  lay += " order:";
  for (Section* s : code.sections_by_order()) lay += std::to_string(s->section_id()) + ",";
  lay += " codesize:" + std::to_string(code.code_size());
  lay += " arch:" + std::to_string(unsigned(code.arch()));
  sn.t[Snap::BASE] += code.has_base_address() ? "base address " + std::to_string((unsigned long long)code.base_address()) : std::string("no base address");

  std::string& lb = sn.t[Snap::LABELS];
  lb += "n" + std::to_string(code.label_count()) + ";";
  uint32_t id = 0;
  for (const LabelEntry& le : code.label_entries()) {
    lb += "[" + std::to_string(id) + " t" + std::to_string(unsigned(le.label_type())) + " f" + std::to_string(unsigned(le.label_flags()));
    if (le.has_name()) {
      std::string nm(le.name(), le.name_size());
      lb += " '" + nm + "'";
      if (le.has_parent()) lb += " p" + std::to_string(le.parent_id());
      uint32_t found = code.label_id_by_name(nm.c_str(), nm.size(), le.parent_id());
      if (le.label_type() != LabelType::kAnonymous) lb += found == id ? " lookup-ok" : " lookup=" + std::to_string(found);
    }
    if (le.is_bound()) lb += " @" + std::to_string(le.section_id()) + "+" + std::to_string((unsigned long long)le.offset());
    else lb += " unbound " + fmt_fixups(le.unresolved_fixups());
    lb += "]";
    id++;
  }

  std::string& rl = sn.t[Snap::RELOCS];
  rl += "n" + std::to_string(code.reloc_entries().size()) + ";";
  for (const RelocEntry* re : code.reloc_entries()) {
    rl += "[" + std::to_string(re->id()) + " t" + std::to_string(unsigned(re->reloc_type())) + " " + fmt_format(re->format()) + " s" + std::to_string(re->source_section_id()) + " d" +
          std::to_string(re->target_section_id()) + " o" + std::to_string((unsigned long long)re->source_offset());
    if (re->reloc_type() == RelocType::kExpression) rl += " " + fmt_expr(re->payload_as_expression());
    else rl += " p" + std::to_string((unsigned long long)re->payload());
    rl += "]";
  }

  sn.t[Snap::FIXUPS] += "n" + std::to_string(code.unresolved_fixup_count()) + ";" + fmt_fixups(code._fixups);

  std::string& at = sn.t[Snap::ADDRTAB];
  if (Section* ats = code.address_table_section()) {
    // the pointer is only trusted (dereferenced) when it is one of the holder's sections
    long idx = -1;
    for (Section* s : code.sections()) if (s == ats) idx = long(s->section_id());
    at += idx >= 0 ? "sec" + std::to_string(idx) : std::string("address_table_section() is set but is none of the holder's sections (stale pointer)");
  } else at += "none";
  at += ";";
  fmt_addrtab(code._address_table_entries.root(), at);
}

// ---------------------------------------------------------------------------------------------------------------
static StringLogger g_logger;
alignas(64) static uint8_t g_static_mem[768];   // small on purpose: every program outgrows the static block, also after a reset

struct Cfg {
  bool static_arena, logger, validate; int heap;
  static Cfg of(int i) { return Cfg{(i & 1) != 0, (i & 2) != 0, (i & 4) != 0, (i >> 3) & 1}; }
  static Cfg reference() { return Cfg{false, false, false, 0}; }
  std::string str() const { return std::string(static_arena ? "static-arena" : "dynamic-arena") + (logger ? ",logger" : ",no-logger") + (validate ? ",validate" : ",no-validate") + (heap ? ",heap-A5" : ",heap-00"); }
};
static void set_heap(int mode) { g_fill = mode ? 0xA5 : 0x00; g_shift = mode ? 64 : 32; }

static void scribble_arena(Arena& a) {
  // everything from the allocation pointer to the end of the current block, and all following blocks, is free memory
  if (a._ptr && a._end > a._ptr) { size_t n = size_t(a._end - a._ptr); memset(a._ptr, g_fill, n < kFillCap ? n : kFillCap); }
  for (Arena::ManagedBlock* b = a._current_block ? a._current_block->next : nullptr; b; b = b->next)
    if (b->size) memset(b->data(), g_fill, b->size < kFillCap ? b->size : kFillCap);
}

struct EmSet {
  x86::Assembler xa; x86::Builder xb; x86::Compiler xc;
  a64::Assembler aa; a64::Builder ab; a64::Compiler ac;
};

struct Sys;
static void run_gen(Sys& s, int g, int tag, bool relocate, Errs& er);

struct Sys {
  bool fresh; Cfg cfg;
  CodeHolder code;
  std::unique_ptr<EmSet> set;                        // recycled mode: the one set of emitters that lives through the history
  std::vector<std::unique_ptr<BaseEmitter>> pool;    // fresh mode: a new object for every attach
  BaseEmitter* em[3] = {nullptr, nullptr, nullptr};
  int em_arch = AX64;
  bool logger_on = false;
  Errs errs;                                         // results of content calls since the clean point
  std::string func_fail;                             // P4 standalone clause
  long long ops_executed = 0;

  Sys(bool fresh_, const Cfg& c)
    : fresh(fresh_), cfg(c), code(c.static_arena ? Span<uint8_t>(g_static_mem, sizeof g_static_mem) : Span<uint8_t>{}) {
    if (!fresh) {
      set.reset(new EmSet());
      BaseEmitter* all[6] = {&set->xa, &set->xb, &set->xc, &set->aa, &set->ab, &set->ac};
      for (BaseEmitter* e : all) prepare(e);
      select(AX64);
    }
  }
  void prepare(BaseEmitter* e) {
    if (cfg.validate) e->add_diagnostic_options(DiagnosticOptions::kValidateAssembler | DiagnosticOptions::kValidateIntermediate | DiagnosticOptions::kRAAnnotate | DiagnosticOptions::kRADebugAll);
  }
  void select(int arch) {
    em_arch = arch;
    if (fresh) return;
    if (arch == AX64) { em[0] = &set->xa; em[1] = &set->xb; em[2] = &set->xc; }
    else { em[0] = &set->aa; em[1] = &set->ab; em[2] = &set->ac; }
  }
  BaseEmitter* make(int arch, int k) {
    BaseEmitter* e;
    if (arch == AX64) e = k == K_A ? static_cast<BaseEmitter*>(new x86::Assembler()) : k == K_B ? static_cast<BaseEmitter*>(new x86::Builder()) : static_cast<BaseEmitter*>(new x86::Compiler());
    else e = k == K_A ? static_cast<BaseEmitter*>(new a64::Assembler()) : k == K_B ? static_cast<BaseEmitter*>(new a64::Builder()) : static_cast<BaseEmitter*>(new a64::Compiler());
    pool.emplace_back(e);
    prepare(e);
    return e;
  }
  void scribble() {
    scribble_arena(code._arena);
    for (int k = 1; k < 3; k++) if (em[k]) { BaseBuilder* b = static_cast<BaseBuilder*>(em[k]); scribble_arena(b->_builder_arena); scribble_arena(b->_pass_arena); }
  }

  // Executes one op whose meaning (cls, model state before) was decided by the model; returns false with `fail`
  // when the call result contradicts the model.
  bool exec(int op, Cls cls, const Model& m, std::string& fail) {
    ops_executed++;
    char b[200];
    switch (op) {
      case OP_INIT_X64: case OP_INIT_A64: {
        int arch = op == OP_INIT_X64 ? AX64 : AA64;
        Environment env(arch == AX64 ? Arch::kX64 : Arch::kAArch64);
        Error e = code.init(env);
        if (cls == CL_VALID) {
          if (e != Error::kOk) { snprintf(b, sizeof b, "init() failed with error %u", unsigned(e)); fail = b; return false; }
          select(arch);
          errs.s.clear();
          if (cfg.logger) { code.set_logger(&g_logger); logger_on = true; }
        } else if (e == Error::kOk) { fail = "init() of an initialised holder succeeded"; return false; }
        break;
      }
      case OP_ATT_A: case OP_ATT_B: case OP_ATT_C: {
        int k = op - OP_ATT_A;
        if (fresh) em[k] = make(m.arch, k);
        Error e = code.attach(em[k]);
        if (cls == CL_VALID) { if (e != Error::kOk) { snprintf(b, sizeof b, "attach(%s) failed with error %u", kKindName[k], unsigned(e)); fail = b; return false; } }
        else if (!m.inited && e == Error::kOk) { fail = std::string("attach(") + kKindName[k] + ") to an uninitialised holder succeeded"; return false; }
        else if (m.inited && e != Error::kOk) { snprintf(b, sizeof b, "attach(%s) of an attached emitter returned error %u", kKindName[k], unsigned(e)); fail = b; return false; }
        break;
      }
      case OP_DET_A: case OP_DET_B: case OP_DET_C: {
        int k = op - OP_DET_A;
        Error e = code.detach(em[k]);
        if (cls == CL_VALID) { if (e != Error::kOk) { snprintf(b, sizeof b, "detach(%s) failed with error %u", kKindName[k], unsigned(e)); fail = b; return false; } }
        else if (e == Error::kOk) { fail = std::string("detach(") + kKindName[k] + ") of an emitter that is not attached succeeded"; return false; }
        break;
      }
      case OP_REINIT: {
        Error e = code.reinit();
        if (cls == CL_VALID) { if (e != Error::kOk) { snprintf(b, sizeof b, "reinit() failed with error %u", unsigned(e)); fail = b; return false; } errs.s.clear(); }
        else if (e == Error::kOk) { fail = "reinit() of an uninitialised holder succeeded"; return false; }
        break;
      }
      case OP_RESET_SOFT: case OP_RESET_HARD:
        code.reset(op == OP_RESET_SOFT ? ResetPolicy::kSoft : ResetPolicy::kHard);
        if (cls == CL_VALID) { logger_on = false; errs.s.clear(); }
        break;
      case OP_LOGGER:
        logger_on = !logger_on;
        code.set_logger(logger_on ? &g_logger : nullptr);
        break;
      case OP_NEWSEC: {
        int tag = int(m.log.size());
        char nm[32]; snprintf(nm, sizeof nm, ".x%d", tag);
        Section* s = nullptr;
        errs.s += "S[";
        errs(code.new_section(Out(s), nm, SIZE_MAX, SectionFlags::kNone, 8, 0));
        errs.flag("sec", s != nullptr);
        if (s) errs.num("id", s->section_id());
        errs.s += "]";
        break;
      }
      case OP_NEWLABEL: {
        int tag = int(m.log.size());
        char nm[32]; snprintf(nm, sizeof nm, "g%d", tag);
        uint32_t id = Globals::kInvalidId;
        errs.s += "L[";
        errs(code.new_named_label_id(Out(id), nm, SIZE_MAX, LabelType::kGlobal));
        errs.num("id", id);
        errs.s += "]";
        break;
      }
      case OP_FLATTEN:
        errs.s += "F[";
        errs(code.flatten()); errs(code.resolve_cross_section_fixups()); errs(code.relocate_to_base(0x40000000ull));
        errs.s += "]";
        break;
      default: {
        int g = op - OP_GEN0, k = kGenKind[g];
        if (cls == CL_INVALID) {
          // the emitter is not attached: every call must be refused
          BaseEmitter* e = em[k];
          Error r = e->emit(em_arch == AX64 ? InstId(x86::Inst::kIdNop) : InstId(a64::Inst::kIdNop));
          Label l = e->new_label();
          if (r == Error::kOk) { fail = std::string("instruction emitted through a detached ") + kKindName[k] + " succeeded"; return false; }
          if (l.is_valid()) { fail = std::string("new_label() of a detached ") + kKindName[k] + " returned a valid label"; return false; }
          break;
        }
        errs.s += "G" + std::to_string(g) + "[";
        run_gen(*this, g, int(m.log.size()), !m.relocated, errs);
        errs.s += "]";
        break;
      }
    }
    if (!fresh) scribble();
    return true;
  }
};

// ---------------------------------------------------------------------------------------------------------------
// programs
static const uint8_t kData[16] = {0xD0, 0xD1, 0xD2, 0xD3, 0xD4, 0xD5, 0xD6, 0xD7, 0xD8, 0xD9, 0xDA, 0xDB, 0xDC, 0xDD, 0xDE, 0xDF};

// A data node that is created, linked and removed again before finalize (node edit): it never reaches the output, but
// its storage is one large one-shot allocation in the builder's arena (forces extra arena blocks of different sizes,
// which a later use of the recycled emitter walks over).
static void big_detached_node(BaseBuilder* b, size_t bytes, Errs& er) {
  EmbedDataNode* n = nullptr;
  er(b->new_embed_data_node(Out(n), TypeId::kUInt8, nullptr, bytes));
  if (!n) return;
  BaseNode* cur = b->cursor();
  b->add_node(n);
  b->remove_node(n);
  b->set_cursor(cur);
}

// P1: labels + two sections of different alignment + embed_label (relocation) + label delta + absolute call
// (address table on x64) + named label, then flatten / resolve / relocate.  Through Assembler or Builder.
static void p1(Sys& s, BaseEmitter* be, bool builder, int tag, bool relocate, Errs& er) {
  CodeHolder& code = s.code;
  char nm[32]; snprintf(nm, sizeof nm, "p1d_%d", tag);
  Label L0 = be->new_label(), L1 = be->new_label();
  Label Ld = be->new_named_label(nm, SIZE_MAX, LabelType::kGlobal);
  er.num("L", L0.id()); er.num("L", L1.id()); er.num("L", Ld.id());
  Section *sd = nullptr, *sr = nullptr;
  er(code.new_section(Out(sd), ".p1data", SIZE_MAX, SectionFlags::kNone, 64, 1));
  er(code.new_section(Out(sr), ".p1ro", SIZE_MAX, SectionFlags::kReadOnly, 8, -1));
  if (!sd || !sr) { er.flag("sections", false); return; }
  if (s.em_arch == AX64) {
    x86::Emitter* e = be->as<x86::Emitter>();
    er(e->bind(L0)); er(e->mov(x86::eax, 1)); er(e->jmp(L1)); er(e->call(Imm(0x7FFF12340000ull)));
    er(e->lea(x86::rcx, x86::ptr(Ld))); er(e->mov(x86::rdx, x86::ptr(Ld, 8))); er(e->jmp(Imm(0x20000)));
    er(e->bind(L1)); er(e->ret());
  } else {
    a64::Emitter* e = be->as<a64::Emitter>();
    er(e->bind(L0)); er(e->mov(a64::w0, 1)); er(e->b(L1)); er(e->bl(Imm(0x40100000ull)));
    er(e->adr(a64::x1, Ld)); er(e->ldr(a64::x2, a64::ptr(Ld, 8)));
    er(e->bind(L1)); er(e->ret(a64::x30));
  }
  er(be->section(sd)); er(be->bind(Ld)); er(be->embed(kData, 12)); er(be->embed_label(L0, 8)); er(be->embed_label_delta(L1, L0, 4));
  er(be->section(sr)); er(be->embed_label(Ld, 8)); er(be->embed(kData + 3, 5));
  er(be->section(code.text_section()));
  er(be->emit(s.em_arch == AX64 ? InstId(x86::Inst::kIdNop) : InstId(a64::Inst::kIdNop)));
  if (builder) { big_detached_node(static_cast<BaseBuilder*>(be), 400000, er); er(be->finalize()); }
  er(code.flatten()); er(code.resolve_cross_section_fixups());
  if (relocate) er(code.relocate_to_base(0x40000000ull));   // documented: never more than once per code
}

// P2: constant pool embedded by the assembler, referenced through a label.
static void p2(Sys& s, BaseEmitter* be, Errs& er) {
  Arena ar(1024);
  ConstPool pool(ar);
  uint64_t c8 = 0x1122334455667788ull; uint32_t c4 = 0xA1B2C3D4u; size_t o8 = 0, o4 = 0, o16 = 0;
  er(pool.add(&c8, 8, Out(o8))); er(pool.add(&c4, 4, Out(o4))); er(pool.add(kData, 16, Out(o16)));
  Label Lp = be->new_label();
  er.num("L", Lp.id());
  if (s.em_arch == AX64) {
    x86::Emitter* e = be->as<x86::Emitter>();
    er(e->mov(x86::rax, x86::ptr(Lp, int32_t(o8)))); er(e->add(x86::eax, x86::dword_ptr(Lp, int32_t(o4)))); er(e->movups(x86::xmm0, x86::ptr(Lp, int32_t(o16)))); er(e->ret());
  } else {
    a64::Emitter* e = be->as<a64::Emitter>();
    er(e->ldr(a64::x0, a64::ptr(Lp, int32_t(o8)))); er(e->ldr(a64::w1, a64::ptr(Lp, int32_t(o4)))); er(e->ldr(a64::q0, a64::ptr(Lp, int32_t(o16)))); er(e->ret(a64::x30));
  }
  er(be->embed_const_pool(Lp, pool));
}

// P6: tiny text-only program.
static void p6(Sys& s, BaseEmitter* be, Errs& er) {
  if (s.em_arch == AX64) { x86::Emitter* e = be->as<x86::Emitter>(); er(e->mov(x86::eax, 42)); er(e->ret()); }
  else { a64::Emitter* e = be->as<a64::Emitter>(); er(e->mov(a64::w0, 42)); er(e->ret(a64::x30)); }
}

// assembler program that runs into errors in the middle (refused instruction, label bound twice, invalid labels)
static void perr_a(Sys& s, BaseEmitter* be, Errs& er) {
  Label L = be->new_label();
  er.num("L", L.id());
  if (s.em_arch == AX64) {
    x86::Emitter* e = be->as<x86::Emitter>();
    er(e->mov(x86::eax, 1)); er(e->emit(x86::Inst::kIdLea, x86::eax, x86::ebx)); er(e->bind(L)); er(e->add(x86::eax, 2)); er(e->bind(L));
    er(e->jmp(L)); er(e->embed_label(Label(0xFFFF0u), 8)); er(e->jmp(Label(0xFFFF1u))); er(e->ret());
  } else {
    a64::Emitter* e = be->as<a64::Emitter>();
    er(e->mov(a64::w0, 1)); er(e->emit(a64::Inst::kIdLdr, a64::w0, a64::w1)); er(e->bind(L)); er(e->add(a64::w0, a64::w0, 2)); er(e->bind(L));
    er(e->b(L)); er(e->embed_label(Label(0xFFFF0u), 8)); er(e->b(Label(0xFFFF1u))); er(e->ret(a64::x30));
  }
}

// P5: builder program with node edits (remove, insert at an earlier cursor, comments, alignment, section switch).
static void p5(Sys& s, BaseEmitter* be, int tag, Errs& er) {
  CodeHolder& code = s.code;
  BaseBuilder* b = static_cast<BaseBuilder*>(be);
  char nm[32]; snprintf(nm, sizeof nm, "p5_%d", tag);
  BaseNode *n1 = nullptr, *n2 = nullptr;
  Label L, Lx;
  if (s.em_arch == AX64) {
    x86::Emitter* e = be->as<x86::Emitter>();
    er(e->mov(x86::eax, 1)); n1 = b->cursor(); er(e->add(x86::eax, 2)); n2 = b->cursor(); er(e->sub(x86::eax, 3));
    L = be->new_label(); er(be->bind(L)); er(e->dec(x86::eax)); er(e->jnz(L));
    BaseNode* last = b->cursor();
    if (n2 && n2 != n1) b->remove_node(n2);
    if (n1) b->set_cursor(n1);
    er(e->imul(x86::eax, x86::eax, 5));
    b->set_cursor(last);
    be->set_inline_comment("p5-inline"); er(e->xor_(x86::edx, x86::edx));
  } else {
    a64::Emitter* e = be->as<a64::Emitter>();
    er(e->mov(a64::w0, 1)); n1 = b->cursor(); er(e->add(a64::w0, a64::w0, 2)); n2 = b->cursor(); er(e->sub(a64::w0, a64::w0, 3));
    L = be->new_label(); er(be->bind(L)); er(e->sub(a64::w0, a64::w0, 1)); er(e->cbnz(a64::w0, L));
    BaseNode* last = b->cursor();
    if (n2 && n2 != n1) b->remove_node(n2);
    if (n1) b->set_cursor(n1);
    er(e->mul(a64::w0, a64::w0, a64::w0));
    b->set_cursor(last);
    be->set_inline_comment("p5-inline"); er(e->eor(a64::w2, a64::w2, a64::w2));
  }
  big_detached_node(b, 200000, er); big_detached_node(b, 300000, er);
  er(be->comment("p5 comment")); er(be->align(AlignMode::kCode, 16)); er(be->embed(kData, 4));
  Section* s5 = nullptr;
  er(code.new_section(Out(s5), ".p5", SIZE_MAX, SectionFlags::kNone, 16, 2));
  if (s5) {
    er(be->section(s5)); er(be->embed(kData, 7));
    Lx = be->new_named_label(nm, SIZE_MAX, LabelType::kGlobal); er.num("L", Lx.id());
    er(be->bind(Lx)); er(be->embed_label(L, 8));
    er(be->section(code.text_section()));
  }
  if (s.em_arch == AX64) { x86::Emitter* e = be->as<x86::Emitter>(); er(e->lea(x86::rax, x86::ptr(Lx))); er(e->ret()); }
  else { a64::Emitter* e = be->as<a64::Emitter>(); er(e->adr(a64::x0, Lx)); er(e->ret(a64::x30)); }
  er(be->finalize());
}

// builder program whose serialization fails in the middle (reference to a label that does not exist)
static void perr_b(Sys& s, BaseEmitter* be, Errs& er) {
  if (s.em_arch == AX64) { x86::Emitter* e = be->as<x86::Emitter>(); er(e->mov(x86::eax, 7)); er(be->embed_label(Label(0xFFFF0u), 8)); er(e->mov(x86::ecx, 9)); er(e->ret()); }
  else { a64::Emitter* e = be->as<a64::Emitter>(); er(e->mov(a64::w0, 7)); er(be->embed_label(Label(0xFFFF0u), 8)); er(e->mov(a64::w1, 9)); er(e->ret(a64::x30)); }
  er(be->finalize());
}

// ---- compiler programs ----
// P3 x64: 14 live values across a call (spills), local + global constant pool, annotated indirect jump, jump table.
static void p3_x64(x86::Compiler& cc, Errs& er) {
  FuncNode* f = cc.add_func(FuncSignature::build<int, int, void*>());
  if (!f) { er.flag("func", false); return; }
  x86::Gp a = cc.new_gp32("a"), p = cc.new_gp_ptr("p");
  f->set_arg(0, a); f->set_arg(1, p);
  x86::Gp v[14];
  for (int i = 0; i < 14; i++) { v[i] = cc.new_gp32("v%d", i); er(cc.mov(v[i], a)); er(cc.add(v[i], i + 1)); }
  InvokeNode* inv = nullptr;
  er(cc.invoke(Out(inv), Imm(0x7FFF00001000ull), FuncSignature::build<int, int, int>()));
  if (inv) { inv->set_arg(0, v[0]); inv->set_arg(1, v[1]); inv->set_ret(0, a); }
  for (int i = 0; i < 14; i++) er(cc.add(a, v[i]));
  er(cc.add(a, x86::dword_ptr(p, 4)));
  x86::Mem c1 = cc.new_int32_const(ConstPoolScope::kLocal, 0x11223344); er(cc.add(a, c1));
  x86::Mem c2 = cc.new_int64_const(ConstPoolScope::kGlobal, 0x0102030405060708ll);
  x86::Gp t = cc.new_gp64("t"); er(cc.mov(t, c2)); er(cc.add(a, t.r32()));
  Label LT = cc.new_label(), LA = cc.new_label(), LB = cc.new_label(), LE = cc.new_label();
  x86::Gp tgt = cc.new_gp_ptr("tgt"), off = cc.new_gp_ptr("off"), idx = cc.new_gp_ptr("idx");
  er(cc.lea(off, x86::ptr(LT))); er(cc.mov(idx.r32(), a)); er(cc.and_(idx.r32(), 1));
  er(cc.movsxd(tgt, x86::dword_ptr(off, idx, 2))); er(cc.add(tgt, off));
  JumpAnnotation* ann = cc.new_jump_annotation();
  if (ann) { er.num("ann", ann->annotation_id()); er(ann->add_label(LA)); er(ann->add_label(LB)); er(cc.jmp(tgt, ann)); } else er.flag("annotation", false);
  er(cc.bind(LA)); er(cc.add(a, 1)); er(cc.jmp(LE));
  er(cc.bind(LB)); er(cc.sub(a, 1));
  er(cc.bind(LE)); er(cc.ret(a));
  er(cc.end_func());
  er(cc.bind(LT)); er(cc.embed_label_delta(LA, LT, 4)); er(cc.embed_label_delta(LB, LT, 4));
  er(cc.finalize());
}
static void p3_a64(a64::Compiler& cc, Errs& er) {
  FuncNode* f = cc.add_func(FuncSignature::build<int, int, void*>());
  if (!f) { er.flag("func", false); return; }
  a64::Gp a = cc.new_gp32("a"), p = cc.new_gp_ptr("p");
  f->set_arg(0, a); f->set_arg(1, p);
  a64::Gp v[6];
  for (int i = 0; i < 6; i++) { v[i] = cc.new_gp32("v%d", i); er(cc.add(v[i], a, i + 1)); }
  InvokeNode* inv = nullptr;
  a64::Gp fn = cc.new_gp_ptr("fn"); er(cc.mov(fn, 0x7FFF00001000ull));
  er(cc.invoke(Out(inv), fn, FuncSignature::build<int, int, int>()));
  if (inv) { inv->set_arg(0, v[0]); inv->set_arg(1, v[1]); inv->set_ret(0, a); }
  for (int i = 0; i < 6; i++) er(cc.add(a, a, v[i]));
  a64::Gp q = cc.new_gp32("q"); er(cc.ldr(q, a64::ptr(p, 4))); er(cc.add(a, a, q));
  a64::Mem c1 = cc.new_int32_const(ConstPoolScope::kLocal, 0x11223344); a64::Gp t = cc.new_gp32("t"); er(cc.ldr(t, c1)); er(cc.add(a, a, t));
  a64::Mem c2 = cc.new_int64_const(ConstPoolScope::kGlobal, 0x0102030405060708ll); a64::Gp u = cc.new_gp64("u"); er(cc.ldr(u, c2)); er(cc.add(a, a, u.w()));
  Label LT = cc.new_label(), LA = cc.new_label(), LB = cc.new_label(), LE = cc.new_label();
  a64::Gp tgt = cc.new_gp_ptr("tgt"), off = cc.new_gp_ptr("off"), idx = cc.new_gp32("idx");
  er(cc.adr(tgt, LT)); er(cc.and_(idx, a, 1)); er(cc.ldrsw(off, a64::ptr(tgt, idx, a64::sxtw(2)))); er(cc.add(tgt, tgt, off));
  JumpAnnotation* ann = cc.new_jump_annotation();
  if (ann) { er.num("ann", ann->annotation_id()); er(ann->add_label(LA)); er(ann->add_label(LB)); er(cc.br(tgt, ann)); } else er.flag("annotation", false);
  er(cc.bind(LA)); er(cc.add(a, a, 1)); er(cc.b(LE));
  er(cc.bind(LB)); er(cc.sub(a, a, 1));
  er(cc.bind(LE)); er(cc.ret(a));
  er(cc.end_func());
  er(cc.bind(LT)); er(cc.embed_label_delta(LA, LT, 4)); er(cc.embed_label_delta(LB, LT, 4));
  er(cc.finalize());
}

// P4 functions (all position independent before relocation): 0 heavy (x64: cpuid -> rbx; a64: 24 live values),
// 1 light "return 1", 2 heavy (high register pressure + call), 3 light "return a + b".
static Label p4_func_x64(x86::Compiler& cc, int j, Errs& er) {
  if (j == 0) {
    FuncNode* f = cc.add_func(FuncSignature::build<int, int>());
    if (!f) return Label();
    x86::Gp arg = cc.new_gp32("arg"); f->set_arg(0, arg);
    x86::Gp a = cc.new_gp32("a"), b = cc.new_gp32("b"), c = cc.new_gp32("c"), d = cc.new_gp32("d");
    er(cc.mov(a, arg)); er(cc.xor_(c, c)); er(cc.cpuid(a, b, c, d)); er(cc.add(a, b)); er(cc.add(a, c)); er(cc.add(a, d));
    // one virtual register of every other register group (vector, mask, MMX): the per-function cleanup covers all of them
    x86::Vec xv = cc.new_xmm("xv"); x86::KReg kv = cc.new_kw("kv"); x86::Mm mv = cc.new_mm("mv");
    er(cc.movd(xv, a)); er(cc.paddd(xv, xv)); er(cc.movd(b, xv)); er(cc.add(a, b));
    er(cc.kmovw(kv, a)); er(cc.kmovw(b, kv)); er(cc.add(a, b));
    er(cc.movd(mv, a)); er(cc.paddd(mv, mv)); er(cc.movd(b, mv)); er(cc.add(a, b)); er(cc.emms());
    er(cc.ret(a)); er(cc.end_func());
    return f->label();
  }
  if (j == 1) {
    FuncNode* f = cc.add_func(FuncSignature::build<int>());
    if (!f) return Label();
    x86::Gp r = cc.new_gp32("r"); er(cc.mov(r, 1)); er(cc.ret(r)); er(cc.end_func());
    return f->label();
  }
  if (j == 2) {
    FuncNode* f = cc.add_func(FuncSignature::build<int, int>());
    if (!f) return Label();
    x86::Gp arg = cc.new_gp32("arg"); f->set_arg(0, arg);
    x86::Gp v[13];
    for (int i = 0; i < 13; i++) { v[i] = cc.new_gp32("w%d", i); er(cc.mov(v[i], arg)); er(cc.add(v[i], i + 1)); }
    InvokeNode* inv = nullptr;
    er(cc.invoke(Out(inv), Imm(0x7FFF00002000ull), FuncSignature::build<int, int>()));
    if (inv) { inv->set_arg(0, v[3]); inv->set_ret(0, arg); }
    for (int i = 1; i < 13; i++) er(cc.imul(v[0], v[i]));
    er(cc.add(v[0], arg)); er(cc.ret(v[0])); er(cc.end_func());
    return f->label();
  }
  FuncNode* f = cc.add_func(FuncSignature::build<int, int, int>());
  if (!f) return Label();
  x86::Gp a = cc.new_gp32("a"), b = cc.new_gp32("b"); f->set_arg(0, a); f->set_arg(1, b);
  er(cc.add(a, b)); er(cc.ret(a)); er(cc.end_func());
  return f->label();
}
static Label p4_func_a64(a64::Compiler& cc, int j, Errs& er) {
  if (j == 0 || j == 2) {
    FuncNode* f = cc.add_func(FuncSignature::build<int, int>());
    if (!f) return Label();
    a64::Gp arg = cc.new_gp32("arg"); f->set_arg(0, arg);
    const int n = j == 0 ? 24 : 20;
    a64::Gp v[24];
    for (int i = 0; i < n; i++) { v[i] = cc.new_gp32("v%d", i); er(cc.add(v[i], arg, i + 1)); }
    if (j == 2) {
      InvokeNode* inv = nullptr;
      a64::Gp fn = cc.new_gp_ptr("fn"); er(cc.mov(fn, 0x7FFF00002000ull));
      er(cc.invoke(Out(inv), fn, FuncSignature::build<int, int>()));
      if (inv) { inv->set_arg(0, v[3]); inv->set_ret(0, arg); }
    }
    for (int i = 1; i < n; i++) er(cc.mul(v[0], v[0], v[i]));
    er(cc.add(v[0], v[0], arg)); er(cc.ret(v[0])); er(cc.end_func());
    return f->label();
  }
  if (j == 1) {
    FuncNode* f = cc.add_func(FuncSignature::build<int>());
    if (!f) return Label();
    a64::Gp r = cc.new_gp32("r"); er(cc.mov(r, 1)); er(cc.ret(r)); er(cc.end_func());
    return f->label();
  }
  FuncNode* f = cc.add_func(FuncSignature::build<int, int, int>());
  if (!f) return Label();
  a64::Gp a = cc.new_gp32("a"), b = cc.new_gp32("b"); f->set_arg(0, a); f->set_arg(1, b);
  er(cc.add(a, a, b)); er(cc.ret(a)); er(cc.end_func());
  return f->label();
}

// bytes of function j compiled alone by completely fresh objects (memoised)
static const std::string& p4_standalone(int arch, int j) {
  static std::map<int, std::string> memo;
  int key = arch * 8 + j;
  auto it = memo.find(key);
  if (it != memo.end()) return it->second;
  unsigned char sf = g_fill; size_t ss = g_shift;
  set_heap(0);
  std::string out;
  {
    CodeHolder code; Errs er;
    Environment env(arch == AX64 ? Arch::kX64 : Arch::kAArch64);
    code.init(env);
    Label l; Error fe;
    if (arch == AX64) { x86::Compiler cc(&code); l = p4_func_x64(cc, j, er); fe = cc.finalize(); }
    else { a64::Compiler cc(&code); l = p4_func_a64(cc, j, er); fe = cc.finalize(); }
    if (fe != Error::kOk || !code.is_label_valid(l) || !code.is_label_bound(l)) { fprintf(stderr, "c16: standalone function %d/%s does not compile (error %u)\n", j, kArchName[arch], unsigned(fe)); exit(2); }
    size_t b = size_t(code.label_offset(l)), e = code.text_section()->buffer_size();
    out = vh::hex(code.text_section()->data() + b, e - b);
  }
  g_fill = sf; g_shift = ss;
  return memo[key] = out;
}

static void p4(Sys& s, BaseEmitter* be, Errs& er) {
  Label l[4];
  Error fe;
  if (s.em_arch == AX64) { x86::Compiler& cc = *static_cast<x86::Compiler*>(be); for (int j = 0; j < 4; j++) l[j] = p4_func_x64(cc, j, er); fe = cc.finalize(); }
  else { a64::Compiler& cc = *static_cast<a64::Compiler*>(be); for (int j = 0; j < 4; j++) l[j] = p4_func_a64(cc, j, er); fe = cc.finalize(); }
  er(fe);
  if (s.fresh || fe != Error::kOk) return;
  CodeHolder& code = s.code;
  Section* text = code.text_section();
  for (int j = 0; j < 4; j++) if (!code.is_label_valid(l[j]) || !code.is_label_bound(l[j]) || code.label_entry_of(l[j]).section_id() != 0) return;   // reported by the differential clauses
  for (int j = 0; j < 4 && s.func_fail.empty(); j++) {
    size_t b = size_t(code.label_offset(l[j])), e = j < 3 ? size_t(code.label_offset(l[j + 1])) : text->buffer_size();
    if (b > e || e > text->buffer_size()) { s.func_fail = "function " + std::to_string(j) + " of the multi-function program has an impossible extent"; break; }
    std::string got = vh::hex(text->data() + b, e - b);
    const std::string& want = p4_standalone(s.em_arch, j);
    static const char* fn[4] = {"heavy#0", "light#1 (return 1)", "heavy#2 (pressure+call)", "light#3 (return a+b)"};
    if (got != want) s.func_fail = std::string("function ") + fn[j] + " compiled after " + std::to_string(j) + " other function(s) in one finalize() is " + got + ", compiled alone by fresh objects it is " + want;
  }
}

// compiler program that is abandoned in the middle: an open function that already uses the local and the global
// constant pool and a jump annotation runs into an emitter error (constant pool scope that does not exist); the
// user gives up - no end_func(), no finalize().  Only labels reach the holder.
static void perr_c(Sys& s, BaseEmitter* be, Errs& er) {
  uint32_t x = 0x55667788u;
  if (s.em_arch == AX64) {
    x86::Compiler& cc = *static_cast<x86::Compiler*>(be);
    FuncNode* f = cc.add_func(FuncSignature::build<int, int>());
    if (!f) { er.flag("func", false); return; }
    x86::Gp a = cc.new_gp32("a"); f->set_arg(0, a);
    x86::Mem c1 = cc.new_int32_const(ConstPoolScope::kLocal, 0x55667788); er(cc.add(a, c1));
    x86::Mem c2 = cc.new_int64_const(ConstPoolScope::kGlobal, 0x1020304050607080ll); x86::Gp t = cc.new_gp64("t"); er(cc.mov(t, c2));
    JumpAnnotation* ann = cc.new_jump_annotation(); er.flag("annotation", ann != nullptr); if (ann) er.num("ann", ann->annotation_id());
    Label L = cc.new_label(); er.num("L", L.id()); if (ann) er(ann->add_label(L));
    x86::Mem bad = cc.new_const(ConstPoolScope(5), &x, 4); er.flag("bad-const-refused", bad.is_none());
  } else {
    a64::Compiler& cc = *static_cast<a64::Compiler*>(be);
    FuncNode* f = cc.add_func(FuncSignature::build<int, int>());
    if (!f) { er.flag("func", false); return; }
    a64::Gp a = cc.new_gp32("a"); f->set_arg(0, a);
    a64::Mem c1 = cc.new_int32_const(ConstPoolScope::kLocal, 0x55667788); a64::Gp t = cc.new_gp32("t"); er(cc.ldr(t, c1)); er(cc.add(a, a, t));
    a64::Mem c2 = cc.new_int64_const(ConstPoolScope::kGlobal, 0x1020304050607080ll); a64::Gp u = cc.new_gp64("u"); er(cc.ldr(u, c2));
    JumpAnnotation* ann = cc.new_jump_annotation(); er.flag("annotation", ann != nullptr); if (ann) er.num("ann", ann->annotation_id());
    Label L = cc.new_label(); er.num("L", L.id()); if (ann) er(ann->add_label(L));
    a64::Mem bad = cc.new_const(ConstPoolScope(5), &x, 4); er.flag("bad-const-refused", bad.is_none());
  }
}

static void run_gen(Sys& s, int g, int tag, bool relocate, Errs& er) {
  BaseEmitter* be = s.em[kGenKind[g]];
  switch (g) {
    case G_A_P1: p1(s, be, false, tag, relocate, er); break;
    case G_A_P2: p2(s, be, er); break;
    case G_A_P6: p6(s, be, er); break;
    case G_A_ERR: perr_a(s, be, er); break;
    case G_B_P1: p1(s, be, true, tag, relocate, er); break;
    case G_B_P5: p5(s, be, tag, er); break;
    case G_B_ERR: perr_b(s, be, er); break;
    case G_C_P3: if (s.em_arch == AX64) p3_x64(*static_cast<x86::Compiler*>(be), er); else p3_a64(*static_cast<a64::Compiler*>(be), er); break;
    case G_C_P4: p4(s, be, er); break;
    case G_C_ERR: perr_c(s, be, er); break;
  }
}

// ---------------------------------------------------------------------------------------------------------------
// reference: the normalized call list on completely fresh objects
static long long g_ref_runs = 0;
static void run_reference(const Model& m, Snap& out) {
  unsigned char sf = g_fill; size_t ss = g_shift;
  set_heap(0);
  {
    Sys s(true, Cfg::reference());
    Model rm; std::string fail;
    int init_op = m.arch == AX64 ? OP_INIT_X64 : OP_INIT_A64;
    auto step = [&](int op) {
      Cls c = rm.classify(op);
      if (c != CL_VALID || !s.exec(op, c, rm, fail)) { fprintf(stderr, "c16: reference replay refused %s on fresh objects: %s (log %s)\n", op_name(op).c_str(), fail.c_str(), m.log_key().c_str()); exit(2); }
      rm.apply(op);
    };
    step(init_op);
    for (const LogOp& l : m.log) {
      switch (l.what) {
        case 'A': step(OP_ATT_A + l.arg); break;
        case 'D': step(OP_DET_A + l.arg); break;
        case 'G': step(OP_GEN0 + l.arg); break;
        case 'S': step(OP_NEWSEC); break;
        case 'L': step(OP_NEWLABEL); break;
        case 'F': step(OP_FLATTEN); break;
      }
    }
    if (rm.log_key() != m.log_key()) { fprintf(stderr, "c16: reference replay diverged from the model (%s vs %s)\n", rm.log_key().c_str(), m.log_key().c_str()); exit(2); }
    out.t[Snap::ERRS] = s.errs.s;
    snapshot(s.code, out);
  }
  g_fill = sf; g_shift = ss;
  g_ref_runs++;
}
static const Dig& reference_digest(const Model& m) {
  static std::unordered_map<std::string, Dig> memo;
  std::string k = m.log_key();
  auto it = memo.find(k);
  if (it != memo.end()) return it->second;
  Snap s; run_reference(m, s);
  return memo[k] = digest(s);
}

static std::string first_diff(const std::string& a, const std::string& b) {
  size_t i = 0;
  while (i < a.size() && i < b.size() && a[i] == b[i]) i++;
  size_t from = i > 40 ? i - 40 : 0;
  return "at char " + std::to_string(i) + ": recycled ..." + a.substr(from, 120) + "... fresh ..." + b.substr(from, 120) + "...";
}

// ---------------------------------------------------------------------------------------------------------------
struct Outcome { bool ok = true; std::string clause, desc; int arch = -1; };

static std::string hist_names(const std::vector<int>& h) { std::string s; for (size_t i = 0; i < h.size(); i++) { if (i) s += ";"; s += op_name(h[i]); } return s; }
static std::string hist_ops(const std::vector<int>& h) { std::string s; for (size_t i = 0; i < h.size(); i++) { if (i) s += ","; s += std::to_string(h[i]); } return s; }
static std::string replay_text(int cfg, const std::vector<int>& h) {   // cfg < 0: all configurations
  return "harness=c16_reuse\ncfg=" + std::to_string(cfg) + "\nops=" + hist_ops(h) + "\n# " + (cfg >= 0 ? Cfg::of(cfg).str() : std::string("all configurations")) + " :: " + hist_names(h) + "\n";
}

// runs one history on recycled objects in one configuration and evaluates the oracle on the final state
static Outcome run_history(int cfg_i, const std::vector<int>& h) {
  vh::Ctx& c = vh::ctx();
  Outcome o;
  Cfg cfg = Cfg::of(cfg_i);
  set_heap(cfg.heap);
  if (cfg.static_arena) memset(g_static_mem, 0xA5, sizeof g_static_mem);
  g_logger.clear();
  Model m;
  {
    Sys s(false, cfg);
    for (size_t i = 0; i < h.size() && o.ok; i++) {
      if (m.classify(h[i]) == CL_NA) continue;
      for (int p : m.expand(h[i])) {
        Cls cl = m.classify(p);
        std::string fail;
        if (!s.exec(p, cl, m, fail)) { o.ok = false; o.clause = "call-result"; o.desc = fail; o.arch = m.inited ? m.arch : -1; break; }
        m.apply(p);
      }
      if (g_logger.data_size() > (1u << 20)) g_logger.clear();
    }
    c.n("transitions") += s.ops_executed;
    if (o.ok && !s.func_fail.empty()) { o.ok = false; o.clause = "func-bytes-differ"; o.desc = s.func_fail; o.arch = m.arch; }
    if (o.ok && m.inited) {
      o.arch = m.arch;
      Snap got; got.t[Snap::ERRS] = s.errs.s;
      snapshot(s.code, got);
      c.n("evaluations")++;
      const Dig& want = reference_digest(m);
      Dig gd = digest(got);
      if (!(gd == want)) {
        Snap ref; run_reference(m, ref);
        for (int i = 0; i < Snap::NCL; i++) if (got.t[i] != ref.t[i]) {
          o.ok = false; o.clause = kClauseName[i]; o.desc = first_diff(got.t[i], ref.t[i]);
          if (i == Snap::ERRS) {
            // name what kind of call result differs first: an id handed out by the library or a return code
            auto a = vh::split(got.t[i], ','), b = vh::split(ref.t[i], ',');
            for (size_t j = 0; j < a.size() && j < b.size(); j++) if (a[j] != b[j]) {
              size_t br = a[j].rfind('['); std::string tok = br == std::string::npos ? a[j] : a[j].substr(br + 1);
              if (tok.rfind("ann", 0) == 0) o.clause = "annotation-id-differs";
              else if (tok.rfind("L", 0) == 0 || tok.rfind("id", 0) == 0) o.clause = "label-or-section-id-differs";
              else o.clause = "return-code-differs";
              break;
            }
          }
          break;
        }
        if (o.ok) { fprintf(stderr, "c16: digest mismatch without text mismatch (nondeterministic reference?) log %s\n", m.log_key().c_str()); exit(2); }
      }
    } else if (o.ok) {
      // uninitialised holder: nothing may be left attached / visible
      if (s.code.section_count() != 0 || s.code.label_count() != 0 || s.code.attached_first() != nullptr) { o.ok = false; o.clause = "uninit-not-empty"; o.desc = "an uninitialised holder still shows sections, labels or attached emitters"; }
    }
  }
  c.n("traces")++;
  return o;
}

static vh::Violation make_violation(int cfg_i, const std::vector<int>& h, const Outcome& o) {
  // key: reuse:<arch>:<emitter>:<clause>:<op>.  When the history ends with a generate (the "final program") <emitter>
  // is the emitter that generated it and <op> the op that precedes it; otherwise <op> is the last op itself (the
  // difference is visible right after it) and <emitter> the emitter that op is about, or "holder".
  int last = h.back();
  bool final_gen = is_gen(last);
  int k = op_kind(last);
  std::string opn = final_gen ? (h.size() >= 2 ? op_name(h[h.size() - 2]) : std::string("start")) : op_name(last);
  std::string key = std::string("reuse:") + (o.arch >= 0 ? kArchName[o.arch] : "none") + ":" + (k >= 0 ? kKindName[k] : "holder") + ":" + o.clause + ":" + opn;
  std::string cfgs = cfg_i >= 0 ? "in configuration {" + Cfg::of(cfg_i).str() + "}" : std::string("(configuration unknown)");
  return vh::Violation{key, o.clause + " after history [" + hist_names(h) + "] " + cfgs + ": " + o.desc, replay_text(cfg_i, h)};
}

// ---------------------------------------------------------------------------------------------------------------
// Exhaustive DFS over histories.  A history is executed (all configurations) when it is visited; the subtree of a
// violating history is not expanded.  Sharding: a subtree rooted at a 3-op prefix belongs to one shard; shorter
// histories are executed by every shard (needed for the pruning decision) but counted by one.
//
// The DFS runs in a forked worker that streams its results to the supervisor (this process).  A sanitizer abort
// or a wild crash caused by residue then costs one history: the supervisor turns the worker's stderr into a
// violation with a harness-made key and starts a new worker that resumes right after that history.
static std::string esc(const std::string& x) { std::string o; for (char ch : x) { if (ch == '\\') o += "\\\\"; else if (ch == '\n') o += "\\n"; else if (ch == '\t') o += "\\t"; else o += ch; } return o; }
static std::string unesc(const std::string& x) { std::string o; for (size_t i = 0; i < x.size(); i++) { if (x[i] == '\\' && i + 1 < x.size()) { char n = x[++i]; o += n == 'n' ? '\n' : n == 't' ? '\t' : n; } else o += x[i]; } return o; }

struct Worker {
  int depth = 3, budget = 1, ncfg = 16;
  FILE* out = nullptr;         // result stream to the supervisor
  int errfd = -1;              // scratch file behind fd 2 (truncated before every history)
  std::vector<int> h;
  std::vector<int> resume;     // history the previous worker died in (empty: start from the beginning)
  bool resuming = false;
  bool stop = false;
  long long visited = 0;

  static uint32_t hash_prefix(const std::vector<int>& h, size_t n) { uint32_t x = 2166136261u; for (size_t i = 0; i < n && i < h.size(); i++) { x ^= uint32_t(h[i] + 1); x *= 16777619u; } x ^= x >> 15; return x; }

  bool run_all(const Model& m, bool counted) {
    vh::Ctx& c = vh::ctx();
    if (ftruncate(errfd, 0) != 0 || lseek(errfd, 0, SEEK_SET) != 0) { /* keep going: only crash attribution suffers */ }
    fprintf(out, "H %c %d %s\n", counted ? 'c' : 'u', m.inited ? m.arch : -1, hist_ops(h).c_str());
    c.counters.clear();
    long long mallocs0 = g_mallocs, refs0 = g_ref_runs;
    bool all_ok = true;
    for (int ci = 0; ci < ncfg; ci++) {
      fprintf(out, "P %d\n", ci); fflush(out);
      vh::set_case(replay_text(ci, h));
      Outcome o = run_history(ci, h);
      if (!o.ok) {
        all_ok = false;
        if (counted) { vh::Violation v = make_violation(ci, h, o); fprintf(out, "V %s\t%s\t%s\n", esc(v.key).c_str(), esc(v.desc).c_str(), esc(v.replay).c_str()); }
      }
    }
    if (counted) {
      c.n("heap_blocks_patterned") += g_mallocs - mallocs0;
      c.n("reference_replays") += g_ref_runs - refs0;
      c.n("traces") += g_ref_runs - refs0;
      c.n("states")++;
      if (m.inited) c.n("distinct_nontrivial")++;
      if (!all_ok) c.n("violating_histories_not_expanded")++;
      for (auto& kv : c.counters) fprintf(out, "C %s %lld\n", kv.first.c_str(), kv.second);
      if (all_ok && (visited % 1499) == 0) fprintf(out, "S %s\n", hist_names(h).c_str());
      visited++;
    }
    fprintf(out, "E\n");
    return all_ok;
  }

  void rec(const Model& m, int invalid_used) {
    vh::Ctx& c = vh::ctx();
    bool last_level = int(h.size()) == depth;
    for (int op = last_level ? OP_GEN0 : 0; op < (last_level ? kNumPrimOps : kNumOps) && !stop; op++) {
      Cls cl = m.classify(op);
      if (cl == CL_NA) continue;
      if (last_level && cl != CL_VALID) continue;
      if (cl == CL_INVALID && invalid_used >= budget) continue;
      size_t L = h.size();
      if (resuming) {
        // everything up to and including `resume` (DFS pre-order) has been dealt with by an earlier worker
        if (L >= resume.size() || op < resume[L]) continue;
        if (op == resume[L] && L + 1 == resume.size()) { resuming = false; continue; }   // the history that ended the previous worker: violating, not expanded
        if (op == resume[L]) { Model m2 = m; m2.apply(op); h.push_back(op); rec(m2, invalid_used + (cl == CL_INVALID ? 1 : 0)); h.pop_back(); resuming = false; continue; }
        resuming = false;   // (not reached: the resume path is always found)
      }
      h.push_back(op);
      bool subtree_mine = h.size() < 3 || c.mine(hash_prefix(h, 3));
      if (subtree_mine) {
        if (c.out_of_time()) { stop = true; fprintf(out, "T\n"); h.pop_back(); break; }
        Model m2 = m; m2.apply(op);
        bool counted = h.size() >= 3 || c.mine(hash_prefix(h, h.size()));
        bool ok = run_all(m2, counted);
        if (ok && !last_level) rec(m2, invalid_used + (cl == CL_INVALID ? 1 : 0));
      }
      h.pop_back();
    }
  }
};

struct Supervisor {
  int depth = 3, budget = 1, ncfg = 16;
  std::string errpath; int errfd = -1;

  // turns the stderr of a dead worker into an outcome (clause + description)
  static Outcome classify_death(const std::string& err, int status, int arch) {
    Outcome o; o.ok = false; o.arch = arch;
    size_t p;
    if ((p = err.find("ERROR: AddressSanitizer: ")) != std::string::npos) { size_t q = p + 25, e = err.find_first_of(" \n", q); o.clause = "asan-" + err.substr(q, e == std::string::npos ? 40 : e - q); }
    else if ((p = err.find("runtime error: ")) != std::string::npos) o.clause = "ubsan";
    else if (WIFSIGNALED(status)) o.clause = WTERMSIG(status) == SIGALRM ? std::string("hang") : "signal-" + std::to_string(WTERMSIG(status));
    else o.clause = "abnormal-exit-" + std::to_string(WIFEXITED(status) ? WEXITSTATUS(status) : -1);
    if (p != std::string::npos) { size_t e = err.find('\n', p); o.desc = err.substr(p, (e == std::string::npos ? err.size() : e) - p).substr(0, 200); }
    int frames = 0; size_t pos = 0;
    while (frames < 4 && (pos = err.find(" in ", pos)) != std::string::npos) {
      size_t e = err.find('\n', pos); std::string ln = err.substr(pos + 4, (e == std::string::npos ? err.size() : e) - pos - 4);
      if (ln.find("/asmjit/") != std::string::npos && ln.find("/verif/") == std::string::npos) { o.desc += " | " + ln.substr(0, 160); frames++; }
      pos = e == std::string::npos ? err.size() : e;
    }
    // addresses differ from run to run (ASLR): keep the description reproducible
    std::string d; d.reserve(o.desc.size());
    for (size_t i = 0; i < o.desc.size(); i++) {
      if (o.desc[i] == '0' && i + 1 < o.desc.size() && o.desc[i + 1] == 'x') { d += "0x.."; i += 2; while (i < o.desc.size() && isxdigit((unsigned char)o.desc[i])) i++; i--; }
      else d += o.desc[i];
    }
    o.desc = d;
    return o;
  }

  void run() {
    vh::Ctx& c = vh::ctx();
    std::vector<int> resume;
    int deaths = 0;
    for (;;) {
      int pfd[2];
      if (pipe(pfd) != 0) { perror("pipe"); exit(2); }
      fflush(nullptr);
      pid_t pid = fork();
      if (pid < 0) { perror("fork"); exit(2); }
      if (pid == 0) {
        close(pfd[0]);
        dup2(errfd, 2);
        Worker w; w.depth = depth; w.budget = budget; w.ncfg = ncfg; w.errfd = errfd; w.out = fdopen(pfd[1], "w");
        w.resume = resume; w.resuming = !resume.empty();
        w.rec(Model(), 0);
        fprintf(w.out, "D\n"); fflush(w.out);
        _exit(0);
      }
      close(pfd[1]);
      FILE* in = fdopen(pfd[0], "r");
      bool done = false, in_hist = false, counted = false; int cfg = -1, arch = -1; std::vector<int> cur;
      std::string line; char buf[1 << 16];
      while (fgets(buf, sizeof buf, in)) {
        line = buf;
        while (!line.empty() && (line.back() == '\n' || line.back() == '\r')) line.pop_back();
        if (line.empty()) continue;
        switch (line[0]) {
          case 'H': {
            in_hist = true; cfg = -1; cur.clear();
            counted = line.size() > 2 && line[2] == 'c';
            size_t sp = line.find(' ', 4);
            arch = atoi(line.c_str() + 4);
            if (sp != std::string::npos) for (auto& x : vh::split(line.substr(sp + 1), ',')) if (!x.empty()) cur.push_back(atoi(x.c_str()));
            break;
          }
          case 'P': cfg = atoi(line.c_str() + 2); break;
          case 'V': { auto f = vh::split(line.substr(2), '\t'); if (f.size() == 3) c.violation(unesc(f[0]), unesc(f[1]), unesc(f[2])); break; }
          case 'C': { size_t sp = line.rfind(' '); if (sp > 2) c.n(line.substr(2, sp - 2).c_str()) += atoll(line.c_str() + sp + 1); break; }
          case 'S': c.sample(line.substr(2), 10); break;
          case 'E': in_hist = false; break;
          case 'T': c.capped = true; c.exhaustive = false; break;
          case 'D': done = true; break;
        }
      }
      fclose(in);
      int status = 0;
      while (waitpid(pid, &status, 0) < 0 && errno == EINTR) {}
      if (done) break;
      // the worker died inside history `cur`
      if (!in_hist || cur.empty()) { fprintf(stderr, "c16: worker died outside a history (status %d)\n", status); exit(2); }
      std::string err; char eb[4096]; ssize_t n; lseek(errfd, 0, SEEK_SET);
      while ((n = read(errfd, eb, sizeof eb)) > 0 && err.size() < (1u << 20)) err.append(eb, size_t(n));
      if (counted) {
        Outcome o = classify_death(err, status, arch);
        vh::Violation v = make_violation(cfg, cur, o);
        c.violation(v.key, v.desc, v.replay);
        c.n("states")++; c.n("violating_histories_not_expanded")++; c.n("histories_ended_by_sanitizer_or_signal")++;
      }
      resume = cur;
      if (++deaths > 5000) { fprintf(stderr, "c16: more than 5000 dead workers, giving up\n"); c.exhaustive = false; break; }
    }
  }
};

int main(int argc, char** argv) {
  vh::parse_args(argc, argv);
  vh::Ctx& c = vh::ctx();
  const int kNumCfg = 16;
#ifdef C16_HAVE_DEATH_CB
  // sanitizer reports can be longer than the tail of stderr the driver keeps: repeat the current case after the report
  __sanitizer_set_death_callback([]() { vh::dump_case(); });
#endif

  if (c.replaying()) {
    std::vector<int> h; int cfg = -1;
    for (auto& line : vh::split(c.replay_text, '\n')) {
      if (line.rfind("ops=", 0) == 0) { for (auto& x : vh::split(line.substr(4), ',')) if (!x.empty()) h.push_back(atoi(x.c_str())); }
      else if (line.rfind("cfg=", 0) == 0) cfg = atoi(line.c_str() + 4);
    }
    for (int op : h) if (op < 0 || op >= kNumOps) { fprintf(stderr, "bad op in replay file\n"); return 2; }
    if (h.empty()) { fprintf(stderr, "no ops in replay file\n"); return 2; }
    for (int ci = 0; ci < kNumCfg; ci++) {
      if (cfg >= 0 && ci != cfg) continue;
      vh::set_case(replay_text(ci, h));
      Outcome o = run_history(ci, h);
      if (!o.ok) { vh::Violation v = make_violation(ci, h, o); c.violation(v.key, v.desc, v.replay); }
    }
    return vh::finish();
  }

  int depth = c.thorough() ? 5 : 4;
  int budget = 1;
  if (!c.opt("depth").empty()) depth = atoi(c.opt("depth").c_str());
  if (!c.opt("budget").empty()) budget = atoi(c.opt("budget").c_str());

  for (int a = 0; a < 2; a++) for (int j = 0; j < 4; j++) (void)p4_standalone(a, j);   // memoised before any fork
  // harness self-check: on fresh objects every call of the seven regular programs succeeds (a program that does not
  // assemble would silently shrink the explored behaviour)
  for (int a = 0; a < 2; a++) for (int g = 0; g < G_COUNT; g++) {
    if (g == G_A_ERR || g == G_B_ERR || g == G_C_ERR) continue;
    Model m; m.apply(a == AX64 ? OP_INIT_X64 : OP_INIT_A64); m.apply(OP_ATT_A + kGenKind[g]); m.apply(OP_GEN0 + g);
    Snap sn; run_reference(m, sn);
    for (auto& tok : vh::split(sn.t[Snap::ERRS], ',')) {
      size_t i = tok.find_last_not_of("0123456789");
      std::string num = i == std::string::npos ? tok : tok.substr(i + 1);
      bool tagged = i != std::string::npos && (isalpha((unsigned char)tok[i]) || tok[i] == '+' || tok[i] == '-');
      if (!tagged && !num.empty() && num != "0") { fprintf(stderr, "c16: program %s/%s reports error %s on fresh objects: %s\n", kGenName[g], kArchName[a], num.c_str(), sn.t[Snap::ERRS].c_str()); return 2; }
    }
  }
  Supervisor sv; sv.depth = depth; sv.budget = budget; sv.ncfg = kNumCfg;
  sv.errpath = (c.out.empty() ? std::string("/verif/build/out/c16_reuse") : c.out) + ".stderr";
  sv.errfd = open(sv.errpath.c_str(), O_RDWR | O_CREAT | O_TRUNC, 0644);
  if (sv.errfd < 0) { perror(sv.errpath.c_str()); return 2; }
  sv.run();
  close(sv.errfd); unlink(sv.errpath.c_str());

  c.strs["bound"] = "every history of <=" + std::to_string(depth) + " ops over a " + std::to_string(kNumOps) + "-op alphabet, each additionally followed by every applicable final generate (10 programs); at most " +
                    std::to_string(budget) + " refused/no-op call(s) per history; every history in 16 configurations; a violating history is not extended";
  c.strs["rule"] = "op alphabet {init x64|a64, attach/detach asm|bld|cmp, reinit, reset soft|hard, toggle-logger, new-section, new-named-label, flatten+resolve+relocate, generate P for 10 programs "
                   "(sections+relocations+address table via assembler and via builder, const pool, tiny, builder node edits with large detached nodes, compiler spill+call+const pools+annotated jump, "
                   "4 functions in one finalize, assembler/builder/compiler programs that fail or are abandoned in the middle), recycle-soft|hard (reset;init;attach all), reattach asm|bld|cmp} on one recycled "
                   "CodeHolder and one recycled emitter set x {static pre-dirtied|dynamic arena} x {logger off|on} x {validation+RA diagnostics off|on} x {heap fill 00/shift 32 | A5/shift 64 through wrapped "
                   "malloc/realloc/free, free arena memory re-filled after every op}; reference = the calls since the last clean point replayed on fresh objects. states = histories executed (hidden residue is "
                   "what is being checked, so histories are never merged), transitions = API-level ops executed on the implementation, distinct_nontrivial = histories ending with an initialised holder";
  c.assumptions.push_back("programs are 10 fixed small programs per architecture; x86-32 is not explored; a finalized Builder/Compiler is not given more code before reinit/re-attach (API contract)");
  c.assumptions.push_back("emitter-owned loggers/error handlers and CodeHolder::init with a base address are not explored");
  return vh::finish();
}
