// C18 - ArenaString<32>/<64> part of c18_containers.cpp, built with -fno-sanitize=bounds (see the comment there).
#define C18_ARENASTRING_WIDE 1
#include "c18_containers.cpp"
