// C15 - allocation failure yields an error: never a crash, a leak or wrong code.
//
// Fault enumeration on the real library.  For every workload W a clean run counts the arena requests (hook H1),
// the heap requests (malloc/calloc/realloc, ld --wrap) and the virtual-memory requests (mmap/mprotect/ftruncate64/
// memfd_create, ld --wrap) made by asmjit and records the clean outputs.  Then EVERY position k of every class is
// failed once (bound 1) and pairs of positions are failed together (bound 2, see main()).  Requests are counted /
// failed only while the harness has armed the injection around the asmjit calls of the injected attempt.
//
// Every run (clean or injected) executes in its own fork()ed child of a parent that never executes asmjit code
// itself: a crash / sanitizer report is attributed to exactly one (workload, class, position) and all children start
// from the same cold process state (first-use paths of VirtMem included).  The child reports through a pipe; its
// stderr goes to a memfd from which the parent takes the sanitizer report of a dead child.
//
// Oracle per injection: no signal / ASan / UBSan report / exception / hang; every API call returned an error or
// completed; if nothing reported an error the output must equal the clean output (compiler workload and ConstPool:
// or be proven equivalent by executing the generated function / re-reading every constant); then the SAME objects are
// recovered (hard reset, reinit()/release, soft reset) and the work is repeated with faults off -> every call must
// succeed and the output must equal the clean output; the same on fresh objects; after destruction no heap block, no
// mapping and no memfd obtained by asmjit is left; JitAllocator statistics never account a failed add.
// The caller either stops at the first reported error or goes on with the next independent call (both enumerated).
//
// debugging aids: C15_TRACE=1 (child stderr passes through, every reported error is printed), C15_LOG=<file> (every
// violating case is appended), C15_DUMP=<file> (clean vs. actual dump of a completed-but-different attempt).
#include "vh.h"
#include <asmjit/core.h>
#include <asmjit/x86.h>
#include <asmjit/a64.h>
#include <asmjit/support/arena.h>
#include <asmjit/support/arenavector.h>
#include <asmjit/support/arenahash.h>
#include <asmjit/support/arenabitset_p.h>
#include <asmjit/core/constpool.h>
#include <asmjit/core/string.h>
#include <sys/mman.h>
#include <sys/wait.h>
#include <sys/resource.h>
#include <sys/syscall.h>
#include <fcntl.h>
#include <errno.h>
#include <stdarg.h>
#include <algorithm>

using namespace asmjit;

// =====================================================================================================
// fault seams
// =====================================================================================================
enum { C_ARENA = 0, C_HEAP = 1, C_VM = 2, C_N = 3 };
static const char* kCls[C_N] = {"arena", "heap", "vm"};

struct FaultState {
  bool inject = false;            // requests are counted and the selected ones fail
  bool track = false;             // resources obtained by asmjit are recorded for the leak oracle
  long count[C_N] = {0, 0, 0};
  long fail[C_N][2] = {{0, 0}, {0, 0}, {0, 0}};
  int fired = 0;
};
static FaultState g_f;

static inline bool fault_point(int cls) {
  if (!g_f.inject) return false;
  long n = ++g_f.count[cls];
  if (g_f.fail[cls][0] == n || g_f.fail[cls][1] == n) { g_f.fired++; return true; }
  return false;
}

// live resources (fixed tables: the wrappers must not allocate)
struct Slot { uintptr_t p; size_t n; };
template<int N> struct LiveTable {
  Slot s[N]; int used = 0; bool overflow = false;
  void add(uintptr_t p, size_t n) { for (int i = 0; i < N; i++) if (!s[i].p) { s[i].p = p; s[i].n = n; used++; return; } overflow = true; }
  bool del(uintptr_t p) { if (!p) return false;   /* (munmap(NULL, n) succeeds: it must not "free" an empty slot) */ for (int i = 0; i < N; i++) if (s[i].p == p) { s[i].p = 0; used--; return true; } return false; }
  size_t bytes() const { size_t b = 0; for (int i = 0; i < N; i++) if (s[i].p) b += s[i].n; return b; }
};
static LiveTable<2048> g_heap;
static LiveTable<256> g_maps;
static LiveTable<64> g_fds;

extern "C" {
void* __real_malloc(size_t);
void* __real_calloc(size_t, size_t);
void* __real_realloc(void*, size_t);
void __real_free(void*);
void* __real_mmap(void*, size_t, int, int, int, off_t);
int __real_munmap(void*, size_t);
int __real_mprotect(void*, size_t, int);
int __real_ftruncate64(int, off64_t);
long __real_syscall(long, ...);

void* __wrap_malloc(size_t n) {
  if (fault_point(C_HEAP)) { errno = ENOMEM; return nullptr; }
  void* p = __real_malloc(n);
  if (g_f.track && p) g_heap.add(uintptr_t(p), n);
  return p;
}
void* __wrap_calloc(size_t a, size_t b) {
  if (fault_point(C_HEAP)) { errno = ENOMEM; return nullptr; }
  void* p = __real_calloc(a, b);
  if (g_f.track && p) g_heap.add(uintptr_t(p), a * b);
  return p;
}
void* __wrap_realloc(void* o, size_t n) {
  if (fault_point(C_HEAP)) { errno = ENOMEM; return nullptr; }
  bool was = o && g_heap.del(uintptr_t(o));
  void* p = __real_realloc(o, n);
  if (!p) { if (was) g_heap.add(uintptr_t(o), 0); return p; }
  if (g_f.track || was) g_heap.add(uintptr_t(p), n);
  return p;
}
void __wrap_free(void* p) {
  if (p) g_heap.del(uintptr_t(p));
  __real_free(p);
}
void* __wrap_mmap(void* a, size_t len, int prot, int flags, int fd, off_t off) {
  if (fault_point(C_VM)) { errno = ENOMEM; return MAP_FAILED; }
  void* p = __real_mmap(a, len, prot, flags, fd, off);
  if (g_f.track && p != MAP_FAILED) g_maps.add(uintptr_t(p), len);
  return p;
}
int __wrap_munmap(void* p, size_t len) {
  int r = __real_munmap(p, len);
  if (r == 0) g_maps.del(uintptr_t(p));
  return r;
}
int __wrap_mprotect(void* p, size_t len, int prot) {
  if (fault_point(C_VM)) { errno = ENOMEM; return -1; }
  return __real_mprotect(p, len, prot);
}
int __wrap_ftruncate64(int fd, off64_t len) {
  if (fault_point(C_VM)) { errno = ENOMEM; return -1; }
  return __real_ftruncate64(fd, len);
}
// the variadic arguments are forwarded blindly (six register/stack words, as the libc wrapper itself does)
__attribute__((no_sanitize("address", "undefined"))) long __wrap_syscall(long nr, ...) {
  va_list ap; va_start(ap, nr);
#ifdef __NR_memfd_create
  if (nr == __NR_memfd_create) {
    long a = va_arg(ap, long), b = va_arg(ap, long);
    va_end(ap);
    if (fault_point(C_VM)) { errno = ENOMEM; return -1; }
    long r = __real_syscall(nr, a, b);
    if (g_f.track && r >= 0) g_fds.add(uintptr_t(r) + 1, 0);
    return r;
  }
#endif
  long a = va_arg(ap, long), b = va_arg(ap, long), c = va_arg(ap, long), d = va_arg(ap, long), e = va_arg(ap, long), f = va_arg(ap, long);
  va_end(ap);
  return __real_syscall(nr, a, b, c, d, e, f);
}
}

static bool arena_hook() { return fault_point(C_ARENA); }

// =====================================================================================================
// case description
// =====================================================================================================
enum { M_STOP = 0, M_CONT = 1 };                 // what the caller does after a reported error
enum { R_HARD = 0, R_REINIT = 1, R_SOFT = 2 };   // how the objects are recovered for the retry
static const char* kMode[] = {"stop", "cont"};
static const char* kRec[] = {"hard", "reinit", "soft"};

struct CaseSpec {
  int wl = 0; int mode = M_STOP; int rec = R_HARD; int nf = 0; int cls[2] = {0, 0}; long k[2] = {0, 0};
  std::string faults() const {
    std::string s;
    for (int i = 0; i < nf; i++) { if (i) s += ","; s += std::string(kCls[cls[i]]) + ":" + std::to_string(k[i]); }
    return nf ? s : "none";
  }
  std::string cls_name() const {
    if (nf == 0) return "none";
    if (nf == 1 || cls[0] == cls[1]) return kCls[cls[0]];
    return std::string(kCls[std::min(cls[0], cls[1])]) + "+" + kCls[std::max(cls[0], cls[1])];
  }
};

// =====================================================================================================
// child side: attempt bookkeeping and violation collection
// =====================================================================================================
struct ChildOut {
  std::vector<std::pair<std::string, std::string>> viols;   // (clause[:function], description)
  bool reported = false, completed = false;
  std::string first_error;       // "<step>=<error>" of the first reported error of the injected attempt
  std::string clean_out;         // clean run only
  std::vector<std::string> notes;
};
static ChildOut g_co;
static bool g_is_clean = false;
static const std::string* g_clean_ref = nullptr;     // clean output of the current workload (injection runs)

static void viol(const std::string& clause, const std::string& desc) {
  for (auto& v : g_co.viols) if (v.first == clause) return;
  g_co.viols.push_back({clause, desc});
}

struct Att {
  bool stop;               // stop at the first reported error
  bool reported = false;
  bool halted = false;
  Error pending = Error::kOk;   // error seen by the ErrorHandler inside the call that is still running
  std::string first;
  explicit Att(bool stop_) : stop(stop_) {}
  void settle() { if (reported && first.empty()) first = std::string("error-handler=") + DebugUtils::error_as_string(pending); }
  void report(const char* step, Error e) {
    if (getenv("C15_TRACE")) fprintf(stderr, "C15-TRACE report %s=%s (arena=%ld heap=%ld vm=%ld inject=%d)\n", step, DebugUtils::error_as_string(e), g_f.count[0], g_f.count[1], g_f.count[2], int(g_f.inject));
    if (first.empty()) { first = std::string(step) + "=" + DebugUtils::error_as_string(e); }
    reported = true; pending = Error::kOk;
    if (stop) halted = true;
  }
  void from_handler(Error e) { reported = true; if (pending == Error::kOk) pending = e; if (stop) halted = true; }
  // returns true when the caller may go on
  bool on(const char* step, Error e) {
    if (e != Error::kOk) report(step, e);
    else if (pending != Error::kOk) report(step, pending);     // the call returned kOk but told the ErrorHandler about an error
    return !halted;
  }
  // a needed object was not created (null / invalid result): that is an error report, and nothing that depends on it can run
  void fatal(const char* step) {
    if (getenv("C15_TRACE")) fprintf(stderr, "C15-TRACE %s returned no object\n", step);
    if (first.empty()) first = std::string(step) + "=" + (pending != Error::kOk ? DebugUtils::error_as_string(pending) : "(no object returned)");
    reported = true; halted = true; pending = Error::kOk;
  }
};

struct EH : public ErrorHandler {
  Att* att = nullptr;
  void handle_error(Error err, const char*, BaseEmitter*) override { if (att) att->from_handler(err); }
};

#define S(name, call) do { if (!A.on(name, (call))) return; if (A.halted) return; } while (0)
#define NEED(name, cond) do { if (!(cond)) { A.fatal(name); return; } if (!A.on(name, Error::kOk)) return; } while (0)

static void arm_faults(const CaseSpec& cs) {
  for (int c = 0; c < C_N; c++) { g_f.count[c] = 0; g_f.fail[c][0] = g_f.fail[c][1] = 0; }
  g_f.fired = 0;
  for (int i = 0; i < cs.nf; i++) { int c = cs.cls[i]; if (!g_f.fail[c][0]) g_f.fail[c][0] = cs.k[i]; else g_f.fail[c][1] = cs.k[i]; }
  g_f.inject = true;
}
static void disarm() { g_f.inject = false; }

// judge the injected attempt
static void judge_attempt(Att& A, const std::string& out, bool validated_semantically = false) {
  A.settle();
  g_co.reported = A.reported; g_co.completed = !A.reported; g_co.first_error = A.first;
  if (g_is_clean) {
    if (A.reported) viol("clean-fails", "the workload reports an error without any injected fault: " + A.first);
    g_co.clean_out = out;
    return;
  }
  if (!A.reported && out != *g_clean_ref && getenv("C15_DUMP")) { FILE* f = fopen(getenv("C15_DUMP"), "w"); if (f) { fputs("--- clean\n", f); fputs(g_clean_ref->c_str(), f); fputs("--- got\n", f); fputs(out.c_str(), f); fclose(f); } }
  if (!A.reported && out != *g_clean_ref && validated_semantically) { g_co.notes.push_back("completed-valid-but-different"); return; }
  if (!A.reported && out != *g_clean_ref)
    viol("wrong-code-after-ok", "no call reported an error although a request failed, but the output differs from the failure-free output (" + std::to_string(out.size()) + " vs " + std::to_string(g_clean_ref->size()) + " bytes of dump)");
}
// judge a repetition with faults off (same objects after recovery: what="retry"; fresh objects: what="fresh")
static void judge_repeat(Att& A, const std::string& out, const char* what) {
  A.settle();
  const std::string& ref = g_is_clean ? g_co.clean_out : *g_clean_ref;
  if (A.reported) { viol(std::string(what) + "-fails:" + A.first.substr(0, A.first.find('=')), std::string("repeating the work with faults off on ") + (what[0] == 'r' ? "the recovered objects" : "fresh objects") + " reports an error: " + A.first); return; }
  if (out != ref) viol(std::string(what) + "-differs", std::string("repeating the work with faults off on ") + (what[0] == 'r' ? "the recovered objects" : "fresh objects") + " produces a different output than the failure-free run");
}

static void leak_check() {
  g_f.track = false;
  if (g_heap.overflow || g_maps.overflow || g_fds.overflow) { fprintf(stderr, "c15: live table overflow\n"); _exit(77); }
  if (g_heap.used) viol("leak", std::to_string(g_heap.used) + " heap block(s) (" + std::to_string(g_heap.bytes()) + " bytes) obtained by asmjit are still allocated after all objects were destroyed");
  if (g_maps.used) viol("leak-vm", std::to_string(g_maps.used) + " mapping(s) (" + std::to_string(g_maps.bytes()) + " bytes) created by asmjit are still mapped after all objects were destroyed");
  int open_fds = 0;
  for (auto& s : g_fds.s) if (s.p && fcntl(int(s.p - 1), F_GETFD) != -1) open_fds++;
  if (open_fds) viol("leak-fd", std::to_string(open_fds) + " memfd descriptor(s) created by asmjit are still open after all objects were destroyed");
}

// =====================================================================================================
// output dumps
// =====================================================================================================
static std::string dump_code(CodeHolder& code) {
  std::string o;
  char b[256];
  for (Section* s : code.sections()) {
    snprintf(b, sizeof b, "S%u '%s' fl=%u al=%u ord=%d off=%llu vs=%llu n=%zu\n", s->section_id(), s->name(), unsigned(s->flags()), s->alignment(), s->order(),
             (unsigned long long)s->offset(), (unsigned long long)s->virtual_size(), s->buffer_size());
    o += b;
    o += vh::hex(s->data(), s->buffer_size()); o += "\n";
  }
  uint32_t id = 0;
  for (const LabelEntry& le : code.label_entries()) {
    if (le.is_bound()) snprintf(b, sizeof b, "L%u sec=%u off=%llu\n", id, le.section_id(), (unsigned long long)le.offset());
    else snprintf(b, sizeof b, "L%u unbound\n", id);
    o += b; id++;
  }
  for (RelocEntry* re : code.reloc_entries()) {
    const OffsetFormat& f = re->format();
    snprintf(b, sizeof b, "R%u t=%u f=%u/%u/%u/%u/%u/%u/%u src=%u+%llu dst=%u pay=%llu\n", re->id(), unsigned(re->reloc_type()), unsigned(f.type()), f.flags(), f.region_size(),
             f.value_offset(), f.value_size(), f.imm_bit_count(), f.imm_bit_shift(), re->source_section_id(), (unsigned long long)re->source_offset(), re->target_section_id(),
             re->reloc_type() == RelocType::kExpression ? 0ull : (unsigned long long)re->payload());
    o += b;
  }
  snprintf(b, sizeof b, "unresolved=%zu size=%zu\n", code.unresolved_fixup_count(), code.code_size());
  o += b;
  return o;
}

// All images are relocated to this address.  The compiler workload maps it (executable) so that a completed
// compilation whose bytes differ from the clean run can still be judged by what it computes.
static const uint64_t kImageBase = 0x400000000000ull;
static const size_t kExecSize = 1u << 20;
static uint8_t* exec_region() {
  static uint8_t* p = nullptr;
  if (!p) {
    void* r = __real_mmap((void*)uintptr_t(kImageBase), kExecSize, PROT_READ | PROT_WRITE | PROT_EXEC, MAP_PRIVATE | MAP_ANONYMOUS | MAP_FIXED_NOREPLACE, -1, 0);
    if (r != (void*)uintptr_t(kImageBase)) { fprintf(stderr, "c15: cannot map the execution region at %llx\n", (unsigned long long)kImageBase); _exit(77); }
    p = static_cast<uint8_t*>(r);
  }
  return p;
}

// flatten + resolve + relocate + copy: the tail of every CodeHolder workload
static void finish_image(Att& A, CodeHolder& code, std::string& out, std::vector<uint8_t>* img_out = nullptr) {
  S("flatten", code.flatten());
  S("resolve_cross_section_fixups", code.resolve_cross_section_fixups());
  S("relocate_to_base", code.relocate_to_base(kImageBase));
  size_t n = code.code_size();
  std::vector<uint8_t> img(n + 16, 0xCC);
  S("copy_flattened_data", code.copy_flattened_data(img.data(), n, CopySectionFlags::kPadSectionBuffer | CopySectionFlags::kPadTargetBuffer));
  if (A.reported) return;
  out = dump_code(code);
  out += "IMG " + vh::hex(img.data(), n) + "\n";
  if (img_out) img_out->assign(img.begin(), img.begin() + n);
}

// =====================================================================================================
// CodeHolder based programs
// =====================================================================================================
template<class Emitter> struct ProgBase {
  CodeHolder code; Emitter e; EH eh;
  Arch arch = Arch::kX64;
  bool prepare(Att& A) {
    eh.att = &A;
    if (!code.is_initialized()) { Error err = code.init(Environment(arch)); if (err != Error::kOk) { A.report("CodeHolder::init", err); A.halted = true; return false; } }
    code.set_error_handler(&eh);
    if (!e.is_initialized()) { Error err = code.attach(&e); if (err != Error::kOk) { A.report("CodeHolder::attach", err); A.halted = true; return false; } }
    return !A.halted;
  }
  // recovery of the same objects; when `A` is given the calls are part of an injected attempt
  // -1: no semantic judgement available, 0: the completed output is wrong (why), 1: it is right
  int semantic(std::string&) { return -1; }
  void recover(int rec, Att* A = nullptr) {
    if (rec == R_REINIT && code.is_initialized()) { Error err = code.reinit(); if (A) A->on("CodeHolder::reinit", err); }
    else code.reset(rec == R_SOFT ? ResetPolicy::kSoft : ResetPolicy::kHard);
  }
};

// ---- W "asm": x86-64 Assembler, labels forward/backward, 2 sections, named label, address table, ~40 KiB ----
struct AsmProg : ProgBase<x86::Assembler> {
  void build(Att& A, std::string& out, bool alt) {
    if (!prepare(A)) return;
    x86::Assembler& a = e;
    Section* data = nullptr;
    S("new_section", code.new_section(Out(data), alt ? ".rodata" : ".data", SIZE_MAX, SectionFlags::kNone, 8, 1));
    NEED("new_section", data != nullptr);
    const int kFwd = alt ? 3 : 6;
    Label L_entry = a.new_named_label(alt ? "alt_entry" : "entry"); NEED("new_named_label", L_entry.is_valid());
    Label L_back = a.new_label(); NEED("new_label", L_back.is_valid());
    Label L_data = a.new_label(); NEED("new_label", L_data.is_valid());
    Label L_fwd[6];
    for (int i = 0; i < kFwd; i++) { L_fwd[i] = a.new_label(); NEED("new_label", L_fwd[i].is_valid()); }
    // the very first thing emitted is larger than the buffer a previous (alt) program leaves behind: on a recycled holder the
    // text buffer has to grow while it is still empty
    if (!alt) { static const std::vector<uint8_t> blob(20000, 0xCC); S("embed", a.embed(blob.data(), blob.size())); }
    S("bind", a.bind(L_entry));
    S("bind", a.bind(L_back));
    for (int i = 0; i < kFwd; i++) {
      S("emit", a.mov(x86::eax, i + 1));
      S("emit", a.test(x86::eax, x86::ecx));
      S("emit", a.jz(L_fwd[i]));
      S("emit", a.jmp(L_fwd[kFwd - 1 - i]));
    }
    S("emit", a.jnz(L_back));
    S("emit", a.lea(x86::rcx, x86::ptr(L_data)));
    S("emit", a.mov(x86::rax, x86::qword_ptr(L_data, 8)));
    S("emit", a.jmp(Imm(0x7fff00001000ull)));
    S("emit", a.call(Imm(0x123456789000ull)));
    S("emit", a.call(Imm(0x7fff00001000ull)));
    if (alt) S("emit", a.call(Imm(0x555500002000ull)));
    S("embed_label", a.embed_label(L_fwd[0], 8));
    S("embed_label_delta", a.embed_label_delta(L_fwd[1], L_back, 4));
    const int kBulk = alt ? 900 : 4100;       // 10 bytes each: the text buffer is re-grown several times
    int next_fwd = 0;
    for (int i = 0; i < kBulk; i++) {
      if (next_fwd < kFwd && i == (kBulk / (kFwd + 1)) * (next_fwd + 1)) { S("bind", a.bind(L_fwd[next_fwd])); next_fwd++; }
      S("emit", a.mov(x86::rax, Imm(0x1122334455660000ull + uint64_t(i))));
    }
    S("align", a.align(AlignMode::kCode, 16));
    S("emit", a.ret());
    S("section", a.section(data));
    S("align", a.align(AlignMode::kData, 8));
    S("bind", a.bind(L_data));
    S("embed", a.embed_uint64(0x0102030405060708ull, alt ? 2 : 4));
    S("embed_label", a.embed_label(L_back, 8));
    S("embed_label", a.embed_label(L_entry, 8));
    S("section", a.section(code.text_section()));
    S("emit", a.nop());
    finish_image(A, code, out);
  }
};

// ---- W "builder": x86::Builder nodes + finalize (serialization through an Assembler) ----
struct BuilderProg : ProgBase<x86::Builder> {
  void build(Att& A, std::string& out, bool alt) {
    if (!prepare(A)) return;
    x86::Builder& b = e;
    Section* data = nullptr;
    S("new_section", code.new_section(Out(data), ".data", SIZE_MAX, SectionFlags::kNone, 8, 1));
    NEED("new_section", data != nullptr);
    Label L_top = b.new_label(); NEED("new_label", L_top.is_valid());
    Label L_end = b.new_named_label(alt ? "fin" : "end"); NEED("new_named_label", L_end.is_valid());
    Label L_data = b.new_label(); NEED("new_label", L_data.is_valid());
    S("comment", b.comment("prologue"));
    S("emit", b.push(x86::rbx));
    S("emit", b.mov(x86::ebx, alt ? 7 : 10));
    S("emit", b.xor_(x86::eax, x86::eax));
    S("align", b.align(AlignMode::kCode, 16));
    S("bind", b.bind(L_top));
    S("emit", b.add(x86::eax, x86::dword_ptr(L_data)));
    S("emit", b.add(x86::eax, x86::ebx));
    S("emit", b.dec(x86::ebx));
    S("emit", b.jz(L_end));
    S("emit", b.cmp(x86::eax, 1000));
    S("emit", b.jl(L_top));
    for (int i = 0; i < (alt ? 5 : 12); i++) S("emit", b.lea(x86::rcx, x86::ptr(x86::rcx, x86::rax, 1, i * 4)));
    S("emit", b.call(Imm(0x7fff00002000ull)));
    S("bind", b.bind(L_end));
    S("emit", b.pop(x86::rbx));
    S("emit", b.ret());
    S("embed_label_delta", b.embed_label_delta(L_end, L_top, 4));
    S("section", b.section(data));
    S("bind", b.bind(L_data));
    S("embed", b.embed_uint32(0x11223344u, 4));
    static const uint8_t raw[24] = {1, 2, 3, 4, 5, 6, 7, 8, 9, 10, 11, 12, 13, 14, 15, 16, 17, 18, 19, 20, 21, 22, 23, 24};
    S("embed", b.embed(raw, sizeof raw));
    S("embed_label", b.embed_label(L_top, 8));
    S("finalize", b.finalize());
    finish_image(A, code, out);
  }
};

// ---- W "comp": x86::Compiler - spills, invoke, annotated jump table, local+global constant pool ----
static int comp_callee(int a, int b) { return a * 3 + b; }
static const int kCompVregs = 20;
static int comp_expected(int a, int b, const int* arr) {
  static const int kCase[4] = {11, 222, 3333, 44444};
  int r = comp_callee(a, b);
  for (int i = 0; i < kCompVregs; i++) r += arr[i] + a;
  return r + 1000 + 77 + kCase[b & 3];
}
struct CompProg : ProgBase<x86::Compiler> {
  void body(Att& A, bool alt) {
    x86::Compiler& cc = e;
    const int nv = alt ? 17 : kCompVregs;
    FuncNode* fn = cc.add_func(FuncSignature::build<int, int, int, const int*>());
    NEED("add_func", fn != nullptr);
    x86::Gp a = cc.new_gp32("a"), b = cc.new_gp32("b"), arr = cc.new_gp_ptr("arr"), r = cc.new_gp32("r");
    NEED("new_reg", a.is_valid() && b.is_valid() && arr.is_valid() && r.is_valid());
    fn->set_arg(0, a); fn->set_arg(1, b); fn->set_arg(2, arr);
    x86::Gp v[kCompVregs];
    for (int i = 0; i < nv; i++) { v[i] = cc.new_gp32("v%d", i); NEED("new_reg", v[i].is_valid()); }
    for (int i = 0; i < nv; i++) { S("emit", cc.mov(v[i], x86::dword_ptr(arr, i * 4))); S("emit", cc.add(v[i], a)); }
    InvokeNode* inv = nullptr;
    S("invoke", cc.invoke(Out(inv), imm((void*)comp_callee), FuncSignature::build<int, int, int>()));
    NEED("invoke", inv != nullptr);
    inv->set_arg(0, a); inv->set_arg(1, b); inv->set_ret(0, r);
    for (int i = 0; i < nv; i++) S("emit", cc.add(r, v[i]));
    x86::Mem c0 = cc.new_int32_const(ConstPoolScope::kLocal, 1000); NEED("new_const", c0.has_base_label());
    S("emit", cc.add(r, c0));
    x86::Mem c1 = cc.new_int32_const(ConstPoolScope::kGlobal, 77); NEED("new_const", c1.has_base_label());
    S("emit", cc.add(r, c1));
    if (alt) { x86::Mem c2 = cc.new_int64_const(ConstPoolScope::kGlobal, 0x1234567890ll); NEED("new_const", c2.has_base_label()); x86::Gp t = cc.new_gp64("t"); NEED("new_reg", t.is_valid()); S("emit", cc.mov(t, c2)); S("emit", cc.add(r, t.r32())); }
    // jump table
    Label L_tab = cc.new_label(), L_end = cc.new_label(); NEED("new_label", L_tab.is_valid() && L_end.is_valid());
    Label L_case[4];
    for (int i = 0; i < 4; i++) { L_case[i] = cc.new_label(); NEED("new_label", L_case[i].is_valid()); }
    x86::Gp off = cc.new_gp_ptr("off"), tgt = cc.new_gp_ptr("tgt"), idx = cc.new_gp_ptr("idx");
    NEED("new_reg", off.is_valid() && tgt.is_valid() && idx.is_valid());
    S("emit", cc.mov(idx.r32(), b));
    S("emit", cc.and_(idx.r32(), 3));
    S("emit", cc.lea(off, x86::ptr(L_tab)));
    S("emit", cc.movsxd(tgt, x86::dword_ptr(off, idx, 2)));
    S("emit", cc.add(tgt, off));
    JumpAnnotation* ann = cc.new_jump_annotation();
    NEED("new_jump_annotation", ann != nullptr);
    for (int i = 0; i < 4; i++) S("add_label", ann->add_label(L_case[i]));
    S("emit", cc.jmp(tgt, ann));
    static const int kCase[4] = {11, 222, 3333, 44444};
    for (int i = 0; i < 4; i++) { S("bind", cc.bind(L_case[i])); S("emit", cc.add(r, kCase[i])); if (i < 3) S("emit", cc.jmp(L_end)); }
    S("bind", cc.bind(L_end));
    S("ret", cc.ret(r));
    S("end_func", cc.end_func());
    S("bind", cc.bind(L_tab));
    for (int i = 0; i < 4; i++) S("embed_label_delta", cc.embed_label_delta(L_case[i], L_tab, 4));
    S("finalize", cc.finalize());
  }
  std::vector<uint8_t> img;
  void build(Att& A, std::string& out, bool alt) {
    img.clear();
    if (!prepare(A)) return;
    body(A, alt);
    if (A.halted || A.reported) return;
    finish_image(A, code, out, &img);
  }
  // executes the image produced by the last build()
  int semantic(std::string& why) {
    if (img.empty() || img.size() > kExecSize) { why = "no image"; return 0; }
    uint8_t* x = exec_region();
    memcpy(x, img.data(), img.size());
    int (*fn)(int, int, const int*) = (int (*)(int, int, const int*))x;
    int arr[kCompVregs];
    for (int i = 0; i < kCompVregs; i++) arr[i] = i * i + 1;
    static const char m1[] = "C15-EXEC-GENERATED\n", m2[] = "C15-EXEC-DONE\n";
    (void)!write(2, m1, sizeof m1 - 1);
    int bad = -1, got = 0, want = 0;
    for (int b = 0; b < 6 && bad < 0; b++) { got = fn(7 + b, b, arr); want = comp_expected(7 + b, b, arr); if (got != want) bad = b; }
    (void)!write(2, m2, sizeof m2 - 1);
    if (bad >= 0) { why = "the compiled function returns " + std::to_string(got) + " for (" + std::to_string(7 + bad) + "," + std::to_string(bad) + ",arr), expected " + std::to_string(want); return 0; }
    return 1;
  }
};

// ---- W "a64": AArch64 Compiler, small function with a loop ----
struct A64Prog : ProgBase<a64::Compiler> {
  A64Prog() { arch = Arch::kAArch64; }
  void build(Att& A, std::string& out, bool alt) {
    if (!prepare(A)) return;
    a64::Compiler& cc = e;
    FuncNode* fn = cc.add_func(FuncSignature::build<uint32_t, uint32_t, uint32_t>());
    NEED("add_func", fn != nullptr);
    a64::Gp x = cc.new_gp32("x"), y = cc.new_gp32("y"), acc = cc.new_gp32("acc"), i = cc.new_gp32("i");
    NEED("new_reg", x.is_valid() && y.is_valid() && acc.is_valid() && i.is_valid());
    fn->set_arg(0, x); fn->set_arg(1, y);
    a64::Gp t[6];
    for (int k = 0; k < 6; k++) { t[k] = cc.new_gp32("t%d", k); NEED("new_reg", t[k].is_valid()); }
    Label L_loop = cc.new_label(), L_done = cc.new_label(); NEED("new_label", L_loop.is_valid() && L_done.is_valid());
    S("emit", cc.mov(acc, 0));
    S("emit", cc.mov(i, alt ? 5 : 8));
    for (int k = 0; k < 6; k++) S("emit", cc.add(t[k], x, k + 1));
    S("bind", cc.bind(L_loop));
    S("emit", cc.cbz(i, L_done));
    for (int k = 0; k < 6; k++) S("emit", cc.madd(acc, t[k], y, acc));
    S("emit", cc.sub(i, i, 1));
    S("emit", cc.b(L_loop));
    S("bind", cc.bind(L_done));
    S("ret", cc.ret(acc));
    S("end_func", cc.end_func());
    S("finalize", cc.finalize());
    finish_image(A, code, out);
  }
};

// generic protocol for CodeHolder based workloads.  pre: 0 fresh objects; R_REINIT/R_SOFT: the objects were used
// for another program before, and the injected attempt starts with reinit() / reset(kSoft)
template<class P> static void run_code_workload(const CaseSpec& cs, int pre) {
  std::string out1, out2, out3;
  {
    P p;
    if (pre) { Att A0(true); std::string tmp; p.build(A0, tmp, true); if (A0.reported) viol("clean-fails", "the preparatory program reports an error without any injected fault: " + A0.first); p.eh.att = nullptr; }
    Att A1(cs.mode == M_STOP);
    p.eh.att = &A1;
    arm_faults(cs);
    if (pre) p.recover(pre, &A1);
    if (!A1.halted) p.build(A1, out1, false);
    disarm();
    bool validated = false;
    if (!A1.reported && (g_is_clean || out1 != *g_clean_ref)) {
      std::string why; int r = p.semantic(why);
      if (r == 0) viol(g_is_clean ? "clean-wrong-result" : "wrong-code-after-ok", (g_is_clean ? std::string("failure-free run: ") : std::string("no call reported an error although a request failed, but ")) + why);
      validated = r >= 0;
    }
    judge_attempt(A1, out1, validated);
    p.eh.att = nullptr;
    p.recover(cs.rec);
    Att A2(true);
    p.build(A2, out2, false);
    judge_repeat(A2, out2, "retry");
    p.eh.att = nullptr;
  }
  {
    P p; Att A3(true);
    p.build(A3, out3, false);
    judge_repeat(A3, out3, "fresh");
    p.eh.att = nullptr;
  }
}

// ---- W "dual-reinit": a Builder and an Assembler attached to one CodeHolder; reinit() fails; the objects are used again ----
// "Every object involved can still be ... reused": after a reinit() that reported an error the still attached Assembler is used
// directly (memory is available again) - it must produce the failure-free program, whatever happened to the Builder.
struct DualProg : ProgBase<x86::Assembler> {
  x86::Builder b;
  void build(Att& A, std::string& out, bool alt) {
    eh.att = &A;
    if (!code.is_initialized()) S("CodeHolder::init", code.init(Environment(arch)));
    code.set_error_handler(&eh);
    if (!b.is_initialized()) S("CodeHolder::attach", code.attach(&b));     // the Builder is attached first
    if (!e.is_initialized()) S("CodeHolder::attach", code.attach(&e));
    x86::Assembler& a = e;
    Label L = a.new_label(); NEED("new_label", L.is_valid());
    S("emit", a.mov(x86::eax, alt ? 3 : 7));
    S("bind", a.bind(L));
    for (int i = 0; i < (alt ? 9 : 4); i++) S("emit", a.add(x86::eax, i + 1));
    S("emit", a.dec(x86::ecx));
    S("emit", a.jnz(L));
    S("emit", a.ret());
    S("comment", b.comment("the builder holds a node of its own"));
    finish_image(A, code, out);
  }
};
static void run_dual_reinit_workload(const CaseSpec& cs) {
  std::string out1, out2, out3;
  {
    DualProg p;
    { Att A0(true); std::string tmp; p.build(A0, tmp, true); if (A0.reported) viol("clean-fails", "the preparatory program reports an error without any injected fault: " + A0.first); p.eh.att = nullptr; }
    Att A1(false);
    p.eh.att = &A1;
    arm_faults(cs);
    A1.on("CodeHolder::reinit", p.code.reinit());
    disarm();
    bool reinit_reported = A1.reported;
    Att A1b(true);
    p.build(A1b, out1, false);               // memory is available again; no second reinit()
    A1b.settle();
    if (A1b.reported) viol("reuse-fails:" + A1b.first.substr(0, A1b.first.find('=')), "after a reinit() that " + std::string(reinit_reported ? "reported an error" : "succeeded") + ", using the attached emitters with memory available fails: " + A1b.first);
    else if (!g_is_clean && out1 != *g_clean_ref)
      viol("reuse-differs", "after a reinit() that " + std::string(reinit_reported ? "reported an error (" + A1.first + ")" : "returned kOk although a request failed") + ", the attached Assembler produces a different program than a failure-free run (" + std::to_string(out1.size()) + " vs " + std::to_string(g_clean_ref->size()) + " bytes of dump)");
    if (g_is_clean) { A1.reported = A1b.reported; judge_attempt(A1, out1); } else judge_attempt(A1, out1, true);
    p.eh.att = nullptr;
    p.recover(cs.rec);
    Att A2(true);
    p.build(A2, out2, false);
    judge_repeat(A2, out2, "retry");
    p.eh.att = nullptr;
  }
  {
    DualProg p; Att A3(true);
    p.build(A3, out3, false);
    judge_repeat(A3, out3, "fresh");
    p.eh.att = nullptr;
  }
}

// =====================================================================================================
// W "jit-*": JitRuntime add / call / release
// =====================================================================================================
typedef int (*JitFn)(int, int);
struct JitCode {
  CodeHolder code; x86::Assembler a; EH eh; size_t slot_off = 0; size_t size = 0;
  // returns a + b * mul + table[1]; big: ~140 KiB of padding code before the data so that a second block is needed
  void build(Att& A, JitRuntime& rt, int mul, bool big) {
    eh.att = &A;
    S("CodeHolder::init", code.init(rt.environment(), rt.cpu_features()));
    code.set_error_handler(&eh);
    S("CodeHolder::attach", code.attach(&a));
    Label data = a.new_label(); NEED("new_label", data.is_valid());
    Label skip = a.new_label(); NEED("new_label", skip.is_valid());
    S("emit", a.mov(x86::eax, x86::esi));
    S("emit", a.imul(x86::eax, x86::eax, mul));
    S("emit", a.add(x86::eax, x86::edi));
    S("emit", a.add(x86::eax, x86::dword_ptr(data, 4)));
    S("emit", a.jmp(skip));
    if (big) for (int i = 0; i < 14000; i++) S("emit", a.mov(x86::rcx, Imm(0x0102030405060000ull + uint64_t(i))));
    S("bind", a.bind(skip));
    S("emit", a.ret());
    S("emit", a.call(Imm(0x123456789000ull)));      // never executed: gives the holder an address table (relocation needs heap)
    S("align", a.align(AlignMode::kData, 8));
    S("bind", a.bind(data));
    S("embed", a.embed_uint32(41));
    S("embed", a.embed_uint32(1000 + mul));
    slot_off = a.offset();
    S("embed_label", a.embed_label(data, 8));
    size = a.offset();
  }
};
static int jit_expected(int x, int y, int mul) { return x + y * mul + 1000 + mul; }

struct JitSeq {
  JitRuntime& rt; Att& A; std::string& out; bool stats_known = true; size_t live = 0;
  JitSeq(JitRuntime& rt_, Att& A_, std::string& out_) : rt(rt_), A(A_), out(out_) {}
  void check_stats(const char* after) {
    if (!stats_known) return;
    JitAllocator::Statistics st = rt.allocator().statistics();
    // every block may reserve one padding granule (at most 256 bytes, see JitAllocatorOptions::kDisableInitialPadding)
    if (st.allocation_count() != live)
      viol(st.allocation_count() > live ? "stats-leak" : "stats-lost", std::string("JitAllocator accounts ") + std::to_string(st.allocation_count()) + " allocation(s) after " + after + " although " + std::to_string(live) + " function(s) are installed");
    else if (live == 0 && st.used_size() > 256 * st.block_count())
      viol("stats-leak", std::string("JitAllocator accounts ") + std::to_string(st.used_size()) + " used bytes in " + std::to_string(st.block_count()) + " block(s) after " + after + " although no function is installed");
    else if (st.used_size() > st.reserved_size())
      viol("stats-leak", std::string("JitAllocator accounts more used (") + std::to_string(st.used_size()) + ") than reserved (" + std::to_string(st.reserved_size()) + ") bytes after " + after);
  }
  // one add (+ call + image check); returns the function or null
  JitFn add(int mul, bool big) {
    JitCode jc; Att B(A.stop);
    jc.build(B, rt, mul, big);
    JitFn fn = nullptr;
    if (!B.reported) {
      Error err = rt.add(&fn, &jc.code);
      if (err != Error::kOk) { B.report("JitRuntime::add", err); fn = nullptr; }
      else if (!fn) { B.report("JitRuntime::add(null)", Error::kOutOfMemory); }
      else live++;
    }
    jc.eh.att = nullptr;
    B.settle();
    if (B.reported) { if (!A.reported) A.first = B.first; A.reported = true; if (A.stop) A.halted = true; check_stats("a failed add"); return nullptr; }
    check_stats("a successful add");
    static const char m1[] = "C15-EXEC-GENERATED\n", m2[] = "C15-EXEC-DONE\n";
    (void)!write(2, m1, sizeof m1 - 1);
    int got = fn(5, 9), want = jit_expected(5, 9, mul);
    (void)!write(2, m2, sizeof m2 - 1);
    char b[160];
    if (got != want) { snprintf(b, sizeof b, "installed function (mul=%d) returned %d, expected %d", mul, got, want); viol("wrong-code-after-ok", b); }
    uint64_t slot; memcpy(&slot, (const uint8_t*)fn + jc.slot_off, 8);
    if (slot != uint64_t(uintptr_t(fn)) + jc.slot_off - 8) viol("wrong-code-after-ok", "absolute label address embedded in the installed code does not designate the label");
    snprintf(b, sizeof b, "F mul=%d size=%zu r=%d img=", mul, jc.size, got);
    out += b; out += vh::hex((const void*)fn, jc.slot_off); out += "\n";
    return fn;
  }
  void release(JitFn& fn) {
    if (!fn) return;
    Error err = rt.release(fn);
    if (err != Error::kOk) { A.report("JitRuntime::release", err); stats_known = false; }
    else live--;
    fn = nullptr;
    check_stats("release");
  }
  void run() {
    JitFn f1 = add(3, false); if (A.halted) { release(f1); return; }
    JitFn f2 = add(5, false); if (A.halted) { release(f1); release(f2); return; }
    release(f1);
    JitFn f3 = add(7, true);
    release(f2);
    release(f3);
  }
};

static void run_jit_workload(const CaseSpec& cs, JitAllocatorOptions opt) {
  JitAllocator::CreateParams params {};
  params.options = opt;
  std::string out1, out2, out3;
  {
    Att A1(cs.mode == M_STOP);
    arm_faults(cs);
    JitRuntime rt(&params);
    { JitSeq s(rt, A1, out1); s.run(); }
    disarm();
    judge_attempt(A1, A1.reported ? std::string() : out1);
    if (rt.allocator().is_initialized()) {
      if (cs.rec == R_HARD) rt.reset(ResetPolicy::kHard); else if (cs.rec == R_SOFT) rt.reset(ResetPolicy::kSoft);
      Att A2(true);
      { JitSeq s(rt, A2, out2); s.run(); }
      judge_repeat(A2, out2, "retry");
    } else if (!A1.reported) viol("wrong-code-after-ok", "the JitAllocator is not initialized although no call reported an error");
  }
  {
    JitRuntime rt(&params); Att A3(true);
    { JitSeq s(rt, A3, out3); s.run(); }
    judge_repeat(A3, out3, "fresh");
  }
}

// =====================================================================================================
// container scripts
// =====================================================================================================
struct HNode : public ArenaHashNode { uint32_t key; uint32_t val; HNode(uint32_t k, uint32_t v) : ArenaHashNode(k * 2654435761u), key(k), val(v) {} };
struct HKey { uint32_t key; uint32_t hash_code() const { return key * 2654435761u; } bool matches(const HNode* n) const { return n->key == key; } };

struct ArenaScript {
  // every script: run(A, out) on the given objects; out = canonical content
  bool semantic_ok = false;    // the script validated its completed result itself: a layout that differs from the clean run is acceptable
  virtual ~ArenaScript() {}
  virtual void run(Att& A, std::string& out) = 0;
  virtual void recover(int rec) = 0;
};

struct VecScript : ArenaScript {
  Arena arena{1024}; ArenaVector<uint32_t> v, v2; ArenaVector<uint64_t> w;
  void run(Att& A, std::string& out) override {
    for (uint32_t i = 0; i < 70; i++) S("append", v.append(arena, i * 3 + 1));
    S("prepend", v.prepend(arena, 999u));
    S("insert", v.insert(arena, 5, 555u));
    S("reserve_fit", w.reserve_fit(arena, 10));
    for (uint32_t i = 0; i < 40; i++) S("append64", w.append(arena, 0x100000000ull + i));
    S("resize_grow", w.resize_grow(arena, 90));
    for (uint32_t i = 0; i < 9; i++) S("append", v2.append(arena, 7000u + i));
    S("concat", v.concat(arena, v2));
    S("reserve_grow", v.reserve_grow(arena, 400));
    S("resize_fit", v.resize_fit(arena, 410));
    if (A.reported) return;
    for (uint32_t x : v) out += std::to_string(x) + ",";
    out += "|";
    for (uint64_t x : w) out += std::to_string(x) + ",";
  }
  void recover(int rec) override {
    if (rec == R_REINIT) { v.release(arena); v2.release(arena); w.release(arena); return; }
    v.reset(); v2.reset(); w.reset(); arena.reset(rec == R_SOFT ? ResetPolicy::kSoft : ResetPolicy::kHard);
  }
};

struct HashScript : ArenaScript {
  Arena arena{1024}; ArenaHash<HNode> h;
  void run(Att& A, std::string& out) override {
    const uint32_t N = 45;
    std::vector<uint32_t> in;
    for (uint32_t i = 0; i < N; i++) {
      HNode* n = arena.new_oneshot<HNode>(i * 7 + 3, i);
      if (!n) { A.report("new_oneshot", Error::kOutOfMemory); if (A.halted) return; continue; }
      h.insert(arena, n); in.push_back(i * 7 + 3);
    }
    // whatever was inserted successfully must be retrievable (insert itself cannot report)
    for (uint32_t k : in) { HNode* n = h.get(HKey{k}); if (!n || n->key != k) { viol("wrong-code-after-ok", "ArenaHash lost key " + std::to_string(k) + " that insert() accepted"); break; } }
    if (h.size() != in.size()) viol("wrong-code-after-ok", "ArenaHash size differs from the number of accepted inserts");
    if (A.reported) return;
    for (uint32_t i = 0; i < N; i += 3) { HNode* n = h.get(HKey{i * 7 + 3}); if (n) h.remove(arena, n); }
    for (uint32_t k = 0; k < N * 7 + 10; k++) { HNode* n = h.get(HKey{k}); if (n) out += std::to_string(k) + "=" + std::to_string(n->val) + ","; }
  }
  void recover(int rec) override { if (rec == R_REINIT) { h.release(arena); return; } h.reset(); arena.reset(rec == R_SOFT ? ResetPolicy::kSoft : ResetPolicy::kHard); }
};

struct BitScript : ArenaScript {
  Arena arena{1024}; ArenaBitSet a, b;
  void run(Att& A, std::string& out) override {
    S("resize", a.resize(arena, 70, false));
    if (a.size() >= 70) for (uint32_t i = 0; i < 70; i += 3) a.set_bit(i, true);
    for (uint32_t i = 0; i < 200; i++) S("append", a.append(arena, (i % 5) == 0));
    S("resize", a.resize(arena, 1000, true));
    S("copy_from", b.copy_from(arena, a));
    S("resize", b.resize(arena, 3000, false));
    S("resize", a.resize(arena, 130, false));
    if (A.reported) return;
    for (size_t i = 0; i < a.size(); i++) out += a.bit_at(i) ? '1' : '0';
    out += "|" + std::to_string(b.size()) + ":";
    uint64_t hsh = 0; for (size_t i = 0; i < b.size(); i++) hsh = hsh * 1099511628211ull + (b.bit_at(i) ? 7 : 3);
    out += std::to_string(hsh);
  }
  void recover(int rec) override { if (rec == R_REINIT) { a.release(arena); b.release(arena); return; } a.reset(); b.reset(); arena.reset(rec == R_SOFT ? ResetPolicy::kSoft : ResetPolicy::kHard); }
};

struct CPoolScript : ArenaScript {
  Arena arena{1024}; ConstPool* pool = nullptr;
  CPoolScript() { pool = new ConstPool(arena); }
  ~CPoolScript() override { delete pool; }
  void run(Att& A, std::string& out) override {
    uint8_t big[64];
    for (int i = 0; i < 64; i++) big[i] = uint8_t(i * 5 + 1);
    std::vector<std::pair<size_t, size_t>> offs;
    std::vector<std::string> datas;
    auto add = [&](const void* p, size_t n) { size_t off = SIZE_MAX; Error e = pool->add(p, n, Out(off)); datas.push_back(std::string((const char*)p, n)); if (e == Error::kOk) offs.push_back({off, n}); else offs.push_back({SIZE_MAX, n}); return e; };
    S("add4", add(big + 60, 4));
    S("add32", add(big, 32));            // registers 16/8/4 byte sub-constants
    S("add16", add(big + 16, 16));
    S("add8", add(big + 8, 8));
    S("add4", add(big + 4, 4));
    S("add2", add(big + 2, 2));
    S("add1", add(big + 1, 1));
    S("add64", add(big, 64));
    S("add8", add(big + 40, 8));
    S("add2", add(big + 50, 2));
    uint64_t q = 0x1122334455667788ull;
    for (int i = 0; i < 12; i++) { uint64_t x = q + uint64_t(i) * 0x0101010101010101ull; S("add8", add(&x, 8)); uint32_t y = uint32_t(x >> 7); S("add4", add(&y, 4)); uint8_t z = uint8_t(i * 9 + 200); S("add1", add(&z, 1)); }
    if (A.reported) return;
    std::vector<uint8_t> buf(pool->size() + 8, 0xEE);
    pool->fill(buf.data());
    // what "completed correctly" means for a pool, whatever its layout: every constant is stored, aligned, at its offset
    for (size_t i = 0; i < offs.size(); i++) {
      size_t off = offs[i].first, n = offs[i].second;
      if (off == SIZE_MAX || off + n > pool->size() || (off % n) != 0 || pool->alignment() < n || memcmp(buf.data() + off, datas[i].data(), n) != 0) {
        viol("wrong-code-after-ok", "ConstPool::add returned kOk for constant #" + std::to_string(i) + " (" + std::to_string(n) + " bytes) but fill() does not store it, aligned, at the returned offset " + std::to_string(off) + " (pool size " + std::to_string(pool->size()) + ")");
        break;
      }
    }
    if (buf[pool->size()] != 0xEE) viol("wrong-code-after-ok", "ConstPool::fill wrote beyond size()");
    semantic_ok = true;
    out = "size=" + std::to_string(pool->size()) + " align=" + std::to_string(pool->alignment()) + " ";
    for (auto& o : offs) out += std::to_string(o.first) + "/" + std::to_string(o.second) + ",";
    out += " " + vh::hex(buf.data(), pool->size());
  }
  void recover(int rec) override {
    if (rec == R_REINIT) { pool->reset(); arena.reset(ResetPolicy::kSoft); return; }
    delete pool; arena.reset(rec == R_SOFT ? ResetPolicy::kSoft : ResetPolicy::kHard); pool = new ConstPool(arena);
  }
};

struct StrScript : ArenaScript {
  String s; StringTmp<48> t;
  void run(Att& A, std::string& out) override {
    S("assign", s.assign("0123456789"));
    for (int i = 0; i < 12; i++) S("append", s.append("abcdefghijklmnopqrstuvwxyz", size_t(3 + i * 2)));
    S("append_format", s.append_format(" %d-%s-%llu", 42, "formatted", 1234567890123ull));
    S("append_chars", s.append_chars('x', 300));
    S("append_int", s.append_int(-123456));
    S("append_hex", s.append_hex("\x01\x02\xfe", 3));
    S("pad_end", s.pad_end(900, '.'));
    S("tmp.assign", t.assign("tmp"));
    for (int i = 0; i < 8; i++) S("tmp.append", t.append("0123456789ABCDEF", 16));
    S("tmp.assign_format", t.assign_format("%s:%d:%s", "long-formatted-string-that-does-not-fit-the-embedded-buffer", 7, "0123456789012345678901234567890123456789"));
    S("assign_string", s.assign(t));
    S("append", s.append("tail"));
    if (A.reported) return;
    out = std::string(s.data(), s.size()) + "|" + std::string(t.data(), t.size());
  }
  void recover(int rec) override { if (rec == R_REINIT) { s.clear(); t.clear(); } else { s.reset(); t.reset(); } }
};

struct ArenaRawScript : ArenaScript {
  Arena arena{1024};
  void run(Att& A, std::string& out) override {
    std::vector<std::pair<uint8_t*, size_t>> live;
    auto one = [&](size_t n) -> Error { uint8_t* p = arena.alloc_oneshot<uint8_t>(n); if (!p) return Error::kOutOfMemory; memset(p, 0x5A, n); live.push_back({p, n}); return Error::kOk; };
    auto reu = [&](size_t n, bool free_it) -> Error { size_t got = 0; uint8_t* p = arena.alloc_reusable<uint8_t>(n, Out(got)); if (!p) return Error::kOutOfMemory; if (got < n) { viol("wrong-code-after-ok", "alloc_reusable reports a smaller block than requested"); return Error::kOk; } memset(p, 0x6B, got); if (free_it) arena.free_reusable(p, got); else live.push_back({p, got}); return Error::kOk; };
    // phase 1: several managed blocks of growing size
    for (int i = 0; i < 6; i++) S("alloc_oneshot", one(600));
    S("alloc_oneshot", one(1504));
    S("alloc_oneshot", one(3000));
    S("alloc_reusable", reu(64, true));
    S("alloc_reusable", reu(64, false));
    S("alloc_reusable", reu(5000, true));      // dynamic block
    S("alloc_reusable", reu(9000, false));     // dynamic block kept until reset
    for (auto& l : live) for (size_t i = 0; i < l.second; i++) if (l.first[i] != 0x5A && l.first[i] != 0x6B) { viol("wrong-code-after-ok", "arena blocks overlap"); break; }
    live.clear();
    // phase 2: soft reset keeps the managed blocks; a request larger than the kept blocks walks over them
    arena.reset(ResetPolicy::kSoft);
    S("alloc_oneshot", one(200));
    S("alloc_oneshot", one(7000));             // skips the small kept blocks, fits into a later one
    S("alloc_oneshot", one(16));
    S("alloc_reusable", reu(2048, false));
    S("alloc_oneshot", one(40000));            // larger than every kept block: all of them are skipped, then malloc
    S("alloc_oneshot", one(304));
    S("alloc_oneshot_zeroed", (arena.alloc_oneshot_zeroed<uint8_t>(256) ? Error::kOk : Error::kOutOfMemory));
    const char* d = static_cast<const char*>(arena.dup("duplicate-me", 12, true));
    S("dup", d ? Error::kOk : Error::kOutOfMemory);
    if (A.reported) return;
    ArenaStatistics st = arena.statistics();
    if (st.used_size() > st.reserved_size()) viol("wrong-code-after-ok", "Arena statistics: more used than reserved bytes");
    out = std::string(d);
  }
  void recover(int rec) override { arena.reset(rec == R_HARD ? ResetPolicy::kHard : ResetPolicy::kSoft); }
};

// an arena that never gets a managed block: only requests above the largest reusable slot (dynamic blocks), as a big
// ArenaVector makes them
struct ArenaLargeScript : ArenaScript {
  Arena arena{1024};
  void run(Att& A, std::string& out) override {
    auto reu = [&](size_t n, bool free_it, uint8_t fill) -> Error { size_t got = 0; uint8_t* p = arena.alloc_reusable<uint8_t>(n, Out(got)); if (!p) return Error::kOutOfMemory; if (got < n) { viol("wrong-code-after-ok", "alloc_reusable reports a smaller block than requested"); return Error::kOk; } memset(p, fill, got); if (free_it) arena.free_reusable(p, got); return Error::kOk; };
    S("alloc_reusable", reu(100000, false, 0x11));
    S("alloc_reusable", reu(5000, true, 0x22));
    S("alloc_reusable", reu(40000, false, 0x33));
    ArenaVector<uint64_t> v;
    S("reserve", v.reserve_fit(arena, 30000));
    if (A.reported) return;
    out = "large:" + std::to_string(size_t(v.capacity()));
  }
  void recover(int rec) override { arena.reset(rec == R_HARD ? ResetPolicy::kHard : ResetPolicy::kSoft); }
};

template<class Sc> static void run_script_workload(const CaseSpec& cs) {
  std::string out1, out2, out3;
  {
    Sc sc;
    Att A1(cs.mode == M_STOP);
    arm_faults(cs);
    sc.run(A1, out1);
    disarm();
    judge_attempt(A1, out1, sc.semantic_ok);
    sc.recover(cs.rec);
    Att A2(true);
    sc.run(A2, out2);
    judge_repeat(A2, out2, "retry");
  }
  { Sc sc; Att A3(true); sc.run(A3, out3); judge_repeat(A3, out3, "fresh"); }
}

// =====================================================================================================
// workload table
// =====================================================================================================
struct Workload { const char* name; void (*run)(const CaseSpec&); const char* what; };
static const Workload kWorkloads[] = {
  {"asm", [](const CaseSpec& cs) { run_code_workload<AsmProg>(cs, 0); }, "x86-64 Assembler: named/forward/backward labels, 2 sections, cross-section refs, address table, embed_label(+delta), 41 KiB text; flatten+resolve+relocate+copy"},
  {"asm-reinit", [](const CaseSpec& cs) { run_code_workload<AsmProg>(cs, R_REINIT); }, "same on a CodeHolder that assembled another program before; the injected attempt starts with reinit()"},
  {"asm-softreset", [](const CaseSpec& cs) { run_code_workload<AsmProg>(cs, R_SOFT); }, "same, the injected attempt starts with reset(kSoft)+init+attach"},
  {"dual-reinit", [](const CaseSpec& cs) { run_dual_reinit_workload(cs); }, "Builder + Assembler attached to one CodeHolder that assembled a program before: reinit() under faults, then the Assembler is used directly with memory available"},
  {"builder", [](const CaseSpec& cs) { run_code_workload<BuilderProg>(cs, 0); }, "x86::Builder: nodes, labels, align, comment, sections, embed; finalize (serialize) + image"},
  {"comp", [](const CaseSpec& cs) { run_code_workload<CompProg>(cs, 0); }, "x86::Compiler: 27 virtual registers with spills, invoke, annotated jump table, local+global const pool; finalize + image"},
  {"comp-reinit", [](const CaseSpec& cs) { run_code_workload<CompProg>(cs, R_REINIT); }, "same on a CodeHolder/Compiler that compiled another function before; the injected attempt starts with reinit()"},
  {"a64", [](const CaseSpec& cs) { run_code_workload<A64Prog>(cs, 0); }, "a64::Compiler: small function with a loop; finalize + image"},
  {"jit", [](const CaseSpec& cs) { run_jit_workload(cs, JitAllocatorOptions::kNone); }, "JitRuntime: add f1, add f2, release f1, add f3 (140 KiB, needs a second block), release f2, f3; installed code is called and compared"},
  {"jit-dual", [](const CaseSpec& cs) { run_jit_workload(cs, JitAllocatorOptions::kUseDualMapping); }, "same with kUseDualMapping (memfd_create + ftruncate + 2 mmap per block)"},
  {"jit-fill-pools", [](const CaseSpec& cs) { run_jit_workload(cs, JitAllocatorOptions::kFillUnusedMemory | JitAllocatorOptions::kUseMultiplePools | JitAllocatorOptions::kImmediateRelease); }, "same with kFillUnusedMemory|kUseMultiplePools|kImmediateRelease"},
  {"vec", [](const CaseSpec& cs) { run_script_workload<VecScript>(cs); }, "ArenaVector<u32/u64>: append/prepend/insert/concat/reserve/resize growth"},
  {"hash", [](const CaseSpec& cs) { run_script_workload<HashScript>(cs); }, "ArenaHash: 45 inserts with rehashing, lookups, removes"},
  {"bits", [](const CaseSpec& cs) { run_script_workload<BitScript>(cs); }, "ArenaBitSet: resize/append/copy_from growth"},
  {"cpool", [](const CaseSpec& cs) { run_script_workload<CPoolScript>(cs); }, "ConstPool::add of 1..64 byte constants incl. sub-constant registration, fill"},
  {"str", [](const CaseSpec& cs) { run_script_workload<StrScript>(cs); }, "String / StringTmp: assign/append/format/pad growth from embedded to heap"},
  {"arena", [](const CaseSpec& cs) { run_script_workload<ArenaRawScript>(cs); }, "raw Arena: one-shot / reusable / dynamic blocks, soft reset, oversized request walking over kept blocks, dup"},
  {"arena-large", [](const CaseSpec& cs) { run_script_workload<ArenaLargeScript>(cs); }, "raw Arena that only ever serves requests above the largest reusable slot (dynamic blocks, a big ArenaVector)"},
};
static const int kNumWorkloads = sizeof(kWorkloads) / sizeof(kWorkloads[0]);
static int workload_by_name(const std::string& n) { for (int i = 0; i < kNumWorkloads; i++) if (n == kWorkloads[i].name) return i; return -1; }

// =====================================================================================================
// parent side: one forked child per run
// =====================================================================================================
struct RunResult {
  bool died = false; int status = 0; std::string err;           // child died: exit status + captured stderr
  std::vector<std::pair<std::string, std::string>> viols;
  long n[C_N] = {0, 0, 0}; int fired = 0; bool reported = false; std::string first_error; std::string clean_out;
  bool complete = false;
  std::vector<std::string> tags;
};

static struct sigaction g_saved_sa[65];
static const int kFatalSigs[] = {SIGSEGV, SIGBUS, SIGFPE, SIGILL, SIGABRT};
static int g_errfd = -1;

static std::string sanitize(std::string s) { for (char& ch : s) if (ch == '\n' || ch == '\t' || ch == '\r') ch = ' '; return s; }

static void child_main(const CaseSpec& cs, bool clean, int wfd) {
  for (int sg : kFatalSigs) sigaction(sg, &g_saved_sa[sg], nullptr);      // give the sanitizer its handlers back (stack traces)
  struct rlimit rl { 60, 60 }; setrlimit(RLIMIT_CPU, &rl);     // a run takes milliseconds: these only turn a hang into a report
  alarm(300);
  if (!getenv("C15_TRACE")) dup2(g_errfd, 2);
  g_is_clean = clean;
  asmjit_verif_arena_fault = arena_hook;
  g_f.track = true;
  CaseSpec run = cs;
  if (clean) { run.nf = 0; g_f.inject = false; }
  try {
    kWorkloads[cs.wl].run(run);
  } catch (...) {
    viol("exception", "a C++ exception escaped from the library");
  }
  leak_check();
  std::string o;
  for (auto& v : g_co.viols) o += "V\t" + sanitize(v.first) + "\t" + sanitize(v.second) + "\n";
  o += "F\t" + std::to_string(g_f.fired) + "\t" + std::to_string(g_co.reported ? 1 : 0) + "\t" + sanitize(g_co.first_error) + "\n";
  for (auto& n : g_co.notes) o += "T\t" + sanitize(n) + "\n";
  o += "N\t" + std::to_string(g_f.count[0]) + "\t" + std::to_string(g_f.count[1]) + "\t" + std::to_string(g_f.count[2]) + "\n";
  if (clean) { o += "O\t" + std::to_string(g_co.clean_out.size()) + "\n"; o += g_co.clean_out; o += "\n"; }
  o += "E\n";
  size_t w = 0;
  while (w < o.size()) { ssize_t r = write(wfd, o.data() + w, o.size() - w); if (r <= 0) break; w += size_t(r); }
  _exit(0);
}

// In the clean run the request counters must run as well: injection is "armed" with no failing position.
static RunResult run_child(const CaseSpec& cs, bool clean, const std::string* clean_ref) {
  RunResult rr;
  int pfd[2];
  if (pipe(pfd) != 0) { perror("pipe"); exit(2); }
  if (ftruncate(g_errfd, 0) != 0) {}
  lseek(g_errfd, 0, SEEK_SET);
  g_clean_ref = clean_ref;
  fflush(stdout); fflush(stderr);
  pid_t pid = fork();
  if (pid < 0) { perror("fork"); exit(2); }
  if (pid == 0) { close(pfd[0]); child_main(cs, clean, pfd[1]); _exit(0); }
  close(pfd[1]);
  std::string in; char buf[65536]; ssize_t r;
  while ((r = read(pfd[0], buf, sizeof buf)) > 0) in.append(buf, size_t(r));
  close(pfd[0]);
  int st = 0;
  while (waitpid(pid, &st, 0) < 0 && errno == EINTR) {}
  rr.status = st;
  // parse
  size_t pos = 0;
  while (pos < in.size()) {
    size_t nl = in.find('\n', pos); if (nl == std::string::npos) break;
    std::string line = in.substr(pos, nl - pos); pos = nl + 1;
    std::vector<std::string> f = vh::split(line, '\t');
    if (f[0] == "V" && f.size() >= 3) rr.viols.push_back({f[1], f[2]});
    else if (f[0] == "F" && f.size() >= 4) { rr.fired = atoi(f[1].c_str()); rr.reported = f[2] == "1"; rr.first_error = f[3]; }
    else if (f[0] == "N" && f.size() >= 4) { for (int c = 0; c < C_N; c++) rr.n[c] = atol(f[1 + c].c_str()); }
    else if (f[0] == "O" && f.size() >= 2) { size_t n = size_t(atoll(f[1].c_str())); rr.clean_out = in.substr(pos, n); pos += n + 1; }
    else if (f[0] == "T" && f.size() >= 2) rr.tags.push_back(f[1]);
    else if (f[0] == "E") rr.complete = true;
  }
  if (WIFEXITED(st) && WEXITSTATUS(st) == 77) {     // the child found a problem of the harness itself: never a violation
    char eb[2048]; ssize_t n = pread(g_errfd, eb, sizeof eb - 1, 0); if (n > 0) { eb[n] = 0; fputs(eb, stderr); }
    fprintf(stderr, "c15: harness self-check failed in a child\n"); exit(2);
  }
  if (!rr.complete || !WIFEXITED(st) || WEXITSTATUS(st) != 0) {
    rr.died = true;
    char eb[16384]; ssize_t n = pread(g_errfd, eb, sizeof eb - 1, 0);
    if (n > 0) rr.err.assign(eb, size_t(n));
  }
  return rr;
}

// clause + function for a dead child, from its exit status and the sanitizer report
static std::string death_clause(const RunResult& rr, std::string& human) {
  std::string clause = "crash", kind;
  const std::string& e = rr.err;
  size_t p;
  if ((p = e.find("ERROR: AddressSanitizer: ")) != std::string::npos) { clause = "asan"; size_t q = e.find_first_of(" \n", p + 25); kind = e.substr(p + 25, q - (p + 25)); }
  else if ((p = e.find("runtime error: ")) != std::string::npos) { clause = "ubsan"; size_t q = e.find('\n', p); kind = e.substr(p + 15, std::min<size_t>(q - (p + 15), 80)); }
  else if (WIFSIGNALED(rr.status)) { int sg = WTERMSIG(rr.status); if (sg == SIGXCPU || sg == SIGKILL || sg == SIGALRM) clause = "hang"; kind = std::string("signal ") + std::to_string(sg); }
  else if (WIFEXITED(rr.status)) kind = "exit status " + std::to_string(WEXITSTATUS(rr.status));
  if (clause == "asan" && kind == "SEGV") clause = "crash";
  size_t xs = e.rfind("C15-EXEC-GENERATED");
  if (xs != std::string::npos && e.find("C15-EXEC-DONE", xs) == std::string::npos) { human = kind + " while executing the generated code"; return "wrong-code-after-ok:executed"; }
  // first frame inside asmjit sources
  std::string fn;
  size_t pos = 0;
  while ((pos = e.find(" in ", pos)) != std::string::npos) {
    size_t eol = e.find('\n', pos); if (eol == std::string::npos) eol = e.size();
    std::string line = e.substr(pos + 4, eol - pos - 4);
    pos = eol;
    size_t sp = line.rfind(' ');
    if (sp == std::string::npos) continue;
    std::string path = line.substr(sp + 1), f = line.substr(0, sp);
    if (path.find("/asmjit/") == std::string::npos || path.find("/verif/") != std::string::npos) continue;
    size_t par = f.find('('); if (par != std::string::npos) f = f.substr(0, par);
    size_t ns;
    while ((ns = f.find("asmjit::")) != std::string::npos) f.erase(ns, 8);
    while ((ns = f.find("v1_21::")) != std::string::npos) f.erase(ns, 7);
    if ((ns = f.find("_abi_")) != std::string::npos) {}
    // drop inline-namespace like vN_M::
    for (size_t i = 0; i + 1 < f.size(); i++) if (f[i] == 'v' && isdigit((unsigned char)f[i + 1]) && (i == 0 || f[i - 1] == ':' || f[i - 1] == ' ')) { size_t c = f.find("::", i); if (c != std::string::npos && c - i < 8) { f.erase(i, c + 2 - i); break; } }
    size_t lt = f.find('<'); if (lt != std::string::npos) f = f.substr(0, lt);
    while (!f.empty() && f.back() == ' ') f.pop_back();
    size_t spc = f.rfind(' '); if (spc != std::string::npos) f = f.substr(spc + 1);
    fn = f; break;
  }
  human = kind;
  return clause + (fn.empty() ? "" : ":" + fn);
}

static std::string case_text(const CaseSpec& cs) {
  return std::string("harness=c15_faults\nworkload=") + kWorkloads[cs.wl].name + " mode=" + kMode[cs.mode] + " recover=" + kRec[cs.rec] + " faults=" + cs.faults() + "\n";
}

struct Clean { bool ok = false; long n[C_N] = {0, 0, 0}; std::string out; };

static void log_case(const std::string& key, const CaseSpec& cs) {
  const char* lf = getenv("C15_LOG");
  if (!lf) return;
  FILE* f = fopen(lf, "a");
  if (f) { fprintf(f, "%s\t%s %s %s %s\n", key.c_str(), kWorkloads[cs.wl].name, kMode[cs.mode], kRec[cs.rec], cs.faults().c_str()); fclose(f); }
}

static void report_result(const CaseSpec& cs, const RunResult& rr) {
  vh::Ctx& c = vh::ctx();
  std::string pre = std::string("fault:") + kWorkloads[cs.wl].name + ":" + cs.cls_name() + ":";
  std::string cd = std::string(kWorkloads[cs.wl].name) + " [" + cs.faults() + ", caller " + (cs.mode == M_STOP ? "stops at" : "continues after") + " the first error, recovery by " + kRec[cs.rec] + "]";
  for (auto& v : rr.viols) log_case(pre + v.first, cs);
  for (auto& v : rr.viols) c.violation(pre + v.first, v.second + " :: " + cd + (rr.first_error.empty() ? "" : " first reported error: " + rr.first_error), case_text(cs));
  if (rr.died) {
    std::string human; std::string cl = death_clause(rr, human);
    log_case(pre + cl, cs);
    std::string tail = rr.err.substr(0, 700);
    c.violation(pre + cl, "the process died (" + human + ") :: " + cd + " :: " + sanitize(tail), case_text(cs));
  }
}

static Clean clean_run(int wl) {
  Clean cl;
  CaseSpec cs; cs.wl = wl; cs.mode = M_STOP; cs.rec = R_HARD; cs.nf = 0;
  vh::set_case(case_text(cs));
  RunResult rr = run_child(cs, true, nullptr);
  report_result(cs, rr);
  if (rr.died) return cl;
  cl.ok = true; for (int c = 0; c < C_N; c++) cl.n[c] = rr.n[c]; cl.out = rr.clean_out;
  return cl;
}

// =====================================================================================================
// enumeration
// =====================================================================================================
int main(int argc, char** argv) {
  for (int sg : kFatalSigs) sigaction(sg, nullptr, &g_saved_sa[sg]);
  vh::parse_args(argc, argv);
  vh::Ctx& c = vh::ctx();
  g_errfd = memfd_create("c15-stderr", 0);
  if (g_errfd < 0) { perror("memfd_create"); return 2; }

  if (c.replaying()) {
    CaseSpec cs; bool found = false;
    for (auto& line : vh::split(c.replay_text, '\n')) {
      if (line.rfind("workload=", 0) != 0) continue;
      char wn[64], mn[16], rn[16], fs[128];
      if (sscanf(line.c_str(), "workload=%63s mode=%15s recover=%15s faults=%127s", wn, mn, rn, fs) != 4) continue;
      cs.wl = workload_by_name(wn); if (cs.wl < 0) { fprintf(stderr, "unknown workload %s\n", wn); return 2; }
      cs.mode = !strcmp(mn, "cont") ? M_CONT : M_STOP;
      cs.rec = !strcmp(rn, "reinit") ? R_REINIT : !strcmp(rn, "soft") ? R_SOFT : R_HARD;
      cs.nf = 0;
      if (strcmp(fs, "none") != 0) for (auto& f : vh::split(fs, ',')) { char cn[16]; long k; if (sscanf(f.c_str(), "%15[a-z]:%ld", cn, &k) == 2 && cs.nf < 2) { int cl = !strcmp(cn, "heap") ? C_HEAP : !strcmp(cn, "vm") ? C_VM : C_ARENA; cs.cls[cs.nf] = cl; cs.k[cs.nf] = k; cs.nf++; } }
      found = true;
    }
    if (!found) { fprintf(stderr, "no case in replay file\n"); return 2; }
    Clean cl = clean_run(cs.wl);
    if (cl.ok && cs.nf) { vh::set_case(case_text(cs)); RunResult rr = run_child(cs, false, &cl.out); report_result(cs, rr); c.n("evaluations")++; }
    return vh::finish();
  }

  const bool th = c.thorough();
  const long kAllPairs = th ? 500 : 170;      // all pairs (k1<k2) when a class has at most this many requests
  const long kWindow = th ? 16 : 4;           // otherwise pairs with k2-k1 <= window
  const long kCross = th ? 20000 : 3000;      // cross-class pairs when N1*N2 is at most this
  std::string only = c.opt("workload");
  long long idx = 0;
  std::string bound;
  std::set<std::string> fired_set;
  for (int wl = 0; wl < kNumWorkloads && !c.out_of_time(); wl++) {
    if (!only.empty() && only != kWorkloads[wl].name) continue;
    Clean cl = clean_run(wl);
    if (c.shard_i == 0) c.n("workloads")++;
    if (!cl.ok) { c.exhaustive = false; continue; }
    bound += std::string(kWorkloads[wl].name) + "(N_arena=" + std::to_string(cl.n[0]) + ",N_heap=" + std::to_string(cl.n[1]) + ",N_vm=" + std::to_string(cl.n[2]) + ") ";
    // cases are grouped by their fault set (gid): all caller/recovery variants of one injection run in the same shard,
    // so the per-shard count of distinct fired injections adds up exactly
    std::vector<std::pair<long long, CaseSpec>> cases;
    long long gid = 0;
    auto push = [&](int nf, int c0, long k0, int c1, long k1, int mode, int rec) { CaseSpec cs; cs.wl = wl; cs.mode = mode; cs.rec = rec; cs.nf = nf; cs.cls[0] = c0; cs.k[0] = k0; cs.cls[1] = c1; cs.k[1] = k1; cases.push_back({gid, cs}); };
    // bound 1: every position of every class x {stop, continue} x {hard reset, reinit/release}, and soft reset on alternating modes
    for (int cl_ = 0; cl_ < C_N; cl_++) for (long k = 1; k <= cl.n[cl_]; k++) {
      for (int mode = 0; mode < 2; mode++) for (int rec = 0; rec < 2; rec++) push(1, cl_, k, 0, 0, mode, rec);
      push(1, cl_, k, 0, 0, int(k & 1), R_SOFT);
      gid++;
    }
    // bound 2, same class
    for (int cl_ = 0; cl_ < C_N; cl_++) {
      long n = cl.n[cl_];
      for (long k1 = 1; k1 <= n; k1++) {
        long hi = n <= kAllPairs ? n : std::min(n, k1 + kWindow);
        for (long k2 = k1 + 1; k2 <= hi; k2++) { push(2, cl_, k1, cl_, k2, M_CONT, int((k1 + k2) & 1)); if (k2 - k1 <= 2) push(2, cl_, k1, cl_, k2, M_STOP, int((k1 + k2 + 1) & 1)); gid++; }
      }
    }
    // bound 2, across classes
    for (int ca = 0; ca < C_N; ca++) for (int cb = ca + 1; cb < C_N; cb++) {
      if (cl.n[ca] * cl.n[cb] == 0 || cl.n[ca] * cl.n[cb] > kCross) continue;
      for (long k1 = 1; k1 <= cl.n[ca]; k1++) for (long k2 = 1; k2 <= cl.n[cb]; k2++) { push(2, ca, k1, cb, k2, M_CONT, int((k1 + k2) & 1)); gid++; }
    }
    if (c.shard_i == 0) c.n("cases_enumerated") += (long long)cases.size();
    long long base = idx; idx += gid;
    for (auto& gc : cases) {
      const CaseSpec& cs = gc.second;
      if (!c.mine(base + gc.first)) continue;
      if (c.out_of_time()) break;
      vh::set_case(case_text(cs));
      RunResult rr = run_child(cs, false, &cl.out);
      c.n("evaluations")++;
      c.n("traces") += 3;
      report_result(cs, rr);
      bool all_fired = !rr.died && rr.fired == cs.nf;
      if (all_fired || rr.died) {
        c.n("injections_fired")++;
        // the case is a distinct (workload, class(es), position(s)) injection when seen under its first mode/recovery
        std::string id = std::string(kWorkloads[wl].name) + ":" + cs.faults();
        if (fired_set.insert(id).second) c.n("distinct_nontrivial")++;
      }
      if (!rr.died) {
        bool diff = false; for (auto& t : rr.tags) if (t == "completed-valid-but-different") diff = true;
        if (rr.reported) c.n("error_reported")++; else if (diff) c.n("completed_valid_but_different")++; else c.n("completed_identical")++;
        std::string oc = std::string(kWorkloads[wl].name) + ":" + cs.cls_name() + ":" + (rr.reported ? rr.first_error : diff ? std::string("completed-different") : std::string("completed"));
        if (c.outcomes.insert(oc).second) c.sample(std::string(kWorkloads[wl].name) + " " + cs.faults() + " " + kMode[cs.mode] + "/" + kRec[cs.rec] + " -> " + (rr.reported ? "error " + rr.first_error : diff ? "completed, output differs from the clean run but is valid (executed / re-read)" : "completed, identical output") + "; retry+fresh identical", 40);
      }
    }
  }
  c.n("states") = c.n("evaluations"); c.n("transitions") = c.n("evaluations");
  c.strs["bound"] = bound + "| bound 1: every request position of every class x caller{stops, continues} x recovery{hard reset, reinit/release} (+soft reset on alternating modes); "
                    "bound 2: all pairs k1<k2 of one class when N<=" + std::to_string(kAllPairs) + ", else k2-k1<=" + std::to_string(kWindow) + "; all cross-class pairs when N1*N2<=" + std::to_string(kCross);
  c.strs["rule"] = "fault classes: arena = hook H1 at Arena::alloc_oneshot/_alloc_reusable, heap = malloc/calloc/realloc of asmjit objects (ld --wrap), vm = mmap/mprotect/ftruncate64/memfd_create of asmjit "
                   "objects (ld --wrap); positions are counted over the whole injected attempt of the workload; one fork()ed child per injection from a parent that never runs asmjit code; oracle: no "
                   "signal/ASan/UBSan/exception/hang, error or identical output, retry on recovered objects identical, retry on fresh objects identical, no heap/mapping/fd left, JitAllocator statistics";
  std::string wls;
  for (int i = 0; i < kNumWorkloads; i++) wls += std::string(kWorkloads[i].name) + " = " + kWorkloads[i].what + "; ";
  c.strs["workloads"] = wls;
  c.assumptions.push_back("a failing munmap/close/free is not injected; shm_open/open fallbacks of VirtMem are not reached because memfd_create is available; pairs of far-apart positions in large workloads are not enumerated");
  c.assumptions.push_back("after a call that reports an error the caller either stops or continues with the next independent call; calls that need an object whose creation failed are skipped");
  return vh::finish();
}
